/-
C01 — ONE list-valued order theorem that also covers the short-circuit forms and calls of
named non-probe functions.

`paths e` is the finite set of *branch paths* of `e`: the lists of probe positions that a
complete evaluation of `e` can log, one per choice of taken branches (where each `and`/`or`
stops, where each comparison chain stops, which arm of each conditional is taken).  Every
path lists the probes that are not cut off, each once, in the reference's evaluation order
(`paths_sublist_order`).  `evalE_order_paths_partial`: a successful evaluation logs exactly
one of the paths of `e`; an evaluation that raises logs a prefix of one.
-/
import GPy.C01.OrderExact
namespace GPy.C01

/-- all concatenations `a ++ b` -/
def cat (A B : List (List Nat)) : List (List Nat) := A.flatMap fun a => B.map (a ++ ·)

theorem mem_cat {A B : List (List Nat)} {p : List Nat} :
    p ∈ cat A B ↔ ∃ a ∈ A, ∃ b ∈ B, a ++ b = p := by
  simp [cat, List.mem_flatMap, List.mem_map]

theorem cat_ne {A B : List (List Nat)} (ha : A ≠ []) (hb : B ≠ []) : cat A B ≠ [] := by
  obtain ⟨a, ha'⟩ := List.exists_mem_of_ne_nil A ha
  obtain ⟨b, hb'⟩ := List.exists_mem_of_ne_nil B hb
  exact List.ne_nil_of_mem (mem_cat.mpr ⟨a, ha', b, hb', rfl⟩)

mutual
/-- the branch paths of `e` -/
def paths : Expr → List (List Nat)
  | .atom i _ => [[i]]
  | .const _ => [[]]
  | .name _ => [[]]
  | .binop _ a b => cat (paths a) (paths b)
  | .unop _ a => paths a
  | .boolop _ a r => cat (paths a) (pathsBool r)
  | .compare a r => cat (paths a) (pathsTail r)
  | .ifexp t b o => cat (paths t) (paths b ++ paths o)          -- the test, then ONE arm
  | .subscript a i => cat (paths a) (paths i)
  | .slice2 a l h => cat (paths a) (cat (paths l) (paths h))
  | .attr a _ => paths a
  | .call f args => cat (paths f) (pathsEs args)
  | .tuple es => pathsEs es
  | .list es => pathsEs es
  | .set es => pathsEs es
  | .dict kvs => pathsKVs kvs
  | .lambda _ ds kds _ => cat (pathsEs ds) (pathsKWs kds)
  | .slice3 l h st => cat (paths l) (cat (paths h) (paths st))
  | .callx f args kws star dstar =>
      cat (paths f) (cat (pathsEs args) (cat (pathsKWs kws) (cat (pathsOpt star) (pathsOpt dstar))))
def pathsEs : Exprs → List (List Nat)
  | .nil => [[]]
  | .cons e es => cat (paths e) (pathsEs es)
/-- after an operand of `and`/`or`: it decides (nothing more), or the next operand and so on -/
def pathsBool : Exprs → List (List Nat)
  | .nil => [[]]
  | .cons e es => [] :: cat (paths e) (pathsBool es)
/-- rest of a comparison chain: after each non-final comparison the chain may stop -/
def pathsTail : CmpTail → List (List Nat)
  | .one _ e => paths e
  | .more _ e r => cat (paths e) ([] :: pathsTail r)
def pathsKVs : KVs → List (List Nat)
  | .nil => [[]]
  | .cons k v r => cat (paths v) (cat (paths k) (pathsKVs r))
def pathsKWs : KWs → List (List Nat)
  | .nil => [[]]
  | .cons _ e r => cat (paths e) (pathsKWs r)
def pathsOpt : OptE → List (List Nat)
  | .none => [[]]
  | .some e => paths e
end

mutual
theorem paths_ne (e : Expr) : paths e ≠ [] := by
  cases e with
  | atom i c => simp [paths]
  | const c => simp [paths]
  | name n => simp [paths]
  | binop op a b => simp only [paths]; exact cat_ne (paths_ne a) (paths_ne b)
  | unop op a => simp only [paths]; exact paths_ne a
  | boolop o a r => simp only [paths]; exact cat_ne (paths_ne a) (pathsBool_ne r)
  | compare a r => simp only [paths]; exact cat_ne (paths_ne a) (pathsTail_ne r)
  | ifexp t b o =>
    simp only [paths]
    exact cat_ne (paths_ne t) (by simp [paths_ne b])
  | subscript a i => simp only [paths]; exact cat_ne (paths_ne a) (paths_ne i)
  | slice2 a l h => simp only [paths]; exact cat_ne (paths_ne a) (cat_ne (paths_ne l) (paths_ne h))
  | attr a n => simp only [paths]; exact paths_ne a
  | call f args => simp only [paths]; exact cat_ne (paths_ne f) (pathsEs_ne args)
  | tuple es => simp only [paths]; exact pathsEs_ne es
  | list es => simp only [paths]; exact pathsEs_ne es
  | set es => simp only [paths]; exact pathsEs_ne es
  | dict kvs => simp only [paths]; exact pathsKVs_ne kvs
  | lambda sg ds kds b => simp only [paths]; exact cat_ne (pathsEs_ne ds) (pathsKWs_ne kds)
  | slice3 l h st => simp only [paths]; exact cat_ne (paths_ne l) (cat_ne (paths_ne h) (paths_ne st))
  | callx f args kws star dstar =>
    simp only [paths]
    exact cat_ne (paths_ne f) (cat_ne (pathsEs_ne args) (cat_ne (pathsKWs_ne kws)
      (cat_ne (pathsOpt_ne star) (pathsOpt_ne dstar))))
theorem pathsEs_ne (es : Exprs) : pathsEs es ≠ [] := by
  cases es with
  | nil => simp [pathsEs]
  | cons e es => simp only [pathsEs]; exact cat_ne (paths_ne e) (pathsEs_ne es)
theorem pathsBool_ne (es : Exprs) : pathsBool es ≠ [] := by
  cases es with
  | nil => simp [pathsBool]
  | cons e es => simp [pathsBool]
theorem pathsTail_ne (t : CmpTail) : pathsTail t ≠ [] := by
  cases t with
  | one op e => simp only [pathsTail]; exact paths_ne e
  | more op e r => simp only [pathsTail]; exact cat_ne (paths_ne e) (by simp)
theorem pathsKVs_ne (kvs : KVs) : pathsKVs kvs ≠ [] := by
  cases kvs with
  | nil => simp [pathsKVs]
  | cons k v r => simp only [pathsKVs]; exact cat_ne (paths_ne v) (cat_ne (paths_ne k) (pathsKVs_ne r))
theorem pathsKWs_ne (kws : KWs) : pathsKWs kws ≠ [] := by
  cases kws with
  | nil => simp [pathsKWs]
  | cons n e r => simp only [pathsKWs]; exact cat_ne (paths_ne e) (pathsKWs_ne r)
theorem pathsOpt_ne (o : OptE) : pathsOpt o ≠ [] := by
  cases o with
  | none => simp [pathsOpt]
  | some e => simp only [pathsOpt]; exact paths_ne e
end

/-! ## every path is a sub-sequence of the reference order -/

theorem sub_cat {A B : List (List Nat)} {x y : List Nat} (ha : ∀ a ∈ A, a.Sublist x)
    (hb : ∀ b ∈ B, b.Sublist y) : ∀ p ∈ cat A B, p.Sublist (x ++ y) := by
  intro p hp
  obtain ⟨a, ha', b, hb', rfl⟩ := mem_cat.mp hp
  exact List.Sublist.append (ha a ha') (hb b hb')

theorem sub_cons {B : List (List Nat)} {y : List Nat} (hb : ∀ b ∈ B, b.Sublist y) :
    ∀ p ∈ ([] :: B), p.Sublist y := by
  intro p hp
  rcases List.mem_cons.mp hp with rfl | h
  · exact List.nil_sublist _
  · exact hb p h

mutual
theorem paths_sublist_order (e : Expr) : ∀ p ∈ paths e, p.Sublist (order e) := by
  cases e with
  | atom i c => intro p hp; simp [paths] at hp; simp [hp, order]
  | const c => intro p hp; simp [paths] at hp; simp [hp]
  | name n => intro p hp; simp [paths] at hp; simp [hp]
  | binop op a b => simp only [paths, order]; exact sub_cat (paths_sublist_order a) (paths_sublist_order b)
  | unop op a => simp only [paths, order]; exact paths_sublist_order a
  | boolop o a r => simp only [paths, order]; exact sub_cat (paths_sublist_order a) (pathsBool_sub r)
  | compare a r => simp only [paths, order]; exact sub_cat (paths_sublist_order a) (pathsTail_sub r)
  | ifexp t b o =>
    simp only [paths, order]
    refine sub_cat (paths_sublist_order t) fun p hp => ?_
    rcases List.mem_append.mp hp with h | h
    · exact (paths_sublist_order b p h).trans (List.sublist_append_left _ _)
    · exact (paths_sublist_order o p h).trans (List.sublist_append_right _ _)
  | subscript a i => simp only [paths, order]; exact sub_cat (paths_sublist_order a) (paths_sublist_order i)
  | slice2 a l h =>
    simp only [paths, order]
    exact sub_cat (paths_sublist_order a) (sub_cat (paths_sublist_order l) (paths_sublist_order h))
  | attr a n => simp only [paths, order]; exact paths_sublist_order a
  | call f args => simp only [paths, order]; exact sub_cat (paths_sublist_order f) (pathsEs_sub args)
  | tuple es => simp only [paths, order]; exact pathsEs_sub es
  | list es => simp only [paths, order]; exact pathsEs_sub es
  | set es => simp only [paths, order]; exact pathsEs_sub es
  | dict kvs => simp only [paths, order]; exact pathsKVs_sub kvs
  | lambda sg ds kds b => simp only [paths, order]; exact sub_cat (pathsEs_sub ds) (pathsKWs_sub kds)
  | slice3 l h st =>
    simp only [paths, order]
    exact sub_cat (paths_sublist_order l) (sub_cat (paths_sublist_order h) (paths_sublist_order st))
  | callx f args kws star dstar =>
    simp only [paths, order]
    exact sub_cat (paths_sublist_order f) (sub_cat (pathsEs_sub args) (sub_cat (pathsKWs_sub kws)
      (sub_cat (pathsOpt_sub star) (pathsOpt_sub dstar))))
theorem pathsEs_sub (es : Exprs) : ∀ p ∈ pathsEs es, p.Sublist (orders es) := by
  cases es with
  | nil => intro p hp; simp [pathsEs] at hp; simp [hp]
  | cons e es => simp only [pathsEs, orders]; exact sub_cat (paths_sublist_order e) (pathsEs_sub es)
theorem pathsBool_sub (es : Exprs) : ∀ p ∈ pathsBool es, p.Sublist (orders es) := by
  cases es with
  | nil => intro p hp; simp [pathsBool] at hp; simp [hp]
  | cons e es =>
    simp only [pathsBool, orders]
    exact sub_cons (sub_cat (paths_sublist_order e) (pathsBool_sub es))
theorem pathsTail_sub (t : CmpTail) : ∀ p ∈ pathsTail t, p.Sublist (orderTail t) := by
  cases t with
  | one op e => simp only [pathsTail, orderTail]; exact paths_sublist_order e
  | more op e r =>
    simp only [pathsTail, orderTail]
    exact sub_cat (paths_sublist_order e) (sub_cons (pathsTail_sub r))
theorem pathsKVs_sub (kvs : KVs) : ∀ p ∈ pathsKVs kvs, p.Sublist (orderKVs kvs) := by
  cases kvs with
  | nil => intro p hp; simp [pathsKVs] at hp; simp [hp]
  | cons k v r =>
    simp only [pathsKVs, orderKVs]
    exact sub_cat (paths_sublist_order v) (sub_cat (paths_sublist_order k) (pathsKVs_sub r))
theorem pathsKWs_sub (kws : KWs) : ∀ p ∈ pathsKWs kws, p.Sublist (orderKWs kws) := by
  cases kws with
  | nil => intro p hp; simp [pathsKWs] at hp; simp [hp]
  | cons n e r => simp only [pathsKWs, orderKWs]; exact sub_cat (paths_sublist_order e) (pathsKWs_sub r)
theorem pathsOpt_sub (o : OptE) : ∀ p ∈ pathsOpt o, p.Sublist (orderOpt o) := by
  cases o with
  | none => intro p hp; simp [pathsOpt] at hp; simp [hp]
  | some e => simp only [pathsOpt, orderOpt]; exact paths_sublist_order e
end

/-! ## straight-line trees have exactly one path: the whole reference order -/

theorem cat_single (a b : List Nat) : cat [a] [b] = [a ++ b] := by simp [cat]

mutual
theorem paths_straight (e : Expr) (h : Straight e) : paths e = [order e] := by
  cases e with
  | atom i c => rfl
  | const c => rfl
  | name n => rfl
  | binop op a b =>
    simp only [Straight] at h
    simp only [paths, order, paths_straight a h.1, paths_straight b h.2, cat_single]
  | unop op a => simp only [Straight] at h; simp only [paths, order, paths_straight a h]
  | boolop o a r => simp only [Straight] at h
  | compare a r =>
    cases r with
    | one op e =>
      simp only [Straight] at h
      simp only [paths, pathsTail, order, orderTail, paths_straight a h.1, paths_straight e h.2, cat_single]
    | more op e r => simp only [Straight] at h
  | ifexp t b o => simp only [Straight] at h
  | subscript a i =>
    simp only [Straight] at h
    simp only [paths, order, paths_straight a h.1, paths_straight i h.2, cat_single]
  | slice2 a l hh =>
    simp only [Straight] at h
    simp only [paths, order, paths_straight a h.1, paths_straight l h.2.1, paths_straight hh h.2.2, cat_single]
  | attr a n => simp only [Straight] at h; simp only [paths, order, paths_straight a h]
  | call f args => simp only [Straight] at h
  | tuple es => simp only [Straight] at h; simp only [paths, order, pathsEs_straight es h]
  | list es => simp only [Straight] at h; simp only [paths, order, pathsEs_straight es h]
  | set es => simp only [Straight] at h; simp only [paths, order, pathsEs_straight es h]
  | dict kvs => simp only [Straight] at h; simp only [paths, order, pathsKVs_straight kvs h]
  | lambda sg ds kds b =>
    simp only [Straight] at h
    simp only [paths, order, pathsEs_straight ds h.1, pathsKWs_straight kds h.2, cat_single]
  | slice3 l hh st =>
    simp only [Straight] at h
    simp only [paths, order, paths_straight l h.1, paths_straight hh h.2.1, paths_straight st h.2.2, cat_single]
  | callx f args kws star dstar => simp only [Straight] at h
theorem pathsEs_straight (es : Exprs) (h : Straights es) : pathsEs es = [orders es] := by
  cases es with
  | nil => rfl
  | cons e es =>
    simp only [Straights] at h
    simp only [pathsEs, orders, paths_straight e h.1, pathsEs_straight es h.2, cat_single]
theorem pathsKVs_straight (kvs : KVs) (h : StraightKVs kvs) : pathsKVs kvs = [orderKVs kvs] := by
  cases kvs with
  | nil => rfl
  | cons k v r =>
    simp only [StraightKVs] at h
    simp only [pathsKVs, orderKVs, paths_straight v h.2.1, paths_straight k h.1, pathsKVs_straight r h.2.2, cat_single]
theorem pathsKWs_straight (kws : KWs) (h : StraightKWs kws) : pathsKWs kws = [orderKWs kws] := by
  cases kws with
  | nil => rfl
  | cons n e r =>
    simp only [StraightKWs] at h
    simp only [pathsKWs, orderKWs, paths_straight e h.1, pathsKWs_straight r h.2, cat_single]
end

/-! ## which call nodes are covered -/

/-- the callee is a plain name from the set `qn` -/
def isQName (qn : String → Prop) : Expr → Prop
  | .name n => qn n
  | _ => False

mutual
/-- every general call node in the tree calls a NAME in `qn` (names bound to functions that
leave the probe log alone, like the prelude's `f`, `g`, `h`); probes `ev(i, c)` are atoms -/
def QCalls (qn : String → Prop) : Expr → Prop
  | .atom _ _ => True
  | .const _ => True
  | .name _ => True
  | .binop _ a b => QCalls qn a ∧ QCalls qn b
  | .unop _ a => QCalls qn a
  | .boolop _ a r => QCalls qn a ∧ QCallsEs qn r
  | .compare a r => QCalls qn a ∧ QCallsTail qn r
  | .ifexp t b o => QCalls qn t ∧ QCalls qn b ∧ QCalls qn o
  | .subscript a i => QCalls qn a ∧ QCalls qn i
  | .slice2 a l h => QCalls qn a ∧ QCalls qn l ∧ QCalls qn h
  | .attr a _ => QCalls qn a
  | .call f args => isQName qn f ∧ QCallsEs qn args
  | .tuple es => QCallsEs qn es
  | .list es => QCallsEs qn es
  | .set es => QCallsEs qn es
  | .dict kvs => QCallsKVs qn kvs
  | .lambda _ ds kds _ => QCallsEs qn ds ∧ QCallsKWs qn kds
  | .slice3 l h st => QCalls qn l ∧ QCalls qn h ∧ QCalls qn st
  | .callx f args kws star dstar =>
      isQName qn f ∧ QCallsEs qn args ∧ QCallsKWs qn kws ∧ QCallsOpt qn star ∧ QCallsOpt qn dstar
def QCallsEs (qn : String → Prop) : Exprs → Prop
  | .nil => True
  | .cons e es => QCalls qn e ∧ QCallsEs qn es
def QCallsTail (qn : String → Prop) : CmpTail → Prop
  | .one _ e => QCalls qn e
  | .more _ e r => QCalls qn e ∧ QCallsTail qn r
def QCallsKVs (qn : String → Prop) : KVs → Prop
  | .nil => True
  | .cons k v r => QCalls qn k ∧ QCalls qn v ∧ QCallsKVs qn r
def QCallsKWs (qn : String → Prop) : KWs → Prop
  | .nil => True
  | .cons _ e r => QCalls qn e ∧ QCallsKWs qn r
def QCallsOpt (qn : String → Prop) : OptE → Prop
  | .none => True
  | .some e => QCalls qn e
end

section
variable {V X W : Type} (P : Prims V X W) (logOf : W → List Nat)

/-- `LogDiscipline` plus: calling what a name in `qn` is bound to leaves the probe log alone -/
structure LogDisciplineQ (qn : String → Prop) : Prop extends LogDiscipline P logOf where
  callQ : ∀ n, qn n → ∀ w v w1, P.loadName n w = .ok v w1 →
    ∀ vs w2, logOf (P.call v vs w2).world = logOf w2
  callExQ : ∀ n, qn n → ∀ w v w1, P.loadName n w = .ok v w1 →
    ∀ vs ks sv dv w2, logOf (P.callEx v vs ks sv dv w2).world = logOf w2

/-- success: the log grew by exactly one of the paths `ps`; exception: by a prefix of one -/
def ExtP {α : Type} (r : Res X W α) (w : W) (ps : List (List Nat)) : Prop :=
  match r with
  | .ok _ w' => ∃ p ∈ ps, logOf w' = logOf w ++ p
  | .err _ w' => ∃ p ∈ ps, ∃ l, l <+: p ∧ logOf w' = logOf w ++ l

variable {logOf}

theorem ExtP.quiet {α : Type} {r : Res X W α} {w : W} (h : logOf r.world = logOf w) :
    ExtP logOf r w [[]] := by
  cases r with
  | ok a w' => exact ⟨[], by simp, by simpa [Res.world] using h⟩
  | err x w' => exact ⟨[], by simp, [], List.prefix_refl _, by simpa [Res.world] using h⟩

theorem ExtP.mono {α : Type} {r : Res X W α} {w : W} {ps ps' : List (List Nat)}
    (h : ExtP logOf r w ps) (hs : ∀ p ∈ ps, p ∈ ps') : ExtP logOf r w ps' := by
  cases r with
  | ok a w' => obtain ⟨p, hp, e⟩ := h; exact ⟨p, hs p hp, e⟩
  | err x w' => obtain ⟨p, hp, l, hl, e⟩ := h; exact ⟨p, hs p hp, l, hl, e⟩

theorem ExtP.bind {α β : Type} {m : M X W α} {f : α → M X W β} {w : W} {ps1 ps2 : List (List Nat)}
    (h1 : ExtP logOf (m w) w ps1) (hne : ps2 ≠ [])
    (h2 : ∀ a w1, m w = .ok a w1 → ExtP logOf (f a w1) w1 ps2) :
    ExtP logOf (M.bind m f w) w (cat ps1 ps2) := by
  unfold M.bind
  cases hm : m w with
  | err x w1 =>
    rw [hm] at h1
    obtain ⟨p, hp, l, hl, e⟩ := h1
    obtain ⟨q, hq⟩ := List.exists_mem_of_ne_nil ps2 hne
    exact ⟨p ++ q, mem_cat.mpr ⟨p, hp, q, hq, rfl⟩, l, hl.trans (List.prefix_append p q), e⟩
  | ok a w1 =>
    rw [hm] at h1
    obtain ⟨p, hp, e1⟩ := h1
    have h2' := h2 a w1 hm
    show ExtP logOf (f a w1) w (cat ps1 ps2)
    cases hf : f a w1 with
    | ok b w2 =>
      rw [hf] at h2'
      obtain ⟨q, hq, e2⟩ := h2'
      exact ⟨p ++ q, mem_cat.mpr ⟨p, hp, q, hq, rfl⟩, by rw [e2, e1, List.append_assoc]⟩
    | err x w2 =>
      rw [hf] at h2'
      obtain ⟨q, hq, l, hl, e2⟩ := h2'
      exact ⟨p ++ q, mem_cat.mpr ⟨p, hp, q, hq, rfl⟩, p ++ l,
        (List.prefix_append_right_inj p).mpr hl, by rw [e2, e1, List.append_assoc]⟩

/-- … followed by a primitive that leaves the log alone -/
theorem ExtP.bind_quiet {α β : Type} {m : M X W α} {f : α → M X W β} {w : W} {ps : List (List Nat)}
    (h1 : ExtP logOf (m w) w ps)
    (h2 : ∀ a w1, m w = .ok a w1 → logOf (f a w1).world = logOf w1) :
    ExtP logOf (M.bind m f w) w ps := by
  unfold M.bind
  cases hm : m w with
  | err x w1 => rw [hm] at h1; exact h1
  | ok a w1 =>
    rw [hm] at h1
    obtain ⟨p, hp, e1⟩ := h1
    have h2' := h2 a w1 hm
    show ExtP logOf (f a w1) w ps
    cases hf : f a w1 with
    | ok b w2 => rw [hf] at h2'; exact ⟨p, hp, by simpa [Res.world, e1] using h2'⟩
    | err x w2 =>
      rw [hf] at h2'
      exact ⟨p, hp, p, List.prefix_refl _, by simpa [Res.world, e1] using h2'⟩

/-- a primitive that leaves the log alone, followed by … -/
theorem ExtP.quiet_bind {α β : Type} {m : M X W α} {f : α → M X W β} {w : W} {ps : List (List Nat)}
    (h1 : logOf (m w).world = logOf w) (hne : ps ≠ [])
    (h2 : ∀ a w1, m w = .ok a w1 → ExtP logOf (f a w1) w1 ps) :
    ExtP logOf (M.bind m f w) w ps := by
  unfold M.bind
  cases hm : m w with
  | err x w1 =>
    rw [hm] at h1
    obtain ⟨q, hq⟩ := List.exists_mem_of_ne_nil ps hne
    exact ⟨q, hq, [], List.nil_prefix, by simpa [Res.world] using h1⟩
  | ok a w1 =>
    rw [hm] at h1
    have e1 : logOf w1 = logOf w := by simpa [Res.world] using h1
    have h2' := h2 a w1 hm
    show ExtP logOf (f a w1) w ps
    cases hf : f a w1 with
    | ok b w2 => rw [hf] at h2'; obtain ⟨q, hq, e2⟩ := h2'; exact ⟨q, hq, by rw [e2, e1]⟩
    | err x w2 =>
      rw [hf] at h2'; obtain ⟨q, hq, l, hl, e2⟩ := h2'; exact ⟨q, hq, l, hl, by rw [e2, e1]⟩

theorem ExtP.pure {α : Type} (a : α) (w : W) : ExtP logOf (M.pure (X := X) a w) w [[]] :=
  ExtP.quiet rfl

variable {qn : String → Prop} (hL : LogDisciplineQ P logOf qn)
include hL

mutual
theorem pE (e : Expr) (w : W) (hq : QCalls qn e) : ExtP logOf (evalE P e w) w (paths e) := by
  cases e with
  | atom i c =>
    simp only [evalE, paths]
    have h := hL.atom i c w
    cases hr : P.atom i c w with
    | ok v w' => rw [hr] at h; exact ⟨[i], by simp, h⟩
    | err x w' => rw [hr] at h; exact ⟨[i], by simp, [i], List.prefix_refl _, h⟩
  | const c => simp only [evalE, paths]; exact ExtP.pure _ _
  | name n => simp only [evalE, paths]; exact ExtP.quiet (hL.loadName n w)
  | binop op a b =>
    simp only [QCalls] at hq
    simp only [evalE, paths]
    refine ExtP.bind (pE a w hq.1) (paths_ne b) fun va w1 _ => ?_
    exact ExtP.bind_quiet (pE b w1 hq.2) fun vb w2 _ => hL.binop op va vb w2
  | unop op a =>
    simp only [QCalls] at hq
    simp only [evalE, paths]
    exact ExtP.bind_quiet (pE a w hq) fun va w1 _ => hL.unop op va w1
  | boolop isOr a r =>
    simp only [QCalls] at hq
    simp only [evalE, paths]
    exact ExtP.bind (pE a w hq.1) (pathsBool_ne r) fun va w1 _ => pBool isOr va r w1 hq.2
  | compare a r =>
    simp only [QCalls] at hq
    simp only [evalE, paths]
    exact ExtP.bind (pE a w hq.1) (pathsTail_ne r) fun va w1 _ => pTail va r w1 hq.2
  | ifexp t b o =>
    simp only [QCalls] at hq
    simp only [evalE, paths]
    refine ExtP.bind (pE t w hq.1) (by simp [paths_ne b]) fun vt w1 _ => ?_
    refine ExtP.quiet_bind (hL.truth vt w1) (by simp [paths_ne b]) fun c w2 _ => ?_
    cases c with
    | true => exact ExtP.mono (pE b w2 hq.2.1) fun p hp => List.mem_append_left _ hp
    | false => exact ExtP.mono (pE o w2 hq.2.2) fun p hp => List.mem_append_right _ hp
  | subscript a i =>
    simp only [QCalls] at hq
    simp only [evalE, paths]
    refine ExtP.bind (pE a w hq.1) (paths_ne i) fun va w1 _ => ?_
    exact ExtP.bind_quiet (pE i w1 hq.2) fun vi w2 _ => hL.getitem va vi w2
  | slice2 a l h =>
    simp only [QCalls] at hq
    simp only [evalE, paths]
    refine ExtP.bind (pE a w hq.1) (cat_ne (paths_ne l) (paths_ne h)) fun va w1 _ => ?_
    refine ExtP.bind (pE l w1 hq.2.1) (paths_ne h) fun vl w2 _ => ?_
    refine ExtP.bind_quiet (pE h w2 hq.2.2) fun vh w3 _ => ?_
    show logOf (M.bind (P.mkSlice vl vh) (fun sl => P.getitem va sl) w3).world = logOf w3
    unfold M.bind
    have h1 := hL.mkSlice vl vh w3
    cases hs : P.mkSlice vl vh w3 with
    | err x w4 => rw [hs] at h1; exact h1
    | ok sl w4 =>
      rw [hs] at h1
      simp only [Res.world] at h1
      simp only []
      rw [hL.getitem va sl w4, h1]
  | attr a n =>
    simp only [QCalls] at hq
    simp only [evalE, paths]
    exact ExtP.bind_quiet (pE a w hq) fun va w1 _ => hL.getattr va n w1
  | call f args =>
    simp only [QCalls] at hq
    simp only [evalE, paths]
    cases f with
    | name n =>
      simp only [isQName] at hq
      refine ExtP.bind (pE (.name n) w trivial) (pathsEs_ne args) fun vf w1 hf => ?_
      simp only [evalE] at hf
      exact ExtP.bind_quiet (pEs args w1 hq.2) fun vs w2 _ => hL.callQ n hq.1 w vf w1 hf vs w2
    | _ => exact absurd hq.1 (by simp [isQName])
  | tuple es =>
    simp only [QCalls] at hq
    simp only [evalE, paths]
    exact ExtP.bind_quiet (pEs es w hq) fun vs w1 _ => hL.mkTuple vs w1
  | list es =>
    simp only [QCalls] at hq
    simp only [evalE, paths]
    exact ExtP.bind_quiet (pEs es w hq) fun vs w1 _ => hL.mkList vs w1
  | set es =>
    simp only [QCalls] at hq
    simp only [evalE, paths]
    exact ExtP.bind_quiet (pEs es w hq) fun vs w1 _ => hL.mkSet vs w1
  | dict kvs =>
    simp only [QCalls] at hq
    simp only [evalE, paths]
    exact ExtP.quiet_bind (hL.newDict w) (pathsKVs_ne kvs) fun d w1 _ => pKVs d kvs w1 hq
  | lambda sg ds kds b =>
    simp only [QCalls] at hq
    simp only [evalE, paths]
    refine ExtP.bind (pEs ds w hq.1) (pathsKWs_ne kds) fun dvs w1 _ => ?_
    exact ExtP.bind_quiet (pKWs kds w1 hq.2) fun kvs w2 _ => hL.mkFunction _ _ dvs kvs w2
  | slice3 l h st =>
    simp only [QCalls] at hq
    simp only [evalE, paths]
    refine ExtP.bind (pE l w hq.1) (cat_ne (paths_ne h) (paths_ne st)) fun vl w1 _ => ?_
    refine ExtP.bind (pE h w1 hq.2.1) (paths_ne st) fun vh w2 _ => ?_
    exact ExtP.bind_quiet (pE st w2 hq.2.2) fun vs w3 _ => hL.mkSlice3 vl vh vs w3
  | callx f args kws star dstar =>
    simp only [QCalls] at hq
    simp only [evalE, paths]
    cases f with
    | name n =>
      simp only [isQName] at hq
      refine ExtP.bind (pE (.name n) w trivial)
        (cat_ne (pathsEs_ne args) (cat_ne (pathsKWs_ne kws) (cat_ne (pathsOpt_ne star) (pathsOpt_ne dstar))))
        fun vf w1 hf => ?_
      simp only [evalE] at hf
      refine ExtP.bind (pEs args w1 hq.2.1) (cat_ne (pathsKWs_ne kws) (cat_ne (pathsOpt_ne star) (pathsOpt_ne dstar)))
        fun vs w2 _ => ?_
      refine ExtP.bind (pKWs kws w2 hq.2.2.1) (cat_ne (pathsOpt_ne star) (pathsOpt_ne dstar)) fun ks w3 _ => ?_
      refine ExtP.bind (pOpt star w3 hq.2.2.2.1) (pathsOpt_ne dstar) fun sv w4 _ => ?_
      exact ExtP.bind_quiet (pOpt dstar w4 hq.2.2.2.2) fun dv w5 _ =>
        hL.callExQ n hq.1 w vf w1 hf vs ks sv dv w5
    | _ => exact absurd hq.1 (by simp [isQName])
theorem pEs (es : Exprs) (w : W) (hq : QCallsEs qn es) :
    ExtP logOf (evalEs P es w) w (pathsEs es) := by
  cases es with
  | nil => simp only [evalEs, pathsEs]; exact ExtP.pure _ _
  | cons e es =>
    simp only [QCallsEs] at hq
    simp only [evalEs, pathsEs]
    refine ExtP.bind (pE e w hq.1) (pathsEs_ne es) fun v w1 _ => ?_
    exact ExtP.bind_quiet (pEs es w1 hq.2) fun vs w2 _ => rfl
theorem pBool (isOr : Bool) (v : V) (r : Exprs) (w : W) (hq : QCallsEs qn r) :
    ExtP logOf (evalBool P isOr v r w) w (pathsBool r) := by
  cases r with
  | nil => simp only [evalBool, pathsBool]; exact ExtP.pure _ _
  | cons e es =>
    simp only [QCallsEs] at hq
    simp only [evalBool, pathsBool]
    refine ExtP.quiet_bind (hL.truth v w) (by simp) fun c w1 _ => ?_
    by_cases hc : (c == isOr) = true
    · simp only [hc, if_true]
      exact ExtP.mono (ExtP.pure _ _) fun p hp => by simp at hp; simp [hp]
    · simp only [hc]
      refine ExtP.mono (ExtP.bind (pE e w1 hq.1) (pathsBool_ne es) fun v' w2 _ => pBool isOr v' es w2 hq.2)
        fun p hp => List.mem_cons_of_mem _ hp
theorem pTail (l : V) (t : CmpTail) (w : W) (hq : QCallsTail qn t) :
    ExtP logOf (evalCmp P l t w) w (pathsTail t) := by
  cases t with
  | one op e =>
    simp only [QCallsTail] at hq
    simp only [evalCmp, pathsTail]
    exact ExtP.bind_quiet (pE e w hq) fun r w1 _ => hL.compare op l r w1
  | more op e rest =>
    simp only [QCallsTail] at hq
    simp only [evalCmp, pathsTail]
    refine ExtP.bind (pE e w hq.1) (by simp) fun r w1 _ => ?_
    refine ExtP.quiet_bind (hL.compare op l r w1) (by simp) fun c w2 _ => ?_
    refine ExtP.quiet_bind (hL.truth c w2) (by simp) fun t w3 _ => ?_
    cases t with
    | true => exact ExtP.mono (pTail r rest w3 hq.2) fun p hp => List.mem_cons_of_mem _ hp
    | false => exact ExtP.mono (ExtP.pure _ _) fun p hp => by simp at hp; simp [hp]
theorem pKVs (d : V) (kvs : KVs) (w : W) (hq : QCallsKVs qn kvs) :
    ExtP logOf (evalKVs P d kvs w) w (pathsKVs kvs) := by
  cases kvs with
  | nil => simp only [evalKVs, pathsKVs]; exact ExtP.pure _ _
  | cons k v rest =>
    simp only [QCallsKVs] at hq
    simp only [evalKVs, pathsKVs]
    refine ExtP.bind (pE v w hq.2.1) (cat_ne (paths_ne k) (pathsKVs_ne rest)) fun vv w1 _ => ?_
    refine ExtP.bind (pE k w1 hq.1) (pathsKVs_ne rest) fun vk w2 _ => ?_
    exact ExtP.quiet_bind (hL.dictSet d vk vv w2) (pathsKVs_ne rest) fun _ w3 _ => pKVs d rest w3 hq.2.2
theorem pKWs (kws : KWs) (w : W) (hq : QCallsKWs qn kws) :
    ExtP logOf (evalKWs P kws w) w (pathsKWs kws) := by
  cases kws with
  | nil => simp only [evalKWs, pathsKWs]; exact ExtP.pure _ _
  | cons n e rest =>
    simp only [QCallsKWs] at hq
    simp only [evalKWs, pathsKWs]
    refine ExtP.bind (pE e w hq.1) (pathsKWs_ne rest) fun v w1 _ => ?_
    exact ExtP.bind_quiet (pKWs rest w1 hq.2) fun r w2 _ => rfl
theorem pOpt (o : OptE) (w : W) (hq : QCallsOpt qn o) :
    ExtP logOf (evalOpt P o w) w (pathsOpt o) := by
  cases o with
  | none => simp only [evalOpt, pathsOpt]; exact ExtP.pure _ _
  | some e =>
    simp only [QCallsOpt] at hq
    simp only [evalOpt, pathsOpt]
    exact ExtP.bind_quiet (pE e w hq) fun v w1 _ => rfl
end

end
end GPy.C01
