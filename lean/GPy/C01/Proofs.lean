/-
C01 helper lemmas: code embedding, multi-step execution, the simulation
relation `Sim` between a reference computation and VM execution, and the
structural induction `simE … simKVs` behind `compE_correct`.
-/
import GPy.C01.Model
namespace GPy.C01

/-! ## code fragments inside a code list -/

/-- `frag` sits in `code` starting at index `pc` -/
def CodeAt (code : List Instr) (pc : Nat) (frag : List Instr) : Prop :=
  ∃ pre suf, code = pre ++ frag ++ suf ∧ pre.length = pc

theorem CodeAt.left {code pc a b} (h : CodeAt code pc (a ++ b)) : CodeAt code pc a := by
  obtain ⟨pre, suf, rfl, hl⟩ := h
  exact ⟨pre, b ++ suf, by simp [List.append_assoc], hl⟩

theorem CodeAt.right {code pc a b} (h : CodeAt code pc (a ++ b)) :
    CodeAt code (pc + a.length) b := by
  obtain ⟨pre, suf, rfl, hl⟩ := h
  exact ⟨pre ++ a, suf, by simp [List.append_assoc], by simp [hl]⟩

theorem CodeAt.tail {code pc i r} (h : CodeAt code pc (i :: r)) : CodeAt code (pc + 1) r := by
  have := CodeAt.right (a := [i]) (b := r) (by simpa using h)
  simpa using this

theorem CodeAt.head {code pc i r} (h : CodeAt code pc (i :: r)) : code[pc]? = some i := by
  obtain ⟨pre, suf, rfl, hl⟩ := h
  subst hl
  simp [List.append_assoc]

theorem CodeAt.whole (code : List Instr) : CodeAt code 0 code :=
  ⟨[], [], by simp, rfl⟩

/-! ## multi-step execution -/

section
variable {V X W : Type} (P : Prims V X W)

/-- one instruction is fetched at `pc` and executed -/
def step (code : List Instr) (pc : Nat) (s : List V) (w : W) : Option (Outcome V X W) :=
  (code[pc]?).map fun i => exec P i pc s w

/-- reflexive–transitive closure of "the instruction at pc continues at pc'" -/
inductive Star (code : List Instr) : Nat → List V → W → Nat → List V → W → Prop
  | refl (pc s w) : Star code pc s w pc s w
  | head {pc s w pc1 s1 w1 pc2 s2 w2} :
      step P code pc s w = some (.next pc1 s1 w1) → Star code pc1 s1 w1 pc2 s2 w2 →
      Star code pc s w pc2 s2 w2

theorem Star.trans {code : List Instr} {pc s w pc1 s1 w1 pc2 s2 w2}
    (h1 : Star P code pc s w pc1 s1 w1) (h2 : Star P code pc1 s1 w1 pc2 s2 w2) :
    Star P code pc s w pc2 s2 w2 := by
  induction h1 with
  | refl => exact h2
  | head hs _ ih => exact Star.head hs (ih h2)

theorem Star.one {code : List Instr} {pc s w pc1 s1 w1}
    (h : step P code pc s w = some (.next pc1 s1 w1)) : Star P code pc s w pc1 s1 w1 :=
  Star.head h (Star.refl _ _ _)

/-- execution from `(pc, s, w)` reaches an instruction that raises `x` in world `w'` -/
def Raises (code : List Instr) (pc : Nat) (s : List V) (w : W) (x : X) (w' : W) : Prop :=
  ∃ pc1 s1 w1, Star P code pc s w pc1 s1 w1 ∧ step P code pc1 s1 w1 = some (.raise x w')

theorem Raises.of_star {code : List Instr} {pc s w pc1 s1 w1 x w'}
    (h1 : Star P code pc s w pc1 s1 w1) (h2 : Raises P code pc1 s1 w1 x w') :
    Raises P code pc s w x w' := by
  obtain ⟨a, b, c, hs, hr⟩ := h2
  exact ⟨a, b, c, Star.trans P h1 hs, hr⟩

/-- The simulation relation: the reference computation's result `r` (from world `w`)
is matched by the VM started at `(pc, s, w)`: a value `a` in world `w'` ⇒ the VM
reaches `k a` in exactly that world; exception `x` in `w'` ⇒ the VM raises `x` in `w'`. -/
def Sim {α : Type} (code : List Instr) (pc : Nat) (s : List V) (w : W) (r : Res X W α)
    (k : α → Nat × List V) : Prop :=
  match r with
  | .ok a w' => Star P code pc s w (k a).1 (k a).2 w'
  | .err x w' => Raises P code pc s w x w'

/-- sequencing: simulate `m`, then from where it ends simulate `f a` -/
theorem Sim.bind {α β : Type} {code : List Instr} {pc s w} {m : M X W α} {f : α → M X W β}
    {k1 : α → Nat × List V} {k2 : β → Nat × List V}
    (h1 : Sim P code pc s w (m w) k1)
    (h2 : ∀ a w1, m w = .ok a w1 → Sim P code (k1 a).1 (k1 a).2 w1 (f a w1) k2) :
    Sim P code pc s w (M.bind m f w) k2 := by
  unfold M.bind
  cases hm : m w with
  | ok a w1 =>
    rw [hm] at h1
    have h2' := h2 a w1 hm
    simp only [Sim] at h1 ⊢
    cases hf : f a w1 with
    | ok b w2 => rw [hf] at h2'; simp only [Sim] at h2' ⊢; exact Star.trans P h1 h2'
    | err x w2 => rw [hf] at h2'; simp only [Sim] at h2' ⊢; exact Raises.of_star P h1 h2'
  | err x w1 =>
    rw [hm] at h1
    simpa [Sim] using h1

/-- a pure computation needs no steps -/
theorem Sim.pure {α : Type} {code : List Instr} {pc s} {w : W} (a : α) (k : α → Nat × List V)
    (hk : k a = (pc, s)) : Sim P code pc s w (M.pure (X := X) a w) k := by
  simp only [M.pure, Sim, hk]
  exact Star.refl _ _ _

/-- prepend some VM steps that the reference does not see (stack shuffles, jumps) -/
theorem Sim.star_left {α : Type} {code : List Instr} {pc s w pc1 s1} {r : Res X W α} {k}
    (h1 : Star P code pc s w pc1 s1 w) (h2 : Sim P code pc1 s1 w r k) : Sim P code pc s w r k := by
  cases r with
  | ok a w' => exact Star.trans P h1 h2
  | err x w' => exact Raises.of_star P h1 h2

/-- append VM steps after the simulated computation, changing the continuation -/
theorem Sim.star_right {α : Type} {code : List Instr} {pc s w} {r : Res X W α}
    {k k' : α → Nat × List V}
    (h1 : Sim P code pc s w r k)
    (h2 : ∀ a w', r = .ok a w' → Star P code (k a).1 (k a).2 w' (k' a).1 (k' a).2 w') :
    Sim P code pc s w r k' := by
  cases r with
  | ok a w' => exact Star.trans P h1 (h2 a w' rfl)
  | err x w' => exact h1

theorem Sim.congr_k {α : Type} {code : List Instr} {pc s w} {r : Res X W α}
    {k k' : α → Nat × List V} (h1 : Sim P code pc s w r k) (hk : ∀ a, k a = k' a) :
    Sim P code pc s w r k' := by
  have : k = k' := funext hk
  rw [← this]; exact h1

/-- one instruction that implements a primitive `m` by pushing its result -/
theorem Sim.instr {α : Type} {code : List Instr} {pc s} {w : W} {i : Instr} {r : Res X W α}
    {k : α → Nat × List V}
    (hc : code[pc]? = some i)
    (hex : exec P i pc s w = match r with
        | .ok a w' => .next (k a).1 (k a).2 w'
        | .err x w' => .raise x w') :
    Sim P code pc s w r k := by
  cases r with
  | ok a w' =>
    simp only [Sim]
    exact Star.one P (by simp [step, hc, hex])
  | err x w' =>
    simp only [Sim]
    exact ⟨pc, s, w, Star.refl _ _ _, by simp [step, hc, hex]⟩

/-- an instruction that pops its operands and pushes the result of a primitive -/
theorem Sim.push {code : List Instr} {pc : Nat} {s s' : List V} {w : W} {i : Instr}
    {m : Res X W V} {pcEnd : Nat}
    (hc : code[pc]? = some i) (hex : exec P i pc s w = push pc s' m) (hpc : pcEnd = pc + 1) :
    Sim P code pc s w m (fun v => (pcEnd, v :: s')) := by
  subst hpc
  apply Sim.instr P hc
  rw [hex]; cases m <;> rfl

/-- an instruction that pops its operands and performs a primitive without result -/
theorem Sim.done {code : List Instr} {pc : Nat} {s s' : List V} {w : W} {i : Instr}
    {m : Res X W Unit} {pcEnd : Nat}
    (hc : code[pc]? = some i) (hex : exec P i pc s w = done pc s' m) (hpc : pcEnd = pc + 1) :
    Sim P code pc s w m (fun _ => (pcEnd, s')) := by
  subst hpc
  apply Sim.instr P hc
  rw [hex]; cases m <;> rfl

/-- a stack shuffle / unconditional jump -/
theorem Star.instr {code : List Instr} {pc : Nat} {s s' : List V} {w : W} {i : Instr} {pc' : Nat}
    (hc : code[pc]? = some i) (hex : exec P i pc s w = .next pc' s' w) :
    Star P code pc s w pc' s' w :=
  Star.one P (by simp [step, hc, hex])

end

theorem CodeAt.split {code pc a b n} (h : CodeAt code pc (a ++ b)) (hn : a.length = n) :
    CodeAt code pc a ∧ CodeAt code (pc + n) b := by
  subst hn; exact ⟨h.left, h.right⟩

theorem CodeAt.cons {code pc i r} (h : CodeAt code pc (i :: r)) :
    code[pc]? = some i ∧ CodeAt code (pc + 1) r := ⟨h.head, h.tail⟩

theorem CodeAt.at {code pc pc' frag} (h : CodeAt code pc frag) (e : pc = pc') :
    CodeAt code pc' frag := e ▸ h

theorem CodeAt.head' {code pc pc' i r} (h : CodeAt code pc (i :: r)) (e : pc = pc') :
    code[pc']? = some i := e ▸ h.head

theorem idx_at {code : List Instr} {pc pc' : Nat} {i : Instr} (h : code[pc]? = some i)
    (e : pc = pc') : code[pc']? = some i := e ▸ h

/-! ## sizes -/

mutual
theorem length_compE (e : Expr) (pc : Nat) : (compE e pc).length = size e := by
  cases e with
  | atom i c => simp [compE, size] <;> omega
  | const c => simp [compE, size] <;> omega
  | name n => simp [compE, size] <;> omega
  | binop op a b => simp [compE, size, length_compE a, length_compE b] <;> omega
  | unop op a => simp [compE, size, length_compE a] <;> omega
  | boolop isOr a rest => simp [compE, size, length_compE a, length_compBool rest] <;> omega
  | compare a rest =>
    cases rest with
    | one op e => simp [compE, size, length_compE a, length_compE e] <;> omega
    | more op e rest =>
      simp [compE, size, length_compE a, length_compTail (.more op e rest)] <;> omega
  | ifexp t b o => simp [compE, size, length_compE t, length_compE b, length_compE o] <;> omega
  | subscript a i => simp [compE, size, length_compE a, length_compE i] <;> omega
  | slice2 a lo hi => simp [compE, size, length_compE a, length_compE lo, length_compE hi] <;> omega
  | attr a n => simp [compE, size, length_compE a] <;> omega
  | call f args => simp [compE, size, length_compE f, length_compEs args] <;> omega
  | tuple es => simp [compE, size, length_compEs es] <;> omega
  | list es => simp [compE, size, length_compEs es] <;> omega
  | set es => simp [compE, size, length_compEs es] <;> omega
  | dict kvs => simp [compE, size, length_compKVs kvs] <;> omega
  | lambda sg ds kds b => simp [compE, size, length_compEs ds, length_compKWs kds] <;> omega
  | slice3 lo hi st => simp [compE, size, length_compE lo, length_compE hi, length_compE st] <;> omega
  | callx f args kws star dstar =>
    simp [compE, size, length_compE f, length_compEs args, length_compKWs kws, length_compOpt star,
      length_compOpt dstar] <;> omega
theorem length_compEs (es : Exprs) (pc : Nat) : (compEs es pc).length = sizes es := by
  cases es with
  | nil => simp [compEs, sizes] <;> omega
  | cons e es => simp [compEs, sizes, length_compE e, length_compEs es] <;> omega
theorem length_compBool (es : Exprs) {isOr : Bool} (pc label : Nat) :
    (compBool isOr es pc label).length = sizeBool es := by
  cases es with
  | nil => simp [compBool, sizeBool] <;> omega
  | cons e es => simp [compBool, sizeBool, length_compE e, length_compBool es] <;> omega
theorem length_compTail (t : CmpTail) (pc label : Nat) :
    (compTail t pc label).length = sizeTail t := by
  cases t with
  | one op e => simp [compTail, sizeTail, length_compE e] <;> omega
  | more op e rest => simp [compTail, sizeTail, length_compE e, length_compTail rest] <;> omega
theorem length_compKVs (kvs : KVs) (pc : Nat) : (compKVs kvs pc).length = sizeKVs kvs := by
  cases kvs with
  | nil => simp [compKVs, sizeKVs] <;> omega
  | cons k v rest =>
    simp [compKVs, sizeKVs, length_compE k, length_compE v, length_compKVs rest] <;> omega
theorem length_compKWs (kws : KWs) (pc : Nat) : (compKWs kws pc).length = sizeKWs kws := by
  cases kws with
  | nil => simp [compKWs, sizeKWs]
  | cons n e rest => simp [compKWs, sizeKWs, length_compE e, length_compKWs rest] <;> omega
theorem length_compOpt (o : OptE) (pc : Nat) : (compOpt o pc).length = sizeOpt o := by
  cases o with
  | none => simp [compOpt, sizeOpt]
  | some e => simp [compOpt, sizeOpt, length_compE e]
end

mutual
theorem length_compT (t : Target) (pc : Nat) : (compT t pc).length = sizeT t := by
  cases t with
  | name n => simp [compT, sizeT]
  | subscr a i => simp [compT, sizeT, length_compE] <;> omega
  | attr a n => simp [compT, sizeT, length_compE]
  | tuple ts => simp [compT, sizeT, length_compTs ts] <;> omega
  | star b t a => simp [compT, sizeT, length_compTs b, length_compT t, length_compTs a] <;> omega
theorem length_compTs (ts : Targets) (pc : Nat) : (compTs ts pc).length = sizeTs ts := by
  cases ts with
  | nil => simp [compTs, sizeTs]
  | cons t ts => simp [compTs, sizeTs, length_compT t, length_compTs ts]
end

mutual
theorem length_compD (t : DelTarget) (pc : Nat) : (compD t pc).length = sizeD t := by
  cases t with
  | name n => simp [compD, sizeD]
  | subscr a i => simp [compD, sizeD, length_compE] <;> omega
  | attr a n => simp [compD, sizeD, length_compE]
  | tuple ts => simp [compD, sizeD, length_compDs ts]
theorem length_compDs (ts : DelTargets) (pc : Nat) : (compDs ts pc).length = sizeDs ts := by
  cases ts with
  | nil => simp [compDs, sizeDs]
  | cons t ts => simp [compDs, sizeDs, length_compD t, length_compDs ts]
end

theorem length_compTargets : (more : Targets) → (t : Target) → (pc : Nat) →
    (compTargets t more pc).length = sizeTargets t more
  | .nil, t, pc => by simp [compTargets, sizeTargets, length_compT]
  | .cons t' more, t, pc => by
    simp [compTargets, sizeTargets, length_compT, length_compTargets more t'] <;> omega

theorem length_compS (st : Stmt) (pc : Nat) : (compS st pc).length = sizeS st := by
  cases st with
  | assign t more value => simp [compS, sizeS, length_compE, length_compTargets]
  | aug t op value =>
    cases t <;> simp [compS, sizeS, length_compE] <;> omega
  | expr e =>
    cases e with
    | const c => cases c <;> simp [compS, sizeS, compE, size]
    | _ => simp [compS, sizeS, length_compE]
  | del ts => simp [compS, sizeS, length_compDs]
  | funcdef name sg ds kds body => simp [compS, sizeS, length_compEs, length_compKWs] <;> omega

theorem length_compStmts (ss : List Stmt) (pc : Nat) : (compStmts ss pc).length = sizeProg ss := by
  induction ss generalizing pc with
  | nil => simp [compStmts, sizeProg]
  | cons s ss ih => simp [compStmts, sizeProg, length_compS, ih]

end GPy.C01
