/-
C01 — property theorems.  All are quantified over every expression / statement
tree, every `Prims` (= every behaviour of operands and operations, including
logging and raising ones), every surrounding code, every stack and world.
-/
import GPy.C01.SimProofs
import GPy.C01.Order
import GPy.C01.OrderExact
import GPy.C01.Paths
import GPy.C01.Dispatch
import GPy.C01.IdentProofs
import GPy.C01.Generated
import GPy.C01.HandlerFacts
namespace GPy.C01

section
variable {V X W : Type} (P : Prims V X W)

/-- **Compiler/VM correctness for expressions.**  Let the compiled expression sit
anywhere in a code list (`pre` before it, the continuation `k` after it).  Running
from its first instruction with stack `s` in world `w`
* if the reference evaluation yields `v` in world `w'`: after finitely many steps
  the VM is at the first instruction of `k` with stack `v :: s` in world `w'`
  (same trace, same state) – from there on the two runs coincide;
* if the reference evaluation raises `x` in world `w'`: the VM raises `x` in `w'`. -/
theorem compE_correct (e : Expr) (pre k : List Instr) (s : List V) (w : W) :
    let code := pre ++ compE e pre.length ++ k
    match evalE P e w with
    | .ok v w' => ∃ n, ∀ m, run P code (n + m) pre.length s w
                            = run P code m (pre.length + size e) (v :: s) w'
    | .err x w' => ∃ n, ∀ m, run P code (n + 1 + m) pre.length s w = .exc x w' := by
  intro code
  have hc : CodeAt code pre.length (compE e pre.length) := ⟨pre, k, rfl, rfl⟩
  have h := simE P e code pre.length s w hc
  cases hr : evalE P e w with
  | ok v w' => rw [hr] at h; exact run_of_star P h
  | err x w' => rw [hr] at h; exact run_of_raises P h

/-- the same for expression lists (call arguments, display elements): values end
up on the stack in evaluation order, last on top -/
theorem compEs_correct (es : Exprs) (pre k : List Instr) (s : List V) (w : W) :
    let code := pre ++ compEs es pre.length ++ k
    match evalEs P es w with
    | .ok vs w' => ∃ n, ∀ m, run P code (n + m) pre.length s w
                            = run P code m (pre.length + sizes es) (vs.reverse ++ s) w'
    | .err x w' => ∃ n, ∀ m, run P code (n + 1 + m) pre.length s w = .exc x w' := by
  intro code
  have hc : CodeAt code pre.length (compEs es pre.length) := ⟨pre, k, rfl, rfl⟩
  have h := simEs P es code pre.length s w hc
  cases hr : evalEs P es w with
  | ok v w' => rw [hr] at h; exact run_of_star P h
  | err x w' => rw [hr] at h; exact run_of_raises P h

/-- **Statements** (Assign with one or several targets, tuple / subscript / attribute
targets; AugAssign on name, subscript, attribute; expression statements): the
compiled statement leaves the stack as it found it and the world as the reference
semantics defines; exceptions surface unchanged. -/
theorem compS_correct (hU : UnpackLen P) (st : Stmt) (pre k : List Instr) (s : List V) (w : W) :
    let code := pre ++ compS st pre.length ++ k
    match execS P st w with
    | .ok _ w' => ∃ n, ∀ m, run P code (n + m) pre.length s w
                            = run P code m (pre.length + sizeS st) s w'
    | .err x w' => ∃ n, ∀ m, run P code (n + 1 + m) pre.length s w = .exc x w' := by
  intro code
  have hc : CodeAt code pre.length (compS st pre.length) := ⟨pre, k, rfl, rfl⟩
  have h := simS P hU st code pre.length s w hc
  cases hr : execS P st w with
  | ok v w' => rw [hr] at h; exact run_of_star P h
  | err x w' => rw [hr] at h; exact run_of_raises P h

/-- **Code object of a function.**  The code of `lambda sg: body` / `def name(sg): return body`,
run in a fresh frame (empty stack), returns exactly the value – or raises exactly the exception –
of the reference evaluation of `body`, where a name is looked up as a parameter (`loadFast`) or a
global (`loadGlobal`): the body of a function is evaluated by the same rules when it is called.
(Binding the arguments to the parameters and creating the frame is inside the primitive `call`.) -/
theorem lambdaBody_correct (name : String) (sg : Sig) (body : Expr) (w : W) :
    match evalE (P.inFunction sg.names) body w with
    | .ok v w' => ∃ n, ∀ m, run P (compBody name sg body) (n + m) 0 [] w = .ret v w'
    | .err x w' => ∃ n, ∀ m, run P (compBody name sg body) (n + m) 0 [] w = .exc x w' := by
  have hc := compE_correct (P.inFunction sg.names) body [] [Instr.RETURN_VALUE] [] w
  simp only [List.nil_append, List.length_nil, Nat.zero_add] at hc
  rw [compBody_eq]
  simp only [run_map_resolve]
  cases hr : evalE (P.inFunction sg.names) body w with
  | ok v w' =>
    rw [hr] at hc
    obtain ⟨n, hn⟩ := hc
    refine ⟨n + 1, fun m => ?_⟩
    have e : n + 1 + m = n + (m + 1) := by omega
    rw [e, hn (m + 1)]
    have h0 : (compE body 0 ++ [Instr.RETURN_VALUE])[size body]? = some .RETURN_VALUE := by
      simp [length_compE]
    simp only [run, h0, exec]
  | err x w' =>
    rw [hr] at hc
    obtain ⟨n, hn⟩ := hc
    exact ⟨n + 1, fun m => hn m⟩

/-- **Default expressions of a function definition**: the positional defaults left to right,
then the keyword-only defaults in order, then the function object is made from them – the
rule stated outright. -/
theorem lambda_defaults_order (sg : Sig) (ds : Exprs) (kds : KWs) (body : Expr) :
    evalE P (.lambda sg ds kds body)
      = M.bind (evalEs P ds) fun dvs => M.bind (evalKWs P kds) fun kvs =>
        P.mkFunction (P.codeObj "<lambda>" sg body) (P.const (.str "<lambda>")) dvs kvs := by
  simp only [evalE]

/-- a raising positional default cuts every keyword-only default off -/
theorem lambda_posdefault_raises (sg : Sig) (ds : Exprs) (kds : KWs) (body : Expr) (w w1 : W) (x : X)
    (h : evalEs P ds w = .err x w1) : evalE P (.lambda sg ds kds body) w = .err x w1 := by
  simp [evalE, M.bind, h]

/-- **General call**: callee, positional arguments, keyword values, `*` expression, `**`
expression – in this order, each once – then ONE call with all of them. -/
theorem callx_order (f : Expr) (args : Exprs) (kws : KWs) (star dstar : OptE) :
    evalE P (.callx f args kws star dstar)
      = M.bind (evalE P f) fun vf => M.bind (evalEs P args) fun vs => M.bind (evalKWs P kws) fun ks =>
        M.bind (evalOpt P star) fun sv => M.bind (evalOpt P dstar) fun dv => P.callEx vf vs ks sv dv := by
  simp only [evalE]

/-- **Starred target** `(b…, *t, a…) = v`: ONE unpacking of `v`, then the targets left to right -/
theorem star_target_order (b a : Targets) (t : Target) (v : V) (w w1 : W) (vs : List V) (m : V)
    (rest : List V) (hu : P.unpackEx b.length a.length v w = .ok vs w1)
    (hd : vs.drop b.length = m :: rest) :
    assignTo P (.star b t a) v w
      = (M.bind (assignAll P b (vs.take b.length)) fun _ =>
         M.bind (assignTo P t m) fun _ => assignAll P a rest) w1 := by
  simp only [assignTo, M.bind, hu, hd]

/-- `t1 = t2 = … = value`: right-hand side first, then every target left to right -/
theorem compAssign_correct (hU : UnpackLen P) (t : Target) (more : Targets) (value : Expr)
    (pre k : List Instr) (s : List V) (w : W) :
    let code := pre ++ compS (.assign t more value) pre.length ++ k
    match (M.bind (evalE P value) fun v =>
            M.bind (assignTo P t v) fun _ => assignEach P v more) w with
    | .ok _ w' => ∃ n, ∀ m, run P code (n + m) pre.length s w
                  = run P code m (pre.length + sizeS (.assign t more value)) s w'
    | .err x w' => ∃ n, ∀ m, run P code (n + 1 + m) pre.length s w = .exc x w' :=
  compS_correct P hU (.assign t more value) pre k s w

/-- `a[i] op= v`: `a`, `i` evaluated once, item loaded, `v` evaluated, in-place
operation, item stored – and the VM does exactly that -/
theorem compAug_correct (a i value : Expr) (op : BinOp) (pre k : List Instr) (s : List V) (w : W) :
    let code := pre ++ compS (.aug (.subscr a i) op value) pre.length ++ k
    match (M.bind (evalE P a) fun va => M.bind (evalE P i) fun vi =>
           M.bind (P.getitem va vi) fun v0 => M.bind (evalE P value) fun v1 =>
           M.bind (P.inplace op v0 v1) fun r => P.setitem va vi r) w with
    | .ok _ w' => ∃ n, ∀ m, run P code (n + m) pre.length s w
                  = run P code m (pre.length + sizeS (.aug (.subscr a i) op value)) s w'
    | .err x w' => ∃ n, ∀ m, run P code (n + 1 + m) pre.length s w = .exc x w' := by
  intro code
  have hc : CodeAt code pre.length (compS (.aug (.subscr a i) op value) pre.length) :=
    ⟨pre, k, rfl, rfl⟩
  have h := simAug P (.subscr a i) op value code pre.length s w hc
  simp only [execS] at h
  cases hr : (M.bind (evalE P a) fun va => M.bind (evalE P i) fun vi =>
           M.bind (P.getitem va vi) fun v0 => M.bind (evalE P value) fun v1 =>
           M.bind (P.inplace op v0 v1) fun r => P.setitem va vi r) w with
  | ok v w' => rw [hr] at h; exact run_of_star P h
  | err x w' => rw [hr] at h; exact run_of_raises P h

/-- **Whole module, end to end**: for every program of the fragment the model VM
run of the compiled module returns (None) in exactly the world the reference
semantics ends in, or raises exactly the reference's exception in the reference's
world – for every sufficiently large fuel. -/
theorem compProg_correct (hU : UnpackLen P) (ss : List Stmt) (w : W) :
    match execProg P ss w with
    | .ok _ w' => ∃ n, ∀ m, run P (compProg ss) (n + m) 0 [] w = .ret (P.const .none) w'
    | .err x w' => ∃ n, ∀ m, run P (compProg ss) (n + m) 0 [] w = .exc x w' := by
  have hc : CodeAt (compProg ss) 0 (compStmts ss 0) :=
    ⟨[], [.LOAD_CONST .none, .RETURN_VALUE], by simp [compProg], rfl⟩
  have h := simStmts P hU ss (compProg ss) 0 [] w hc
  cases hr : execProg P ss w with
  | ok v w' =>
    rw [hr] at h
    obtain ⟨n, hn⟩ := run_of_star P h
    refine ⟨n + 2, fun m => ?_⟩
    have e : n + 2 + m = n + (m + 2) := by omega
    rw [e, hn (m + 2)]
    have h0 : (compProg ss)[0 + sizeProg ss]? = some (.LOAD_CONST .none) := by
      simp [compProg, length_compStmts]
    have h1 : (compProg ss)[0 + sizeProg ss + 1]? = some .RETURN_VALUE := by
      simp [compProg, length_compStmts]
    simp only [run, h0, h1, exec]
  | err x w' =>
    rw [hr] at h
    obtain ⟨n, hn⟩ := run_of_raises P h
    exact ⟨n + 1, fun m => hn m⟩

/-! ## the reference rules, stated outright (corollaries of the definition of `evalE`) -/

/-- `a op b`: left operand, then right operand, then the operator – each once -/
theorem binop_left_to_right (op : BinOp) (a b : Expr) :
    evalE P (.binop op a b)
      = M.bind (evalE P a) fun va => M.bind (evalE P b) fun vb => P.binop op va vb := by
  simp only [evalE]

/-- **Short circuit**: if the first operand decides (`or`: truthy, `and`: falsy) it IS the
result and nothing of the rest is evaluated – the final world is the one right after
the truth test, whatever `rest` is. -/
theorem boolop_short_circuit (isOr : Bool) (a : Expr) (e : Expr) (rest : Exprs) (w w1 w2 : W) (v : V)
    (ha : evalE P a w = .ok v w1) (ht : P.truth v w1 = .ok isOr w2) :
    evalE P (.boolop isOr a (.cons e rest)) w = .ok v w2 := by
  simp [evalE, evalBool, M.bind, M.pure, ha, ht]

/-- … and if it does not decide, the result is that of the remaining operands (the value
of `a` is dropped, its truth was tested exactly once) -/
theorem boolop_continue (isOr : Bool) (a : Expr) (e : Expr) (rest : Exprs) (w w1 w2 : W) (v : V)
    (ha : evalE P a w = .ok v w1) (ht : P.truth v w1 = .ok (!isOr) w2) :
    evalE P (.boolop isOr a (.cons e rest)) w = evalE P (.boolop isOr e rest) w2 := by
  cases isOr <;> simp [evalE, evalBool, M.bind, ha, ht]

/-- **Chained comparison, `b` evaluated once**: `a op1 b op2 c` evaluates `a`, `b`, compares,
tests the truth of the result, and only if true evaluates `c` and compares the SAME value
of `b` with it; otherwise the first comparison's result is the value. -/
theorem compare_chain_once (a b c : Expr) (op1 op2 : CmpOp) :
    evalE P (.compare a (.more op1 b (.one op2 c)))
      = M.bind (evalE P a) fun va => M.bind (evalE P b) fun vb =>
        M.bind (P.compare op1 va vb) fun r => M.bind (P.truth r) fun t =>
          if t then M.bind (evalE P c) fun vc => P.compare op2 vb vc else M.pure r := by
  simp only [evalE, evalCmp]

/-- **Chained comparison ≡ conjunction** when re-evaluating the middle operand is
unobservable (a literal): `a op1 k op2 c` is exactly `a op1 k and k op2 c`. -/
theorem compare_chain_desugar (a c : Expr) (k : Const) (op1 op2 : CmpOp) :
    evalE P (.compare a (.more op1 (.const k) (.one op2 c)))
      = evalE P (.boolop false (.compare a (.one op1 (.const k)))
                  (.cons (.compare (.const k) (.one op2 c)) .nil)) := by
  funext w
  simp only [evalE, evalCmp, evalBool]
  unfold M.bind M.pure
  cases evalE P a w with
  | err x w1 => rfl
  | ok va w1 =>
    simp only []
    cases P.compare op1 va (P.const k) w1 with
    | err x w2 => rfl
    | ok r w2 =>
      simp only []
      cases P.truth r w2 with
      | err x w3 => rfl
      | ok t w3 =>
        cases t
        · rfl
        · simp only [if_true, Bool.true_eq_false, beq_iff_eq, if_false]
          cases evalE P c w3 with
          | err x w4 => rfl
          | ok vc w4 =>
            simp only []
            cases P.compare op2 (P.const k) vc w4 <;> rfl

/-- **Conditional expression**: the test, then exactly one branch -/
theorem ifexp_one_branch (t b o : Expr) (w w1 w2 : W) (v : V) (c : Bool)
    (ht : evalE P t w = .ok v w1) (hc : P.truth v w1 = .ok c w2) :
    evalE P (.ifexp t b o) w = if c then evalE P b w2 else evalE P o w2 := by
  cases c <;> simp [evalE, M.bind, ht, hc]

/-- an exception in an operand propagates and nothing after it is evaluated -/
theorem binop_left_raises (op : BinOp) (a b : Expr) (w w1 : W) (x : X)
    (ha : evalE P a w = .err x w1) : evalE P (.binop op a b) w = .err x w1 := by
  simp [evalE, M.bind, ha]

end

/-! ## evaluation order of logging operands -/

section
variable {V X W : Type} (P : Prims V X W) (logOf : W → List Nat)

/-- **In order, none twice.**  For every `Prims` that keeps a probe log (`LogDiscipline`: a
probe `ev(i, c)` appends `i`, returning or raising; no other primitive touches the log)
and every expression tree without general call nodes: the probe positions logged by
evaluating `e` are a sub-sequence of `order e`, the reference's left-to-right order
(operands left to right, test before branches, dict values before keys, nothing from a
lambda body).  A sub-sequence and not the whole list because short-circuits, untaken
branches and exceptions cut evaluation off.
EXCLUDED (hence `_partial`): trees containing general `call` nodes – a call may log
arbitrarily (the probe itself is a call of `ev`); for those the callee-then-arguments
order is `compE_correct` + the definition of `evalE`. -/
theorem evalE_order_partial (hL : LogDiscipline P logOf) (e : Expr) (hn : NoCall e) (w : W) :
    ∃ l, logOf (evalE P e w).world = logOf w ++ l ∧ l.Sublist (order e) :=
  extE P hL e w hn

/-- … so if the probes carry distinct positions, each is evaluated AT MOST ONCE -/
theorem evalE_at_most_once (hL : LogDiscipline P logOf) (e : Expr) (hn : NoCall e) (w : W)
    (hd : (order e).Nodup) :
    ∃ l, logOf (evalE P e w).world = logOf w ++ l ∧ l.Nodup := by
  obtain ⟨l, h1, h2⟩ := extE P hL e w hn
  exact ⟨l, h1, h2.nodup hd⟩

/-- **Exactly once.**  For straight-line trees (no BoolOp, no comparison CHAIN, no IfExp, no
general call – nothing that may legitimately skip an operand): a successful evaluation logs
exactly `order e` (every probe, once, in order) and an evaluation that raises logs a prefix
of it (nothing after the raising operand is evaluated). -/
theorem evalE_order_exact (hL : LogDiscipline P logOf) (e : Expr) (hs : Straight e) (w : W) :
    match evalE P e w with
    | .ok _ w' => logOf w' = logOf w ++ order e
    | .err _ w' => ∃ l, logOf w' = logOf w ++ l ∧ l <+: order e := by
  have h := extXE P hL e w hs
  cases hr : evalE P e w with
  | ok v w' => rw [hr] at h; exact h
  | err x w' => rw [hr] at h; exact h

/-- non-vacuity: `(ev(1,…) - ev(2,…)) * c1[ev(3,…)]`-like tree is straight -/
example : Straight (.binop .mul (.binop .sub (.atom 1 (.int 2)) (.atom 2 (.int 3)))
    (.subscript (.name "c1") (.atom 3 (.int 5)))) := by
  simp [Straight]

/-- **Order, one list-valued statement covering the short-circuit forms.**  `paths e` is the finite
set of branch paths of `e` (one per choice of: where each `and`/`or` stops, where each comparison
chain stops, which arm of each conditional runs); by `paths_sublist_order` each path is a
sub-sequence of the reference order `order e`, i.e. it lists the probes that are not cut off,
each once, in order.  For every `Prims` with a probe log: a SUCCESSFUL evaluation logs EXACTLY one
of the paths of `e` (so every probe not cut off by a taken short-circuit / untaken arm is evaluated
exactly once, in order), and an evaluation that RAISES logs a PREFIX of one (nothing after the
raising operand).  Covers BoolOp, comparison chains, IfExp, function definitions with defaults,
3-bound slices, keyword/`*`/`**` calls.
EXCLUDED (hence `_partial`): call nodes whose callee is not a plain name from `qn`, a set of names
bound to functions that leave the probe log alone (`callQ`, `callExQ`): a call of an arbitrary
callee (a lambda with probes in its body, `ev` itself written as a general call) may log anything;
for those the callee-then-arguments order is `compE_correct` + the definition of `evalE`. -/
theorem evalE_order_paths_partial {qn : String → Prop} (hL : LogDisciplineQ P logOf qn) (e : Expr)
    (hq : QCalls qn e) (w : W) :
    match evalE P e w with
    | .ok _ w' => ∃ p ∈ paths e, logOf w' = logOf w ++ p
    | .err _ w' => ∃ p ∈ paths e, ∃ l, l <+: p ∧ logOf w' = logOf w ++ l := by
  have h := pE P hL e w hq
  cases hr : evalE P e w with
  | ok v w' => rw [hr] at h; exact h
  | err x w' => rw [hr] at h; exact h

/-- every branch path is a sub-sequence of the reference order (so `evalE_order_paths_partial`
implies the "in order, none twice" statement, now also for trees with calls of quiet names) -/
theorem paths_in_order (e : Expr) (p : List Nat) (hp : p ∈ paths e) : p.Sublist (order e) :=
  paths_sublist_order e p hp

/-- … and a straight-line tree has exactly ONE path, the whole reference order: on those trees
`evalE_order_paths_partial` is `evalE_order_exact` -/
theorem paths_of_straight (e : Expr) (hs : Straight e) : paths e = [order e] :=
  paths_straight e hs

/-- the VM inherits it -/
theorem vm_order_paths_partial {qn : String → Prop} (hL : LogDisciplineQ P logOf qn) (e : Expr)
    (hq : QCalls qn e) (pre k : List Instr) (s : List V) (w : W) :
    ∃ p ∈ paths e,
      ((∃ v w' n, logOf w' = logOf w ++ p ∧ ∀ m, run P (pre ++ compE e pre.length ++ k) (n + m) pre.length s w
          = run P (pre ++ compE e pre.length ++ k) m (pre.length + size e) (v :: s) w') ∨
       (∃ x w' n l, l <+: p ∧ logOf w' = logOf w ++ l ∧
          ∀ m, run P (pre ++ compE e pre.length ++ k) (n + 1 + m) pre.length s w = .exc x w')) := by
  have h := evalE_order_paths_partial P logOf hL e hq w
  have hc := compE_correct P e pre k s w
  simp only at hc
  cases hr : evalE P e w with
  | ok v w' =>
    rw [hr] at hc h
    obtain ⟨n, hn'⟩ := hc
    obtain ⟨p, hp, e1⟩ := h
    exact ⟨p, hp, Or.inl ⟨v, w', n, e1, hn'⟩⟩
  | err x w' =>
    rw [hr] at hc h
    obtain ⟨n, hn'⟩ := hc
    obtain ⟨p, hp, l, hl, e1⟩ := h
    exact ⟨p, hp, Or.inr ⟨x, w', n, l, hl, e1, hn'⟩⟩

/-- non-vacuity: `ev(1,…) or h(ev(2,…), q=ev(3,…), *ev(4,…)) if ev(5,…) else lambda a=ev(6,…), *, k=ev(7,…): a` -/
example : QCalls (fun n => n ≠ "ev")
    (.boolop true (.atom 1 (.int 0)) (.cons (.ifexp (.atom 5 (.int 1))
      (.callx (.name "h") (.cons (.atom 2 (.int 1)) .nil) (.cons "q" (.atom 3 (.int 1)) .nil) (.some (.atom 4 (.int 1))) .none)
      (.lambda { pos := ["a"], kwonly := ["k"] } (.cons (.atom 6 (.int 1)) .nil) (.cons "k" (.atom 7 (.int 1)) .nil) (.name "a"))) .nil)) := by
  simp [QCalls, QCallsEs, QCallsKWs, QCallsOpt, isQName]

/-- test: the paths of that tree: `or` stops after 1; or 1, test 5, then the call's operands 2,3,4
(keyword value before the `*` expression) or the lambda's defaults 6,7 (positional before keyword-only) -/
example : paths
    (.boolop true (.atom 1 (.int 0)) (.cons (.ifexp (.atom 5 (.int 1))
      (.callx (.name "h") (.cons (.atom 2 (.int 1)) .nil) (.cons "q" (.atom 3 (.int 1)) .nil) (.some (.atom 4 (.int 1))) .none)
      (.lambda { pos := ["a"], kwonly := ["k"] } (.cons (.atom 6 (.int 1)) .nil) (.cons "k" (.atom 7 (.int 1)) .nil) (.name "a"))) .nil))
    = [[1], [1, 5, 2, 3, 4], [1, 5, 6, 7]] := by
  decide

/-- the VM inherits it: the world in which the compiled code arrives (or raises) is the
reference's world, hence its log is ordered the same way -/
theorem vm_order_partial (hL : LogDiscipline P logOf) (e : Expr) (hn : NoCall e)
    (pre k : List Instr) (s : List V) (w : W) :
    ∃ l, l.Sublist (order e) ∧
      ((∃ v w' n, logOf w' = logOf w ++ l ∧ ∀ m, run P (pre ++ compE e pre.length ++ k) (n + m) pre.length s w
          = run P (pre ++ compE e pre.length ++ k) m (pre.length + size e) (v :: s) w') ∨
       (∃ x w' n, logOf w' = logOf w ++ l ∧ ∀ m, run P (pre ++ compE e pre.length ++ k) (n + 1 + m) pre.length s w
          = .exc x w')) := by
  obtain ⟨l, h1, h2⟩ := extE P hL e w hn
  refine ⟨l, h2, ?_⟩
  have hc := compE_correct P e pre k s w
  simp only at hc
  cases hr : evalE P e w with
  | ok v w' =>
    rw [hr] at hc h1
    obtain ⟨n, hn'⟩ := hc
    exact Or.inl ⟨v, w', n, h1, hn'⟩
  | err x w' =>
    rw [hr] at hc h1
    obtain ⟨n, hn'⟩ := hc
    exact Or.inr ⟨x, w', n, h1, hn'⟩

end

/-! ## operator dispatch (py/arithmetic.go) -/

namespace Dispatch
variable {R E : Type}

/-- `py.Add` … `py.Pow`: `a.__op__(b)`, then `b.__rop__(a)` iff the types differ and the first
answered NotImplemented (or is absent); an exception from either method propagates.
EXCLUDED (`subPrio`): Python tries the reflected method FIRST when type(b) is a proper
subclass of type(a) overriding it; arithmetic.go never does. -/
theorem dispatch_spec_partial (aFwd bRefl : Option (MRes R E)) (sameTy : Bool) :
    binop aFwd bRefl sameTy = specBinop false aFwd bRefl sameTy := by
  cases sameTy <;> (cases aFwd with
    | none => cases bRefl with
      | none => rfl
      | some r => cases r <;> rfl
    | some a => cases a with
      | notImpl => cases bRefl with
        | none => rfl
        | some r => cases r <;> rfl
      | val v => rfl
      | err e => rfl)

/-- the excluded region is a real difference: `b`'s overriding `__radd__` would win in Python -/
theorem dispatch_subclass_witness :
    binop (R := Nat) (E := Unit) (some (.val 1)) (some (.val 2)) false
      ≠ specBinop true (some (.val 1)) (some (.val 2)) false := by
  decide

/-- in-place operators fall back to the binary protocol -/
theorem inplace_dispatch_spec_partial (aIop aFwd bRefl : Option (MRes R E)) (sameTy : Bool) :
    inplace aIop aFwd bRefl sameTy = specInplace false aIop aFwd bRefl sameTy := by
  cases aIop with
  | none => simp [inplace, specInplace, firstImplemented, dispatch_spec_partial]
  | some r => cases r <;> simp [inplace, specInplace, firstImplemented, dispatch_spec_partial]

/-- ordering comparisons use the swapped operator of the other operand, whatever the types -/
theorem richcmp_dispatch_spec_partial (aFwd bSwap : Option (MRes R E)) :
    richcmp aFwd bSwap = specRichcmp false aFwd bSwap := by
  cases aFwd with
  | none => cases bSwap with
    | none => rfl
    | some r => cases r <;> rfl
  | some a => cases a with
    | notImpl => cases bSwap with
      | none => rfl
      | some r => cases r <;> rfl
    | val v => rfl
    | err e => rfl

/-- `==`: equal to Python's protocol unless both sides answer NotImplemented for two
DISTINCT-or-identical objects of the SAME type (then gpython raises TypeError where Python
compares identities); never reached for builtin types, which all implement `__eq__`. -/
theorem eq_dispatch_spec_partial (aFwd bSwap : Option (MRes R E)) (sameTy identical : Bool)
    (true_ false_ : R) (hid : identical = true → sameTy = true)
    (hex : ¬ (sameTy = true ∧ richcmp aFwd bSwap = .typeError)) :
    eq aFwd bSwap sameTy false_ = specEq false aFwd bSwap identical true_ false_ := by
  rw [eq, specEq, ← richcmp_dispatch_spec_partial]
  cases hr : richcmp aFwd bSwap with
  | val v => rfl
  | err e => rfl
  | typeError =>
    cases sameTy with
    | true => exact absurd ⟨rfl, hr⟩ hex
    | false =>
      cases identical with
      | true => exact absurd (hid rfl) (by simp)
      | false => rfl

theorem eq_sametype_witness :
    eq (R := Bool) (E := Unit) (some .notImpl) (some .notImpl) true false
      ≠ specEq false (some .notImpl) (some .notImpl) true true false := by
  decide

end Dispatch

/-! ## non-vacuity: a concrete nested compare / boolop / augmented-assignment program -/

/-- a tiny instance: values are integers, the world is the list of probe positions -/
def demoP : Prims Int String (List Int) where
  const c := match c with | .int i => i | _ => 0
  loadName _ := fun w => .ok 0 w
  storeName _ _ := fun w => .ok () w
  binop _ a b := fun w => .ok (a + b) w
  inplace _ a b := fun w => .ok (a + b) w
  unop _ a := fun w => .ok (-a) w
  compare _ a b := fun w => .ok (if a < b then 1 else 0) w
  truth v := fun w => .ok (v != 0) w
  getitem a _ := fun w => .ok a w
  setitem _ _ _ := fun w => .ok () w
  getattr a _ := fun w => .ok a w
  setattr _ _ _ := fun w => .ok () w
  call _ args := fun w => match args with
    | [i, v] => .ok v (w ++ [i])     -- `ev(i, v)`: log i, yield v
    | _ => .ok 0 w
  mkTuple _ := fun w => .ok 0 w
  mkList _ := fun w => .ok 0 w
  mkSet _ := fun w => .ok 0 w
  mkSlice _ _ := fun w => .ok 0 w
  mkSlice3 _ _ _ := fun w => .ok 0 w
  newDict := fun w => .ok 0 w
  dictSet _ _ _ := fun w => .ok () w
  codeObj _ _ _ := 0
  mkFunction _ _ _ _ := fun w => .ok 0 w
  unpack n _ := fun w => .ok (List.replicate n 0) w
  unpackEx b a _ := fun w => .ok (List.replicate (b + 1 + a) 0) w
  callEx _ args _ _ _ := fun w => .ok (Int.ofNat args.length) w
  delName _ := fun w => .ok () w
  delitem _ _ := fun w => .ok () w
  delattr _ _ := fun w => .ok () w
  loadFast _ := fun w => .ok 1 w
  loadGlobal _ := fun w => .ok 0 w

theorem demo_unpackLen : UnpackLen demoP := by
  constructor
  · intro n v w vs w' h
    simp only [demoP] at h
    cases h
    simp
  · intro b a v w vs w' h
    simp only [demoP] at h
    cases h
    simp

/-- non-vacuity of `LogDiscipline`: the demo instance keeps a probe log -/
theorem demo_logDiscipline : LogDiscipline demoP (fun w => w.map Int.toNat) := by
  constructor <;> intros <;> simp [demoP, Prims.atom, M.bind, Res.world]

/-- a second tiny instance in which only the callee `ev` logs (general calls of other names are quiet) -/
def demoQ : Prims Int String (List Int) :=
  { demoP with
    loadName := fun n w => .ok (if n == "ev" then 1 else 0) w
    call := fun f args w => match f, args with
      | 1, [i, v] => .ok v (w ++ [i])
      | _, _ => .ok 0 w }

/-- non-vacuity of `LogDisciplineQ` (every name except `ev` is quiet) -/
theorem demo_logDisciplineQ : LogDisciplineQ demoQ (fun w => w.map Int.toNat) (fun n => n ≠ "ev") := by
  refine { toLogDiscipline := ?_, callQ := ?_, callExQ := ?_ }
  · constructor <;> intros <;> simp [demoQ, demoP, Prims.atom, M.bind, Res.world]
  · intro n hn w v w1 h vs w2
    simp only [demoQ] at h
    have hv : v = 0 := by
      have : (n == "ev") = false := by simpa using hn
      simp [this] at h; exact h.1.symm
    subst hv
    simp [demoQ, Res.world]
  · intro n hn w v w1 h vs ks sv dv w2
    simp [demoQ, demoP, Res.world]

/-- non-vacuity of the hypotheses of `evalE_order_partial` at a nested compare/boolop/ifexp term -/
example : NoCall (.boolop true (.compare (.atom 1 (.int 1)) (.more .lt (.atom 2 (.int 5)) (.one .lt (.atom 3 (.int 3)))))
        (.cons (.ifexp (.atom 5 (.int 0)) (.atom 4 (.int 7)) (.atom 6 (.int 8))) .nil)) := by
  simp [NoCall, NoCalls, NoCallTail]

def demoProg : List Stmt :=
  [ .assign (.name "r") .nil
      (.boolop true (.compare (.atom 1 (.int 1)) (.more .lt (.atom 2 (.int 5)) (.one .lt (.atom 3 (.int 3)))))
        (.cons (.ifexp (.atom 5 (.int 0)) (.atom 4 (.int 7)) (.atom 6 (.int 8))) .nil)),
    .aug (.subscr (.atom 7 (.int 1)) (.atom 8 (.int 2))) .add (.atom 9 (.int 3)) ]

/-- test (not a theorem about all inputs): the reference logs 1,2,3 (chain: 1<5 true, 5<3
false ⇒ `or` continues), 5 (ifexp test, falsy), 6 (else branch; 4 never), then 7,8,9 -/
example : (match execProg demoP demoProg [] with | .ok _ w => w | .err _ w => w) = [1, 2, 3, 5, 6, 7, 8, 9] := by
  decide

/-- test: the model VM on the compiled module does the same -/
example : (match run demoP (compProg demoProg) 200 0 [] [] with | .ret _ w => w | _ => []) = [1, 2, 3, 5, 6, 7, 8, 9] := by
  decide


/-! ## third round: the value of `is` / `is not` (object identity)

`Ident.objectIs` = vm/eval.go `objectIs` on the representations (Go slice headers into shared
backing arrays, map / object pointers, comparable values); `Ident.run ops` = the heap after any
sequence of the value-creating operations of the fragment (`make`+fill, step-1 sub-slice, alias,
new mutable object, scalar); `Ident.specIs` = Python's three-valued definition of identity. -/

/-- **`is` is Python's identity** in every reachable heap, for every pair of live references:
wherever the language reference defines the value of `a is b` (same object ⇒ True; distinct
creation events of which one is mutable ⇒ False; different type or value ⇒ False), the
implementation's `objectIs` yields that value.  (Where the reference leaves the answer open – two
immutable objects of separate creation events with equal type and value, e.g. `t[:] is t`,
`t[1:] is t[1:]`, `() is ()`, `5 is 2+3` – there is nothing to prove.) -/
theorem is_spec {α : Type} [DecidableEq α] (ops : List (Ident.Op α)) (a b : Ident.Ref α)
    (ha : a ∈ (Ident.run ops).live) (hb : b ∈ (Ident.run ops).live) (v : Bool)
    (hs : Ident.specIs a.obj b.obj = some v) : Ident.objectIs a.rep b.rep = v :=
  Ident.is_spec_inv (Ident.inv_run ops) ha hb hs

/-- **identity implies equality**: two references the implementation calls identical denote objects
of one type with one value – structurally equal item lists, so `==` holds whenever `==` is
reflexive on the items (no NaN). -/
theorem is_implies_eq {α : Type} (ops : List (Ident.Op α)) (a b : Ident.Ref α)
    (ha : a ∈ (Ident.run ops).live) (hb : b ∈ (Ident.run ops).live)
    (h : Ident.objectIs a.rep b.rep = true) : a.obj.ty = b.obj.ty ∧ a.obj.val = b.obj.val :=
  let r := Ident.is_implies_eq_inv (Ident.inv_run ops) ha hb h
  ⟨r.1, r.2.1⟩

/-- **`is not` is the negation** of `is`, in the implementation (`do_COMPARE_OP`, PyCmp_IS_NOT) and in the reference -/
theorem is_not_spec {α : Type} [DecidableEq α] (ops : List (Ident.Op α)) (a b : Ident.Ref α)
    (ha : a ∈ (Ident.run ops).live) (hb : b ∈ (Ident.run ops).live) (v : Bool)
    (hs : Ident.specIsNot a.obj b.obj = some v) : Ident.objectIsNot a.rep b.rep = v :=
  Ident.is_not_spec_inv (Ident.inv_run ops) ha hb hs

theorem is_not_negation (a b : Ident.Rep) : Ident.objectIsNot a b = !Ident.objectIs a b := rfl

/-- an object is itself (the same name read twice, an alias): holds for every representation of the
model – floats, where Go's `==` is not reflexive, are compared by bits since the fix commit -/
theorem is_reflexive (a : Ident.Rep) : Ident.objectIs a a = true := Ident.objectIs_refl a

/-- **chained identity** `a is b is c`: the instance of `compare_chain_once` – `b` is evaluated once,
so both comparisons see the SAME reference to `b` -/
theorem is_chain {V X W : Type} (P : Prims V X W) (a b c : Expr) (op1 op2 : CmpOp) :
    evalE P (.compare a (.more op1 b (.one op2 c)))
      = M.bind (evalE P a) fun va => M.bind (evalE P b) fun vb =>
        M.bind (P.compare op1 va vb) fun r => M.bind (P.truth r) fun t =>
          if t then M.bind (evalE P c) fun vc => P.compare op2 vb vc else M.pure r :=
  compare_chain_once P a b c op1 op2

/-- non-vacuity / tests (by `decide`, concrete heap): `t = (1, 2, 3)`, `p = t[0:2]`, `w = t[0:3]`,
`u = t` (alias), `e1 = t[3:3]`, `e2 = t[0:0]`, `l = [..]`, `q = t[1:3][0:1]`, `n = make 0` -/
def identDemo : List (Ident.Ref Nat) :=
  (Ident.run [.mkSeq .tuple [1, 2, 3], .slice 0 0 2, .slice 1 0 3, .alias 2, .slice 3 3 3, .slice 4 0 0,
              .mkBox false .list, .slice 6 1 3, .slice 0 0 1, .mkSeq .tuple []]).live.reverse

/-- `t[0:2] is t`: the reference says False (different value); the data pointers ARE equal, only the
length distinguishes them – the length test of `objectIs` is what makes this False -/
example : (match identDemo[0]?, identDemo[1]? with
    | some t, some p => (Ident.specIs t.obj p.obj, Ident.objectIs p.rep t.rep,
        match p.rep, t.rep with | .slice _ x, .slice _ y => x.base == y.base && x.poff == y.poff | _, _ => false)
    | _, _ => (none, true, false)) = (some false, false, true) := by decide

/-- `t[0:3] is t` is left to the implementation (True here: same pointer, same length); the alias `u is t`
must be True; the list is only identical to itself -/
example : (match identDemo[0]?, identDemo[2]?, identDemo[3]? with
    | some t, some w, some u =>
        (Ident.specIs w.obj t.obj, Ident.objectIs w.rep t.rep, Ident.specIs u.obj t.obj, Ident.objectIs u.rep t.rep)
    | _, _, _ => (none, false, none, false)) = (none, true, some true, true) := by decide

example : (match identDemo[0]?, identDemo[6]? with
    | some t, some l => (Ident.specIs l.obj l.obj, Ident.specIs l.obj t.obj, Ident.objectIs l.rep t.rep)
    | _, _ => (none, none, true)) = (some true, some false, false) := by decide

/-- `t[3:3] is t[0:0]` (True: the Go compiler does not advance the pointer when the new capacity is 0),
`t[0:0] is ()` (False: `()` lives at runtime.zerobase) -/
example : (match identDemo[4]?, identDemo[5]?, identDemo[9]? with
    | some e1, some e2, some n => (Ident.objectIs e1.rep e2.rep, Ident.objectIs e2.rep n.rep, Ident.specIs e1.obj e2.obj)
    | _, _, _ => (false, true, some true)) = (true, false, none) := by decide


/-! ## third round: the opcode handlers the model was transliterated from, pinned to the source

`Generated.stackOps` is rewritten from vm/eval.go of the working tree by extract/stackops before every
proof build (one row per handler: its value-stack operations and py calls in source order, locals
renamed in binding order); `HandlerFacts.expected` are the rows `Model.exec` was written from.  The
equality is checked by the kernel (`rfl` on the two literal tables; `decide` on `String` does not
reduce in this Lean version), so a reordering of pops or a swap of operand roles in any of the 83
handlers / stack macros breaks this obligation even when no generated program distinguishes it. -/
theorem handler_table_pinned : Generated.stackOps = HandlerFacts.expected := rfl

theorem handler_table_size : Generated.stackOps.length = 83 := by decide

end GPy.C01
