/-
C01: the structural induction behind `compE_correct`: for every expression tree,
every `Prims`, every code list that contains the compiled fragment, every stack
and world, VM execution of the fragment simulates the reference evaluation.
-/
import GPy.C01.Proofs
namespace GPy.C01

section
variable {V X W : Type} (P : Prims V X W)

/-- `evalEs` yields one value per expression -/
theorem evalEs_length : (es : Exprs) → ∀ {w : W} {vs : List V} {w' : W},
    evalEs P es w = .ok vs w' → vs.length = es.length
  | .nil, w, vs, w', h => by
    simp only [evalEs, M.pure] at h; cases h; rfl
  | .cons e es, w, vs, w', h => by
    simp only [evalEs, M.bind, M.pure] at h
    cases he : evalE P e w with
    | err x w1 => simp [he] at h
    | ok v w1 =>
      simp only [he] at h
      cases hes : evalEs P es w1 with
      | err x w2 => simp [hes] at h
      | ok vs' w2 =>
        simp only [hes] at h
        cases h
        simp [Exprs.length, evalEs_length es hes]

theorem take_rev_app {vs : List V} {n : Nat} (f : V) (s : List V) (h : vs.length = n) :
    ((vs.reverse ++ f :: s).take n).reverse = vs ∧ (vs.reverse ++ f :: s).drop n = f :: s := by
  subst h
  have : vs.length = vs.reverse.length := by simp
  constructor
  · rw [this, List.take_left']; simp; simp
  · rw [this, List.drop_left']; simp

theorem take_rev_app' {vs : List V} {n : Nat} (s : List V) (h : vs.length = n) :
    ((vs.reverse ++ s).take n).reverse = vs ∧ (vs.reverse ++ s).drop n = s := by
  subst h
  have : vs.length = vs.reverse.length := by simp
  constructor
  · rw [this, List.take_left']; simp; simp
  · rw [this, List.drop_left']; simp

theorem exec_call {vs : List V} {n pc : Nat} {f : V} {s : List V} {w : W} (h : vs.length = n) :
    exec P (.CALL_FUNCTION n) pc (vs.reverse ++ f :: s) w = push pc s (P.call f vs w) := by
  obtain ⟨h1, h2⟩ := take_rev_app f s h
  have hl : n + 1 ≤ (vs.reverse ++ f :: s).length := by simp; omega
  simp only [exec, hl, if_true, h1, h2]

theorem exec_tuple {vs : List V} {n pc : Nat} {s : List V} {w : W} (h : vs.length = n) :
    exec P (.BUILD_TUPLE n) pc (vs.reverse ++ s) w = push pc s (P.mkTuple vs w) := by
  obtain ⟨h1, h2⟩ := take_rev_app' s h
  have hl : n ≤ (vs.reverse ++ s).length := by simp; omega
  simp only [exec, hl, if_true, h1, h2]

theorem exec_list {vs : List V} {n pc : Nat} {s : List V} {w : W} (h : vs.length = n) :
    exec P (.BUILD_LIST n) pc (vs.reverse ++ s) w = push pc s (P.mkList vs w) := by
  obtain ⟨h1, h2⟩ := take_rev_app' s h
  have hl : n ≤ (vs.reverse ++ s).length := by simp; omega
  simp only [exec, hl, if_true, h1, h2]

theorem exec_set {vs : List V} {n pc : Nat} {s : List V} {w : W} (h : vs.length = n) :
    exec P (.BUILD_SET n) pc (vs.reverse ++ s) w = push pc s (P.mkSet vs w) := by
  obtain ⟨h1, h2⟩ := take_rev_app' s h
  have hl : n ≤ (vs.reverse ++ s).length := by simp; omega
  simp only [exec, hl, if_true, h1, h2]

/-- the name/value pairs as they lie on the stack, deepest first -/
def flat : List (V × V) → List V
  | [] => []
  | (k, v) :: r => k :: v :: flat r

theorem flat_length : (kvs : List (V × V)) → (flat kvs).length = 2 * kvs.length
  | [] => rfl
  | (k, v) :: r => by simp [flat, flat_length r]; omega

theorem pairs_flat : (kvs : List (V × V)) → pairs (flat kvs) = kvs
  | [] => rfl
  | (k, v) :: r => by simp [flat, pairs, pairs_flat r]

theorem take_app_len {l r : List V} {n : Nat} (h : l.length = n) :
    (l ++ r).take n = l ∧ (l ++ r).drop n = r := by
  subst h; exact ⟨List.take_left' rfl, List.drop_left' rfl⟩

theorem exec_mkfn {dvs : List V} {kvs : List (V × V)} {np nk pc : Nat} {q c : V} {s : List V} {w : W}
    (h1 : dvs.length = np) (h2 : kvs.length = nk) :
    exec P (.MAKE_FUNCTION np nk) pc (q :: c :: ((flat kvs).reverse ++ (dvs.reverse ++ s))) w
      = push pc s (P.mkFunction c q dvs kvs w) := by
  have hk : (flat kvs).reverse.length = 2 * nk := by simp [flat_length, h2]
  have hd : dvs.reverse.length = np := by simp [h1]
  obtain ⟨t1, d1⟩ := take_app_len (r := dvs.reverse ++ s) hk
  obtain ⟨t2, d2⟩ := take_app_len (r := s) hd
  have hl : 2 * nk + np ≤ ((flat kvs).reverse ++ (dvs.reverse ++ s)).length := by
    simp [flat_length, h1, h2] <;> omega
  simp only [exec, hl, if_true, t1, d1, t2, d2, List.reverse_reverse, pairs_flat]

theorem evalKWs_length : (kws : KWs) → ∀ {w : W} {kvs : List (V × V)} {w' : W},
    evalKWs P kws w = .ok kvs w' → kvs.length = kws.length
  | .nil, w, kvs, w', h => by
    simp only [evalKWs, M.pure] at h; cases h; rfl
  | .cons n e rest, w, kvs, w', h => by
    simp only [evalKWs, M.bind, M.pure] at h
    cases he : evalE P e w with
    | err x w1 => simp [he] at h
    | ok v w1 =>
      simp only [he] at h
      cases hes : evalKWs P rest w1 with
      | err x w2 => simp [hes] at h
      | ok vs' w2 =>
        simp only [hes] at h
        cases h
        simp [KWs.length, evalKWs_length rest hes]

theorem evalOpt_isSome : (o : OptE) → ∀ {w : W} {ov : Option V} {w' : W},
    evalOpt P o w = .ok ov w' → ov.isSome = o.isSome
  | .none, w, ov, w', h => by
    simp only [evalOpt, M.pure] at h; cases h; rfl
  | .some e, w, ov, w', h => by
    simp only [evalOpt, M.bind, M.pure] at h
    cases he : evalE P e w with
    | err x w1 => simp [he] at h
    | ok v w1 => simp only [he] at h; cases h; rfl

theorem popIf_toList (ov : Option V) (r : List V) : popIf ov.isSome (ov.toList ++ r) = some (ov, r) := by
  cases ov <;> simp [popIf]

theorem exec_callx {vs : List V} {ks : List (V × V)} {sv dv : Option V} {na nk pc : Nat} {f : V}
    {s : List V} {w : W} {st ds : Bool}
    (h1 : vs.length = na) (h2 : ks.length = nk) (h3 : sv.isSome = st) (h4 : dv.isSome = ds) :
    exec P (.CALL_FUNCTION_EX na nk st ds) pc
        (dv.toList ++ (sv.toList ++ ((flat ks).reverse ++ (vs.reverse ++ f :: s)))) w
      = push pc s (P.callEx f vs ks sv dv w) := by
  subst h3 h4
  have hk : (flat ks).reverse.length = 2 * nk := by simp [flat_length, h2]
  have hd : vs.reverse.length = na := by simp [h1]
  obtain ⟨t1, d1⟩ := take_app_len (r := vs.reverse ++ f :: s) hk
  obtain ⟨t2, d2⟩ := take_app_len (r := f :: s) hd
  have hl : 2 * nk + na + 1 ≤ ((flat ks).reverse ++ (vs.reverse ++ f :: s)).length := by
    simp [flat_length, h1, h2]; omega
  simp only [exec, popIf_toList, hl, if_true, t1, d1, t2, d2, List.reverse_reverse, pairs_flat]

mutual
theorem simE (e : Expr) (code : List Instr) (pc : Nat) (s : List V) (w : W)
    (hc : CodeAt code pc (compE e pc)) :
    Sim P code pc s w (evalE P e w) (fun v => (pc + size e, v :: s)) := by
  cases e with
  | atom i c =>
    simp only [compE] at hc
    obtain ⟨h0, hc⟩ := hc.cons
    obtain ⟨h1, hc⟩ := hc.cons
    obtain ⟨h2, hc⟩ := hc.cons
    obtain ⟨h3, _⟩ := hc.cons
    simp only [evalE, Prims.atom, size]
    refine Sim.bind P (Sim.push P h0 rfl rfl) ?_
    intro f w1 _
    refine Sim.star_left P (Star.trans P (Star.instr P h1 rfl) (Star.instr P h2 rfl)) ?_
    exact Sim.push P h3 rfl rfl
  | const c =>
    simp only [compE] at hc
    simp only [evalE, size]
    refine Sim.star_left P (Star.instr P hc.head rfl) ?_
    exact Sim.pure P _ _ rfl
  | name n =>
    simp only [compE] at hc
    simp only [evalE, size]
    exact Sim.push P hc.head rfl rfl
  | binop op a b =>
    simp only [compE] at hc
    obtain ⟨hab, hi⟩ := hc.split (n := size a + size b) (by simp [length_compE] <;> omega)
    obtain ⟨ha, hb⟩ := hab.split (length_compE a pc)
    simp only [evalE, size]
    refine Sim.bind P (simE a code pc s w ha) ?_
    intro va w1 _
    refine Sim.bind P (simE b code _ _ w1 hb) ?_
    intro vb w2 _
    exact Sim.push P (by simpa [Nat.add_assoc] using hi.head) rfl (by simp only []; omega)
  | unop op a =>
    simp only [compE] at hc
    obtain ⟨ha, hi⟩ := hc.split (length_compE a pc)
    simp only [evalE, size]
    refine Sim.bind P (simE a code pc s w ha) ?_
    intro va w1 _
    exact Sim.push P hi.head rfl rfl
  | boolop isOr a rest =>
    simp only [compE] at hc
    obtain ⟨ha, hr⟩ := hc.split (length_compE a pc)
    simp only [evalE, size]
    refine Sim.bind P (simE a code pc s w ha) ?_
    intro va w1 _
    exact Sim.congr_k P
      (simBool isOr rest code (pc + size a) (pc + size a + sizeBool rest) s va w1 hr rfl)
      (by intro; simp [Nat.add_assoc])
  | compare a rest =>
    cases rest with
    | one op e =>
      simp only [compE] at hc
      obtain ⟨hab, hi⟩ := hc.split (n := size a + size e) (by simp [length_compE] <;> omega)
      obtain ⟨ha, he⟩ := hab.split (length_compE a pc)
      simp only [evalE, evalCmp, size]
      refine Sim.bind P (simE a code pc s w ha) ?_
      intro va w1 _
      refine Sim.bind P (simE e code _ _ w1 he) ?_
      intro vb w2 _
      exact Sim.push P (hi.head' (by omega)) rfl (by simp only []; omega)
    | more op e rest =>
      simp only [compE] at hc
      obtain ⟨hat, hclean⟩ := hc.split (n := size a + sizeTail (.more op e rest))
        (by simp [length_compE, length_compTail])
      obtain ⟨ha, ht⟩ := hat.split (length_compE a pc)
      obtain ⟨hjf, hclean⟩ := hclean.cons
      obtain ⟨hrot, hclean⟩ := hclean.cons
      obtain ⟨hpop, _⟩ := hclean.cons
      simp only [evalE, size]
      refine Sim.bind P (simE a code pc s w ha) ?_
      intro va w1 _
      refine Sim.congr_k P
        (simTail (.more op e rest) code (pc + size a)
          (pc + size a + sizeTail (.more op e rest) + 1)
          (pc + size a + sizeTail (.more op e rest) + 1 + 2) s va w1 ht ?_ ?_) ?_
      · intro c r w'
        exact Star.trans P (Star.instr P (idx_at hrot (by omega)) rfl)
          (Star.instr P (idx_at hpop (by omega)) rfl)
      · intro c w'
        exact Star.instr P (idx_at hjf (by omega)) rfl
      · intro v; simp only [Prod.mk.injEq, and_true]; omega
  | ifexp t b o =>
    simp only [compE] at hc
    obtain ⟨h1, ho⟩ := hc.split (n := size t + 1 + size b + 1) (by simp [length_compE] <;> omega)
    obtain ⟨h2, hjf⟩ := h1.split (n := size t + 1 + size b) (by simp [length_compE] <;> omega)
    obtain ⟨h3, hb⟩ := h2.split (n := size t + 1) (by simp [length_compE] <;> omega)
    obtain ⟨ht, hpj⟩ := h3.split (length_compE t pc)
    simp only [evalE, size]
    refine Sim.bind P (simE t code pc s w ht) ?_
    intro vt w1 _
    refine Sim.bind P
      (k1 := fun c => if c then (pc + size t + 1, s) else (pc + size t + 1 + size b + 1, s)) ?_ ?_
    · apply Sim.instr P hpj.head
      cases h : P.truth vt w1 with
      | ok c w' => cases c <;> simp [exec, h]
      | err x w' => simp [exec, h]
    · intro c w2 _
      cases c with
      | true =>
        refine Sim.congr_k P (Sim.star_right P
          (k' := fun v => (pc + size t + 1 + size b + 1 + size o, v :: s))
          (simE b code (pc + size t + 1) s w2 (hb.at (by omega))) ?_) ?_
        · intro v w' _
          exact Star.instr P (hjf.at (by omega)).head rfl
        · intro v; simp only [Prod.mk.injEq, and_true]; omega
      | false =>
        exact Sim.congr_k P (simE o code (pc + size t + 1 + size b + 1) s w2 (ho.at (by omega)))
          (by intro v; simp only [Prod.mk.injEq, and_true]; omega)
  | subscript a i =>
    simp only [compE] at hc
    obtain ⟨hab, hi⟩ := hc.split (n := size a + size i) (by simp [length_compE] <;> omega)
    obtain ⟨ha, hb⟩ := hab.split (length_compE a pc)
    simp only [evalE, size]
    refine Sim.bind P (simE a code pc s w ha) ?_
    intro va w1 _
    refine Sim.bind P (simE i code _ _ w1 hb) ?_
    intro vb w2 _
    exact Sim.push P (hi.head' (by omega)) rfl (by simp only []; omega)
  | slice2 a lo hi =>
    simp only [compE] at hc
    obtain ⟨h1, h2⟩ := hc.split (n := size a + size lo + size hi) (by simp [length_compE] <;> omega)
    obtain ⟨h3, hhi⟩ := h1.split (n := size a + size lo) (by simp [length_compE] <;> omega)
    obtain ⟨ha, hlo⟩ := h3.split (length_compE a pc)
    obtain ⟨hbs, h2⟩ := h2.cons
    simp only [evalE, size]
    refine Sim.bind P (simE a code pc s w ha) ?_
    intro va w1 _
    refine Sim.bind P (simE lo code _ _ w1 hlo) ?_
    intro vl w2 _
    refine Sim.bind P (simE hi code (pc + size a + size lo) _ w2 (hhi.at (by omega))) ?_
    intro vh w3 _
    refine Sim.bind P (Sim.push P (idx_at hbs (by omega)) rfl rfl) ?_
    intro sl w4 _
    exact Sim.push P (h2.at (by omega)).head rfl (by simp only []; omega)
  | attr a n =>
    simp only [compE] at hc
    obtain ⟨ha, hi⟩ := hc.split (length_compE a pc)
    simp only [evalE, size]
    refine Sim.bind P (simE a code pc s w ha) ?_
    intro va w1 _
    exact Sim.push P hi.head rfl rfl
  | call f args =>
    simp only [compE] at hc
    obtain ⟨hfa, hi⟩ := hc.split (n := size f + sizes args) (by simp [length_compE, length_compEs])
    obtain ⟨hf, hargs⟩ := hfa.split (length_compE f pc)
    simp only [evalE, size]
    refine Sim.bind P (simE f code pc s w hf) ?_
    intro vf w1 _
    refine Sim.bind P (simEs args code _ _ w1 hargs) ?_
    intro vs w2 hvs
    exact Sim.push P (hi.head' (by omega)) (exec_call P (evalEs_length P args hvs)) (by simp only []; omega)
  | tuple es =>
    simp only [compE] at hc
    obtain ⟨hes, hi⟩ := hc.split (length_compEs es pc)
    simp only [evalE, size]
    refine Sim.bind P (simEs es code pc s w hes) ?_
    intro vs w2 hvs
    exact Sim.push P hi.head (exec_tuple P (evalEs_length P es hvs)) rfl
  | list es =>
    simp only [compE] at hc
    obtain ⟨hes, hi⟩ := hc.split (length_compEs es pc)
    simp only [evalE, size]
    refine Sim.bind P (simEs es code pc s w hes) ?_
    intro vs w2 hvs
    exact Sim.push P hi.head (exec_list P (evalEs_length P es hvs)) rfl
  | set es =>
    simp only [compE] at hc
    obtain ⟨hes, hi⟩ := hc.split (length_compEs es pc)
    simp only [evalE, size]
    refine Sim.bind P (simEs es code pc s w hes) ?_
    intro vs w2 hvs
    exact Sim.push P hi.head (exec_set P (evalEs_length P es hvs)) rfl
  | dict kvs =>
    simp only [compE] at hc
    have hc' : CodeAt code pc (Instr.BUILD_MAP kvs.length :: compKVs kvs (pc + 1)) := by simpa using hc
    obtain ⟨hb, hk⟩ := hc'.cons
    simp only [evalE, size]
    refine Sim.bind P (Sim.push P hb rfl rfl) ?_
    intro d w1 _
    exact Sim.congr_k P (simKVs kvs code (pc + 1) s d w1 hk)
      (by intro v; simp only [Prod.mk.injEq, and_true]; omega)
  | lambda sg ds kds body =>
    simp only [compE] at hc
    obtain ⟨h1, h3⟩ := hc.split (n := sizes ds + sizeKWs kds) (by simp [length_compEs, length_compKWs])
    obtain ⟨hds, hkds⟩ := h1.split (length_compEs ds pc)
    obtain ⟨h0, h3⟩ := h3.cons
    obtain ⟨hq, h3⟩ := h3.cons
    obtain ⟨hm, _⟩ := h3.cons
    simp only [evalE, size]
    refine Sim.bind P (simEs ds code pc s w hds) ?_
    intro dvs w1 hdvs
    refine Sim.bind P (simKWs kds code _ _ w1 hkds) ?_
    intro kvs w2 hkvs
    refine Sim.star_left P (Star.trans P (Star.instr P (idx_at h0 (by omega)) rfl)
      (Star.instr P (idx_at hq (by omega)) rfl)) ?_
    exact Sim.push P (idx_at hm (by omega))
      (exec_mkfn P (evalEs_length P ds hdvs) (evalKWs_length P kds hkvs)) (by simp only []; omega)
  | slice3 lo hi st =>
    simp only [compE] at hc
    obtain ⟨h1, hb⟩ := hc.split (n := size lo + size hi + size st) (by simp [length_compE] <;> omega)
    obtain ⟨h2, hst⟩ := h1.split (n := size lo + size hi) (by simp [length_compE])
    obtain ⟨hlo, hhi⟩ := h2.split (length_compE lo pc)
    simp only [evalE, size]
    refine Sim.bind P (simE lo code pc s w hlo) ?_
    intro vl w1 _
    refine Sim.bind P (simE hi code _ _ w1 hhi) ?_
    intro vh w2 _
    refine Sim.bind P (simE st code (pc + size lo + size hi) _ w2 (hst.at (by omega))) ?_
    intro vs w3 _
    exact Sim.push P (hb.head' (by omega)) rfl (by simp only []; omega)
  | callx f args kws star dstar =>
    simp only [compE] at hc
    obtain ⟨h1, hi⟩ := hc.split (n := size f + sizes args + sizeKWs kws + sizeOpt star + sizeOpt dstar)
      (by simp [length_compE, length_compEs, length_compKWs, length_compOpt] <;> omega)
    obtain ⟨h2, hds⟩ := h1.split (n := size f + sizes args + sizeKWs kws + sizeOpt star)
      (by simp [length_compE, length_compEs, length_compKWs, length_compOpt] <;> omega)
    obtain ⟨h3, hst⟩ := h2.split (n := size f + sizes args + sizeKWs kws)
      (by simp [length_compE, length_compEs, length_compKWs] <;> omega)
    obtain ⟨h4, hkw⟩ := h3.split (n := size f + sizes args) (by simp [length_compE, length_compEs])
    obtain ⟨hf, hargs⟩ := h4.split (length_compE f pc)
    simp only [evalE, size]
    refine Sim.bind P (simE f code pc s w hf) ?_
    intro vf w1 _
    refine Sim.bind P (simEs args code _ _ w1 hargs) ?_
    intro vs w2 hvs
    refine Sim.bind P (simKWs kws code (pc + size f + sizes args) _ w2 (hkw.at (by omega))) ?_
    intro ks w3 hks
    refine Sim.bind P (simOpt star code (pc + size f + sizes args + sizeKWs kws) _ w3 (hst.at (by omega))) ?_
    intro sv w4 hsv
    refine Sim.bind P (simOpt dstar code (pc + size f + sizes args + sizeKWs kws + sizeOpt star) _ w4
      (hds.at (by omega))) ?_
    intro dv w5 hdv
    exact Sim.push P (hi.head' (by omega))
      (exec_callx P (evalEs_length P args hvs) (evalKWs_length P kws hks)
        (evalOpt_isSome P star hsv) (evalOpt_isSome P dstar hdv)) (by simp only []; omega)
theorem simEs (es : Exprs) (code : List Instr) (pc : Nat) (s : List V) (w : W)
    (hc : CodeAt code pc (compEs es pc)) :
    Sim P code pc s w (evalEs P es w) (fun vs => (pc + sizes es, vs.reverse ++ s)) := by
  cases es with
  | nil => simp only [evalEs]; exact Sim.pure P _ _ (by simp [sizes])
  | cons e es =>
    simp only [compEs] at hc
    obtain ⟨he, hes⟩ := hc.split (length_compE e pc)
    simp only [evalEs]
    refine Sim.bind P (simE e code pc s w he) ?_
    intro v w1 _
    refine Sim.bind P (simEs es code (pc + size e) (v :: s) w1 hes) ?_
    intro vs w2 _
    exact Sim.pure P _ _ (by simp [sizes, Nat.add_assoc])
theorem simBool (isOr : Bool) (rest : Exprs) (code : List Instr) (pc label : Nat) (s : List V)
    (v : V) (w : W) (hc : CodeAt code pc (compBool isOr rest pc label))
    (hl : label = pc + sizeBool rest) :
    Sim P code pc (v :: s) w (evalBool P isOr v rest w) (fun r => (label, r :: s)) := by
  cases rest with
  | nil => simp only [evalBool]; exact Sim.pure P _ _ (by simp [hl, sizeBool])
  | cons e es =>
    simp only [compBool] at hc
    obtain ⟨hj, hc⟩ := hc.cons
    obtain ⟨he, hes⟩ := hc.split (length_compE e (pc + 1))
    simp only [evalBool]
    refine Sim.bind P
      (k1 := fun c => if c == isOr then (label, v :: s) else (pc + 1, s)) ?_ ?_
    · apply Sim.instr P hj
      cases isOr <;> (cases h : P.truth v w with
        | ok c w' => cases c <;> simp [exec, h]
        | err x w' => simp [exec, h])
    · intro c w1 _
      by_cases hcd : (c == isOr) = true
      · simp only [hcd, if_true]; exact Sim.pure P _ _ rfl
      · simp only [hcd]
        refine Sim.bind P (simE e code (pc + 1) s w1 he) ?_
        intro v' w2 _
        exact simBool isOr es code (pc + 1 + size e) label s v' w2 hes
          (by simp only [hl, sizeBool]; omega)
theorem simTail (t : CmpTail) (code : List Instr) (pc label fin : Nat) (s : List V) (l : V) (w : W)
    (hc : CodeAt code pc (compTail t pc label))
    (hlabel : ∀ (c r : V) (w : W), Star P code label (c :: r :: s) w fin (c :: s) w)
    (hfall : ∀ (c : V) (w : W), Star P code (pc + sizeTail t) (c :: s) w fin (c :: s) w) :
    Sim P code pc (l :: s) w (evalCmp P l t w) (fun r => (fin, r :: s)) := by
  cases t with
  | one op e =>
    simp only [compTail] at hc
    obtain ⟨he, hi⟩ := hc.split (length_compE e pc)
    simp only [evalCmp]
    refine Sim.bind P (simE e code pc (l :: s) w he) ?_
    intro r w1 _
    refine Sim.star_right P (Sim.push P hi.head rfl rfl) ?_
    intro c w' _
    have e1 : pc + sizeTail (.one op e) = pc + size e + 1 := by simp only [sizeTail]; omega
    have := hfall c w'
    rw [e1] at this; exact this
  | more op e rest =>
    simp only [compTail] at hc
    obtain ⟨hfront, hrest⟩ := hc.split (n := size e + 4) (by simp [length_compE] <;> omega)
    obtain ⟨he, h4⟩ := hfront.split (length_compE e pc)
    obtain ⟨hdup, h4⟩ := h4.cons
    obtain ⟨hrot, h4⟩ := h4.cons
    obtain ⟨hcmp, h4⟩ := h4.cons
    obtain ⟨hj, _⟩ := h4.cons
    simp only [evalCmp]
    refine Sim.bind P (simE e code pc (l :: s) w he) ?_
    intro r w1 _
    refine Sim.star_left P (Star.trans P (Star.instr P hdup rfl) (Star.instr P hrot rfl)) ?_
    refine Sim.bind P (Sim.push P hcmp rfl rfl) ?_
    intro c w2 _
    refine Sim.bind P
      (k1 := fun t => if t then (pc + size e + 1 + 1 + 1 + 1, r :: s) else (label, c :: r :: s)) ?_ ?_
    · apply Sim.instr P hj
      cases h : P.truth c w2 with
      | ok b w' => cases b <;> simp [exec, h]
      | err x w' => simp [exec, h]
    · intro t w3 _
      cases t with
      | true =>
        have e4 : pc + size e + 4 = pc + size e + 1 + 1 + 1 + 1 := by omega
        have e1 : pc + sizeTail (.more op e rest) = pc + size e + 1 + 1 + 1 + 1 + sizeTail rest := by
          simp only [sizeTail]; omega
        rw [e4] at hrest
        exact simTail rest code (pc + size e + 1 + 1 + 1 + 1) label fin s r w3
          (hrest.at (by omega)) hlabel
          (fun c w => by have := hfall c w; rw [e1] at this; exact this)
      | false =>
        exact Sim.star_left P (hlabel c r w3) (Sim.pure P _ _ rfl)
theorem simKVs (kvs : KVs) (code : List Instr) (pc : Nat) (s : List V) (d : V) (w : W)
    (hc : CodeAt code pc (compKVs kvs pc)) :
    Sim P code pc (d :: s) w (evalKVs P d kvs w) (fun r => (pc + sizeKVs kvs, r :: s)) := by
  cases kvs with
  | nil => simp only [evalKVs]; exact Sim.pure P _ _ (by simp [sizeKVs])
  | cons k v rest =>
    simp only [compKVs] at hc
    obtain ⟨h1, hrest⟩ := hc.split (n := size v + size k + 1) (by simp [length_compE] <;> omega)
    obtain ⟨h2, hst⟩ := h1.split (n := size v + size k) (by simp [length_compE] <;> omega)
    obtain ⟨hv, hk⟩ := h2.split (length_compE v pc)
    simp only [evalKVs]
    refine Sim.bind P (simE v code pc (d :: s) w hv) ?_
    intro vv w1 _
    refine Sim.bind P (simE k code _ _ w1 hk) ?_
    intro vk w2 _
    refine Sim.bind P (Sim.done P (hst.at (by omega)).head rfl rfl) ?_
    intro _ w3 _
    exact Sim.congr_k P (simKVs rest code (pc + size v + size k + 1) s d w3 (hrest.at (by omega)))
      (by intro r; simp only [sizeKVs, Prod.mk.injEq, and_true]; omega)
theorem simKWs (kws : KWs) (code : List Instr) (pc : Nat) (s : List V) (w : W)
    (hc : CodeAt code pc (compKWs kws pc)) :
    Sim P code pc s w (evalKWs P kws w) (fun kvs => (pc + sizeKWs kws, (flat kvs).reverse ++ s)) := by
  cases kws with
  | nil => simp only [evalKWs]; exact Sim.pure P _ _ (by simp [sizeKWs, flat])
  | cons n e rest =>
    simp only [compKWs] at hc
    obtain ⟨hn, hc⟩ := hc.cons
    obtain ⟨he, hrest⟩ := hc.split (length_compE e (pc + 1))
    simp only [evalKWs]
    refine Sim.star_left P (Star.instr P hn rfl) ?_
    refine Sim.bind P (simE e code (pc + 1) (P.const (.str n) :: s) w he) ?_
    intro v w1 _
    refine Sim.bind P (simKWs rest code (pc + 1 + size e) (v :: P.const (.str n) :: s) w1 hrest) ?_
    intro r w2 _
    exact Sim.pure P _ _ (by simp [sizeKWs, flat, Nat.add_assoc])
theorem simOpt (o : OptE) (code : List Instr) (pc : Nat) (s : List V) (w : W)
    (hc : CodeAt code pc (compOpt o pc)) :
    Sim P code pc s w (evalOpt P o w) (fun ov => (pc + sizeOpt o, ov.toList ++ s)) := by
  cases o with
  | none => simp only [evalOpt]; exact Sim.pure P _ _ (by simp [sizeOpt])
  | some e =>
    simp only [compOpt] at hc
    simp only [evalOpt]
    refine Sim.bind P (simE e code pc s w hc) ?_
    intro v w1 _
    exact Sim.pure P _ _ (by simp [sizeOpt])
end

/-! ## assignment targets and statements -/

/-- `UNPACK_SEQUENCE n` / `unpack n` deliver exactly `n` items when they succeed, and
`UNPACK_EX b a` / `unpackEx b a` exactly `b + 1 + a` (the middle one being the list) -/
def UnpackLen : Prop :=
  (∀ (n : Nat) (v : V) (w : W) (vs : List V) (w' : W), P.unpack n v w = .ok vs w' → vs.length = n) ∧
  (∀ (b a : Nat) (v : V) (w : W) (vs : List V) (w' : W),
    P.unpackEx b a v w = .ok vs w' → vs.length = b + 1 + a)

mutual
theorem simT (hU : UnpackLen P) (t : Target) (code : List Instr) (pc : Nat) (s : List V) (v : V)
    (w : W) (hc : CodeAt code pc (compT t pc)) :
    Sim P code pc (v :: s) w (assignTo P t v w) (fun _ => (pc + sizeT t, s)) := by
  cases t with
  | name n =>
    simp only [compT] at hc
    simp only [assignTo, sizeT]
    exact Sim.done P hc.head rfl rfl
  | subscr a i =>
    simp only [compT] at hc
    obtain ⟨hab, hi⟩ := hc.split (n := size a + size i) (by simp [length_compE] <;> omega)
    obtain ⟨ha, hb⟩ := hab.split (length_compE a pc)
    simp only [assignTo, sizeT]
    refine Sim.bind P (simE P a code pc _ w ha) ?_
    intro va w1 _
    refine Sim.bind P (simE P i code _ _ w1 hb) ?_
    intro vi w2 _
    exact Sim.done P (hi.head' (by omega)) rfl (by simp only []; omega)
  | attr a n =>
    simp only [compT] at hc
    obtain ⟨ha, hi⟩ := hc.split (length_compE a pc)
    simp only [assignTo, sizeT]
    refine Sim.bind P (simE P a code pc _ w ha) ?_
    intro va w1 _
    exact Sim.done P hi.head rfl rfl
  | tuple ts =>
    simp only [compT] at hc
    obtain ⟨hu, hts⟩ := hc.cons
    simp only [assignTo, sizeT]
    refine Sim.bind P (k1 := fun vs => (pc + 1, vs ++ s)) ?_ ?_
    · apply Sim.instr P hu
      cases h : P.unpack ts.length v w with
      | ok vs w' => simp [exec, h]
      | err x w' => simp [exec, h]
    · intro vs w1 hvs
      exact Sim.congr_k P (simTs hU ts code (pc + 1) s vs w1 (hU.1 _ _ _ _ _ hvs) hts)
        (by intro _; simp only [Prod.mk.injEq, and_true]; omega)
  | star b t a =>
    simp only [compT] at hc
    obtain ⟨hu, hrest⟩ := hc.cons
    obtain ⟨hbt, ha⟩ := hrest.split (n := sizeTs b + sizeT t) (by simp [length_compTs, length_compT])
    obtain ⟨hb, ht⟩ := hbt.split (length_compTs b (pc + 1))
    simp only [assignTo, sizeT]
    refine Sim.bind P (k1 := fun vs => (pc + 1, vs ++ s)) ?_ ?_
    · apply Sim.instr P hu
      cases h : P.unpackEx b.length a.length v w with
      | ok vs w' => simp [exec, h]
      | err x w' => simp [exec, h]
    · intro vs w1 hvs
      have hlen := hU.2 _ _ _ _ _ _ hvs
      have hst : vs ++ s = vs.take b.length ++ (vs.drop b.length ++ s) := by
        rw [← List.append_assoc, List.take_append_drop]
      have hdl : (vs.drop b.length).length = 1 + a.length := by simp; omega
      show Sim P code (pc + 1) (vs ++ s) w1 _ _
      rw [hst]
      generalize vs.drop b.length = tl at hdl
      cases tl with
      | nil => exact absurd hdl (by simp; omega)
      | cons m rest =>
        refine Sim.bind P (simTs hU b code (pc + 1) (m :: rest ++ s) (vs.take b.length) w1
          (by simp; omega) hb) ?_
        intro _ w2 _
        refine Sim.bind P (simT hU t code (pc + 1 + sizeTs b) (rest ++ s) m w2 ht) ?_
        intro _ w3 _
        exact Sim.congr_k P (simTs hU a code (pc + 1 + sizeTs b + sizeT t) s rest w3
            (by simp at hdl; omega) (ha.at (by omega)))
          (by intro _; simp only [Prod.mk.injEq, and_true]; omega)
theorem simTs (hU : UnpackLen P) (ts : Targets) (code : List Instr) (pc : Nat) (s : List V)
    (vs : List V) (w : W) (hlen : vs.length = ts.length) (hc : CodeAt code pc (compTs ts pc)) :
    Sim P code pc (vs ++ s) w (assignAll P ts vs w) (fun _ => (pc + sizeTs ts, s)) := by
  cases ts with
  | nil =>
    cases vs with
    | nil => simp only [assignAll]; exact Sim.pure P _ _ (by simp [sizeTs])
    | cons v vs => simp [Targets.length] at hlen
  | cons t ts =>
    cases vs with
    | nil => simp [Targets.length] at hlen
    | cons v vs =>
      simp only [compTs] at hc
      obtain ⟨ht, hts⟩ := hc.split (length_compT t pc)
      simp only [assignAll]
      refine Sim.bind P (simT hU t code pc (vs ++ s) v w ht) ?_
      intro _ w1 _
      exact Sim.congr_k P (simTs hU ts code (pc + sizeT t) s vs w1
          (by simpa [Targets.length] using hlen) hts)
        (by intro _; simp only [sizeTs, Prod.mk.injEq, and_true]; omega)
end

mutual
theorem simD (t : DelTarget) (code : List Instr) (pc : Nat) (s : List V) (w : W)
    (hc : CodeAt code pc (compD t pc)) :
    Sim P code pc s w (delTo P t w) (fun _ => (pc + sizeD t, s)) := by
  cases t with
  | name n =>
    simp only [compD] at hc
    simp only [delTo, sizeD]
    exact Sim.done P hc.head rfl rfl
  | subscr a i =>
    simp only [compD] at hc
    obtain ⟨hab, hi⟩ := hc.split (n := size a + size i) (by simp [length_compE] <;> omega)
    obtain ⟨ha, hb⟩ := hab.split (length_compE a pc)
    simp only [delTo, sizeD]
    refine Sim.bind P (simE P a code pc _ w ha) ?_
    intro va w1 _
    refine Sim.bind P (simE P i code _ _ w1 hb) ?_
    intro vi w2 _
    exact Sim.done P (hi.head' (by omega)) rfl (by simp only []; omega)
  | attr a n =>
    simp only [compD] at hc
    obtain ⟨ha, hi⟩ := hc.split (length_compE a pc)
    simp only [delTo, sizeD]
    refine Sim.bind P (simE P a code pc _ w ha) ?_
    intro va w1 _
    exact Sim.done P hi.head rfl rfl
  | tuple ts =>
    simp only [compD] at hc
    simp only [delTo, sizeD]
    exact simDs ts code pc s w hc
theorem simDs (ts : DelTargets) (code : List Instr) (pc : Nat) (s : List V) (w : W)
    (hc : CodeAt code pc (compDs ts pc)) :
    Sim P code pc s w (delAll P ts w) (fun _ => (pc + sizeDs ts, s)) := by
  cases ts with
  | nil => simp only [delAll]; exact Sim.pure P _ _ (by simp [sizeDs])
  | cons t ts =>
    simp only [compDs] at hc
    obtain ⟨ht, hts⟩ := hc.split (length_compD t pc)
    simp only [delAll]
    refine Sim.bind P (simD t code pc s w ht) ?_
    intro _ w1 _
    exact Sim.congr_k P (simDs ts code (pc + sizeD t) s w1 hts)
      (by intro _; simp only [sizeDs, Prod.mk.injEq, and_true]; omega)
end

theorem simTargets (hU : UnpackLen P) : (more : Targets) → (t : Target) → (code : List Instr) →
    (pc : Nat) → (s : List V) → (v : V) → (w : W) →
    CodeAt code pc (compTargets t more pc) →
    Sim P code pc (v :: s) w (M.bind (assignTo P t v) (fun _ => assignEach P v more) w)
      (fun _ => (pc + sizeTargets t more, s))
  | .nil, t, code, pc, s, v, w, hc => by
    simp only [compTargets] at hc
    refine Sim.bind P (simT P hU t code pc s v w hc) ?_
    intro _ w1 _
    simp only [assignEach, sizeTargets]
    exact Sim.pure P _ _ rfl
  | .cons t' more, t, code, pc, s, v, w, hc => by
    simp only [compTargets] at hc
    obtain ⟨hd, hc⟩ := hc.cons
    obtain ⟨ht, hm⟩ := hc.split (length_compT t (pc + 1))
    refine Sim.star_left P (Star.instr P hd rfl) ?_
    refine Sim.bind P (simT P hU t code (pc + 1) (v :: s) v w ht) ?_
    intro _ w1 _
    simp only [assignEach]
    exact Sim.congr_k P (simTargets hU more t' code (pc + 1 + sizeT t) s v w1 hm)
      (by intro _; simp only [sizeTargets, Prod.mk.injEq, and_true]; omega)

/-- augmented assignment (no tuple targets, so no hypothesis on `unpack`) -/
theorem simAug (t : AugTarget) (op : BinOp) (value : Expr) (code : List Instr) (pc : Nat)
    (s : List V) (w : W) (hc : CodeAt code pc (compS (.aug t op value) pc)) :
    Sim P code pc s w (execS P (.aug t op value) w) (fun _ => (pc + sizeS (.aug t op value), s)) := by
  cases t with
  | name n =>
    simp only [compS] at hc
    obtain ⟨h1, h2⟩ := hc.split (n := 1 + size value) (by simp [length_compE] <;> omega)
    obtain ⟨hl, hv⟩ := h1.split (n := 1) rfl
    obtain ⟨hip, h2⟩ := h2.cons
    simp only [execS, sizeS]
    refine Sim.bind P (Sim.push P hl.head rfl rfl) ?_
    intro v0 w1 _
    refine Sim.bind P (simE P value code (pc + 1) _ w1 hv) ?_
    intro v1 w2 _
    refine Sim.bind P (Sim.push P (idx_at hip (by omega)) rfl rfl) ?_
    intro r w3 _
    exact Sim.done P (h2.head' (by omega)) rfl (by simp only []; omega)
  | subscr a i =>
    simp only [compS] at hc
    obtain ⟨h1, h3⟩ := hc.split (n := size a + size i + 2 + size value)
      (by simp [length_compE] <;> omega)
    obtain ⟨h2, hv⟩ := h1.split (n := size a + size i + 2) (by simp [length_compE] <;> omega)
    obtain ⟨hai, hd⟩ := h2.split (n := size a + size i) (by simp [length_compE])
    obtain ⟨ha, hi⟩ := hai.split (length_compE a pc)
    obtain ⟨hdup, hd⟩ := hd.cons
    obtain ⟨hsub, _⟩ := hd.cons
    obtain ⟨hip, h3⟩ := h3.cons
    obtain ⟨hrot, h3⟩ := h3.cons
    obtain ⟨hst, _⟩ := h3.cons
    simp only [execS, sizeS]
    refine Sim.bind P (simE P a code pc s w ha) ?_
    intro va w1 _
    refine Sim.bind P (simE P i code _ _ w1 hi) ?_
    intro vi w2 _
    refine Sim.star_left P (Star.instr P (idx_at hdup (by omega)) rfl) ?_
    refine Sim.bind P (Sim.push P (idx_at hsub (by omega)) rfl rfl) ?_
    intro v0 w3 _
    refine Sim.bind P (simE P value code (pc + size a + size i + 2) _ w3 (hv.at (by omega))) ?_
    intro v1 w4 _
    refine Sim.bind P (Sim.push P (idx_at hip (by omega)) rfl rfl) ?_
    intro r w5 _
    refine Sim.star_left P (Star.instr P (idx_at hrot (by omega)) rfl) ?_
    exact Sim.done P (idx_at hst (by omega)) rfl (by simp only []; omega)
  | attr a n =>
    simp only [compS] at hc
    obtain ⟨h1, h3⟩ := hc.split (n := size a + 2 + size value) (by simp [length_compE] <;> omega)
    obtain ⟨h2, hv⟩ := h1.split (n := size a + 2) (by simp [length_compE])
    obtain ⟨ha, hd⟩ := h2.split (length_compE a pc)
    obtain ⟨hdup, hd⟩ := hd.cons
    obtain ⟨hld, _⟩ := hd.cons
    obtain ⟨hip, h3⟩ := h3.cons
    obtain ⟨hrot, h3⟩ := h3.cons
    obtain ⟨hst, _⟩ := h3.cons
    simp only [execS, sizeS]
    refine Sim.bind P (simE P a code pc s w ha) ?_
    intro va w1 _
    refine Sim.star_left P (Star.instr P hdup rfl) ?_
    refine Sim.bind P (Sim.push P hld rfl rfl) ?_
    intro v0 w2 _
    refine Sim.bind P (simE P value code (pc + size a + 2) _ w2 (hv.at (by omega))) ?_
    intro v1 w3 _
    refine Sim.bind P (Sim.push P (idx_at hip (by omega)) rfl rfl) ?_
    intro r w4 _
    refine Sim.star_left P (Star.instr P (idx_at hrot (by omega)) rfl) ?_
    exact Sim.done P (idx_at hst (by omega)) rfl (by simp only []; omega)

theorem simS (hU : UnpackLen P) (st : Stmt) (code : List Instr) (pc : Nat) (s : List V) (w : W)
    (hc : CodeAt code pc (compS st pc)) :
    Sim P code pc s w (execS P st w) (fun _ => (pc + sizeS st, s)) := by
  cases st with
  | assign t more value =>
    simp only [compS] at hc
    obtain ⟨hv, ht⟩ := hc.split (length_compE value pc)
    simp only [execS, sizeS]
    refine Sim.bind P (simE P value code pc s w hv) ?_
    intro v w1 _
    exact Sim.congr_k P (simTargets P hU more t code (pc + size value) s v w1 ht)
      (by intro _; simp only [Prod.mk.injEq, and_true]; omega)
  | aug t op value => exact simAug P t op value code pc s w hc
  | expr e =>
    have general : ∀ (hc : CodeAt code pc (compE e pc ++ [Instr.POP_TOP])),
        Sim P code pc s w (M.bind (evalE P e) (fun _ => M.pure ()) w)
          (fun _ => (pc + (size e + 1), s)) := by
      intro hc
      obtain ⟨he, hp⟩ := hc.split (length_compE e pc)
      refine Sim.bind P (simE P e code pc s w he) ?_
      intro v w1 _
      refine Sim.star_left P (Star.instr P hp.head rfl) ?_
      exact Sim.pure P _ _ (by simp only [Prod.mk.injEq, and_true]; omega)
    cases e with
    | const c =>
      cases c with
      | int i =>
        simp only [execS, sizeS, evalE, M.bind, M.pure, Sim]
        exact Star.refl _ _ _
      | str i =>
        simp only [execS, sizeS, evalE, M.bind, M.pure, Sim]
        exact Star.refl _ _ _
      | _ => simp only [compS] at hc; simp only [execS, sizeS]; exact general hc
    | _ => simp only [compS] at hc; simp only [execS, sizeS]; exact general hc
  | del ts =>
    simp only [compS] at hc
    simp only [execS, sizeS]
    exact simDs P ts code pc s w hc
  | funcdef name sg ds kds body =>
    simp only [compS] at hc
    obtain ⟨h1, h3⟩ := hc.split (n := sizes ds + sizeKWs kds) (by simp [length_compEs, length_compKWs])
    obtain ⟨hds, hkds⟩ := h1.split (length_compEs ds pc)
    obtain ⟨h0, h3⟩ := h3.cons
    obtain ⟨hq, h3⟩ := h3.cons
    obtain ⟨hm, h3⟩ := h3.cons
    obtain ⟨hst, _⟩ := h3.cons
    simp only [execS, sizeS]
    refine Sim.bind P (simEs P ds code pc s w hds) ?_
    intro dvs w1 hdvs
    refine Sim.bind P (simKWs P kds code _ _ w1 hkds) ?_
    intro kvs w2 hkvs
    refine Sim.star_left P (Star.trans P (Star.instr P (idx_at h0 (by omega)) rfl)
      (Star.instr P (idx_at hq (by omega)) rfl)) ?_
    refine Sim.bind P (Sim.push P (idx_at hm (by omega))
      (exec_mkfn P (evalEs_length P ds hdvs) (evalKWs_length P kds hkvs)) rfl) ?_
    intro fn w3 _
    exact Sim.done P (idx_at hst (by omega)) rfl (by simp only []; omega)

theorem simStmts (hU : UnpackLen P) (ss : List Stmt) (code : List Instr) (pc : Nat) (s : List V)
    (w : W) (hc : CodeAt code pc (compStmts ss pc)) :
    Sim P code pc s w (execProg P ss w) (fun _ => (pc + sizeProg ss, s)) := by
  induction ss generalizing pc w with
  | nil => simp only [execProg]; exact Sim.pure P _ _ (by simp [sizeProg])
  | cons st ss ih =>
    simp only [compStmts] at hc
    obtain ⟨h1, h2⟩ := hc.split (length_compS st pc)
    simp only [execProg]
    refine Sim.bind P (simS P hU st code pc s w h1) ?_
    intro _ w1 _
    exact Sim.congr_k P (ih (pc + sizeS st) w1 h2)
      (by intro _; simp only [sizeProg, Prod.mk.injEq, and_true]; omega)

end

end GPy.C01

namespace GPy.C01
section
variable {V X W : Type} (P : Prims V X W)

/-! ## from the step relation to the fuel-indexed `run` of the model -/

theorem run_of_star {code : List Instr} {pc s w pc' s' w'}
    (h : Star P code pc s w pc' s' w') :
    ∃ n, ∀ m, run P code (n + m) pc s w = run P code m pc' s' w' := by
  induction h with
  | refl => exact ⟨0, fun m => by simp⟩
  | @head pc s w pc1 s1 w1 pc2 s2 w2 hs _ ih =>
    obtain ⟨n, hn⟩ := ih
    refine ⟨n + 1, fun m => ?_⟩
    have e : n + 1 + m = (n + m) + 1 := by omega
    rw [e]
    simp only [step] at hs
    cases hc : code[pc]? with
    | none => simp [hc] at hs
    | some i =>
      simp only [hc, Option.map_some, Option.some.injEq] at hs
      simp only [run, hc, hs]
      exact hn m

theorem run_of_raises {code : List Instr} {pc s w x w'}
    (h : Raises P code pc s w x w') :
    ∃ n, ∀ m, run P code (n + 1 + m) pc s w = .exc x w' := by
  obtain ⟨pc1, s1, w1, hs, hr⟩ := h
  obtain ⟨n, hn⟩ := run_of_star P hs
  refine ⟨n, fun m => ?_⟩
  have e : n + 1 + m = n + (m + 1) := by omega
  rw [e, hn (m + 1)]
  simp only [step] at hr
  cases hc : code[pc1]? with
  | none => simp [hc] at hr
  | some i =>
    simp only [hc, Option.map_some, Option.some.injEq] at hr
    simp only [run, hc, hr]

/-! ## code objects of functions: names resolved for the function scope -/

theorem exec_resolve (ps : List String) (i : Instr) (pc : Nat) (s : List V) (w : W) :
    exec P (resolve ps i) pc s w = exec (P.inFunction ps) i pc s w := by
  cases i with
  | LOAD_NAME n =>
    simp only [resolve]
    by_cases h : ps.contains n = true
    · have h' : n ∈ ps := by simpa using h
      simp only [h, if_true]; simp [exec, Prims.inFunction, h']
    · have h' : n ∉ ps := by simpa using h
      simp only [h]; simp [exec, Prims.inFunction, h']
  | BUILD_SLICE n =>
    simp only [resolve]
    rcases n with _ | _ | _ | _ | n <;> rcases s with _ | ⟨a, _ | ⟨b, _ | ⟨c, s⟩⟩⟩ <;> rfl
  | _ =>
    simp only [resolve]
    rcases s with _ | ⟨a, _ | ⟨b, _ | ⟨c, s⟩⟩⟩ <;> rfl

theorem run_map_resolve (ps : List String) (code : List Instr) (fuel pc : Nat) (s : List V) (w : W) :
    run P (code.map (resolve ps)) fuel pc s w = run (P.inFunction ps) code fuel pc s w := by
  induction fuel generalizing pc s w with
  | zero => rfl
  | succ n ih =>
    simp only [run, List.getElem?_map]
    cases hc : code[pc]? with
    | none => rfl
    | some i =>
      simp only [Option.map_some, exec_resolve]
      cases exec (P.inFunction ps) i pc s w with
      | next pc' s' w' => exact ih pc' s' w'
      | raise x w' => rfl
      | ret v w' => rfl
      | fault => rfl

theorem compBody_eq (name : String) (sg : Sig) (body : Expr) :
    compBody name sg body = (compE body 0 ++ [Instr.RETURN_VALUE]).map (resolve sg.names) := by
  simp [compBody, resolve]

end
end GPy.C01
