/-
C01 — reference semantics of the expression / assignment fragment.

`evalE`, `execS` are a definitional interpreter for Python's evaluation rules
(language reference §6 "Expressions", §7.1–7.2 "Expression statements,
assignment, augmented assignment"), written from the reference and NOT from
compile.go / eval.go:

* operands left to right; the callee before the arguments; arguments left to right;
* `a or b or c` / `a and b and c`: truth of each non-final operand tested once,
  the deciding operand itself is the result;
* `a op1 b op2 c` ≡ `a op1 b and b op2 c` with `b` evaluated once;
* `x if t else y`: `t`, then exactly one of `x`, `y`;
* assignment: right-hand side first, then the targets left to right, for each
  subscript/attribute target its own sub-expressions left to right, then the store;
* `a[i] op= v`: `a`, `i`, load `a[i]`, `v`, in-place op, store `a[i]` — `a`, `i` once.
* `lambda` / `def`: the positional default expressions left to right, then the keyword-only
  defaults in order, at definition time; the body only when the function is called;
* `f(a…, k=v…, *s, **d)`: callee, positionals, keyword values, `*` expression, `**` expression;
* `(b…, *t, a…) = v`: `v` unpacked once, then the targets left to right;
* `a[lo:hi:st]`: `a`, `lo`, `hi`, `st`; `del t1, t2`: targets left to right, sub-expressions of each once.

Every primitive operation on values (operators, truth test, item/attribute
access, calls, name lookup, …) is a field of the abstract structure `Prims`: a
function on an abstract world `W` that may change it (log, mutate) and may
raise.  Theorems quantified over `Prims` therefore hold for every operand
behaviour.  Core Lean only (linked into `gpymodel`).
-/
import GPy.Common.Basic
namespace GPy.C01

inductive BinOp
  | add | sub | mul | div | mod | pow | lshift | rshift | bitor | bitxor | bitand | floordiv
deriving DecidableEq, Repr, Inhabited

inductive UnOp | invert | not | uadd | usub
deriving DecidableEq, Repr, Inhabited

inductive CmpOp | eq | ne | lt | le | gt | ge | is | isNot | in_ | notIn
deriving DecidableEq, Repr, Inhabited

/-- literal constants of the fragment -/
inductive Const
  | int (i : Int) | str (s : String) | none | true | false
  | bytes (s : String)                       -- `b'…'` (ASCII content)
deriving DecidableEq, Repr, Inhabited

/-- the parameter list of a `lambda` / `def` without the default expressions:
`pos` positional parameters, `*vararg`, keyword-only parameters, `**kwarg` -/
structure Sig where
  pos : List String := []
  vararg : Option String := none
  kwonly : List String := []
  kwarg : Option String := none
deriving DecidableEq, Repr, Inhabited

def Sig.empty : Sig := {}

/-- every parameter name (the local variables of the function's code object) -/
def Sig.names (sg : Sig) : List String :=
  sg.pos ++ sg.vararg.toList ++ sg.kwonly ++ sg.kwarg.toList

mutual
/-- expressions.  `atom i c` is the probe `ev(i, c)`: a call of the global `ev`
with the literal position `i` and the literal payload `c`. -/
inductive Expr
  | atom (i : Nat) (c : Const)
  | const (c : Const)
  | name (n : String)
  | binop (op : BinOp) (a b : Expr)
  | unop (op : UnOp) (a : Expr)
  | boolop (isOr : Bool) (a : Expr) (rest : Exprs)      -- `a op r1 op r2 …`
  | compare (a : Expr) (rest : CmpTail)                 -- `a op1 e1 op2 e2 …`
  | ifexp (t b o : Expr)                                -- `b if t else o`
  | subscript (a i : Expr)
  | slice2 (a : Expr) (lo hi : Expr)                    -- `a[lo:hi]` (both bounds given)
  | attr (a : Expr) (n : String)
  | call (f : Expr) (args : Exprs)
  | tuple (es : Exprs)
  | list (es : Exprs)
  | set (es : Exprs)
  | dict (kvs : KVs)
  /-- `lambda <sg with defaults>: body`.  `ds` = the default expressions of the LAST
  `ds.length` positional parameters, `kds` = the keyword-only parameters that have a
  default, in source order, with their default expressions.  Evaluating the lambda
  evaluates `ds` left to right, then `kds` in order (language reference 6.13 / 8.6:
  "default parameter values are evaluated from left to right when the function
  definition is executed"); the body is evaluated only when the function is called. -/
  | lambda (sg : Sig) (ds : Exprs) (kds : KWs) (body : Expr)
  /-- the slice object `lo:hi:st` of a 3-bound subscription `a[lo:hi:st]`
  (= `subscript a (slice3 lo hi st)`); an omitted bound is the literal `None` -/
  | slice3 (lo hi st : Expr)
  /-- general call `f(a1, …, k1=v1, …, *star, **dstar)`.  Python 3.4 evaluates the callee,
  the positional arguments, the keyword argument values (each left to right), then the
  `*` expression, then the `**` expression – wherever `*star` stands in the text. -/
  | callx (f : Expr) (args : Exprs) (kws : KWs) (star dstar : OptE)
inductive Exprs
  | nil | cons (e : Expr) (es : Exprs)
inductive CmpTail
  | one (op : CmpOp) (e : Expr)
  | more (op : CmpOp) (e : Expr) (rest : CmpTail)
inductive KVs
  | nil | cons (k v : Expr) (rest : KVs)
/-- `name = expr` pairs: keyword arguments of a call, keyword-only defaults of a function -/
inductive KWs
  | nil | cons (name : String) (v : Expr) (rest : KWs)
inductive OptE
  | none | some (e : Expr)
end

/-- `lambda: body` -/
@[reducible] def Expr.lambda0 (body : Expr) : Expr := .lambda Sig.empty .nil .nil body

instance : Inhabited Expr := ⟨.const .none⟩

def Exprs.length : Exprs → Nat
  | .nil => 0
  | .cons _ es => es.length + 1

def KVs.length : KVs → Nat
  | .nil => 0
  | .cons _ _ r => r.length + 1

def KWs.length : KWs → Nat
  | .nil => 0
  | .cons _ _ r => r.length + 1

def KWs.ofList : List (String × Expr) → KWs
  | [] => .nil
  | (n, e) :: r => .cons n e (KWs.ofList r)

def KWs.toList : KWs → List (String × Expr)
  | .nil => []
  | .cons n e r => (n, e) :: r.toList

def OptE.isSome : OptE → Bool
  | .none => false
  | .some _ => true

def Exprs.ofList : List Expr → Exprs
  | [] => .nil
  | e :: es => .cons e (Exprs.ofList es)

def Exprs.toList : Exprs → List Expr
  | .nil => []
  | .cons e es => e :: es.toList

mutual
/-- assignment targets -/
inductive Target
  | name (n : String)
  | subscr (a i : Expr)
  | attr (a : Expr) (n : String)
  | tuple (ts : Targets)
  /-- `(b1, …, *t, a1, …)`: starred target `t` between `before` and `after` -/
  | star (before : Targets) (t : Target) (after : Targets)
inductive Targets
  | nil | cons (t : Target) (ts : Targets)
end

mutual
/-- targets of `del` -/
inductive DelTarget
  | name (n : String)
  | subscr (a i : Expr)
  | attr (a : Expr) (n : String)
  | tuple (ts : DelTargets)                            -- `del (t1, t2)`
inductive DelTargets
  | nil | cons (t : DelTarget) (ts : DelTargets)
end

def Targets.length : Targets → Nat
  | .nil => 0
  | .cons _ ts => ts.length + 1

def Targets.ofList : List Target → Targets
  | [] => .nil
  | t :: ts => .cons t (Targets.ofList ts)

/-- targets of an augmented assignment -/
inductive AugTarget
  | name (n : String)
  | subscr (a i : Expr)
  | attr (a : Expr) (n : String)

inductive Stmt
  | assign (t : Target) (more : Targets) (value : Expr)   -- `t = m1 = m2 = … = value`
  | aug (t : AugTarget) (op : BinOp) (value : Expr)
  | expr (e : Expr)
  | del (ts : DelTargets)                                 -- `del t1, t2, …`
  /-- `def name(<sg with defaults>): return body` -/
  | funcdef (name : String) (sg : Sig) (ds : Exprs) (kds : KWs) (body : Expr)

/-! ## The state + exception monad over an abstract world -/

inductive Res (X W α : Type) where
  | ok (a : α) (w : W)
  | err (x : X) (w : W)

@[reducible] def M (X W α : Type) : Type := W → Res X W α

@[inline] def M.pure {X W α : Type} (a : α) : M X W α := fun w => .ok a w

@[inline] def M.bind {X W α β : Type} (m : M X W α) (f : α → M X W β) : M X W β := fun w =>
  match m w with
  | .ok a w' => f a w'
  | .err x w' => .err x w'

instance {X W : Type} : Monad (M X W) where
  pure := M.pure
  bind := M.bind

/-- the primitive operations; each may change the world and may raise -/
structure Prims (V X W : Type) where
  const : Const → V
  loadName : String → M X W V
  storeName : String → V → M X W Unit
  binop : BinOp → V → V → M X W V
  inplace : BinOp → V → V → M X W V
  unop : UnOp → V → M X W V
  compare : CmpOp → V → V → M X W V
  truth : V → M X W Bool
  getitem : V → V → M X W V
  setitem : V → V → V → M X W Unit          -- container, key, value
  getattr : V → String → M X W V
  setattr : V → String → V → M X W Unit     -- object, name, value
  call : V → List V → M X W V
  mkTuple : List V → M X W V
  mkList : List V → M X W V
  mkSet : List V → M X W V
  mkSlice : V → V → M X W V
  mkSlice3 : V → V → V → M X W V
  newDict : M X W V
  dictSet : V → V → V → M X W Unit          -- dict, key, value (insertion while building a display)
  /-- the code object of `lambda sg: body` (name "<lambda>") / `def name(sg): return body` -/
  codeObj : String → Sig → Expr → V
  /-- code, qualified name, values of the positional defaults, (name, value) of the
  keyword-only defaults ↦ function object -/
  mkFunction : V → V → List V → List (V × V) → M X W V
  unpack : Nat → V → M X W (List V)          -- iterate exactly n items or raise
  /-- `unpackEx b a v`: iterate `v`; the first `b` items, a list of the middle ones, the last `a` items -/
  unpackEx : Nat → Nat → V → M X W (List V)
  /-- callee, positional values, (name, value) of the keyword arguments, value of the `*`
  expression, value of the `**` expression -/
  callEx : V → List V → List (V × V) → Option V → Option V → M X W V
  delName : String → M X W Unit
  delitem : V → V → M X W Unit               -- container, key
  delattr : V → String → M X W Unit
  /-- name lookup inside a function body: a parameter (LOAD_FAST) … -/
  loadFast : String → M X W V
  /-- … and any other name (LOAD_GLOBAL) -/
  loadGlobal : String → M X W V

section
variable {V X W : Type} (P : Prims V X W)

/-- the probe `ev(i, c)`: look the global `ev` up, call it with the two literals -/
def Prims.atom (i : Nat) (c : Const) : M X W V :=
  M.bind (P.loadName "ev") fun f => P.call f [P.const (.int i), P.const c]

mutual
def evalE : Expr → M X W V
  | .atom i c => P.atom i c
  | .const c => M.pure (P.const c)
  | .name n => P.loadName n
  | .binop op a b =>
      M.bind (evalE a) fun va => M.bind (evalE b) fun vb => P.binop op va vb
  | .unop op a => M.bind (evalE a) fun va => P.unop op va
  | .boolop isOr a rest => M.bind (evalE a) fun va => evalBool isOr va rest
  | .compare a rest => M.bind (evalE a) fun va => evalCmp va rest
  | .ifexp t b o =>
      M.bind (evalE t) fun vt => M.bind (P.truth vt) fun c => if c then evalE b else evalE o
  | .subscript a i =>
      M.bind (evalE a) fun va => M.bind (evalE i) fun vi => P.getitem va vi
  | .slice2 a lo hi =>
      M.bind (evalE a) fun va => M.bind (evalE lo) fun vl => M.bind (evalE hi) fun vh =>
      M.bind (P.mkSlice vl vh) fun sl => P.getitem va sl
  | .attr a n => M.bind (evalE a) fun va => P.getattr va n
  | .call f args =>
      M.bind (evalE f) fun vf => M.bind (evalEs args) fun vs => P.call vf vs
  | .tuple es => M.bind (evalEs es) fun vs => P.mkTuple vs
  | .list es => M.bind (evalEs es) fun vs => P.mkList vs
  | .set es => M.bind (evalEs es) fun vs => P.mkSet vs
  | .dict kvs => M.bind P.newDict fun d => evalKVs d kvs
  | .lambda sg ds kds body =>
      M.bind (evalEs ds) fun dvs => M.bind (evalKWs kds) fun kvs =>
      P.mkFunction (P.codeObj "<lambda>" sg body) (P.const (.str "<lambda>")) dvs kvs
  | .slice3 lo hi st =>
      M.bind (evalE lo) fun vl => M.bind (evalE hi) fun vh => M.bind (evalE st) fun vs =>
      P.mkSlice3 vl vh vs
  | .callx f args kws star dstar =>
      M.bind (evalE f) fun vf => M.bind (evalEs args) fun vs => M.bind (evalKWs kws) fun ks =>
      M.bind (evalOpt star) fun sv => M.bind (evalOpt dstar) fun dv => P.callEx vf vs ks sv dv
/-- expression lists, left to right -/
def evalEs : Exprs → M X W (List V)
  | .nil => M.pure []
  | .cons e es => M.bind (evalE e) fun v => M.bind (evalEs es) fun vs => M.pure (v :: vs)
/-- rest of `v op r1 op r2 …`: `v` is the value of the operand just evaluated -/
def evalBool (isOr : Bool) (v : V) : Exprs → M X W V
  | .nil => M.pure v
  | .cons e es =>
      M.bind (P.truth v) fun c =>
        if c == isOr then M.pure v               -- `v` decides: it is the result
        else M.bind (evalE e) fun v' => evalBool isOr v' es
/-- rest of a comparison chain: `l` is the value of the left operand of the next operator -/
def evalCmp (l : V) : CmpTail → M X W V
  | .one op e => M.bind (evalE e) fun r => P.compare op l r
  | .more op e rest =>
      M.bind (evalE e) fun r => M.bind (P.compare op l r) fun c => M.bind (P.truth c) fun t =>
        if t then evalCmp r rest else M.pure c
/-- dict display `{k1: v1, …}`.  CPython 3.4 (and the byte code gpython's own
compile tests pin) evaluates each VALUE before its KEY; pairs left to right. -/
def evalKVs (d : V) : KVs → M X W V
  | .nil => M.pure d
  | .cons k v rest =>
      M.bind (evalE v) fun vv => M.bind (evalE k) fun vk => M.bind (P.dictSet d vk vv) fun _ =>
        evalKVs d rest
/-- `n1=e1, n2=e2, …` left to right; the names are the string constants the call /
function object receives -/
def evalKWs : KWs → M X W (List (V × V))
  | .nil => M.pure []
  | .cons n e rest =>
      M.bind (evalE e) fun v => M.bind (evalKWs rest) fun r => M.pure ((P.const (.str n), v) :: r)
def evalOpt : OptE → M X W (Option V)
  | .none => M.pure none
  | .some e => M.bind (evalE e) fun v => M.pure (some v)
end

mutual
/-- bind `v` to one target -/
def assignTo : Target → V → M X W Unit
  | .name n, v => P.storeName n v
  | .subscr a i, v => M.bind (evalE P a) fun va => M.bind (evalE P i) fun vi => P.setitem va vi v
  | .attr a n, v => M.bind (evalE P a) fun va => P.setattr va n v
  | .tuple ts, v => M.bind (P.unpack ts.length v) fun vs => assignAll ts vs
  | .star b t a, v =>
      -- the items before the star, the list of the middle items, the items after it
      M.bind (P.unpackEx b.length a.length v) fun vs =>
      M.bind (assignAll b (vs.take b.length)) fun _ =>
      match vs.drop b.length with
      | [] => M.pure ()                       -- unreachable: `unpackEx` yields b+1+a items
      | m :: rest => M.bind (assignTo t m) fun _ => assignAll a rest
/-- bind the items `vs` to the targets `ts`, left to right -/
def assignAll : Targets → List V → M X W Unit
  | .nil, _ => M.pure ()
  | .cons _ _, [] => M.pure ()               -- unreachable: `unpack n` yields n items
  | .cons t ts, v :: vs => M.bind (assignTo t v) fun _ => assignAll ts vs
end

/-- `t1 = t2 = … = v`: every target receives the same value, left to right -/
def assignEach (v : V) : Targets → M X W Unit
  | .nil => M.pure ()
  | .cons t ts => M.bind (assignTo P t v) fun _ => assignEach v ts

mutual
/-- `del t`: the sub-expressions of the target left to right, then the deletion -/
def delTo : DelTarget → M X W Unit
  | .name n => P.delName n
  | .subscr a i => M.bind (evalE P a) fun va => M.bind (evalE P i) fun vi => P.delitem va vi
  | .attr a n => M.bind (evalE P a) fun va => P.delattr va n
  | .tuple ts => delAll ts
/-- `del t1, t2, …`: left to right -/
def delAll : DelTargets → M X W Unit
  | .nil => M.pure ()
  | .cons t ts => M.bind (delTo t) fun _ => delAll ts
end

def execS : Stmt → M X W Unit
  | .assign t more value =>
      M.bind (evalE P value) fun v => M.bind (assignTo P t v) fun _ => assignEach P v more
  | .aug (.name n) op value =>
      M.bind (P.loadName n) fun v0 => M.bind (evalE P value) fun v1 =>
      M.bind (P.inplace op v0 v1) fun r => P.storeName n r
  | .aug (.subscr a i) op value =>
      M.bind (evalE P a) fun va => M.bind (evalE P i) fun vi =>
      M.bind (P.getitem va vi) fun v0 => M.bind (evalE P value) fun v1 =>
      M.bind (P.inplace op v0 v1) fun r => P.setitem va vi r
  | .aug (.attr a n) op value =>
      M.bind (evalE P a) fun va => M.bind (P.getattr va n) fun v0 =>
      M.bind (evalE P value) fun v1 => M.bind (P.inplace op v0 v1) fun r => P.setattr va n r
  | .expr e => M.bind (evalE P e) fun _ => M.pure ()
  | .del ts => delAll P ts
  | .funcdef name sg ds kds body =>
      M.bind (evalEs P ds) fun dvs => M.bind (evalKWs P kds) fun kvs =>
      M.bind (P.mkFunction (P.codeObj name sg body) (P.const (.str name)) dvs kvs) fun fn =>
      P.storeName name fn

/-- the primitives as seen from inside a function whose parameters are `ps`: a name is
a local (parameter) or a global; nothing else changes -/
def Prims.inFunction (ps : List String) : Prims V X W :=
  { P with loadName := fun n => if ps.contains n then P.loadFast n else P.loadGlobal n }

def execProg : List Stmt → M X W Unit
  | [] => M.pure ()
  | s :: ss => M.bind (execS P s) fun _ => execProg ss

end

end GPy.C01
