/-
C02 case generator (core Lean only).

Three kinds of case lines:
* programs  `<label> ev=..;it=..;ex=..;src=..` : every nesting of the one-hole contexts below to
  depth 2 (depth 3 seeded in the quick tier - 1500 uniform + 4500 weighted towards handler-in-handler and
  finally-in-handler shapes -, complete in the thorough tier) × every leaf
  (which probe raises which class / returns / breaks / continues / re-raises / falls through);
  every depth-1 program also behind two wrapper functions (multi-frame tracebacks);
* `xm=<raised>:<caught>[,<caught>..]` : `ExceptionGivenMatches` on all pairs of classes and on tuples;
* `ln=<k><line>,..` : instruction streams for `Lnotab()` / `Addr2Line` (k = o|a|x|l: sizes 1, 3, 6, 0).
-/
import GPy.C02.Spec
namespace GPy.C02

/-! ### the concrete world: path log + probe scripts -/

structure LogW where
  log : List String := []                       -- newest first
  ev : List (Nat × List EvRes) := []            -- remaining script of every probe
  itLen : List (Nat × Nat) := []
  iters : List (Nat × Nat × Nat) := []          -- handle ↦ (probe, remaining, produced), newest first
  ex : List (Nat × List Val) := []
deriving Repr, Inhabited

def lookupD {β} (d : β) (k : Nat) : List (Nat × β) → β
  | [] => d
  | (k', v) :: r => if k = k' then v else lookupD d k r

def setKey {β} (k : Nat) (v : β) : List (Nat × β) → List (Nat × β)
  | [] => [(k, v)]
  | (k', v') :: r => if k = k' then (k, v) :: r else (k', v') :: setKey k v r

def logPrims : Prims LogW where
  ev w i :=
    let w := { w with log := s!"e{i}" :: w.log }
    match lookupD [] i w.ev with
    | [] => (w, .val 0)
    | a :: rest => ({ w with ev := setKey i rest w.ev }, a)
  itNew w i :=
    let h := w.iters.length
    ({ w with log := s!"i{i}" :: w.log, iters := w.iters ++ [(i, lookupD 0 i w.itLen, 0)] }, h)
  itNext w h :=
    match w.iters[h]? with
    | none => (w, none)
    | some (i, remain, k) =>
      let w := { w with log := s!"n{i}" :: w.log }
      if remain = 0 then (w, none)
      else ({ w with iters := w.iters.set h (i, remain - 1, k + 1) }, some (Int.ofNat (k + 1)))
  cmEnter w i := { w with log := s!"en{i}" :: w.log }
  cmExit w i c :=
    let name := match c with | some c => c.name | none => "None"
    let w := { w with log := s!"ex{i}:{name}" :: w.log }
    match (lookupD [] i w.ex : List Val) with
    | [] => (w, .none)
    | Val.int 9 :: rest =>
      -- script entry `L`: this `__exit__` first runs the program's helper `xl()` - a Python frame of its own
      -- whose loop `continue`s through a try/finally twice (CONTINUE_LOOP, END_FINALLY in ITS Vm) - and answers None
      ({ w with ex := setKey i rest w.ex, log := "e0" :: "e0" :: w.log }, .none)
    | a :: rest => ({ w with ex := setKey i rest w.ex }, a)
  yielded w v :=
    { w with log := (match v with | .int n => s!"y{n}" | .none => "yNone" | _ => "y?") :: w.log }

/-! ### rendering to Python source, numbering the lines -/

def indentStr (n : Nat) : String := String.mk (List.replicate (4 * n) ' ')

def matcherText (m : Matcher) : String :=
  let cs := match m.classes with
    | [c] => c.name
    | cs => "(" ++ ", ".intercalate (cs.map Cls.name) ++ ")"
  "except " ++ cs ++ (if m.named then " as e" else "") ++ ":"

/-- `layout ind ln s` = (statement with its line numbers filled in, source lines, next free line) -/
partial def layout (ind ln : Nat) : Stmt → Stmt × List String × Nat
  | .skip => (.skip, [], ln)
  | .pass _ => (.pass ln, [indentStr ind ++ "pass"], ln + 1)
  | .ev _ i => (.ev ln i, [indentStr ind ++ s!"ev({i})"], ln + 1)
  | .ret _ i => (.ret ln i, [indentStr ind ++ s!"return ev({i})"], ln + 1)
  | .yieldS _ i => (.yieldS ln i, [indentStr ind ++ s!"yield ev({i})"], ln + 1)
  | .raise _ c => (.raise ln c, [indentStr ind ++ s!"raise {c.name}"], ln + 1)
  | .reraise _ => (.reraise ln, [indentStr ind ++ "raise"], ln + 1)
  | .raiseX _ (.inst c k) => (.raiseX ln (.inst c k), [indentStr ind ++ s!"raise {c.name}({k})"], ln + 1)
  | .raiseX _ (.from c d) => (.raiseX ln (.from c d), [indentStr ind ++ s!"raise {c.name} from {d.name}"], ln + 1)
  | .raiseX _ (.nonExc k) => (.raiseX ln (.nonExc k), [indentStr ind ++ s!"raise {k}"], ln + 1)
  | .brk _ => (.brk ln, [indentStr ind ++ "break"], ln + 1)
  | .cont _ => (.cont ln, [indentStr ind ++ "continue"], ln + 1)
  | .seq a b =>
    let (a', ta, l1) := layout ind ln a
    let (b', tb, l2) := layout ind l1 b
    (.seq a' b', ta ++ tb, l2)
  | .ifS _ i b o => layoutIf "if" ind ln i b o
  | .whileS _ i b o =>
    let (b', tb, l1) := layout (ind + 1) (ln + 1) b
    let (o', to, l2) := layoutElse ind l1 o
    (.whileS ln i b' o', [indentStr ind ++ s!"while ev({i}):"] ++ tb ++ to, l2)
  | .forS _ i b o =>
    let (b', tb, l1) := layout (ind + 1) (ln + 1) b
    let (o', to, l2) := layoutElse ind l1 o
    (.forS ln i b' o', [indentStr ind ++ s!"for x in it({i}):"] ++ tb ++ to, l2)
  | .tryF _ (.tryE _ b m1 h1 m2 h2 o) f =>
    -- try/except/finally in one statement: the inner Try shares the `try:` line
    let (e', te, l1) := layoutTryE ind ln b m1 h1 m2 h2 o
    let (f', tf, l2) := layout (ind + 1) (l1 + 1) f
    (.tryF ln e' f', te ++ [indentStr ind ++ "finally:"] ++ tf, l2)
  | .tryF _ b f =>
    let (b', tb, l1) := layout (ind + 1) (ln + 1) b
    let (f', tf, l2) := layout (ind + 1) (l1 + 1) f
    (.tryF ln b' f', [indentStr ind ++ "try:"] ++ tb ++ [indentStr ind ++ "finally:"] ++ tf, l2)
  | .tryE _ b m1 h1 m2 h2 o => layoutTryE ind ln b m1 h1 m2 h2 o
  | .withS _ i b =>
    let (b', tb, l1) := layout (ind + 1) (ln + 1) b
    (.withS ln i b', [indentStr ind ++ s!"with cm({i}):"] ++ tb, l1)
where
  layoutElse (ind ln : Nat) (o : Stmt) : Stmt × List String × Nat :=
    match o with
    | .skip => (.skip, [], ln)
    | o =>
      let (o', to, l) := layout (ind + 1) (ln + 1) o
      (o', [indentStr ind ++ "else:"] ++ to, l)
  layoutIf (kw : String) (ind ln i : Nat) (b o : Stmt) : Stmt × List String × Nat :=
    let (b', tb, l1) := layout (ind + 1) (ln + 1) b
    let head := [indentStr ind ++ s!"{kw} ev({i}):"] ++ tb
    match o with
    | .ifS _ j b2 o2 =>
      let (o', to, l2) := layoutIf "elif" ind l1 j b2 o2
      (.ifS ln i b' o', head ++ to, l2)
    | o =>
      let (o', to, l2) := layoutElse ind l1 o
      (.ifS ln i b' o', head ++ to, l2)
  layoutTryE (ind ln : Nat) (b : Stmt) (m1 : Matcher) (h1 : Stmt) (m2 : Option Matcher) (h2 o : Stmt) :
      Stmt × List String × Nat :=
    let (b', tb, l1) := layout (ind + 1) (ln + 1) b
    let m1' := { m1 with ln := l1 }
    let (h1', th1, l2) := layout (ind + 1) (l1 + 1) h1
    let (m2', h2', th2, l3) : Option Matcher × Stmt × List String × Nat :=
      match m2 with
      | some m =>
        let (h2', th2, l3) := layout (ind + 1) (l2 + 1) h2
        (some { m with ln := l2 }, h2', [indentStr ind ++ matcherText m] ++ th2, l3)
      | none => (none, .skip, [], l2)
    let (o', to, l4) := layoutElse ind l3 o
    (.tryE ln b' m1' h1' m2' h2' o',
     [indentStr ind ++ "try:"] ++ tb ++ [indentStr ind ++ matcherText m1] ++ th1 ++ th2 ++ to, l4)

/-! ### text forms shared with harness/c02.go -/

def Instr.text : Instr → String
  | .loadGlobal (.fn .ev) => "LOAD_GLOBAL:ev" | .loadGlobal (.fn .it) => "LOAD_GLOBAL:it"
  | .loadGlobal (.fn .cm) => "LOAD_GLOBAL:cm" | .loadGlobal (.fn .user) => "LOAD_GLOBAL:f" | .loadGlobal (.cls c) => "LOAD_GLOBAL:" ++ c.name
  | .loadConst .none => "LOAD_CONST:None" | .loadConst (.int n) => s!"LOAD_CONST:{n}"
  | .callFunction n => s!"CALL_FUNCTION:{n}"
  | .popTop => "POP_TOP:" | .dupTop => "DUP_TOP:"
  | .popJumpIfFalse t => s!"POP_JUMP_IF_FALSE:->{t}" | .jumpForward t => s!"JUMP_FORWARD:->{t}"
  | .jumpAbsolute t => s!"JUMP_ABSOLUTE:->{t}"
  | .setupLoop t => s!"SETUP_LOOP:->{t}" | .setupExcept t => s!"SETUP_EXCEPT:->{t}"
  | .setupFinally t => s!"SETUP_FINALLY:->{t}" | .setupWith t => s!"SETUP_WITH:->{t}"
  | .popBlock => "POP_BLOCK:" | .popExcept => "POP_EXCEPT:" | .endFinally => "END_FINALLY:"
  | .withCleanup => "WITH_CLEANUP:" | .breakLoop => "BREAK_LOOP:"
  | .continueLoop t => s!"CONTINUE_LOOP:->{t}"
  | .getIter => "GET_ITER:" | .forIter t => s!"FOR_ITER:->{t}"
  | .storeFast v => "STORE_FAST:" ++ v | .deleteFast v => "DELETE_FAST:" ++ v
  | .compareExcMatch => "COMPARE_OP:10" | .buildTuple n => s!"BUILD_TUPLE:{n}"
  | .raiseVarargs n => s!"RAISE_VARARGS:{n}" | .returnValue => "RETURN_VALUE:"
  | .yieldValue => "YIELD_VALUE:"

def codeText (c : Code) : String :=
  " ".intercalate (c.map fun (i, ln) => s!"{i.text}:{ln}")

def BKind.letter : BKind → String
  | .loop => "L" | .except => "E" | .finally => "F" | .handler => "H"

def traceEntry {W} (vm : VM W) : String :=
  let bl := vm.blocks.reverse.map fun b => s!"{b.kind.letter}{b.level}>{b.handler}"
  s!"{vm.pc}:{vm.stack.length}:{".".intercalate bl}"

/-- `run` that also records what hook H2 sees before every dispatched instruction -/
def runTrace {W} (P : Prims W) (code : Code) : Nat → VM W → List String → List String × Option (Exit W)
  | 0, _, acc => (acc.reverse, none)
  | f+1, vm, acc =>
    let acc := if vm.why = .not then traceEntry vm :: acc else acc
    match step P code vm with
    | .next vm' => runTrace P code f vm' acc
    | .done e => (acc.reverse, some e)

def logText (w : LogW) : String := " ".intercalate w.log.reverse

def valText : Val → String
  | .none => "None" | .int n => toString n | .bool b => if b then "True" else "False"
  | _ => "<?>"

/-! ### generator monad: allocates probe ids and records their scripts -/

structure B where
  next : Nat := 1
  ev : List (Nat × List EvRes) := []
  it : List (Nat × Nat) := []
  ex : List (Nat × List Val) := []

abbrev G := StateM B

def newId : G Nat := modifyGet fun b => (b.next, { b with next := b.next + 1 })
def evProbe (acts : List EvRes) : G Nat := do
  let i ← newId; modify fun b => { b with ev := b.ev ++ [(i, acts)] }; pure i
def itProbe (n : Nat) : G Nat := do
  let i ← newId; modify fun b => { b with it := b.it ++ [(i, n)] }; pure i
def cmProbe (rs : List Val) : G Nat := do
  let i ← newId; modify fun b => { b with ex := b.ex ++ [(i, rs)] }; pure i

/-- a plain probe statement that succeeds (every time) -/
def okS : G Stmt := do let i ← evProbe []; pure (.ev 0 i)

/-- hole followed by a probe: shows whether execution wrongly continues after the hole -/
def thenOk (h : G Stmt) : G Stmt := do let a ← h; let b ← okS; pure (.seq a b)

def mk1 (c : Cls) (named : Bool := false) : Matcher := { ln := 0, classes := [c], named := named }
def mkT (cs : List Cls) (named : Bool := false) : Matcher := { ln := 0, classes := cs, named := named }

/-- one-hole contexts (name, builder) -/
def contexts : List (String × (G Stmt → G Stmt)) := [
  ("ifT", fun h => do let i ← evProbe [.val 1]; let b ← thenOk h; let o ← okS; pure (.ifS 0 i b o)),
  ("ifF", fun h => do let i ← evProbe [.val 0]; let b ← okS; let o ← thenOk h; pure (.ifS 0 i b o)),
  ("elif", fun h => do
      let i ← evProbe [.val 0]; let b ← okS; let j ← evProbe [.val 1]; let b2 ← h
      pure (.ifS 0 i b (.ifS 0 j b2 .skip))),
  ("while1", fun h => do let i ← evProbe [.val 1, .val 0]; let b ← thenOk h; pure (.whileS 0 i b .skip)),
  ("while2e", fun h => do
      let i ← evProbe [.val 1, .val 2, .val 0]; let b ← thenOk h; let o ← okS; pure (.whileS 0 i b o)),
  ("whileElse", fun h => do let i ← evProbe [.val 0]; let b ← okS; let o ← thenOk h; pure (.whileS 0 i b o)),
  ("for2e", fun h => do let i ← itProbe 2; let b ← thenOk h; let o ← okS; pure (.forS 0 i b o)),
  ("for1", fun h => do let i ← itProbe 1; let b ← h; pure (.forS 0 i b .skip)),
  ("forElse", fun h => do let i ← itProbe 1; let b ← okS; let o ← thenOk h; pure (.forS 0 i b o)),
  ("tryF.body", fun h => do let b ← thenOk h; let f ← okS; pure (.tryF 0 b f)),
  ("tryF.fin", fun h => do let b ← okS; let f ← thenOk h; pure (.tryF 0 b f)),
  ("raiseF.fin", fun h => do let f ← thenOk h; pure (.tryF 0 (.raise 0 .IndexError) f)),
  ("tryE.body", fun h => do
      let b ← thenOk h; let h1 ← okS; pure (.tryE 0 b (mk1 .LookupError) h1 none .skip .skip)),
  ("tryE2.body", fun h => do
      let b ← thenOk h; let h1 ← okS; let h2 ← okS; let o ← okS
      pure (.tryE 0 b (mk1 .KeyError true) h1 (some (mkT [.ValueError, .ArithmeticError])) h2 o)),
  ("tryE.h", fun h => do
      let h1 ← thenOk h; pure (.tryE 0 (.raise 0 .KeyError) (mk1 .LookupError) h1 none .skip .skip)),
  ("tryE2.h2n", fun h => do
      let h1 ← okS; let h2 ← thenOk h
      pure (.tryE 0 (.raise 0 .ZeroDivisionError) (mk1 .KeyError) h1 (some (mk1 .ArithmeticError true)) h2 .skip)),
  ("tryE.else", fun h => do
      let b ← okS; let h1 ← okS; let o ← thenOk h; pure (.tryE 0 b (mk1 .Exception) h1 none .skip o)),
  ("tryEF.body", fun h => do
      let b ← thenOk h; let h1 ← okS; let f ← okS
      pure (.tryF 0 (.tryE 0 b (mkT [.ValueError, .KeyError]) h1 none .skip .skip) f)),
  ("tryEF.hn", fun h => do
      let h1 ← h; let f ← okS
      pure (.tryF 0 (.tryE 0 (.raise 0 .ValueError) (mk1 .ValueError true) h1 none .skip .skip) f)),
  ("tryEF.else", fun h => do
      let b ← okS; let h1 ← okS; let o ← h; let f ← okS
      pure (.tryF 0 (.tryE 0 b (mk1 .BaseException) h1 none .skip o) f)),
  ("withN", fun h => do let i ← cmProbe []; let b ← thenOk h; pure (.withS 0 i b)),
  ("withT", fun h => do let i ← cmProbe [.bool true]; let b ← thenOk h; pure (.withS 0 i b)),
  ("with1", fun h => do let i ← cmProbe [.int 1, .int 1]; let b ← h; pure (.withS 0 i b)),
  ("withF0", fun h => do let i ← cmProbe [.bool false, .int 0]; let b ← thenOk h; pure (.withS 0 i b)),
  -- handler-in-handler / finally-in-handler shapes (handled-exception state, bare `raise`)
  ("tryE.hRe", fun h => do
      let h1 ← thenOk h
      pure (.tryE 0 (.raise 0 .KeyError) (mk1 .LookupError) (.seq h1 (.reraise 0)) none .skip .skip)),
  ("tryE.hnRe", fun h => do
      let h1 ← thenOk h
      pure (.tryE 0 (.raise 0 .ZeroDivisionError) (mk1 .ArithmeticError true) (.seq h1 (.reraise 0)) none .skip .skip)),
  ("caughtF", fun h => do
      let b ← thenOk h; let f ← okS; let h1 ← okS
      pure (.tryE 0 (.tryF 0 b f) (mk1 .Exception) h1 none .skip .skip)),
  ("caughtW", fun h => do
      let i ← cmProbe [.bool false]; let b ← thenOk h; let h1 ← okS
      pure (.tryE 0 (.withS 0 i b) (mk1 .Exception) h1 none .skip .skip)),
  ("caughtH", fun h => do
      let hb ← thenOk h; let h1 ← okS
      pure (.tryE 0 (.tryE 0 (.raise 0 .ValueError) (mk1 .ValueError) hb none .skip .skip)
              (mk1 .Exception) h1 none .skip .skip)),
  ("finRe", fun h => do
      let b ← thenOk h; let a ← okS
      pure (.tryF 0 b (.seq a (.reraise 0))))
]

def leaves : List (String × G Stmt) := [
  ("ok", okS),
  ("pass", pure (.pass 0)),
  ("evKeyError", do let i ← evProbe [.raise .KeyError, .raise .KeyError]; pure (.ev 0 i)),
  ("evZeroDiv", do let i ← evProbe [.raise .ZeroDivisionError]; pure (.ev 0 i)),
  ("evValueError2nd", do let i ← evProbe [.val 1, .raise .ValueError]; pure (.ev 0 i)),
  ("evKbd", do let i ← evProbe [.raise .KeyboardInterrupt]; pure (.ev 0 i)),
  ("raiseIndexError", pure (.raise 0 .IndexError)),
  ("raiseOverflow", pure (.raise 0 .OverflowError)),
  ("raiseException", pure (.raise 0 .Exception)),
  ("return", do let i ← evProbe [.val 7, .val 8]; pure (.ret 0 i)),
  ("yield", do let i ← evProbe [.val 5, .val 6]; pure (.yieldS 0 i)),
  ("returnRaises", do let i ← evProbe [.raise .ValueError]; pure (.ret 0 i)),
  ("break", pure (.brk 0)),
  ("continue", pure (.cont 0)),
  ("ifCondRaises", do
      let i ← evProbe [.raise .LookupError]; let b ← okS; pure (.ifS 0 i b .skip)),
  ("whileCondRaises2nd", do
      let i ← evProbe [.val 1, .raise .ArithmeticError]; let b ← okS; pure (.whileS 0 i b .skip)),
  ("reraise", pure (.reraise 0)),
  ("raiseInst", pure (.raiseX 0 (.inst .KeyError 3))),
  ("raiseFrom", pure (.raiseX 0 (.from .ValueError .KeyError))),
  ("raiseInt", pure (.raiseX 0 (.nonExc 5)))
]

/-- sampling weights for the seeded depth-3 programs: contexts that put the hole inside an
exception handler / a finally body / on a path where an exception passes through finally or with
are drawn 4 times as often, leaves that raise (bare `raise` most) more often than the rest -/
def ctxWeight (n : String) : Nat :=
  if ["tryE.h", "tryE2.h2n", "tryEF.hn", "tryE.hRe", "tryE.hnRe", "caughtF", "caughtW", "caughtH", "finRe",
      "tryF.fin", "raiseF.fin"].contains n then 4
  else if ["tryF.body", "tryE.body", "tryE2.body", "tryEF.body", "with1", "withN", "withF0", "withT"].contains n then 2
  else 1

def leafWeight (n : String) : Nat :=
  if n == "reraise" then 6
  else if ["raiseIndexError", "raiseOverflow", "raiseException", "evKeyError", "evZeroDiv", "raiseInst", "raiseFrom",
           "return", "break", "continue"].contains n then 2
  else 1

def weighted (names : List String) (wt : String → Nat) : Array Nat :=
  ((List.range names.length).flatMap fun i => List.replicate (wt names[i]!) i).toArray

def wContexts : Array Nat := weighted (contexts.map (·.1)) ctxWeight
def wLeaves : Array Nat := weighted (leaves.map (·.1)) leafWeight

/-! ### cases -/

def evResText : EvRes → String
  | .val v => s!"v{v}" | .raise c => "r" ++ c.name
def exValText : Val → String
  | .bool true => "T" | .bool false => "F" | .int 1 => "1" | .int 0 => "0" | .int 9 => "L" | _ => "N"

def scriptText (b : B) : String :=
  let ev := ",".intercalate (b.ev.map fun (i, as) => s!"{i}:{".".intercalate (as.map evResText)}")
  let it := ",".intercalate (b.it.map fun (i, n) => s!"{i}:{n}")
  let ex := ",".intercalate (b.ex.map fun (i, rs) => s!"{i}:{".".intercalate (rs.map exValText)}")
  s!"ev={ev};it={it};ex={ex}"

def fuel : Nat := 200000

/-- the function is a generator function: some `yield` occurs in its body -/
def hasYield : Stmt → Bool
  | .yieldS _ _ => true
  | .seq a b => hasYield a || hasYield b
  | .ifS _ _ b o | .whileS _ _ b o | .forS _ _ b o => hasYield b || hasYield o
  | .tryF _ b f => hasYield b || hasYield f
  | .tryE _ b _ h1 _ h2 o => hasYield b || hasYield h1 || hasYield h2 || hasYield o
  | .withS _ _ b => hasYield b
  | _ => false

/-- a `return`/`continue` reason parked on the value stack by the unwinder (`PUSH(retval); PUSH(Int(why))`):
the why code 2 / 4 with an int under it (probe values of the composite family avoid 2 and 4) -/
def parkedOn : List Val → Bool
  | .int c :: .int d :: rest => ((c == 2 || c == 4) && d != 2 && d != 4) || parkedOn (.int d :: rest)
  | _ :: rest => parkedOn rest
  | [] => false

/-- does the run write `vm.retval` (CONTINUE_LOOP, RETURN_VALUE, YIELD_VALUE) while a return/continue is parked? -/
def clobbersParked {W} (P : Prims W) (code : Code) : Nat → VM W → Bool
  | 0, _ => false
  | f+1, vm =>
    let hit := vm.why == .not && parkedOn vm.stack &&
      (match code[vm.pc]? with
       | some (.continueLoop _, _) | some (.returnValue, _) | some (.yieldValue, _) => true
       | _ => false)
    if hit then true else
    match step P code vm with
    | .next vm' => clobbersParked P code f vm'
    | .done _ => false

/-- the helper the `L` answer of a probe `__exit__` runs (own frame, own `Vm`) -/
def helperText : List String :=
  ["def xl():", "    for x in (1, 2):", "        try:", "            continue", "        finally:", "            ev(0)"]

/-- `wrap` = number of wrapper functions `def g<j>(): return <previous>()` between the module-level
call and `f` (0: `r = f()`).  The specification's traceback names the line of every active call. -/
def progCase (label : String) (g : G Stmt) (extraTags : List String := []) (wrap : Nat := 0) : Case :=
  let (s0, b) := g.run {}
  let (body, text, next0) := layout 1 2 s0
  let isGen := hasYield body
  let usesL := b.ex.any fun (_, rs) => rs.contains (.int 9)
  let helper := if usesL then helperText else []
  let next := next0 + helper.length
  -- wrapper g_j: `def` on line next + 2(j-1), its `return` on the line after; module call after the last
  let wrapText := (List.range wrap).flatMap fun j =>
    [s!"def g{j+1}():", s!"    return {if j = 0 then "f" else s!"g{j}"}()"]
  let callLine := next + 2 * wrap
  let top := if wrap = 0 then "f" else s!"g{wrap}"
  let src := "\\n".intercalate (["def f():"] ++ text ++ helper ++ wrapText ++
    [if isGen then s!"r = drive({top}())" else s!"r = {top}()"])
  -- the calls that are active when f runs, outermost first: (function name, line)
  let calls : List (String × Nat) :=
    ("<module>", callLine) :: ((List.range wrap).reverse.map fun j => (s!"g{j+1}", next + 2 * j + 1))
  let callText := ",".intercalate (calls.map fun (n, l) => s!"{n}:{l}")
  let w0 : LogW := { ev := b.ev, itLen := b.it, ex := b.ex }
  -- specification
  let specV :=
    if !wf false false body then "|E:SyntaxError@compile"
    else match execFn logPrims fuel body w0 with
      | none => "SPEC-OUT-OF-FUEL"
      | some (w, .ret none) => logText w ++ "|R:None"
      | some (w, .ret (some v)) => logText w ++ s!"|R:{v}"
      | some (w, .exc c ln) => logText w ++ s!"|E:{c.name}@{callText},f:{ln}"
      | some (w, .stray) => logText w ++ "|STRAY"
  -- model: f's frame, then the wrapper frames and the module frame around it
  let (modelV, modelR) :=
    match compileFn 1 body with
    | .error _ => ("|E:SyntaxError@compile", "")
    | .ok code =>
      let (tr, e) := runTrace logPrims code fuel (initVM w0) []
      let v := match e with
        | none => "MODEL-OUT-OF-FUEL"
        | some (.panic m) => "PANIC:" ++ m
        | some (.unsupported m) => "UNSUPPORTED:" ++ m
        | some e0 =>
          let inner : LogW → LogW × CallRes := fun w => Exit.toCall w (some e0)
          let wrapLines := (calls.drop 1).map (·.2)
          let chain := runChain logPrims inner wrapLines
          match chain w0 with
          | (w, .val v) => logText w ++ "|R:" ++ valText v
          | (_, .exc _) =>
            match run { logPrims with call := chain } (moduleCode callLine) 6 (initVM w0) with
            | some (.exc e w) =>
              let cls := match e.type with | some c => c.name | none => "?"
              let names := calls.map (·.1)
              let tb := match e.tb with
                | some ls => ",".intercalate ((List.range ls.length).map fun k => s!"{names.getD k "f"}:{ls[k]!}")
                | none => "-"
              logText w ++ s!"|E:{cls}@" ++ tb
            | some (.ret v w) => logText w ++ "|R!:" ++ valText v
            | some (.panic m) => "PANIC:" ++ m
            | some (.unsupported m) => "UNSUPPORTED:" ++ m
            | none => "MODEL-OUT-OF-FUEL"
      (v, codeText code ++ "|" ++ " ".intercalate tr)
  let clob := match compileFn 1 body with
    | .ok code => clobbersParked logPrims code 4000 (initVM w0)
    | .error _ => false
  { input := label ++ " " ++ scriptText b ++ ";src=" ++ src, modelV := modelV, modelR := modelR,
    specV := specV, tags := extraTags ++ (if clob then ["clob"] else []) ++ (if isGen then ["gen"] else []) }

def nontrivialLeaf (l : String) : Bool := l != "ok" && l != "pass"

def depth1 : List Case :=
  contexts.flatMap fun (cn, c) => leaves.map fun (ln, l) =>
    progCase s!"d1:{cn}/{ln}" (c l) (if nontrivialLeaf ln then ["nt"] else [])

/-- every depth-1 program again behind two wrapper functions (three active calls in the traceback) -/
def depth1Wrapped : List Case :=
  contexts.flatMap fun (cn, c) => (leaves.filter (·.1 != "yield")).map fun (ln, l) =>
    progCase s!"d1w:{cn}/{ln}" (c l) (if nontrivialLeaf ln then ["nt"] else []) 2

def depth2 : List Case :=
  contexts.flatMap fun (cn1, c1) => contexts.flatMap fun (cn2, c2) => leaves.map fun (ln, l) =>
    progCase s!"d2:{cn1}/{cn2}/{ln}" (c1 (c2 l)) (if nontrivialLeaf ln then ["nt"] else [])

def depth3At (i j k l : Nat) : Case :=
  let (cn1, c1) := contexts[i % contexts.length]!
  let (cn2, c2) := contexts[j % contexts.length]!
  let (cn3, c3) := contexts[k % contexts.length]!
  let (ln, lf) := leaves[l % leaves.length]!
  progCase s!"d3:{cn1}/{cn2}/{cn3}/{ln}" (c1 (c2 (c3 lf))) (if nontrivialLeaf ln then ["nt"] else [])

/-- programs with a known SyntaxError status and some hand-picked shapes -/
def extras : List Case := [
  progCase "x:rawBreak" (pure (.brk 0)),
  progCase "x:rawContinue" (pure (.cont 0)),
  progCase "x:raiseThenStmt" (do let a ← okS; pure (.seq (.raise 0 .KeyError) a)) ["nt"],
  progCase "x:emptyFn" (pure (.pass 0)),
  progCase "x:plainReturn" (do let i ← evProbe [.val 5]; pure (.ret 0 i)) ["nt"],
  progCase "x:returnThenPass" (do let i ← evProbe [.val 5]; pure (.seq (.ret 0 i) (.pass 0))) ["nt"],
  progCase "x:evThenReturn" (do let a ← okS; let i ← evProbe [.val 6]; pure (.seq a (.ret 0 i))) ["nt"],
  progCase "x:returnRaises" (do let i ← evProbe [.raise .KeyError]; pure (.ret 0 i)) ["nt"],
  progCase "x:ifElseReturn" (do
      let i ← evProbe [.val 1]; let a ← okS; let j ← evProbe [.val 3]; pure (.ifS 0 i a (.ret 0 j))) ["nt"],
  progCase "x:whileElseReturn" (do
      let i ← evProbe [.val 1]; let j ← evProbe [.val 3]; pure (.whileS 0 i (.brk 0) (.ret 0 j))) ["nt"],
  progCase "x:whileNever" (do let i ← evProbe []; let b ← okS; pure (.whileS 0 i b .skip)),
  -- the handled exception is restored when an inner exception has left a finally / with / handler
  progCase "x:reraiseAfterFinally" (pure
    (.tryE 0 (.raise 0 .KeyError) (mk1 .KeyError)
      (.seq (.tryE 0 (.tryF 0 (.raise 0 .ValueError) (.pass 0)) (mk1 .ValueError) (.pass 0) none .skip .skip) (.reraise 0))
      none .skip .skip)) ["nt"],
  progCase "x:reraiseAfterWith" (do
    let i ← cmProbe [.bool false]
    pure (.tryE 0 (.raise 0 .KeyError) (mk1 .KeyError)
      (.seq (.tryE 0 (.withS 0 i (.raise 0 .ValueError)) (mk1 .ValueError) (.pass 0) none .skip .skip) (.reraise 0))
      none .skip .skip)) ["nt"],
  progCase "x:reraiseAfterInnerHandlerRaises" (pure
    (.tryE 0 (.raise 0 .KeyError) (mk1 .KeyError)
      (.seq (.tryE 0 (.tryE 0 (.raise 0 .ValueError) (mk1 .ValueError) (.raise 0 .IndexError) none .skip .skip)
               (mk1 .IndexError) (.pass 0) none .skip .skip) (.reraise 0))
      none .skip .skip)) ["nt"],
  progCase "x:noActiveAfterFinally" (pure
    (.seq (.tryE 0 (.tryF 0 (.raise 0 .ValueError) (.pass 0)) (mk1 .ValueError) (.pass 0) none .skip .skip) (.reraise 0))) ["nt"],
  progCase "x:reraiseCaughtByOuter" (do
    let a ← okS; let a2 ← okS
    pure (.tryE 0
      (.tryE 0 (.raise 0 .KeyError) (mk1 .KeyError)
        (.seq (.tryE 0 (.tryF 0 (.raise 0 .ValueError) (.pass 0)) (mk1 .ValueError) (.pass 0) none .skip .skip) (.reraise 0))
        none .skip .skip)
      (mk1 .ValueError) a2 (some (mk1 .KeyError)) a .skip)) ["nt"],
  progCase "x:bareRaise" (pure (.reraise 0)) ["nt"],
  progCase "x:plainReraise" (pure (.tryE 0 (.raise 0 .KeyError) (mk1 .LookupError true) (.reraise 0) none .skip .skip)) ["nt"],
  progCase "x:reraiseInFinally" (do
    let a ← okS; pure (.tryF 0 (.seq a (.raise 0 .OverflowError)) (.reraise 0))) ["nt"]
]

/-! ### composite contexts: a reason parked across a finally body × what the finally body does

A program of this family is  `outer( park( P , FIN ) )`:
* `P`    - the statement that leaves the try body: return / continue / break / raise / yield / fall through;
* `park` - the try/finally (or `with`) statements it leaves, k = 1 or 2 of them, and which of them has the
           non-trivial finally body `FIN`;
* `FIN`  - a finally body: a leaf (ok, continue, break, return, raise, yield, a handled exception) under up to two
           of the one-hole contexts `finCtxs` (loops with and without else, try/finally body and finally part,
           try/except body / handler / else, with, if) - so that the finally body runs its own loops with
           continue / break (JUMP_ABSOLUTE and CONTINUE_LOOP forms), its own try/finally with its own parked
           return (override), yields (generator frame resumed between park and END_FINALLY), handled
           exceptions, replacing exceptions, swallowing returns;
* `outer`- the function body itself, a `for` loop (+else) or a `while` loop around it.
Probe values avoid 2 and 4 (the why codes) so that parked pairs can be recognised on the model's stack. -/

def finCtxs : List (String × (G Stmt → G Stmt)) := [
  ("for", fun h => do let i ← itProbe 2; let b ← thenOk h; pure (.forS 0 i b .skip)),
  ("forE", fun h => do let i ← itProbe 1; let b ← h; let o ← okS; pure (.forS 0 i b o)),
  ("forElse", fun h => do let i ← itProbe 1; let b ← okS; let o ← thenOk h; pure (.forS 0 i b o)),
  ("while", fun h => do let i ← evProbe [.val 1, .val 1, .val 0]; let b ← thenOk h; pure (.whileS 0 i b .skip)),
  ("whileE", fun h => do let i ← evProbe [.val 1, .val 0]; let b ← h; let o ← okS; pure (.whileS 0 i b o)),
  ("whileElse", fun h => do let i ← evProbe [.val 0]; let b ← okS; let o ← thenOk h; pure (.whileS 0 i b o)),
  ("tryF.b", fun h => do let b ← thenOk h; let f ← okS; pure (.tryF 0 b f)),
  ("tryF.f", fun h => do let b ← okS; let f ← thenOk h; pure (.tryF 0 b f)),
  ("tryE.b", fun h => do let b ← thenOk h; let h1 ← okS; pure (.tryE 0 b (mk1 .Exception) h1 none .skip .skip)),
  ("tryE.h", fun h => do
      let h1 ← thenOk h; pure (.tryE 0 (.raise 0 .KeyError) (mk1 .LookupError) h1 none .skip .skip)),
  ("tryE.hn", fun h => do
      let h1 ← thenOk h; pure (.tryE 0 (.raise 0 .KeyError) (mk1 .LookupError true) h1 none .skip .skip)),
  ("tryE.e", fun h => do
      let b ← okS; let h1 ← okS; let o ← thenOk h; pure (.tryE 0 b (mk1 .Exception) h1 none .skip o)),
  ("with", fun h => do let i ← cmProbe []; let b ← thenOk h; pure (.withS 0 i b)),
  ("withT", fun h => do let i ← cmProbe [.bool true, .bool true]; let b ← thenOk h; pure (.withS 0 i b)),
  ("withL", fun h => do let i ← cmProbe [.int 9, .int 9]; let b ← thenOk h; pure (.withS 0 i b)),
  ("ifT", fun h => do let i ← evProbe [.val 1, .val 1]; let b ← thenOk h; let o ← okS; pure (.ifS 0 i b o))
]

def finLeaves : List (String × G Stmt) := [
  ("ok", okS),
  ("continue", pure (.cont 0)),
  ("break", pure (.brk 0)),
  ("return", do let i ← evProbe [.val 9, .val 10]; pure (.ret 0 i)),
  ("raise", pure (.raise 0 .OverflowError)),
  ("yield", do let i ← evProbe [.val 5, .val 6]; pure (.yieldS 0 i)),
  ("handled", do let a ← okS; pure (.tryE 0 (.raise 0 .ValueError) (mk1 .ValueError) a none .skip .skip)),
  ("evRaises2nd", do let i ← evProbe [.val 1, .raise .ZeroDivisionError]; pure (.ev 0 i))
]

/-- the statements that are left: (name, parked leaf P, finally body FIN) ↦ statement -/
def parkCtxs : List (String × (G Stmt → G Stmt → G Stmt)) := [
  ("F", fun p fin => do let b ← thenOk p; let f ← fin; pure (.tryF 0 b f)),
  ("FF.in", fun p fin => do let b ← p; let f ← fin; let f2 ← okS; pure (.tryF 0 (.tryF 0 b f) f2)),
  ("FF.out", fun p fin => do let b ← p; let f1 ← okS; let f ← fin; pure (.tryF 0 (.tryF 0 b f1) f)),
  ("WF", fun p fin => do let i ← cmProbe []; let b ← p; let f ← fin; pure (.withS 0 i (.tryF 0 b f))),
  ("FW", fun p fin => do let i ← cmProbe []; let b ← thenOk p; let f ← fin; pure (.tryF 0 (.withS 0 i b) f)),
  ("FWL", fun p fin => do let i ← cmProbe [.int 9]; let b ← p; let f ← fin; pure (.tryF 0 (.withS 0 i b) f)),
  ("EF", fun p fin => do
      let b ← thenOk p; let h1 ← okS; let o ← okS; let f ← fin
      pure (.tryF 0 (.tryE 0 b (mk1 .KeyError) h1 none .skip o) f)),
  ("EF.else", fun p fin => do
      let b ← okS; let h1 ← okS; let o ← p; let f ← fin
      pure (.tryF 0 (.tryE 0 b (mk1 .KeyError) h1 none .skip o) f)),
  ("HF", fun p fin => do
      let h1 ← p; let f ← fin
      pure (.tryF 0 (.tryE 0 (.raise 0 .KeyError) (mk1 .KeyError true) h1 none .skip .skip) f)),
  ("FE", fun p fin => do
      let b ← p; let f ← fin; let h1 ← okS
      pure (.tryE 0 (.tryF 0 b f) (mk1 .ArithmeticError) h1 none .skip .skip))
]

def parkLeaves : List (String × G Stmt) := [
  ("return", do let i ← evProbe [.val 7, .val 8, .val 11]; pure (.ret 0 i)),
  ("continue", pure (.cont 0)),
  ("break", pure (.brk 0)),
  ("raise", pure (.raise 0 .IndexError)),
  ("yield", do let i ← evProbe [.val 3, .val 3, .val 3]; pure (.yieldS 0 i)),
  ("ok", okS)
]

def outerCtxs : List (String × (G Stmt → G Stmt)) := [
  ("fn", fun h => thenOk h),
  ("for", fun h => do let i ← itProbe 2; let b ← thenOk h; let o ← okS; let a ← okS; pure (.seq (.forS 0 i b o) a)),
  ("while", fun h => do
      let i ← evProbe [.val 1, .val 1, .val 0]; let b ← thenOk h; let o ← okS; pure (.whileS 0 i b o)),
  ("gfor", fun h => do
      -- generator variant: the frame has already been suspended and resumed when the reason is parked
      let y ← evProbe [.val 12]; let i ← itProbe 2; let b ← thenOk h; pure (.seq (.yieldS 0 y) (.forS 0 i b .skip)))
]

/-- finally bodies: `path` = the names of the contexts from the outside in -/
def finBody (path : List Nat) (leaf : Nat) : String × G Stmt :=
  let (ln, l) := finLeaves[leaf % finLeaves.length]!
  path.foldr (fun k (acc : String × G Stmt) =>
      let (cn, c) := finCtxs[k % finCtxs.length]!
      (cn ++ "/" ++ acc.1, c acc.2))
    (ln, l)

def compositeAt (o pc p : Nat) (path : List Nat) (leaf : Nat) : Case :=
  let (on, oc) := outerCtxs[o % outerCtxs.length]!
  let (pn, pcx) := parkCtxs[pc % parkCtxs.length]!
  let (ln, lf) := parkLeaves[p % parkLeaves.length]!
  let (fname, fin) := finBody path leaf
  progCase s!"c{path.length}:{on}/{pn}/{ln}|{fname}" (oc (pcx lf fin)) ["nt"]

/-- all finally bodies with exactly `d` contexts above the leaf -/
def finPaths : Nat → List (List Nat)
  | 0 => [[]]
  | d+1 => (List.range finCtxs.length).flatMap fun k => (finPaths d).map fun r => k :: r

/-! exception matching -/

def xmCase (err : Cls) (cs : List Cls) : Case :=
  let sp : ExcSpec Cls := match cs with | [c] => .one c | cs => .tuple cs
  let t (b : Bool) := if b then "T" else "F"
  { input := s!"xm={err.name}:{",".intercalate (cs.map Cls.name)}",
    modelV := t (givenMatches builtinHier err sp), specV := t (catches cs err),
    tags := if cs != [err] then ["nt"] else [] }

def xmCases : List Case :=
  (Cls.all.flatMap fun e => Cls.all.map fun c => xmCase e [c]) ++
  (Cls.all.flatMap fun e => Cls.all.flatMap fun c => Cls.all.filterMap fun d =>
    if c = d then none else some (xmCase e [c, d])) ++
  (Cls.all.map fun e => xmCase e [.KeyError, .ValueError, .ArithmeticError]) ++
  (Cls.all.map fun e => xmCase e [])

/-! line tables -/

def kindOf (sz : Nat) : String := if sz = 0 then "l" else if sz = 1 then "o" else if sz = 3 then "a" else "x"

def rle : List Nat → List (Nat × Nat)
  | [] => []
  | x :: xs => match rle xs with
    | (y, n) :: r => if x = y then (y, n + 1) :: r else (x, 1) :: (y, n) :: r
    | [] => [(x, 1)]

def lnCase (is : List LInstr) (tag : String) : Case :=
  let total := (is.map (·.size)).foldl (· + ·) 0
  let tab := lnotab is
  let model := (List.range total).map fun p => addr2line tab 1 p
  let spec := (List.range total).map fun p => lineAtByte is 0 1 p
  let show_ (ls : List Nat) := ",".intercalate ((rle ls).map fun (l, n) => s!"{l}*{n}")
  { input := "ln=" ++ ",".intercalate (is.map fun i => s!"{kindOf i.size}{i.line}"),
    modelV := show_ model, modelR := " ".intercalate (tab.map fun (a, l) => s!"{a}.{l}"),
    specV := show_ spec, tags := [tag] }

def lnFixed : List Case := [
  lnCase [⟨1, 1⟩, ⟨3, 1⟩, ⟨3, 2⟩, ⟨1, 2⟩, ⟨3, 5⟩] "nt",
  lnCase [⟨3, 7⟩, ⟨1, 7⟩, ⟨3, 300⟩, ⟨1, 301⟩] "nt",
  lnCase ([⟨3, 2⟩] ++ List.replicate 100 ⟨3, 2⟩ ++ [⟨1, 3⟩, ⟨3, 3⟩]) "nt",
  lnCase ([⟨3, 2⟩] ++ List.replicate 90 ⟨6, 2⟩ ++ [⟨1, 600⟩, ⟨0, 600⟩, ⟨3, 600⟩, ⟨3, 1200⟩]) "nt",
  lnCase ([⟨0, 1⟩] ++ List.replicate 255 ⟨1, 1⟩ ++ [⟨1, 256⟩]) "nt",
  lnCase ([⟨3, 1⟩] ++ List.replicate 84 ⟨3, 1⟩ ++ [⟨1, 257⟩, ⟨1, 512⟩, ⟨1, 513⟩]) "nt",
  lnCase [⟨1, 1⟩] "",
  lnCase [] ""
]

def lnRandom (r : Rng) : Rng × Case := Id.run do
  let mut r := r
  let (r1, n) := r.nat 12
  r := r1
  let mut line := 1
  let mut is : List LInstr := []
  for _ in [0:n + 1] do
    let (r2, gapKind) := r.nat 6
    let (r3, gap) := r2.nat (if gapKind = 0 then 700 else if gapKind = 1 then 256 else 3)
    let (r4, runLen) := r3.nat (if gapKind ≤ 1 then 130 else 4)
    let (r5, szk) := r4.nat 4
    r := r5
    line := line + gap
    let sz := [0, 1, 3, 6][szk]!
    is := is ++ List.replicate (runLen + 1) ⟨sz, line⟩ ++ [⟨3, line⟩]
  return (r, lnCase is "nt")

def genMain (tier : String) (seed : Nat) : IO Unit := do
  let out ← IO.getStdout
  let emit (c : Case) : IO Unit := out.putStrLn c.line
  for c in extras do emit c
  for c in xmCases do emit c
  for c in lnFixed do emit c
  let mut r : Rng := ⟨UInt64.ofNat (seed * 7919 + 17)⟩
  let nLn := if tier == "thorough" then 400 else 60
  for _ in [0:nLn] do
    let (r', c) := lnRandom r
    r := r'
    emit c
  for c in depth1 do emit c
  for c in depth1Wrapped do emit c
  emit (progCase "x:wrapped1Raise" (do let a ← okS; pure (.seq a (.raise 0 .KeyError))) ["nt"] 1)
  emit (progCase "x:wrapped3Reraise" (pure (.tryE 0 (.raise 0 .KeyError) (mk1 .LookupError true) (.reraise 0) none .skip .skip)) ["nt"] 3)
  emit (progCase "x:wrapped2Return" (do let i ← evProbe [.val 5]; pure (.ret 0 i)) ["nt"] 2)
  for c in depth2 do emit c
  -- composite family: every outer × park context × parked leaf × finally body with 0 or 1 context above its leaf
  for o in [0:outerCtxs.length] do
    for pc in [0:parkCtxs.length] do
      for p in [0:parkLeaves.length] do
        for d in [0:2] do
          for path in finPaths d do
            for l in [0:finLeaves.length] do
              emit (compositeAt o pc p path l)
  -- finally bodies with two contexts above the leaf (tree depth 4 and more): complete in the thorough tier
  -- for the park contexts F / FF.in / WF / EF in every outer context, seeded samples of everything otherwise
  if tier == "thorough" then
    for o in [0:outerCtxs.length] do
      for pc in [0, 1, 3, 6] do
        for p in [0:parkLeaves.length] do
          for path in finPaths 2 do
            for l in [0:finLeaves.length] do
              emit (compositeAt o pc p path l)
  else
    for _ in [0:7000] do
      let (r1, o) := r.nat outerCtxs.length
      let (r2, pc) := r1.nat parkCtxs.length
      let (r3, p) := r2.nat parkLeaves.length
      let (r4, k1) := r3.nat finCtxs.length
      let (r5, k2) := r4.nat finCtxs.length
      let (r6, l) := r5.nat finLeaves.length
      r := r6
      emit (compositeAt o pc p [k1, k2] l)
  if tier == "thorough" then
    let n := contexts.length
    for i in [0:n] do
      for j in [0:n] do
        for k in [0:n] do
          for l in [0:leaves.length] do
            emit (depth3At i j k l)
  else
    -- seeded depth 3: 1500 uniform + 4500 weighted towards handler-in-handler / finally-in-handler shapes
    for _ in [0:1500] do
      let (r1, i) := r.nat contexts.length
      let (r2, j) := r1.nat contexts.length
      let (r3, k) := r2.nat contexts.length
      let (r4, l) := r3.nat leaves.length
      r := r4
      emit (depth3At i j k l)
    for _ in [0:4500] do
      let (r1, i) := r.nat wContexts.size
      let (r2, j) := r1.nat wContexts.size
      let (r3, k) := r2.nat wContexts.size
      let (r4, l) := r3.nat wLeaves.size
      r := r4
      emit (depth3At wContexts[i]! wContexts[j]! wContexts[k]! wLeaves[l]!)

end GPy.C02
