/-
C02 model (core Lean only): executable transliteration of

* vm/eval.go   : the unwinding loop of `RunFrame`, `UnwindBlock`, `UnwindExceptHandler`,
                 `do_END_FINALLY`, `do_WITH_CLEANUP`, `do_SETUP_WITH`, `do_POP_EXCEPT`, `do_POP_BLOCK`,
                 `do_BREAK_LOOP`, `do_CONTINUE_LOOP`, `do_FOR_ITER`, `do_SETUP_*`, jumps,
                 `do_COMPARE_OP(EXC_MATCH)`, `do_RAISE_VARARGS` (0: `Vm.raise` re-raising `vm.exc`; 1; 2: `from`),
                 `do_RETURN_VALUE`, `SetException`/`AddTraceback`, the handled-exception state `vm.exc`
                 (saved on handler entry, restored by POP_EXCEPT / UnwindExceptHandler / END_FINALLY(silenced)),
                 the error path of a nested `RunFrame` (`vm.curexc = errExcInfo; AddTraceback`) for wrapper/module frames
* py/frame.go  : `TryBlock`, `PushBlock`, `PopBlock`
* py/exception.go / py/type.go : `ExceptionGivenMatches`, `IsSubtype` (walk of the MRO)
* compile/instructions.go : `Lnotab()` ; py/code.go : `Addr2Line`
* compile/compile.go : `Stmt` for If/While/For/Break/Continue/Return/Raise/Try/With/Pass/ExprStmt,
                 `tryExcept`, `tryFinally`, `with`  (function `compS`)

The machine works on instruction indices (jump operands are instruction indices, the byte
encoding belongs to C12); everything observable by hook H2 (pc, stack depth, block stack) is kept.
-/
import GPy.Common.Basic
namespace GPy.C02

/-! ## builtin exception classes (single inheritance; py/exception.go) -/

inductive Cls
  | BaseException | Exception | LookupError | KeyError | IndexError
  | ArithmeticError | ZeroDivisionError | OverflowError | ValueError | KeyboardInterrupt
  | RuntimeError | TypeError
deriving DecidableEq, Repr, Inhabited

def Cls.all : List Cls :=
  [.BaseException, .Exception, .LookupError, .KeyError, .IndexError,
   .ArithmeticError, .ZeroDivisionError, .OverflowError, .ValueError, .KeyboardInterrupt,
   .RuntimeError, .TypeError]

def Cls.name : Cls → String
  | .BaseException => "BaseException" | .Exception => "Exception" | .LookupError => "LookupError"
  | .KeyError => "KeyError" | .IndexError => "IndexError" | .ArithmeticError => "ArithmeticError"
  | .ZeroDivisionError => "ZeroDivisionError" | .OverflowError => "OverflowError"
  | .ValueError => "ValueError" | .KeyboardInterrupt => "KeyboardInterrupt"
  | .RuntimeError => "RuntimeError" | .TypeError => "TypeError"

/-- `Type.Base` of the builtin exception types (py/exception.go `X.NewType(...)`);
`BaseException`'s base is `object`, which is not an exception class: `none`. -/
def Cls.base : Cls → Option Cls
  | .BaseException => none
  | .Exception => some .BaseException
  | .KeyboardInterrupt => some .BaseException
  | .LookupError => some .Exception
  | .ArithmeticError => some .Exception
  | .ValueError => some .Exception
  | .RuntimeError => some .Exception
  | .TypeError => some .Exception
  | .KeyError => some .LookupError
  | .IndexError => some .LookupError
  | .ZeroDivisionError => some .ArithmeticError
  | .OverflowError => some .ArithmeticError

/-! ## (B) exception matching over an arbitrary single-inheritance hierarchy -/

/-- A single-inheritance class hierarchy: `base` is `Type.Base`; `rank` witnesses that the
base chain is finite (a class is created after its base). -/
structure Hier (α : Type) where
  base : α → Option α
  rank : α → Nat
  rank_lt : ∀ a b, base a = some b → rank b < rank a

/-- `Type.Mro` of a single-inheritance class: itself followed by the MRO of its base
(`object`, never an exception class, is left out).  Fuel = rank + 1 always suffices. -/
def mroF {α} (H : Hier α) : Nat → α → List α
  | 0, _ => []
  | f+1, a => a :: (match H.base a with | some b => mroF H f b | none => [])

def mro {α} (H : Hier α) (a : α) : List α := mroF H (H.rank a + 1) a

/-- `(*Type).IsSubtype`: walk the MRO tuple, compare by identity. -/
def isSubtypeL {α} [DecidableEq α] : List α → α → Bool
  | [], _ => false
  | base :: rest, b => if base = b then true else isSubtypeL rest b

def isSubtype {α} [DecidableEq α] (H : Hier α) (a b : α) : Bool := isSubtypeL (mro H a) b

/-- what `except` may be given: one class or a tuple of classes -/
inductive ExcSpec (α : Type) | one (c : α) | tuple (cs : List α)

/-- `ExceptionGivenMatches(err, exc)` for `err` a class (or an instance, whose class is taken)
and `exc` a class or a tuple of classes (the tuple case recurses over the elements). -/
def givenMatchesL {α} [DecidableEq α] (H : Hier α) (err : α) : List α → Bool
  | [] => false
  | c :: cs => if isSubtype H err c then true else givenMatchesL H err cs

def givenMatches {α} [DecidableEq α] (H : Hier α) (err : α) : ExcSpec α → Bool
  | .one c => isSubtype H err c
  | .tuple cs => givenMatchesL H err cs

/-- The same two functions over ANY stored `Mro` (`mroOf a` = the tuple `a.Mro`, however it was
computed - for classes with several bases it is the C3 linearisation, property C16):
`IsSubtype` only walks that tuple. -/
def isSubtypeM {α} [DecidableEq α] (mroOf : α → List α) (a b : α) : Bool := isSubtypeL (mroOf a) b

def givenMatchesLM {α} [DecidableEq α] (mroOf : α → List α) (err : α) : List α → Bool
  | [] => false
  | c :: cs => if isSubtypeM mroOf err c then true else givenMatchesLM mroOf err cs

def givenMatchesM {α} [DecidableEq α] (mroOf : α → List α) (err : α) : ExcSpec α → Bool
  | .one c => isSubtypeM mroOf err c
  | .tuple cs => givenMatchesLM mroOf err cs

def Cls.rank : Cls → Nat
  | .BaseException => 0
  | .Exception | .KeyboardInterrupt => 1
  | .LookupError | .ArithmeticError | .ValueError | .RuntimeError | .TypeError => 2
  | .KeyError | .IndexError | .ZeroDivisionError | .OverflowError => 3

def builtinHier : Hier Cls where
  base := Cls.base
  rank := Cls.rank
  rank_lt := by intro a b h; cases a <;> simp [Cls.base] at h <;> subst h <;> decide

/-! ## (C) line table: `Instructions.Lnotab()` and `Code.Addr2Line` -/

/-- what `Lnotab()` reads of an instruction: `Size()` (0 for a label) and `Lineno()` -/
structure LInstr where
  size : Nat
  line : Nat
deriving Repr, DecidableEq

/-- `for d_bytecode > 255 { append(255, 0); d_bytecode -= 255 }` ; returns the entries and the rest -/
def splitAddr : Nat → Nat → List (Nat × Nat) × Nat
  | 0, d => ([], d)
  | f+1, d => if d > 255 then
      let r := splitAddr f (d - 255)
      ((255, 0) :: r.1, r.2)
    else ([], d)

/-- `for d_lineno > 255 { append(byte(d_bytecode), 255); d_bytecode = 0; d_lineno -= 255 }` followed by the
final `append(byte(d_bytecode), byte(d_lineno))` (both branches of the Go `if` append the same pair) -/
def splitLine : Nat → Nat → Nat → List (Nat × Nat)
  | 0, db, dl => [(db % 256, dl % 256)]
  | f+1, db, dl => if dl > 255 then (db % 256, 255) :: splitLine f 0 (dl - 255)
    else [(db % 256, dl % 256)]

def chunk (db dl : Nat) : List (Nat × Nat) :=
  let r := splitAddr db db
  r.1 ++ splitLine dl r.2 dl

/-- the loop of `Lnotab()`: `off` = `instr.Pos()`, `oo` = old_offset, `ol` = old_lineno -/
def lnotabGo : List LInstr → Nat → Nat → Nat → List (Nat × Nat)
  | [], _, _, _ => []
  | i :: is, off, oo, ol =>
    if i.size = 0 then lnotabGo is off oo ol
    else if i.line ≤ ol then lnotabGo is (off + i.size) oo ol      -- d_lineno <= 0: continue
    else chunk (off - oo) (i.line - ol) ++ lnotabGo is (off + i.size) off i.line

/-- `Instructions.Lnotab()` as a list of (address increment, line increment) byte pairs -/
def lnotab (is : List LInstr) : List (Nat × Nat) := lnotabGo is 0 0 1

/-- the loop of `Code.Addr2Line` -/
def addr2lineGo : List (Nat × Nat) → Nat → Nat → Nat → Nat
  | [], line, _, _ => line
  | (a, l) :: rest, line, addr, q =>
    if addr + a > q then line else addr2lineGo rest (line + l) (addr + a) q

/-- `Code.Addr2Line(addrq)` with `Firstlineno` = `first` -/
def addr2line (tab : List (Nat × Nat)) (first : Nat) (q : Nat) : Nat := addr2lineGo tab first 0 q

/-- byte position of every instruction of a stream (`Instructions.Pass`: running sum of sizes) -/
def posOf : List LInstr → Nat → Nat
  | [], _ => 0
  | _, 0 => 0
  | i :: is, k+1 => i.size + posOf is k

/-- The address `AddTraceback` hands to `Addr2Line` when instruction `k` raised: `frame.Lasti` has
been advanced past the instruction, the (repaired) code passes `Lasti - 1`. -/
def tracebackAddr (is : List LInstr) (k : Nat) : Nat := posOf is (k + 1) - 1

/-- The address the unrepaired code used (`Lasti` itself = start of the next instruction). -/
def tracebackAddrOld (is : List LInstr) (k : Nat) : Nat := posOf is (k + 1)

/-! ## (A) block stack, reasons, values -/

/-- py/frame.go `TryBlockType` -/
inductive BKind | loop | except | finally | handler
deriving DecidableEq, Repr, Inhabited

structure Block where
  kind : BKind
  handler : Int      -- instruction index; -1 for an EXCEPT_HANDLER block
  level : Nat
deriving DecidableEq, Repr, Inhabited

/-- vm/vm.go `vmStatus` -/
inductive Why | not | exception | ret | brk | cont | yield | silenced
deriving DecidableEq, Repr, Inhabited

def Why.code : Why → Int
  | .not => 0 | .exception => 1 | .ret => 2 | .brk => 3 | .cont => 4 | .yield => 5 | .silenced => 6

def Why.ofCode (n : Int) : Option Why :=
  if n = 0 then some .not else if n = 1 then some .exception else if n = 2 then some .ret
  else if n = 3 then some .brk else if n = 4 then some .cont else if n = 5 then some .yield
  else if n = 6 then some .silenced else none

inductive Fn | ev | it | cm | user      -- `user`: a Python function of the program (the callee of a wrapper frame)
deriving DecidableEq, Repr, Inhabited

/-- the Python objects that can occur on the value stack of the fragment -/
inductive Val
  | nil                         -- Go nil
  | none
  | bool (b : Bool)
  | int (n : Int)
  | fn (f : Fn)                 -- the probe builtins `ev`, `it`, `cm`
  | cls (c : Cls)               -- exception class
  | clsTuple (cs : List Cls)    -- tuple of exception classes
  | excv (c : Cls)              -- exception instance
  | tb (t : Option (List Nat))  -- *py.Traceback (nil pointer = none); the lines, innermost frame last
  | iter (h : Nat)              -- probe iterator (handle)
  | cm (i : Nat)                -- probe context manager
  | exitm (i : Nat)             -- its bound `__exit__`
deriving DecidableEq, Repr, Inhabited

/-- py.ExceptionInfo -/
structure ExcInfo where
  type : Option Cls := none
  value : Val := .nil
  tb : Option (List Nat) := none
deriving DecidableEq, Repr, Inhabited

def ExcInfo.isSet (e : ExcInfo) : Bool := e.type.isSome

/-- `x.(*py.Type)` -/
def Val.asType : Val → Option Cls
  | .cls c => Option.some c
  | _ => Option.none
/-- `x.(*py.Traceback)` -/
def Val.asTb : Val → Option (List Nat)
  | .tb t => t
  | _ => Option.none
/-- `if t == nil { PUSH(None) } else { PUSH(t) }` -/
def typeVal : Option Cls → Val
  | some c => .cls c
  | none => .none

/-- `py.MakeBool` on the values of the fragment -/
def truthy : Val → Bool
  | .none => false
  | .bool b => b
  | .int n => n != 0
  | .nil => false
  | _ => true

/-- what a probe call `ev(i)` does: return an int or raise a builtin exception -/
inductive EvRes | val (v : Int) | raise (c : Cls)
deriving DecidableEq, Repr, Inhabited

/-- how a call of a Python function (another `RunFrame`) ends for the calling frame:
`(res, nil)` or `(nil, py.ExceptionInfo)` -/
inductive CallRes | val (v : Val) | exc (e : ExcInfo)
deriving DecidableEq, Repr, Inhabited

/-- The primitives the fragment's programs can call.  `W` is the state of the outside world
(path log, probe scripts); theorems quantify over every `Prims`. -/
structure Prims (W : Type) where
  ev : W → Nat → W × EvRes
  itNew : W → Nat → W × Nat                 -- `it(i)`: a new iterator (handle)
  itNext : W → Nat → W × Option Int         -- `__next__` of the iterator with that handle
  cmEnter : W → Nat → W                     -- `cm(i).__enter__()`
  cmExit : W → Nat → Option Cls → W × Val   -- `cm(i).__exit__(type|None, ..)`, its result
  call : W → W × CallRes := fun w => (w, .val .none)   -- calling the program's function `Fn.user` (a nested `RunFrame`)
  /-- the consumer of a generator receives a yielded value (`Generator.resume` returns it to `next()`); it then
  resumes the frame with `next()` again (sends `None`) -/
  yielded : W → Val → W := fun w _ => w

structure VM (W : Type) where
  pc : Nat                 -- frame.Lasti as an instruction index
  stack : List Val         -- frame.Stack, head = top
  blocks : List Block      -- frame.Blockstack, head = frame.Block
  why : Why
  retval : Val
  curexc : ExcInfo
  exc : ExcInfo
  world : W

/-- `UnwindBlock`: `if STACK_LEVEL() > block.Level { Stack = Stack[:block.Level] }` -/
def unwindBlock (level : Nat) (st : List Val) : List Val :=
  if st.length > level then st.drop (st.length - level) else st

/-- `UnwindExceptHandler`; `none` = the Go panic "Couldn't find traceback on stack" -/
def unwindExceptHandler (level : Nat) (st : List Val) : Option (List Val × ExcInfo) :=
  if st.length < level + 3 then none
  else match st.drop (st.length - (level + 3)) with
    | t :: v :: tbv :: rest => some (rest, { type := t.asType, value := v, tb := tbv.asTb })
    | _ => none

inductive U1 (W : Type)
  | resume (vm : VM W)      -- `break` out of the unwinding loop with why = whyNot
  | again (vm : VM W)       -- next iteration of the unwinding loop
  | panic (msg : String)

/-- one iteration of `for vm.why != whyNot && frame.Block != nil { ... }` with `b = frame.Block` -/
def unwind1 {W} (vm : VM W) (b : Block) (bs : List Block) : U1 W :=
  if b.kind = .loop ∧ vm.why = .cont then
    match vm.retval with
    | .int d => .resume { vm with why := .not, pc := d.toNat }
    | _ => .panic "interface conversion: retval is not py.Int"
  else if b.kind = .handler then
    match unwindExceptHandler b.level vm.stack with
    | none => .panic "vm: Couldn't find traceback on stack"
    | some (st, e) => .again { vm with blocks := bs, stack := st, exc := e }
  else
    let st := unwindBlock b.level vm.stack
    if b.kind = .loop ∧ vm.why = .brk then
      .resume { vm with blocks := bs, stack := st, why := .not, pc := b.handler.toNat }
    else if vm.why = .exception ∧ (b.kind = .except ∨ b.kind = .finally) then
      .resume { vm with
        blocks := ⟨.handler, -1, st.length⟩ :: bs
        stack := typeVal vm.curexc.type :: vm.curexc.value :: .tb vm.curexc.tb ::
                 typeVal vm.exc.type :: vm.exc.value :: .tb vm.exc.tb :: st
        exc := vm.curexc, curexc := {}, why := .not, pc := b.handler.toNat }
    else if b.kind = .finally then
      let st1 := if vm.why = .ret ∨ vm.why = .cont then vm.retval :: st else st
      .resume { vm with blocks := bs, stack := .int vm.why.code :: st1, why := .not, pc := b.handler.toNat }
    else .again { vm with blocks := bs, stack := st }

inductive URes (W : Type)
  | resume (vm : VM W)      -- a block took the reason; execution continues at `vm.pc`
  | exit (vm : VM W)        -- block stack exhausted: the frame exits with `vm.why`
  | panic (msg : String)

/-- the whole unwinding loop -/
def unwindL {W} : List Block → VM W → URes W
  | [], vm => .exit vm
  | b :: bs, vm =>
    match unwind1 vm b bs with
    | .resume vm' => .resume vm'
    | .again vm' => unwindL bs vm'
    | .panic m => .panic m

def unwind {W} (vm : VM W) : URes W := unwindL vm.blocks vm

/-! ## instructions -/

inductive Glob | fn (f : Fn) | cls (c : Cls)
deriving DecidableEq, Repr, Inhabited

inductive Const | none | int (n : Int)
deriving DecidableEq, Repr, Inhabited

inductive Instr
  | loadGlobal (g : Glob) | loadConst (k : Const) | callFunction (n : Nat)
  | popTop | dupTop
  | popJumpIfFalse (t : Nat) | jumpForward (t : Nat) | jumpAbsolute (t : Nat)
  | setupLoop (t : Nat) | setupExcept (t : Nat) | setupFinally (t : Nat) | setupWith (t : Nat)
  | popBlock | popExcept | endFinally | withCleanup
  | breakLoop | continueLoop (t : Nat)
  | getIter | forIter (t : Nat)
  | storeFast (v : String) | deleteFast (v : String)
  | compareExcMatch | buildTuple (n : Nat)
  | raiseVarargs (n : Nat) | returnValue
  | yieldValue
deriving DecidableEq, Repr, Inhabited

inductive Res (W : Type)
  | ok (vm : VM W)
  | panic (msg : String)        -- a Go panic the real code would hit
  | unsupported (msg : String)  -- outside the modelled fragment (never reached by compiled programs)

/-- `SetException` of a fresh exception of class `c` raised by the instruction on line `ln`
(`AddTraceback` after the repair: the line of the instruction itself). -/
def raiseAt {W} (vm : VM W) (c : Cls) (ln : Nat) : VM W :=
  { vm with curexc := { type := some c, value := .excv c, tb := some [ln] }, why := .exception }

def pushBlock {W} (vm : VM W) (k : BKind) (h : Int) : VM W :=
  { vm with blocks := ⟨k, h, vm.stack.length⟩ :: vm.blocks }

/-- all classes of `b` (class or tuple of classes); `none` = "catching classes that do not inherit from BaseException" -/
def excSpecOf : Val → Option (ExcSpec Cls)
  | .cls c => some (.one c)
  | .clsTuple cs => some (.tuple cs)
  | _ => none

def popN : Nat → List Val → Option (List Val × List Val)
  | 0, st => some ([], st)
  | n+1, v :: st => match popN n st with
    | some (xs, r) => some (xs ++ [v], r)
    | none => none
  | _+1, [] => none

def allCls : List Val → Option (List Cls)
  | [] => some []
  | .cls c :: r => match allCls r with | some cs => some (c :: cs) | none => none
  | _ :: _ => none

/-- an exception class or instance (what `raise` / `from` accept in the fragment): its class -/
def raisable : Val → Option Cls
  | .cls c => some c
  | .excv c => some c
  | _ => none

/-- `jumpTable[opcode](&vm, arg)`; `vm.pc` has already been advanced; `ln` is the line of the instruction -/
def exec {W} (P : Prims W) (i : Instr) (ln : Nat) (vm : VM W) : Res W :=
  match i with
  | .loadGlobal (.fn f) => .ok { vm with stack := .fn f :: vm.stack }
  | .loadGlobal (.cls c) => .ok { vm with stack := .cls c :: vm.stack }
  | .loadConst .none => .ok { vm with stack := .none :: vm.stack }
  | .loadConst (.int n) => .ok { vm with stack := .int n :: vm.stack }
  | .callFunction n =>
    if n = 1 then
      match vm.stack with
      | .int i :: .fn .ev :: rest =>
        match P.ev vm.world i.toNat with
        | (w, .val v) => .ok { vm with stack := .int v :: rest, world := w }
        | (w, .raise c) => .ok (raiseAt { vm with stack := rest, world := w } c ln)
      | .int i :: .fn .it :: rest =>
        let r := P.itNew vm.world i.toNat
        .ok { vm with stack := .iter r.2 :: rest, world := r.1 }
      | .int i :: .fn .cm :: rest => .ok { vm with stack := .cm i.toNat :: rest }
      | .int _ :: .cls c :: rest => .ok { vm with stack := .excv c :: rest }   -- `C(k)`: ExceptionNew
      | _ => .unsupported "CALL_FUNCTION operands"
    else if n = 0 then
      -- a call of a Python function: a nested RunFrame.  When it returns a `py.ExceptionInfo`,
      -- RunFrame does `vm.curexc = errExcInfo; vm.AddTraceback(&vm.curexc)`: the callee's traceback
      -- is kept and an entry for THIS frame (line of the call) is put in front of it
      match vm.stack with
      | .fn .user :: rest =>
        (match P.call vm.world with
         | (w, .val v) => .ok { vm with stack := v :: rest, world := w }
         | (w, .exc e) =>
           .ok { vm with stack := rest, world := w, why := .exception,
                         curexc := { e with tb := some (ln :: e.tb.getD []) } })
      | _ => .unsupported "CALL_FUNCTION operands"
    else .unsupported "CALL_FUNCTION argc"
  | .popTop =>
    match vm.stack with
    | _ :: rest => .ok { vm with stack := rest }
    | [] => .panic "stack underflow"
  | .dupTop =>
    match vm.stack with
    | v :: rest => .ok { vm with stack := v :: v :: rest }
    | [] => .panic "stack underflow"
  | .popJumpIfFalse t =>
    match vm.stack with
    | v :: rest => .ok (if truthy v then { vm with stack := rest } else { vm with stack := rest, pc := t })
    | [] => .panic "stack underflow"
  | .jumpForward t => .ok { vm with pc := t }
  | .jumpAbsolute t => .ok { vm with pc := t }
  | .setupLoop t => .ok (pushBlock vm .loop t)
  | .setupExcept t => .ok (pushBlock vm .except t)
  | .setupFinally t => .ok (pushBlock vm .finally t)
  | .setupWith t =>
    match vm.stack with
    | .cm i :: rest =>
      let vm1 := { vm with stack := .exitm i :: rest, world := P.cmEnter vm.world i }
      let vm2 := pushBlock vm1 .finally t
      .ok { vm2 with stack := .none :: vm2.stack }
    | _ :: _ => .unsupported "SETUP_WITH: not a probe context manager"
    | [] => .panic "stack underflow"
  | .popBlock =>
    match vm.blocks with
    | _ :: bs => .ok { vm with blocks := bs }
    | [] => .panic "PopBlock on an empty block stack"
  | .popExcept =>
    match vm.blocks with
    | b :: bs =>
      if b.kind ≠ .handler then .unsupported "SystemError: popped block is not an except handler"
      else match unwindExceptHandler b.level vm.stack with
        | some (st, e) => .ok { vm with blocks := bs, stack := st, exc := e }
        | none => .panic "vm: Couldn't find traceback on stack"
    | [] => .panic "nil block"
  | .endFinally =>
    match vm.stack with
    | [] => .panic "stack underflow"
    | .none :: rest => .ok { vm with stack := rest }
    | .int n :: rest =>
      match Why.ofCode n with
      | none => .unsupported "END_FINALLY: unknown why code"
      | some .yield => .panic "vm: Unexpected whyYield in END_FINALLY"
      | some .exception => .panic "vm: Unexpected whyException in END_FINALLY"
      | some .ret =>
        (match rest with
         | rv :: rest' => .ok { vm with stack := rest', why := .ret, retval := rv }
         | [] => .panic "stack underflow")
      | some .cont =>
        (match rest with
         | rv :: rest' => .ok { vm with stack := rest', why := .cont, retval := rv }
         | [] => .panic "stack underflow")
      | some .silenced =>
        (match vm.blocks with
         | b :: bs =>
           if b.kind ≠ .handler then .panic "vm: Expecting EXCEPT_HANDLER in END_FINALLY"
           else match unwindExceptHandler b.level rest with
             | some (st, e) => .ok { vm with blocks := bs, stack := st, exc := e, why := .not }
             | none => .panic "vm: Couldn't find traceback on stack"
         | [] => .panic "nil block")
      | some w => .ok { vm with stack := rest, why := w }
    | .cls c :: rest =>
      (match rest with
       | w :: u :: rest' =>
         .ok { vm with stack := rest', curexc := { type := some c, value := w, tb := u.asTb }, why := .exception }
       | _ => .panic "stack underflow")
    | _ :: _ => .unsupported "SystemError: 'finally' pops bad exception"
  | .withCleanup =>
    match vm.stack with
    | [] => .panic "stack underflow"
    | .none :: .exitm i :: rest =>
      let r := P.cmExit vm.world i none
      .ok { vm with stack := .none :: rest, world := r.1 }
    | .int n :: rest =>
      if n = Why.ret.code ∨ n = Why.cont.code then
        match rest with
        | rv :: .exitm i :: rest' =>
          let r := P.cmExit vm.world i none
          .ok { vm with stack := .int n :: rv :: rest', world := r.1 }
        | _ => .unsupported "WITH_CLEANUP stack shape"
      else
        match rest with
        | .exitm i :: rest' =>
          let r := P.cmExit vm.world i none
          .ok { vm with stack := .int n :: rest', world := r.1 }
        | _ => .unsupported "WITH_CLEANUP stack shape"
    | .cls c :: val :: tbv :: tp2 :: exc2 :: tb2 :: .exitm i :: rest =>
      match vm.blocks with
      | b :: bs =>
        if b.kind ≠ .handler then .panic "vm: WITH_CLEANUP expecting TryBlockExceptHandler"
        else
          let r := P.cmExit vm.world i (some c)
          let st := .cls c :: val :: tbv :: .nil :: tp2 :: exc2 :: tb2 :: rest
          let st := if truthy r.2 then .int Why.silenced.code :: st else st
          .ok { vm with stack := st, blocks := { b with level := b.level - 1 } :: bs, world := r.1 }
      | [] => .panic "nil block"
    | _ => .unsupported "WITH_CLEANUP stack shape"
  | .breakLoop => .ok { vm with why := .brk }
  | .continueLoop t => .ok { vm with retval := .int t, why := .cont }
  | .getIter =>
    match vm.stack with
    | .iter h :: rest => .ok { vm with stack := .iter h :: rest }
    | _ => .unsupported "GET_ITER operand"
  | .forIter t =>
    match vm.stack with
    | .iter h :: rest =>
      (match P.itNext vm.world h with
       | (w, some k) => .ok { vm with stack := .int k :: .iter h :: rest, world := w }
       | (w, none) => .ok { vm with stack := rest, pc := t, world := w })
    | _ => .unsupported "FOR_ITER operand"
  | .storeFast _ =>
    match vm.stack with
    | _ :: rest => .ok { vm with stack := rest }
    | [] => .panic "stack underflow"
  | .deleteFast _ => .ok vm
  | .compareExcMatch =>
    match vm.stack with
    | b :: a :: rest =>
      (match excSpecOf b, a with
       | some sp, .cls e => .ok { vm with stack := .bool (givenMatches builtinHier e sp) :: rest }
       | _, _ => .unsupported "EXC_MATCH operands")
    | _ => .panic "stack underflow"
  | .buildTuple n =>
    match popN n vm.stack with
    | some (xs, rest) =>
      (match allCls xs with
       | some cs => .ok { vm with stack := .clsTuple cs :: rest }
       | none => .unsupported "BUILD_TUPLE of non-classes")
    | none => .panic "stack underflow"
  | .raiseVarargs n =>
    if n = 0 then
      -- `vm.raise(nil, nil)`: re-raise the exception being handled; no traceback entry is added
      if vm.exc.isSet then .ok { vm with curexc := vm.exc, why := .exception }
      else .ok (raiseAt vm .RuntimeError ln)
    else if n = 1 then
      match vm.stack with
      | .cls c :: rest => .ok (raiseAt { vm with stack := rest } c ln)
      | .excv c :: rest => .ok (raiseAt { vm with stack := rest } c ln)
      | .int _ :: rest => .ok (raiseAt { vm with stack := rest } .TypeError ln)   -- after the repair of `raise 5`
      | _ :: _ => .unsupported "RAISE_VARARGS operand"
      | [] => .panic "stack underflow"
    else if n = 2 then
      -- `raise E from C`: the cause only lands in `Exception.Cause`
      match vm.stack with
      | cause :: e :: rest =>
        (match raisable cause, raisable e with
         | some _, some c => .ok (raiseAt { vm with stack := rest } c ln)
         | _, _ => .unsupported "RAISE_VARARGS operands")
      | _ => .panic "stack underflow"
    else .panic "vm: Bad RAISE_VARARGS argc"
  | .returnValue =>
    match vm.stack with
    | v :: rest => .ok { vm with stack := rest, retval := v, why := .ret }
    | [] => .panic "stack underflow"
  | .yieldValue =>
    -- `vm.retval = vm.POP(); vm.frame.Yielded = true; vm.why = whyYield`
    match vm.stack with
    | v :: rest => .ok { vm with stack := rest, retval := v, why := .yield }
    | [] => .panic "stack underflow"

abbrev Code := List (Instr × Nat)

/-- how `RunFrame` ends -/
inductive Exit (W : Type)
  | ret (v : Val) (w : W)
  | exc (e : ExcInfo) (w : W)
  | panic (msg : String)
  | unsupported (msg : String)

inductive Step (W : Type)
  | next (vm : VM W)
  | done (e : Exit W)

/-- the epilogue of `RunFrame` after the main loop -/
def frameExit {W} (vm : VM W) : Exit W :=
  let rv := if vm.why ≠ .ret then Val.nil else vm.retval
  if rv = .nil ∧ ¬ vm.curexc.isSet then .panic "vm: no result or exception"
  else if rv ≠ .nil ∧ vm.curexc.isSet then .panic "vm: result and exception"
  else if vm.curexc.isSet then .exc vm.curexc vm.world
  else .ret rv vm.world

/-- A generator frame that has yielded (`if vm.why == whyYield { goto fast_yield }`: the block stack
is NOT unwound, `frame.Exc = *vm.exc`, `vm.retval` goes to the consumer) and is resumed by the
consumer's next `next()` (`Generator.resume`: `Frame.Stack = append(Frame.Stack, None)`, then
`RunFrame(frame)` again).  What survives is the FRAME: `Lasti`, the value stack, the block stack and
(`frame.Exc`, restored into `vm.ownExc`) the handled exception.  The registers of the `Vm` value do
not: `RunFrame` starts with a fresh `Vm{}` - `why = whyNot`, `retval = nil`, `curexc` unset.  So a
`return`/`continue` parked on the value stack across a finally body survives a yield inside that
body, the register `vm.retval` does not. -/
def resumeGen {W} (P : Prims W) (vm : VM W) : VM W :=
  { vm with why := .not, retval := .nil, curexc := {}, stack := .none :: vm.stack,
            world := P.yielded vm.world vm.retval }

/-- One transition of `RunFrame`: dispatch an instruction (why = whyNot), or one iteration of the
unwinding loop (why ≠ whyNot and a block is left), or leave the frame; for a generator frame
also: hand a yielded value to the consumer and be resumed (`resumeGen`). -/
def step {W} (P : Prims W) (code : Code) (vm : VM W) : Step W :=
  if vm.why = .not then
    match code[vm.pc]? with
    | none => .done (.panic "index out of range: Lasti past the code")
    | some (i, ln) =>
      match exec P i ln { vm with pc := vm.pc + 1 } with
      | .ok vm' => .next vm'
      | .panic m => .done (.panic m)
      | .unsupported m => .done (.unsupported m)
  else if vm.why = .yield then .next (resumeGen P vm)
  else
    match vm.blocks with
    | [] => .done (frameExit vm)
    | b :: bs =>
      match unwind1 vm b bs with
      | .resume vm' => .next vm'
      | .again vm' => .next vm'
      | .panic m => .done (.panic m)

def initVM {W} (w : W) : VM W :=
  { pc := 0, stack := [], blocks := [], why := .not, retval := .nil, curexc := {}, exc := {}, world := w }

/-- `RunFrame` with fuel; `none` = out of fuel -/
def run {W} (P : Prims W) (code : Code) : Nat → VM W → Option (Exit W)
  | 0, _ => none
  | f+1, vm => match step P code vm with
    | .next vm' => run P code f vm'
    | .done e => some e

/-! ## calling frames: `def g(): return f()` and the module-level `r = f()` -/

/-- code of a wrapper function `def g(): return f()` whose `return` is on line `ln` -/
def wrapperCode (ln : Nat) : Code :=
  [(.loadGlobal (.fn .user), ln), (.callFunction 0, ln), (.returnValue, ln)]

/-- code of the module-level statement `r = f()` on line `ln` followed by the module's
`LOAD_CONST None; RETURN_VALUE` (LOAD_NAME / STORE_NAME have the stack effect of LOAD_GLOBAL / STORE_FAST) -/
def moduleCode (ln : Nat) : Code :=
  [(.loadGlobal (.fn .user), ln), (.callFunction 0, ln), (.storeFast "r", ln), (.loadConst .none, ln), (.returnValue, ln)]

/-- what the caller of `RunFrame` gets -/
def Exit.toCall {W} (w0 : W) : Option (Exit W) → W × CallRes
  | some (.ret v w) => (w, .val v)
  | some (.exc e w) => (w, .exc e)
  | _ => (w0, .val .nil)          -- panic / unsupported / out of fuel: not a result (never produced by the theorems' hypotheses)

/-- a chain of wrapper frames around an innermost call `inner`; `lns` = the lines of the calls, outermost first -/
def runChain {W} (P : Prims W) (inner : W → W × CallRes) : List Nat → W → W × CallRes
  | [], w => inner w
  | ln :: rest, w => Exit.toCall w (run { P with call := runChain P inner rest } (wrapperCode ln) 4 (initVM w))

/-! ## compiler: compile/compile.go for the statement fragment -/

/-- one `except` clause head: `except C:` / `except (C1, C2):` with or without `as e`; `ln` = its line -/
structure Matcher where
  ln : Nat
  classes : List Cls      -- one class = plain name, otherwise a tuple display
  named : Bool
deriving Repr, DecidableEq, Inhabited

/-- the other forms of `raise` -/
inductive RaiseForm
  | inst (c : Cls) (k : Nat)      -- `raise C(k)`
  | from (c d : Cls)              -- `raise C from D`
  | nonExc (k : Nat)              -- `raise k` with an int: TypeError
deriving Repr, DecidableEq, Inhabited

def RaiseForm.len : RaiseForm → Nat
  | .inst _ _ => 4 | .from _ _ => 3 | .nonExc _ => 2

inductive Stmt
  | skip                                            -- empty statement list (absent else / no text)
  | pass (ln : Nat)
  | ev (ln i : Nat)                                 -- `ev(i)`
  | ret (ln i : Nat)                                -- `return ev(i)`
  | yieldS (ln i : Nat)                             -- `yield ev(i)` (expression statement; makes `f` a generator)
  | raise (ln : Nat) (c : Cls)                      -- `raise C`
  | reraise (ln : Nat)                              -- bare `raise`: re-raise the exception being handled
  | raiseX (ln : Nat) (f : RaiseForm)               -- `raise C(k)` / `raise C from D` / `raise k`
  | brk (ln : Nat)
  | cont (ln : Nat)
  | seq (a b : Stmt)
  | ifS (ln i : Nat) (body orelse : Stmt)           -- `if ev(i): body else: orelse`
  | whileS (ln i : Nat) (body orelse : Stmt)        -- `while ev(i): body else: orelse`
  | forS (ln i : Nat) (body orelse : Stmt)          -- `for x in it(i): body else: orelse`
  | tryF (ln : Nat) (body fin : Stmt)               -- `try: body finally: fin`
  | tryE (ln : Nat) (body : Stmt) (m1 : Matcher) (h1 : Stmt) (m2 : Option Matcher) (h2 : Stmt) (orelse : Stmt)
  | withS (ln i : Nat) (body : Stmt)                -- `with cm(i): body`
deriving Repr, Inhabited

/-- compile.go `loop` entries of `c.loops` (only `Start` is ever read) -/
inductive Loop | loop (start : Nat) | except | finallyTry | finallyEnd
deriving DecidableEq, Repr, Inhabited

abbrev Ctx := List Loop

/-- the search `for ; i >= 0; i-- { if loopLoop break; if finallyEndLoop -> SyntaxError }` -/
def findLoop : Ctx → Option Nat
  | [] => none                       -- 'continue' not properly in loop
  | .loop s :: _ => some s
  | .finallyEnd :: _ => none         -- 'continue' not supported inside 'finally' clause
  | _ :: rest => findLoop rest

/-- the instruction `Stmt(*ast.Continue)` emits; `none` = SyntaxError -/
def contInstr : Ctx → Option Instr
  | [] => none
  | .loop s :: _ => some (.jumpAbsolute s)
  | .finallyEnd :: _ => none
  | _ :: rest => (findLoop rest).map .continueLoop

def handlerLen (m : Matcher) (hlen : Nat) : Nat :=
  (1 + (if m.classes.length = 1 then 1 else m.classes.length + 1) + 2) + 1 +
  (if m.named then 3 + hlen + 7 else 2 + hlen + 1) + 1

/-- number of instructions emitted for a statement -/
def len : Stmt → Nat
  | .skip => 0 | .pass _ => 0
  | .ev _ _ => 4 | .ret _ _ => 4 | .yieldS _ _ => 5 | .raise _ _ => 2 | .brk _ => 1 | .cont _ => 1
  | .reraise _ => 1 | .raiseX _ f => f.len
  | .seq a b => len a + len b
  | .ifS _ _ b o => 5 + len b + len o
  | .whileS _ _ b o => 7 + len b + len o
  | .forS _ _ b o => 9 + len b + len o
  | .tryF _ b f => 4 + len b + len f
  | .tryE _ b m1 h1 m2 h2 o =>
    3 + len b + handlerLen m1 (len h1) + (match m2 with | some m => handlerLen m (len h2) | none => 0) + 1 + len o
  | .withS _ _ b => 9 + len b

/-- `c.Lineno` after compiling the statement, given its value before -/
def endLine : Nat → Stmt → Nat
  | cur, .skip => cur
  | _, .pass ln => ln | _, .ev ln _ => ln | _, .ret ln _ => ln | _, .yieldS ln _ => ln | _, .raise ln _ => ln
  | _, .brk ln => ln | _, .cont ln => ln | _, .reraise ln => ln | _, .raiseX ln _ => ln
  | cur, .seq a b => endLine (endLine cur a) b
  | _, .ifS ln _ b o => endLine (endLine ln b) o
  | _, .whileS ln _ b o => endLine (endLine ln b) o
  | _, .forS ln _ b o => endLine (endLine ln b) o
  | _, .tryF ln b f => endLine (endLine ln b) f
  | _, .tryE _ _ m1 h1 m2 h2 o =>
    let l1 := endLine m1.ln h1
    let l2 := match m2 with | some m => endLine m.ln h2 | none => l1
    endLine l2 o
  | _, .withS ln _ b => endLine ln b

def callProbe (f : Fn) (i ln : Nat) : Code :=
  [(.loadGlobal (.fn f), ln), (.loadConst (.int i), ln), (.callFunction 1, ln)]

/-- `c.Expr(handler.ExprType)`: a name, or a tuple display of names (`Expr` sets `c.Lineno`) -/
def classesExpr (m : Matcher) : Code :=
  match m.classes with
  | [c] => [(.loadGlobal (.cls c), m.ln)]
  | cs => cs.map (fun c => (.loadGlobal (.cls c), m.ln)) ++ [(.buildTuple cs.length, m.ln)]

/-- position of the handler body inside `compHandler` -/
def handlerBodyOff (m : Matcher) : Nat :=
  (1 + (if m.classes.length = 1 then 1 else m.classes.length + 1) + 2) + 1 + (if m.named then 3 else 2)

/-- one iteration of the `for i, handler := range node.Handlers` loop of `tryExcept`;
`pc` = index of its first instruction, `cur` = `c.Lineno` on entry, `body` = compiled handler body
(already placed), `bl` = `c.Lineno` after the body, `endL` = the `end` label -/
def compHandler (m : Matcher) (pc cur : Nat) (body : Code) (bl : Nat) (endL : Nat) : Code :=
  let next := pc + handlerLen m body.length
  let cleanup := pc + handlerBodyOff m + body.length + 3
  [(.dupTop, cur)] ++ classesExpr m ++ [(.compareExcMatch, m.ln), (.popJumpIfFalse next, m.ln)] ++
  [(.popTop, m.ln)] ++
  (if m.named then
    [(.storeFast "e", m.ln), (.popTop, m.ln), (.setupFinally cleanup, m.ln)] ++ body ++
    [(.popBlock, bl), (.popExcept, bl), (.loadConst .none, bl),
     (.loadConst .none, bl), (.storeFast "e", bl), (.deleteFast "e", bl), (.endFinally, bl)]
   else
    [(.popTop, m.ln), (.popTop, m.ln)] ++ body ++ [(.popExcept, bl)]) ++
  [(.jumpForward endL, bl)]

/-- `compiler.Stmt` / `Stmts`: `ctx` = `c.loops`, `pc` = index of the first emitted instruction,
`cur` = `c.Lineno` on entry.  SyntaxErrors are reported by `compErr`; where the Go code panics with
one, `compS` emits nothing for the offending statement. -/
def compS : Ctx → Nat → Nat → Stmt → Code
  | _, _, _, .skip => []
  | _, _, _, .pass _ => []
  | _, _, _, .ev ln i => callProbe .ev i ln ++ [(.popTop, ln)]
  | _, _, _, .ret ln i => callProbe .ev i ln ++ [(.returnValue, ln)]
  | _, _, _, .yieldS ln i => callProbe .ev i ln ++ [(.yieldValue, ln), (.popTop, ln)]
  | _, _, _, .raise ln c => [(.loadGlobal (.cls c), ln), (.raiseVarargs 1, ln)]
  | _, _, _, .reraise ln => [(.raiseVarargs 0, ln)]
  | _, _, _, .raiseX ln (.inst c k) =>
    [(.loadGlobal (.cls c), ln), (.loadConst (.int k), ln), (.callFunction 1, ln), (.raiseVarargs 1, ln)]
  | _, _, _, .raiseX ln (.from c d) => [(.loadGlobal (.cls c), ln), (.loadGlobal (.cls d), ln), (.raiseVarargs 2, ln)]
  | _, _, _, .raiseX ln (.nonExc k) => [(.loadConst (.int k), ln), (.raiseVarargs 1, ln)]
  | _, _, _, .brk ln => [(.breakLoop, ln)]
  | ctx, _, _, .cont ln => match contInstr ctx with
    | some i => [(i, ln)]
    | none => [(.jumpAbsolute 0, ln)]   -- placeholder, `compErr` reports the SyntaxError
  | ctx, pc, cur, .seq a b => compS ctx pc cur a ++ compS ctx (pc + len a) (endLine cur a) b
  | ctx, pc, _, .ifS ln i b o =>
    let orelse := pc + 4 + len b + 1
    let endif := orelse + len o
    callProbe .ev i ln ++ [(.popJumpIfFalse orelse, ln)] ++ compS ctx (pc + 4) ln b ++
    [(.jumpForward endif, endLine ln b)] ++ compS ctx orelse (endLine ln b) o
  | ctx, pc, _, .whileS ln i b o =>
    let endwhile := pc + 5 + len b + 1
    let endpop := endwhile + 1 + len o
    let l1 := endLine ln b
    [(.setupLoop endpop, ln)] ++ callProbe .ev i ln ++ [(.popJumpIfFalse endwhile, ln)] ++
    compS (.loop (pc + 1) :: ctx) (pc + 5) ln b ++
    [(.jumpAbsolute (pc + 1), l1), (.popBlock, l1)] ++ compS ctx (endwhile + 1) l1 o
  | ctx, pc, _, .forS ln i b o =>
    let endfor := pc + 7 + len b + 1
    let endpop := endfor + 1 + len o
    let l1 := endLine ln b
    [(.setupLoop endpop, ln)] ++ callProbe .it i ln ++ [(.getIter, ln), (.forIter endfor, ln), (.storeFast "x", ln)] ++
    compS (.loop (pc + 5) :: ctx) (pc + 7) ln b ++
    [(.jumpAbsolute (pc + 5), l1), (.popBlock, l1)] ++ compS ctx (endfor + 1) l1 o
  | ctx, pc, _, .tryF ln b f =>
    let fin := pc + 1 + len b + 2
    let l1 := endLine ln b
    [(.setupFinally fin, ln)] ++ compS (.finallyTry :: ctx) (pc + 1) ln b ++
    [(.popBlock, l1), (.loadConst .none, l1)] ++ compS (.finallyEnd :: ctx) fin l1 f ++
    [(.endFinally, endLine l1 f)]
  | ctx, pc, _, .tryE ln b m1 h1 m2 h2 o =>
    let ctx' := Loop.except :: ctx
    let exc := pc + 1 + len b + 2
    let hl1 := handlerLen m1 (len h1)
    let hl2 := match m2 with | some m => handlerLen m (len h2) | none => 0
    let orelse := exc + hl1 + hl2 + 1
    let endL := orelse + len o
    let l0 := endLine ln b
    let l1 := endLine m1.ln h1
    let l2 := match m2 with | some m => endLine m.ln h2 | none => l1
    [(.setupExcept exc, ln)] ++ compS ctx' (pc + 1) ln b ++
    [(.popBlock, l0), (.jumpForward orelse, l0)] ++
    compHandler m1 exc l0 (compS ctx' (exc + handlerBodyOff m1) m1.ln h1) l1 endL ++
    (match m2 with
     | some m => compHandler m (exc + hl1) l1 (compS ctx' (exc + hl1 + handlerBodyOff m) m.ln h2) l2 endL
     | none => []) ++
    [(.endFinally, l2)] ++ compS ctx' orelse l2 o
  | ctx, pc, _, .withS ln i b =>
    let fin := pc + 5 + len b + 2
    let l1 := endLine ln b
    callProbe .cm i ln ++ [(.setupWith fin, ln), (.popTop, ln)] ++
    compS (.finallyTry :: ctx) (pc + 5) ln b ++
    [(.popBlock, l1), (.loadConst .none, l1), (.withCleanup, l1), (.endFinally, l1)]

/-- `Stmt(*ast.Break)`: some entry of `c.loops` is a real loop -/
def hasLoop : Ctx → Bool
  | [] => false
  | .loop _ :: _ => true
  | _ :: rest => hasLoop rest

/-- the SyntaxErrors `Stmt` raises for the fragment (`none` = compiles); same traversal (loop
stack, positions) as `compS` -/
def compErr : Ctx → Nat → Stmt → Option String
  | _, _, .skip | _, _, .pass _ | _, _, .ev _ _ | _, _, .ret _ _ | _, _, .raise _ _ => none
  | _, _, .reraise _ | _, _, .raiseX _ _ | _, _, .yieldS _ _ => none
  | ctx, _, .brk _ => if hasLoop ctx then none else some "'break' outside loop"
  | ctx, _, .cont _ => match contInstr ctx with
    | some _ => none
    | none => some "'continue' not properly in loop / not supported inside 'finally' clause"
  | ctx, pc, .seq a b => (compErr ctx pc a).orElse fun _ => compErr ctx (pc + len a) b
  | ctx, pc, .ifS _ _ b o => (compErr ctx (pc + 4) b).orElse fun _ => compErr ctx (pc + 4 + len b + 1) o
  | ctx, pc, .whileS _ _ b o =>
    (compErr (.loop (pc + 1) :: ctx) (pc + 5) b).orElse fun _ => compErr ctx (pc + 5 + len b + 1 + 1) o
  | ctx, pc, .forS _ _ b o =>
    (compErr (.loop (pc + 5) :: ctx) (pc + 7) b).orElse fun _ => compErr ctx (pc + 7 + len b + 1 + 1) o
  | ctx, pc, .tryF _ b f =>
    (compErr (.finallyTry :: ctx) (pc + 1) b).orElse fun _ => compErr (.finallyEnd :: ctx) (pc + 1 + len b + 2) f
  | ctx, pc, .tryE _ b m1 h1 m2 h2 o =>
    let exc := pc + 1 + len b + 2
    let hl1 := handlerLen m1 (len h1)
    let hl2 := match m2 with | some m => handlerLen m (len h2) | none => 0
    (compErr (.except :: ctx) (pc + 1) b).orElse fun _ =>
    (compErr (.except :: ctx) (exc + handlerBodyOff m1) h1).orElse fun _ =>
    (match m2 with
     | some m => compErr (.except :: ctx) (exc + hl1 + handlerBodyOff m) h2
     | none => none).orElse fun _ => compErr (.except :: ctx) (exc + hl1 + hl2 + 1) o
  | ctx, pc, .withS _ _ b => compErr (.finallyTry :: ctx) (pc + 5) b

/-- `Instructions.EndsWithReturn`: the last element of the instruction list (labels included) is the
op RETURN_VALUE.  Every compound statement ends with a label (or END_FINALLY), `pass` emits nothing:
so this holds iff the last emitting statement of the list is a `return`. (`prev` = answer for the
list compiled so far.) -/
def endsRet : Bool → Stmt → Bool
  | prev, .skip => prev
  | prev, .pass _ => prev
  | _, .ret _ _ => true
  | prev, .seq a b => endsRet (endsRet prev a) b
  | _, _ => false

/-- `compileAst` for a function body: `LOAD_CONST None; RETURN_VALUE` appended unless
`EndsWithReturn()`.  `defLine` = line of the `def` (c.Lineno when the body starts). -/
def compileFn (defLine : Nat) (body : Stmt) : Except String Code :=
  match compErr [] 0 body with
  | some e => .error e
  | none =>
    let c := compS [] 0 defLine body
    let l := endLine defLine body
    .ok (if endsRet false body then c else c ++ [(.loadConst .none, l), (.returnValue, l)])

end GPy.C02
