/-
C02 helper lemmas for layers (A) unwinding, (B) exception matching, (C) line table.
The compiler/VM simulation (D) is in `Sim.lean`.
-/
import GPy.C02.Spec
namespace GPy.C02

/-! ## (B) exception matching -/

theorem isSubtypeL_iff {α} [DecidableEq α] (l : List α) (b : α) : isSubtypeL l b = true ↔ b ∈ l := by
  induction l with
  | nil => simp [isSubtypeL]
  | cons x xs ih =>
    unfold isSubtypeL
    by_cases h : x = b
    · simp [h]
    · simp only [h, if_false, ih, List.mem_cons]
      constructor
      · intro hm; exact Or.inr hm
      · intro hm; rcases hm with hm | hm
        · exact absurd hm.symm h
        · exact hm

theorem mem_mroF_iff {α} (H : Hier α) : ∀ (f : Nat) (a b : α), H.rank a < f → (b ∈ mroF H f a ↔ Sub H.base a b) := by
  intro f
  induction f with
  | zero => intro a b h; omega
  | succ f ih =>
    intro a b h
    unfold mroF
    constructor
    · intro hm
      rcases List.mem_cons.mp hm with hm | hm
      · subst hm; exact Sub.refl _
      · cases hb : H.base a with
        | none => simp [hb] at hm
        | some p =>
          simp only [hb] at hm
          have hr := H.rank_lt a p hb
          exact Sub.step hb ((ih p b (by omega)).mp hm)
    · intro hs
      cases hs with
      | refl => exact List.mem_cons_self
      | step hb hs' =>
        rename_i p
        have hr := H.rank_lt a p hb
        simp only [hb]
        exact List.mem_cons_of_mem _ ((ih p b (by omega)).mpr hs')

theorem isSubtype_iff {α} [DecidableEq α] (H : Hier α) (a b : α) : isSubtype H a b = true ↔ Sub H.base a b := by
  unfold isSubtype mro
  rw [isSubtypeL_iff]
  exact mem_mroF_iff H _ a b (by omega)

theorem givenMatchesL_iff {α} [DecidableEq α] (H : Hier α) (err : α) (cs : List α) :
    givenMatchesL H err cs = true ↔ Catches H.base err cs := by
  induction cs with
  | nil => simp [givenMatchesL, Catches]
  | cons c cs ih =>
    unfold givenMatchesL
    cases hsub : isSubtype H err c with
    | true =>
      simp only [if_true, true_iff]
      exact ⟨c, List.mem_cons_self, (isSubtype_iff H err c).mp hsub⟩
    | false =>
      simp only [Bool.false_eq_true, if_false]
      rw [ih]
      constructor
      · rintro ⟨d, hd, hs⟩; exact ⟨d, List.mem_cons_of_mem _ hd, hs⟩
      · rintro ⟨d, hd, hs⟩
        rcases List.mem_cons.mp hd with hd | hd
        · subst hd
          have := (isSubtype_iff H err d).mpr hs
          rw [hsub] at this; exact absurd this (by decide)
        · exact ⟨d, hd, hs⟩

/-- the single-inheritance functions are the general ones at `mro H` -/
theorem givenMatches_eq_M {α} [DecidableEq α] (H : Hier α) (err : α) (sp : ExcSpec α) :
    givenMatches H err sp = givenMatchesM (mro H) err sp := by
  cases sp with
  | one c => rfl
  | tuple cs =>
    simp only [givenMatches, givenMatchesM]
    induction cs with
    | nil => rfl
    | cons c cs ih =>
      unfold givenMatchesL givenMatchesLM
      rw [ih]
      rfl

theorem givenMatchesLM_iff {α} [DecidableEq α] (mroOf : α → List α) (err : α) (cs : List α) :
    givenMatchesLM mroOf err cs = true ↔ ∃ c ∈ cs, c ∈ mroOf err := by
  induction cs with
  | nil => simp [givenMatchesLM]
  | cons c cs ih =>
    unfold givenMatchesLM
    by_cases h : isSubtypeM mroOf err c = true
    · simp only [h, if_true, true_iff]
      exact ⟨c, List.mem_cons_self, (isSubtypeL_iff _ _).mp h⟩
    · rw [if_neg h, ih]
      constructor
      · intro ⟨d, hd, hm⟩; exact ⟨d, List.mem_cons_of_mem _ hd, hm⟩
      · intro ⟨d, hd, hm⟩
        rcases List.mem_cons.mp hd with hd | hd
        · subst hd; exact absurd ((isSubtypeL_iff _ _).mpr hm) h
        · exact ⟨d, hd, hm⟩

theorem ancestors_eq_isSubtype (e c : Cls) : (ancestors e).contains c = isSubtype builtinHier e c := by
  cases e <;> cases c <;> rfl

@[simp] theorem hdInfo_some (c : Cls) (l : Nat) : hdInfo (some (c, l)) = ⟨some c, .excv c, some [l]⟩ := rfl

/-- the three values pushed on handler entry give the saved exception back exactly -/
@[simp] theorem savedOf_typeVal (e : ExcInfo) : savedOf (typeVal e.type) e.value (.tb e.tb) = e := by
  obtain ⟨t, v, tb⟩ := e
  cases t <;> rfl

theorem catches_iff (cs : List Cls) (err : Cls) : catches cs err = true ↔ Catches Cls.base err cs := by
  unfold catches Catches
  rw [List.any_eq_true]
  constructor
  · rintro ⟨c, hc, h⟩
    rw [ancestors_eq_isSubtype] at h
    exact ⟨c, hc, (isSubtype_iff builtinHier err c).mp h⟩
  · rintro ⟨c, hc, h⟩
    refine ⟨c, hc, ?_⟩
    rw [ancestors_eq_isSubtype]
    exact (isSubtype_iff builtinHier err c).mpr h

/-- the model's EXC_MATCH and the specification's `catches` agree on the builtin classes -/
theorem givenMatches_catches (e : Cls) (cs : List Cls) :
    givenMatchesL builtinHier e cs = catches cs e := by
  have h1 := givenMatchesL_iff builtinHier e cs
  have h2 := catches_iff cs e
  cases hA : givenMatchesL builtinHier e cs <;> cases hB : catches cs e <;> simp_all [builtinHier]

/-! ## (C) line table -/

theorem lineAtByte_lt (is : List LInstr) : ∀ (off cur p : Nat), p < off → lineAtByte is off cur p = cur := by
  induction is with
  | nil => intro off cur p _; rfl
  | cons i is ih =>
    intro off cur p h
    unfold lineAtByte
    by_cases hs : i.size = 0
    · simp only [hs, if_true]; exact ih off cur p h
    · simp only [hs, if_false]
      have : ¬ off ≤ p := by omega
      simp only [this, if_false]

theorem a2l_cons (a l : Nat) (rest : List (Nat × Nat)) (line addr q : Nat) :
    addr2lineGo ((a, l) :: rest) line addr q =
      if addr + a > q then line else addr2lineGo rest (line + l) (addr + a) q := by
  simp [addr2lineGo]

theorem addr2lineGo_lt (rest : List (Nat × Nat)) (line addr q : Nat) (h : q < addr) :
    addr2lineGo rest line addr q = line := by
  cases rest with
  | nil => rfl
  | cons e rest =>
    obtain ⟨a, l⟩ := e
    unfold addr2lineGo
    have : addr + a > q := by omega
    simp only [this, if_true]

theorem splitAddr_decode : ∀ (f d line addr q : Nat) (rest : List (Nat × Nat)), d ≤ f →
    (splitAddr f d).2 ≤ 255 ∧ (splitAddr f d).2 ≤ d ∧
    (addr + (d - (splitAddr f d).2) ≤ q →
      addr2lineGo ((splitAddr f d).1 ++ rest) line addr q = addr2lineGo rest line (addr + (d - (splitAddr f d).2)) q) ∧
    (q < addr + (d - (splitAddr f d).2) → addr2lineGo ((splitAddr f d).1 ++ rest) line addr q = line) := by
  intro f
  induction f with
  | zero =>
    intro d line addr q rest h
    have : d = 0 := by omega
    subst this
    simp only [splitAddr, List.nil_append, Nat.sub_self, Nat.add_zero]
    exact ⟨by omega, by omega, fun _ => trivial, fun hq => addr2lineGo_lt _ _ _ _ hq⟩
  | succ f ih =>
    intro d line addr q rest h
    unfold splitAddr
    by_cases hd : d > 255
    · simp only [hd, if_true]
      obtain ⟨h1, h2, h3, h4⟩ := ih (d - 255) line (addr + 255) q rest (by omega)
      refine ⟨h1, by omega, ?_, ?_⟩
      · intro hq
        simp only [List.cons_append, addr2lineGo]
        have : ¬ addr + 255 > q := by omega
        simp only [this, if_false, Nat.add_zero]
        rw [h3 (by omega)]
        congr 1; omega
      · intro hq
        simp only [List.cons_append, addr2lineGo]
        by_cases hb : addr + 255 > q
        · simp only [hb, if_true]
        · simp only [hb, if_false, Nat.add_zero]
          exact h4 (by omega)
    · simp only [hd, if_false]
      refine ⟨by omega, by omega, ?_, ?_⟩
      · intro _; simp
      · intro hq
        simp only [List.nil_append]
        exact addr2lineGo_lt _ _ _ _ (by omega)

theorem splitLine_decode : ∀ (f db dl line addr q : Nat) (rest : List (Nat × Nat)), dl ≤ f → db ≤ 255 → 0 < dl →
    (addr + db ≤ q → addr2lineGo (splitLine f db dl ++ rest) line addr q = addr2lineGo rest (line + dl) (addr + db) q) ∧
    (q < addr + db → addr2lineGo (splitLine f db dl ++ rest) line addr q = line) := by
  intro f
  induction f with
  | zero => intro db dl line addr q rest h _ h0; omega
  | succ f ih =>
    intro db dl line addr q rest h hdb h0
    unfold splitLine
    have hm : db % 256 = db := Nat.mod_eq_of_lt (by omega)
    by_cases hd : dl > 255
    · rw [if_pos hd, hm]
      obtain ⟨i1, _⟩ := ih 0 (dl - 255) (line + 255) (addr + db) q rest (by omega) (by omega) (by omega)
      rw [List.cons_append, a2l_cons]
      constructor
      · intro hq
        have : ¬ addr + db > q := by omega
        rw [if_neg this, i1 (by omega)]
        have e1 : line + 255 + (dl - 255) = line + dl := by omega
        rw [e1, Nat.add_zero]
      · intro hq
        have : addr + db > q := by omega
        rw [if_pos this]
    · have hm2 : dl % 256 = dl := Nat.mod_eq_of_lt (by omega)
      rw [if_neg hd, hm, hm2]
      rw [List.cons_append, List.nil_append, a2l_cons]
      constructor
      · intro hq
        have : ¬ addr + db > q := by omega
        rw [if_neg this]
      · intro hq
        have : addr + db > q := by omega
        rw [if_pos this]

theorem chunk_decode (db dl line addr q : Nat) (rest : List (Nat × Nat)) (h0 : 0 < dl) :
    (addr + db ≤ q → addr2lineGo (chunk db dl ++ rest) line addr q = addr2lineGo rest (line + dl) (addr + db) q) ∧
    (q < addr + db → addr2lineGo (chunk db dl ++ rest) line addr q = line) := by
  unfold chunk
  simp only [List.append_assoc]
  obtain ⟨a1, a2, a3, a4⟩ := splitAddr_decode db db line addr q (splitLine dl (splitAddr db db).2 dl ++ rest) (Nat.le_refl _)
  obtain ⟨b1, b2⟩ := splitLine_decode dl (splitAddr db db).2 dl line (addr + (db - (splitAddr db db).2)) q rest
    (Nat.le_refl _) a1 h0
  constructor
  · intro hq
    rw [a3 (by omega), b1 (by omega)]
    congr 1; omega
  · intro hq
    by_cases hc : q < addr + (db - (splitAddr db db).2)
    · exact a4 hc
    · rw [a3 (by omega)]
      exact b2 (by omega)

theorem lnotabGo_decode (is : List LInstr) : ∀ (off oo ol q : Nat), oo ≤ off → oo ≤ q →
    addr2lineGo (lnotabGo is off oo ol) ol oo q = lineAtByte is off ol q := by
  induction is with
  | nil => intro off oo ol q _ _; rfl
  | cons i is ih =>
    intro off oo ol q h1 h2
    unfold lnotabGo lineAtByte
    by_cases hs : i.size = 0
    · simp only [hs, if_true]; exact ih off oo ol q h1 h2
    · simp only [hs, if_false]
      by_cases hl : i.line ≤ ol
      · simp only [hl, if_true]
        rw [ih (off + i.size) oo ol q (by omega) h2]
        have hmax : max ol i.line = ol := Nat.max_eq_left hl
        by_cases hq : off ≤ q
        · simp only [hq, if_true, hmax]
        · simp only [hq, if_false]
          exact lineAtByte_lt is _ _ _ (by omega)
      · simp only [hl, if_false]
        have hmax : max ol i.line = i.line := Nat.max_eq_right (by omega)
        obtain ⟨c1, c2⟩ := chunk_decode (off - oo) (i.line - ol) ol oo q (lnotabGo is (off + i.size) off i.line) (by omega)
        by_cases hq : off ≤ q
        · simp only [hq, if_true, hmax]
          rw [c1 (by omega)]
          have e1 : ol + (i.line - ol) = i.line := by omega
          have e2 : oo + (off - oo) = off := by omega
          rw [e1, e2]
          exact ih (off + i.size) off i.line q (by omega) hq
        · simp only [hq, if_false]
          exact c2 (by omega)

def sizeSum : List LInstr → Nat
  | [] => 0
  | i :: is => i.size + sizeSum is

theorem lineAtByte_instr (pre : List LInstr) : ∀ (i : LInstr) (post : List LInstr) (off cur lo p : Nat),
    LinesSorted lo (pre ++ i :: post) → cur ≤ lo → 0 < i.size →
    off + sizeSum pre ≤ p → p < off + sizeSum pre + i.size →
    lineAtByte (pre ++ i :: post) off cur p = i.line := by
  induction pre with
  | nil =>
    intro i post off cur lo p hs hc hsz h1 h2
    simp only [List.nil_append, sizeSum, Nat.add_zero] at *
    unfold lineAtByte
    have : ¬ i.size = 0 := by omega
    simp only [this, if_false, h1, if_true]
    rw [lineAtByte_lt post _ _ _ h2]
    exact Nat.max_eq_right (by have := hs.1; omega)
  | cons j pre ih =>
    intro i post off cur lo p hs hc hsz h1 h2
    simp only [List.cons_append, sizeSum] at *
    unfold lineAtByte
    obtain ⟨hj, hrest⟩ := hs
    by_cases hz : j.size = 0
    · simp only [hz, if_true]
      exact ih i post off cur j.line p hrest (by omega) hsz (by omega) (by omega)
    · have : off ≤ p := by omega
      simp only [hz, if_false, this, if_true]
      exact ih i post (off + j.size) (max cur j.line) j.line p hrest
        (by rw [Nat.max_eq_right (by omega)]; exact Nat.le_refl _) hsz (by omega) (by omega)

theorem posOf_append (pre : List LInstr) (i : LInstr) (post : List LInstr) :
    posOf (pre ++ i :: post) (pre.length + 1) = sizeSum pre + i.size := by
  induction pre with
  | nil => cases post <;> simp [posOf, sizeSum]
  | cons j pre ih =>
    simp only [List.cons_append, List.length_cons, posOf, sizeSum]
    rw [ih]; omega

theorem chunk_bytes (db dl : Nat) : ∀ e ∈ chunk db dl, e.1 < 256 ∧ e.2 < 256 := by
  have hA : ∀ (f d : Nat), ∀ e ∈ (splitAddr f d).1, e.1 < 256 ∧ e.2 < 256 := by
    intro f
    induction f with
    | zero => intro d e he; simp [splitAddr] at he
    | succ f ih =>
      intro d e he
      unfold splitAddr at he
      by_cases hd : d > 255
      · simp only [hd, if_true] at he
        rcases List.mem_cons.mp he with he | he
        · subst he; simp
        · exact ih _ e he
      · simp [hd] at he
  have hB : ∀ (f a b : Nat), ∀ e ∈ splitLine f a b, e.1 < 256 ∧ e.2 < 256 := by
    intro f
    induction f with
    | zero =>
      intro a b e he
      simp only [splitLine, List.mem_singleton] at he
      subst he; exact ⟨Nat.mod_lt _ (by decide), Nat.mod_lt _ (by decide)⟩
    | succ f ih =>
      intro a b e he
      unfold splitLine at he
      by_cases hd : b > 255
      · simp only [hd, if_true] at he
        rcases List.mem_cons.mp he with he | he
        · subst he; exact ⟨Nat.mod_lt _ (by decide), by simp⟩
        · exact ih _ _ e he
      · simp only [hd, if_false, List.mem_singleton] at he
        subst he; exact ⟨Nat.mod_lt _ (by decide), Nat.mod_lt _ (by decide)⟩
  intro e he
  unfold chunk at he
  rcases List.mem_append.mp he with he | he
  · exact hA _ _ e he
  · exact hB _ _ _ e he

theorem lnotabGo_bytes (is : List LInstr) : ∀ (off oo ol : Nat), ∀ e ∈ lnotabGo is off oo ol, e.1 < 256 ∧ e.2 < 256 := by
  induction is with
  | nil => intro _ _ _ e he; simp [lnotabGo] at he
  | cons i is ih =>
    intro off oo ol e he
    unfold lnotabGo at he
    by_cases hs : i.size = 0
    · simp only [hs, if_true] at he; exact ih _ _ _ e he
    · simp only [hs, if_false] at he
      by_cases hl : i.line ≤ ol
      · simp only [hl, if_true] at he; exact ih _ _ _ e he
      · simp only [hl, if_false] at he
        rcases List.mem_append.mp he with he | he
        · exact chunk_bytes _ _ e he
        · exact ih _ _ _ e he

/-! ## (A) unwinding -/

/-- value stack and block stack fit together: every block's level is covered by the stack
below the next block; an EXCEPT_HANDLER block has its three saved values above its level -/
def BlocksOK : List Block → Nat → Prop
  | [], _ => True
  | b :: bs, n => (if b.kind = .handler then b.level + 3 ≤ n else b.level ≤ n) ∧ BlocksOK bs b.level

/-- the value stack cut down to its lowest `lvl` entries -/
abbrev cut (lvl : Nat) (st : List Val) : List Val := cutTo lvl st

theorem cut_length {lvl : Nat} {st : List Val} (h : lvl ≤ st.length) : (cut lvl st).length = lvl := by
  unfold cut cutTo; rw [List.length_drop]; omega

theorem cut_cut {a b : Nat} {st : List Val} (h1 : a ≤ b) (h2 : b ≤ st.length) : cut a (cut b st) = cut a st := by
  unfold cut cutTo
  rw [List.length_drop, List.drop_drop]
  congr 1; omega

theorem cut_self (st : List Val) : cut st.length st = st := by
  unfold cut cutTo; simp

theorem unwindBlock_eq {lvl : Nat} {st : List Val} (h : lvl ≤ st.length) : unwindBlock lvl st = cut lvl st := by
  unfold unwindBlock cut cutTo
  by_cases hc : st.length > lvl
  · simp [hc]
  · have : st.length - lvl = 0 := by omega
    simp [hc, this]

theorem unwindExceptHandler_ok {lvl : Nat} {st : List Val} (h : lvl + 3 ≤ st.length) :
    unwindExceptHandler lvl st = some (cut lvl st, savedAt lvl st) := by
  unfold unwindExceptHandler savedAt cutTo
  have h1 : ¬ st.length < lvl + 3 := by omega
  simp only [h1, if_false]
  have hlen : (st.drop (st.length - (lvl + 3))).length = lvl + 3 := by rw [List.length_drop]; omega
  match hd : st.drop (st.length - (lvl + 3)) with
  | [] => rw [hd] at hlen; simp at hlen
  | [_] => rw [hd] at hlen; simp at hlen
  | [_, _] => rw [hd] at hlen; simp at hlen
  | t :: v :: tbv :: rest =>
    simp only [savedOf]
    have : rest = cut lvl st := by
      unfold cut cutTo
      have e : st.length - lvl = (st.length - (lvl + 3)) + 3 := by omega
      rw [e, ← List.drop_drop, hd]
      rfl
    rw [this]

/-- popping a block that does not take the reason: only the stack (and, for an EXCEPT_HANDLER
block, the handled exception) changes -/
theorem unwind1_skip {W} (vm : VM W) (b : Block) (bs : List Block)
    (hsel : Selects b.kind vm.why = false) (hok : BlocksOK (b :: bs) vm.stack.length) :
    unwind1 vm b bs = .again { vm with blocks := bs, stack := cut b.level vm.stack,
                                       exc := (if b.kind = .handler then savedAt b.level vm.stack else vm.exc) } := by
  obtain ⟨k, h, l⟩ := b
  obtain ⟨hl, _⟩ := hok
  cases k
  · -- loop
    simp only [BKind.noConfusion, if_false] at hl
    have h1 : vm.why ≠ .cont := by intro hc; rw [hc] at hsel; simp [Selects] at hsel
    have h2 : vm.why ≠ .brk := by intro hc; rw [hc] at hsel; simp [Selects] at hsel
    simp [unwind1, h1, h2, unwindBlock_eq hl]
  · -- except
    simp only [BKind.noConfusion, if_false] at hl
    have h1 : vm.why ≠ .exception := by intro hc; rw [hc] at hsel; simp [Selects] at hsel
    simp [unwind1, h1, unwindBlock_eq hl]
  · -- finally
    simp [Selects] at hsel
  · -- handler
    simp only [if_true] at hl
    have he := unwindExceptHandler_ok hl
    simp [unwind1, he]

/-- the value stack when the blocks `pre` have been popped -/
def stackAfter : List Block → List Val → List Val
  | [], st => st
  | b :: pre, st => stackAfter pre (cut b.level st)

theorem BlocksOK_level {b : Block} {bs : List Block} {n : Nat} (h : BlocksOK (b :: bs) n) : b.level ≤ n := by
  obtain ⟨h1, _⟩ := h
  by_cases hk : b.kind = .handler
  · simp only [hk, if_true] at h1; omega
  · simp only [hk, if_false] at h1; exact h1

theorem unwindL_skip {W} (pre : List Block) : ∀ (vm : VM W) (tail : List Block),
    vm.blocks = pre ++ tail →
    (∀ x ∈ pre, Selects x.kind vm.why = false) → BlocksOK (pre ++ tail) vm.stack.length →
    unwindL (pre ++ tail) vm =
      unwindL tail { vm with blocks := tail, stack := stackAfter pre vm.stack, exc := excAfter pre vm.stack vm.exc } ∧
    BlocksOK tail (stackAfter pre vm.stack).length := by
  induction pre with
  | nil =>
    intro vm tail hb _ hok
    refine ⟨?_, hok⟩
    simp only [List.nil_append] at hb
    subst hb
    rfl
  | cons b pre ih =>
    intro vm tail hb hsel hok
    have h1 := unwind1_skip vm b (pre ++ tail) (hsel b List.mem_cons_self) hok
    have hlen : (cut b.level vm.stack).length = b.level := cut_length (BlocksOK_level hok)
    let e1 : ExcInfo := if b.kind = .handler then savedAt b.level vm.stack else vm.exc
    obtain ⟨h2, h3⟩ := ih { vm with blocks := pre ++ tail, stack := cut b.level vm.stack, exc := e1 } tail rfl
      (fun x hx => hsel x (List.mem_cons_of_mem _ hx)) (by simp only [hlen]; exact hok.2)
    refine ⟨?_, h3⟩
    simp only [List.cons_append, unwindL, h1, stackAfter, excAfter]
    exact h2

theorem excAfter_noHandler (pre : List Block) : ∀ (S : List Val) (e : ExcInfo),
    (∀ x ∈ pre, x.kind ≠ .handler) → excAfter pre S e = e := by
  induction pre with
  | nil => intro S e _; rfl
  | cons x pre ih =>
    intro S e h
    have hx : x.kind ≠ .handler := h x List.mem_cons_self
    simp only [excAfter, hx, if_false]
    exact ih _ e (fun y hy => h y (List.mem_cons_of_mem _ hy))

theorem addCalls_ok (lns : List Nat) (r : CallRes) (h : CallOK r) : CallOK (addCalls lns r) := by
  cases r with
  | val v => exact h
  | exc e => exact ⟨h.1, _, rfl⟩

end GPy.C02
