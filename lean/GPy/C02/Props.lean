/-
C02 property theorems.  (A) unwinding, (B) exception matching, (C) line table,
(D) compiler/VM simulation against the statement semantics.
-/
import GPy.C02.Sim
import GPy.C02.Generated
import GPy.C16.Props
namespace GPy.C02

/-! ## (A) the unwinding loop of `RunFrame` -/

/-- **unwind_spec.**  For every block stack `pre ++ b :: rest`, every reason and every value stack
that fits the block stack: if no block of `pre` takes the reason (`Selects`) and `b` does, the
unwinding loop pops exactly `pre`, stops at `b` and resumes in `resumeState`: the value stack
restored to `b`'s level, `continue` jumps to the loop start without popping the loop block,
`break` jumps to the loop's handler with the loop block popped, an exception enters the
except/finally handler with the six values pushed and an EXCEPT_HANDLER block, any other reason
enters a finally block with the reason (and return value) pushed.  The handled exception
(`vm.exc`) in the resumed state is `excAfter pre ..`: every EXCEPT_HANDLER block among the popped
ones has restored the exception saved under it, innermost first (stack discipline); for an
exception entering a handler it is then saved in turn (the three values under the raised ones). -/
theorem unwind_spec {W} (vm : VM W) (pre : List Block) (b : Block) (rest : List Block)
    (hb : vm.blocks = pre ++ b :: rest)
    (hpre : ∀ x ∈ pre, Selects x.kind vm.why = false)
    (hsel : Selects b.kind vm.why = true)
    (hok : BlocksOK vm.blocks vm.stack.length)
    (hcont : vm.why = .cont → ∃ d, vm.retval = .int d) :
    unwind vm = .resume (resumeState vm b rest (stackAfter pre vm.stack) (excAfter pre vm.stack vm.exc)) := by
  unfold unwind
  rw [hb] at hok ⊢
  obtain ⟨h1, h2⟩ := unwindL_skip pre vm (b :: rest) hb hpre hok
  rw [h1]
  have hlvl := BlocksOK_level h2
  generalize excAfter pre vm.stack vm.exc = e at *
  generalize stackAfter pre vm.stack = S at *
  obtain ⟨pc, st, bl, why, rv, cur, exc, w⟩ := vm
  obtain ⟨k, h, l⟩ := b
  simp only at hcont hsel hlvl
  cases k <;> cases why <;> simp [Selects] at hsel <;>
    simp [unwindL, unwind1, resumeState, unwindBlock_eq hlvl, cut_length hlvl, cut]
  · obtain ⟨d, hd⟩ := hcont rfl
    subst hd; simp

/-- **no_exception_lost (unwinding).**  If no block takes the reason, the frame exits with the very
same reason, pending exception, return value and world. -/
theorem unwind_exits_unchanged {W} (vm : VM W)
    (hnone : ∀ x ∈ vm.blocks, Selects x.kind vm.why = false)
    (hok : BlocksOK vm.blocks vm.stack.length) :
    ∃ vm', unwind vm = .exit vm' ∧ vm'.why = vm.why ∧ vm'.curexc = vm.curexc ∧
      vm'.retval = vm.retval ∧ vm'.world = vm.world ∧ vm'.blocks = [] := by
  unfold unwind
  have hb : vm.blocks = vm.blocks ++ [] := by simp
  rw [hb] at hok
  obtain ⟨h1, _⟩ := unwindL_skip vm.blocks vm [] hb hnone hok
  rw [hb, h1]
  exact ⟨_, rfl, rfl, rfl, rfl, rfl, rfl⟩

/-- **finally_preserves_reason.**  When a finally block took reason `why` (return, break,
continue, or an exception) and the finally body has left the value stack as it found it,
`END_FINALLY` resumes the *same* reason with the same return value / the same pending exception,
on the restored stack. -/
theorem finally_preserves_reason {W} (P : Prims W) (vm : VM W) (b : Block) (rest : List Block)
    (S : List Val) (e : ExcInfo) (ln pc' : Nat)
    (hk : b.kind = .finally)
    (hw : vm.why = .ret ∨ vm.why = .brk ∨ vm.why = .cont ∨ vm.why = .exception)
    (hexc : vm.why = .exception → ∃ c, vm.curexc.type = some c) :
    ∃ vm2, exec P .endFinally ln { resumeState vm b rest S e with pc := pc' } = .ok vm2 ∧
      vm2.why = vm.why ∧
      (vm.why = .ret ∨ vm.why = .cont → vm2.retval = vm.retval) ∧
      (vm.why = .exception → vm2.curexc = vm.curexc ∧
         vm2.stack = typeVal e.type :: e.value :: .tb e.tb :: cutTo b.level S ∧
         vm2.blocks = ⟨.handler, -1, b.level⟩ :: rest) ∧
      (vm.why ≠ .exception → vm2.stack = cutTo b.level S ∧ vm2.blocks = rest ∧ vm2.curexc = vm.curexc) ∧
      vm2.world = vm.world := by
  obtain ⟨pc, st, bl, why, rv, cur, exc, w⟩ := vm
  obtain ⟨k, h, l⟩ := b
  simp only at hk hw hexc
  subst hk
  rcases hw with hw | hw | hw | hw <;> subst hw
  · exact ⟨_, by simp [resumeState, exec, Why.code, Why.ofCode]; rfl, by simp⟩
  · exact ⟨_, by simp [resumeState, exec, Why.code, Why.ofCode]; rfl, by simp⟩
  · exact ⟨_, by simp [resumeState, exec, Why.code, Why.ofCode]; rfl, by simp⟩
  · obtain ⟨c, hc⟩ := hexc rfl
    obtain ⟨ct, cv, ctb⟩ := cur
    simp only at hc
    subst hc
    exact ⟨_, by simp [resumeState, exec, typeVal]; rfl, by simp [Val.asTb, typeVal]⟩

/-! ## (B) exception matching -/

/-- **exc_match_iff_ancestor.**  For every single-inheritance class hierarchy, `IsSubtype` (the walk
over the MRO) is exactly the reflexive-transitive base-class relation, and `ExceptionGivenMatches`
with a class or a tuple of classes is "some named class is an ancestor-or-self". -/
theorem exc_match_iff_ancestor {α} [DecidableEq α] (H : Hier α) (err : α) :
    (∀ c, givenMatches H err (.one c) = true ↔ Sub H.base err c) ∧
    (∀ cs, givenMatches H err (.tuple cs) = true ↔ Catches H.base err cs) :=
  ⟨fun c => isSubtype_iff H err c, fun cs => givenMatchesL_iff H err cs⟩

/-- **exc_match_iff_ancestor, multiple inheritance.**  `IsSubtype` / `ExceptionGivenMatches` only walk
the stored `Mro`; for every accepted class hierarchy with any number of bases per class (`Built H tbl`
of property C16: `tbl` = the C3 linearisations the class statements stored, theorem `c3_complete`)
the walk answers exactly the reflexive-transitive "is a direct base of" relation `Anc` - so an
exception is caught by a clause iff one of the named classes is the raised class or one of its
ancestors along ANY inheritance path, and by no other. -/
theorem exc_match_iff_ancestor_c3 {H tbl : List (List Nat)} (hb : GPy.C16.Built H tbl) (err : Nat)
    (herr : err < tbl.length) :
    (∀ c, givenMatchesM (GPy.C16.linOf tbl) err (.one c) = true ↔ GPy.C16.Anc (GPy.C16.basesOf H) err c) ∧
    (∀ cs, givenMatchesM (GPy.C16.linOf tbl) err (.tuple cs) = true ↔
      ∃ c ∈ cs, GPy.C16.Anc (GPy.C16.basesOf H) err c) := by
  constructor
  · intro c
    simp only [givenMatchesM, isSubtypeM, isSubtypeL_iff]
    exact GPy.C16.c3_complete hb herr c
  · intro cs
    simp only [givenMatchesM, givenMatchesLM_iff]
    constructor
    · rintro ⟨c, hc, hm⟩; exact ⟨c, hc, (GPy.C16.c3_complete hb herr c).mp hm⟩
    · rintro ⟨c, hc, hm⟩; exact ⟨c, hc, (GPy.C16.c3_complete hb herr c).mpr hm⟩

/-- the single-inheritance statement is the instance `mroOf = mro H` of the same functions -/
theorem exc_match_single_is_instance {α} [DecidableEq α] (H : Hier α) (err : α) (sp : ExcSpec α) :
    givenMatches H err sp = givenMatchesM (mro H) err sp := givenMatches_eq_M H err sp

/-- non-vacuity: in the diamond `K2; K3(K2); K4(K2); K5(K3,K4)` of `c3_diamond_witness` an exception
of class K5 is caught by `except K4` (second base) and by `except (K1, K2)`, not by `except K1` -/
example : givenMatchesM (GPy.C16.linOf [[0], [1, 0], [2, 0], [3, 2, 0], [4, 2, 0], [5, 3, 4, 2, 0]]) 5 (.one 4) = true := by decide
example : givenMatchesM (GPy.C16.linOf [[0], [1, 0], [2, 0], [3, 2, 0], [4, 2, 0], [5, 3, 4, 2, 0]]) 5 (.tuple [1, 2]) = true := by decide
example : givenMatchesM (GPy.C16.linOf [[0], [1, 0], [2, 0], [3, 2, 0], [4, 2, 0], [5, 3, 4, 2, 0]]) 5 (.one 1) = false := by decide

/-- the documented builtin hierarchy (`ancestors`) is the closure of `Type.Base` -/
theorem builtin_ancestors_spec (e c : Cls) : c ∈ ancestors e ↔ Sub Cls.base e c := by
  have h := isSubtype_iff builtinHier e c
  rw [← ancestors_eq_isSubtype] at h
  simpa [builtinHier] using h

/-- non-vacuity / sanity: KeyError is caught by `except LookupError`, not by `except ValueError`,
and `except Exception` does not catch KeyboardInterrupt -/
example : givenMatches builtinHier Cls.KeyError (.one .LookupError) = true := by decide
example : givenMatches builtinHier Cls.KeyError (.tuple [.ValueError, .ArithmeticError]) = false := by decide
example : givenMatches builtinHier Cls.KeyboardInterrupt (.one .Exception) = false := by decide

/-! ## (C) line table -/

/-- **addr2line_lnotab.**  For every instruction stream whose line numbers never decrease (first
line ≥ 1; any gaps, also > 255 in either column; labels of size 0 anywhere): decoding the table
`Lnotab()` produces at any byte address inside an instruction gives that instruction's line. -/
theorem addr2line_lnotab (pre : List LInstr) (i : LInstr) (post : List LInstr) (p : Nat)
    (hs : LinesSorted 1 (pre ++ i :: post)) (hsz : 0 < i.size)
    (h1 : sizeSum pre ≤ p) (h2 : p < sizeSum pre + i.size) :
    addr2line (lnotab (pre ++ i :: post)) 1 p = i.line := by
  unfold addr2line lnotab
  rw [lnotabGo_decode _ 0 0 1 p (Nat.le_refl _) (Nat.zero_le _)]
  exact lineAtByte_instr pre i post 0 1 1 p hs (Nat.le_refl _) hsz (by omega) (by omega)

/-- every entry of the table fits a byte, so the `byte(..)` conversions of `Lnotab()` lose nothing -/
theorem lnotab_bytes (is : List LInstr) : ∀ e ∈ lnotab is, e.1 < 256 ∧ e.2 < 256 :=
  lnotabGo_bytes is 0 0 1

/-- **traceback_line.**  The address the (repaired) `AddTraceback` passes, `Lasti - 1` with `Lasti`
already advanced past the raising instruction, lies inside that instruction: the reported line is
the raising instruction's line. -/
theorem traceback_line (pre : List LInstr) (i : LInstr) (post : List LInstr)
    (hs : LinesSorted 1 (pre ++ i :: post)) (hsz : 0 < i.size) :
    addr2line (lnotab (pre ++ i :: post)) 1 (tracebackAddr (pre ++ i :: post) pre.length) = i.line := by
  unfold tracebackAddr
  rw [posOf_append]
  exact addr2line_lnotab pre i post _ hs hsz (by omega) (by omega)

/-- The unrepaired code passed `Lasti` itself: for `raise X` (3+3 bytes on line 2) followed by a
statement on line 3 it reported line 3.  (Defect fixed in /repo; kept as the witness.) -/
theorem traceback_line_old_witness :
    addr2line (lnotab [⟨3, 2⟩, ⟨3, 2⟩, ⟨3, 3⟩]) 1 (tracebackAddrOld [⟨3, 2⟩, ⟨3, 2⟩, ⟨3, 3⟩] 1) = 3 ∧
    addr2line (lnotab [⟨3, 2⟩, ⟨3, 2⟩, ⟨3, 3⟩]) 1 (tracebackAddr [⟨3, 2⟩, ⟨3, 2⟩, ⟨3, 3⟩] 1) = 2 := by
  decide

example : LinesSorted 1 ([⟨3, 7⟩, ⟨1, 7⟩] ++ ⟨3, 300⟩ :: [⟨1, 301⟩]) := by simp [LinesSorted]
example : addr2line (lnotab [⟨3, 7⟩, ⟨1, 7⟩, ⟨3, 300⟩, ⟨1, 301⟩]) 1 5 = 300 := by decide

/-! ## (D) compiled code takes exactly the paths of the statement semantics -/

/-- **compS_correct.**  Forward simulation, for every world type `W`, every behaviour of the probes
(`Prims`: which call raises which class / returns what, iterator lengths, what `__exit__` answers),
every statement of the fragment {pass, ev(i), return, raise C, raise C(k), raise C from D, raise <int>,
bare raise, break, continue, sequences, if/elif/else, while(+else), for(+else), try/finally,
try/except (1–2 clauses, classes or tuples, `as e`, else), with}, every loop/try context, every
handled exception `hd` in force on entry and every fuel: if Python's semantics `execS`
finishes `s` from world `w` in world `w'` with outcome `o`, the VM, started at the first
instruction of `compS ctx pc cur s` with any value stack `st` and block stack `bs` and with
`vm.exc` recording `hd`, reaches with the *same world* (same path log, same probe calls in the same
order) the state `Post` prescribes for `o`: fall-through at the end of the code with `st`/`bs`
restored and no exception pending; `break` / `return v` / exception of class `c` raised on line
`ln` pending (`why`, `retval`, `curexc` with traceback line `ln`) with block stack `bs`;
`continue` at the loop start (directly inside the loop) or pending with the loop start in
`retval`; and in every case `vm.exc` records `hd` again. -/
theorem compS_correct {W} (P : Prims W) (code : Code) (fuel : Nat) (s : Stmt) (w w' : W) (o : Outcome) (hd : Handled)
    (hx : execS P fuel s w hd = some (w', o))
    (ctx : Ctx) (pc cur : Nat) (st : List Val) (bs : List Block) (rv : Val)
    (hce : compErr ctx pc s = none) (hc : CodeAt code pc (compS ctx pc cur s)) (hinv : CtxInv ctx bs) :
    ∃ vm', Reach P code ⟨pc, st, bs, .not, rv, {}, hdInfo hd, w⟩ vm' ∧
      Post ctx (pc + len s) st bs (hdInfo hd) o w' vm' :=
  (sim_all P code fuel).1 s w w' o hd hx (Cov_all s) ctx pc cur st bs rv (hdInfo hd) rfl hce hc hinv

/-- **handled_exception_restored.**  The exception being handled is a stack discipline in the
compiled code too: whatever statement `s` is (in particular a `try/except` whose handlers were
entered, a `try/finally` or `with` an exception passed through, handlers nested in handlers) and by
whatever route it is left (falling off its end, break, continue, return, an exception that
propagates out through EXCEPT_HANDLER blocks), the machine's record `vm.exc` of the handled
exception is afterwards exactly what it was before `s`: the outer one. -/
theorem handled_exception_restored {W} (P : Prims W) (code : Code) (fuel : Nat) (s : Stmt) (w w' : W) (o : Outcome)
    (hd : Handled) (hx : execS P fuel s w hd = some (w', o))
    (ctx : Ctx) (pc cur : Nat) (st : List Val) (bs : List Block) (rv : Val)
    (hce : compErr ctx pc s = none) (hc : CodeAt code pc (compS ctx pc cur s)) (hinv : CtxInv ctx bs) :
    ∃ vm', Reach P code ⟨pc, st, bs, .not, rv, {}, hdInfo hd, w⟩ vm' ∧
      Post ctx (pc + len s) st bs (hdInfo hd) o w' vm' ∧ vm'.exc = hdInfo hd ∧ vm'.blocks = bs := by
  obtain ⟨vm', hr, hp⟩ := compS_correct P code fuel s w w' o hd hx ctx pc cur st bs rv hce hc hinv
  exact ⟨vm', hr, hp, hp.2.2.1, hp.2.1⟩

/-- the same at the level of the unwinding loop: when the blocks popped on the way to the block that
takes the reason start with the EXCEPT_HANDLER block of a handler that was entered with `e0` being
handled (its three saved values are on the stack just above the block's level), and no further
EXCEPT_HANDLER block is popped, the handled exception in the resumed state is `e0` again
(for an exception entering the next handler: `e0` is what that handler saves). -/
theorem handled_exception_restored_unwind {W} (vm : VM W) (lvl : Nat) (pre : List Block) (b : Block) (rest : List Block)
    (junk base : List Val) (e0 : ExcInfo)
    (hb : vm.blocks = (⟨.handler, -1, lvl⟩ :: pre) ++ b :: rest)
    (hst : vm.stack = junk ++ typeVal e0.type :: e0.value :: .tb e0.tb :: base) (hlvl : base.length = lvl)
    (hnoh : ∀ x ∈ pre, x.kind ≠ .handler)
    (hpre : ∀ x ∈ pre, Selects x.kind vm.why = false)
    (hnot : vm.why ≠ .not)
    (hsel : Selects b.kind vm.why = true)
    (hok : BlocksOK vm.blocks vm.stack.length)
    (hcont : vm.why = .cont → ∃ d, vm.retval = .int d) :
    unwind vm = .resume (resumeState vm b rest (stackAfter (⟨.handler, -1, lvl⟩ :: pre) vm.stack) e0) := by
  have hsel' : ∀ x ∈ (⟨.handler, -1, lvl⟩ :: pre : List Block), Selects x.kind vm.why = false := by
    intro x hx
    rcases List.mem_cons.mp hx with rfl | hx
    · cases hw : vm.why <;> simp [Selects]
    · exact hpre x hx
  rw [unwind_spec vm _ b rest hb hsel' hsel hok hcont]
  have hsaved : savedAt lvl vm.stack = e0 := by
    rw [hst, ← hlvl, savedAt_junk, savedOf_typeVal]
  simp only [excAfter, if_true, hsaved, excAfter_noHandler pre _ e0 hnoh]

/-- non-vacuity of `handled_exception_restored_unwind`: ValueError (raised on line 7) propagating out of
the handler of a KeyError (line 3; its saved triple lies under the EXCEPT_HANDLER block) into an
enclosing try/except block: the handler it enters saves KeyError, not ValueError -/
def exVM : VM Unit := ⟨7, [.int 1, .cls .KeyError, .excv .KeyError, .tb (some [3])],
      [⟨.handler, -1, 0⟩, ⟨.except, 20, 0⟩], .exception, .nil,
      ⟨some .ValueError, .excv .ValueError, some [7]⟩, ⟨some .ValueError, .excv .ValueError, some [7]⟩, ()⟩
example : ∃ S, unwind exVM = .resume (resumeState exVM ⟨.except, 20, 0⟩ [] S ⟨some .KeyError, .excv .KeyError, some [3]⟩) :=
  ⟨_, handled_exception_restored_unwind exVM 0 [] ⟨.except, 20, 0⟩ [] [.int 1] [] ⟨some .KeyError, .excv .KeyError, some [3]⟩
    rfl rfl rfl (by simp) (by simp) (by decide) rfl (by simp [BlocksOK, exVM]) (by simp [exVM])⟩

/-- **bare_raise_reraises_handled.**  In `try: body except M: s; raise`, when `body` raises an
exception of class `c` (on line `l`) that `M` catches and `s` - any statement, whatever handlers,
finally clauses and with statements it enters and leaves, whatever exceptions it raises and
catches inside - completes normally, the bare `raise` re-raises exactly that exception: class `c`,
traceback line `l`; not an exception handled (and finished with) inside `s`.  (`fuel + 1` for the
body, `fuel` for `s`: the fuels the `try` statement hands them when run with `fuel + 2`.) -/
theorem bare_raise_reraises_handled {W} (P : Prims W) (code : Code) (fuel : Nat) (ln k : Nat) (body s : Stmt) (m : Matcher)
    (w w1 w2 : W) (c : Cls) (l : Nat) (hd : Handled)
    (hb : execS P (fuel + 1) body w hd = some (w1, .exc c l)) (hm : Catches Cls.base c m.classes)
    (hs : execS P fuel s w1 (some (c, l)) = some (w2, .normal))
    (ctx : Ctx) (pc cur : Nat) (st : List Val) (bs : List Block) (rv : Val)
    (hce : compErr ctx pc (.tryE ln body m (.seq s (.reraise k)) none .skip .skip) = none)
    (hc : CodeAt code pc (compS ctx pc cur (.tryE ln body m (.seq s (.reraise k)) none .skip .skip))) (hinv : CtxInv ctx bs) :
    ∃ vm', Reach P code ⟨pc, st, bs, .not, rv, {}, hdInfo hd, w⟩ vm' ∧
      Post ctx (pc + len (.tryE ln body m (.seq s (.reraise k)) none .skip .skip)) st bs (hdInfo hd) (.exc c l) w2 vm' := by
  have hcat : catches m.classes c = true := (catches_iff _ _).mpr hm
  have hx : execS P (fuel + 2) (.tryE ln body m (.seq s (.reraise k)) none .skip .skip) w hd = some (w2, .exc c l) := by
    unfold execS at hb hs ⊢
    unfold execT
    simp only [hb, hcat, if_true]
    unfold execT
    simp only [hs]
    cases fuel with
    | zero => simp [execT] at hs
    | succ f => simp [execT]
  exact compS_correct P code (fuel + 2) _ w w2 _ hd hx ctx pc cur st bs rv hce hc hinv

/-- **frame_correct.**  A compiled function body run by `RunFrame` (model `run`) ends exactly as
the semantics says: same world (path log), `None` / the returned value / the unhandled exception
with its original class and the traceback line of the raising statement.  `break`/`continue`
cannot escape a body that compiled; `RunFrame` does not panic. -/
theorem frame_correct {W} (P : Prims W) (defLine : Nat) (body : Stmt) (code : Code) (fuel : Nat)
    (w w' : W) (fin : Final)
    (hcomp : compileFn defLine body = .ok code)
    (hx : execFn P fuel body w = some (w', fin)) :
    fin ≠ .stray ∧ ∃ n, run P code n (initVM w) = some (expectedExit fin w') :=
  frame_correct_cov P defLine body code fuel w w' fin hcomp (Cov_all body) hx

/-- **no_exception_lost.**  An exception the semantics lets escape from the function is what
`RunFrame` returns: same class, traceback naming the raising line, nothing swallowed or replaced,
and the world is the one the semantics reached (every finally body / `__exit__` on the way ran). -/
theorem no_exception_lost {W} (P : Prims W) (defLine : Nat) (body : Stmt) (code : Code) (fuel : Nat)
    (w w' : W) (c : Cls) (ln : Nat)
    (hcomp : compileFn defLine body = .ok code)
    (hx : execFn P fuel body w = some (w', .exc c ln)) :
    ∃ n, run P code n (initVM w) = some (.exc ⟨some c, .excv c, some [ln]⟩ w') :=
  (frame_correct_cov P defLine body code fuel w w' _ hcomp (Cov_all body) hx).2

/-- **finally_runs_once.**  Whatever way the body of `try: body finally: fin` ends (normally, break,
continue, return, exception) the compiled code reaches the world obtained by running `body`
once and then `fin` exactly once — for every world type, so for every way of counting the probe
calls of `fin` — and resumes the body's outcome when `fin` ends normally, else takes `fin`'s:
a `return` / `break` / exception in the finally body replaces (swallows) a pending exception.
On the exception path `fin` runs with that exception as the handled one (`finHd`). -/
theorem finally_runs_once {W} (P : Prims W) (code : Code) (fuel : Nat) (ln : Nat) (body fin : Stmt)
    (w w1 w2 : W) (o1 o2 : Outcome) (hd : Handled)
    (hb : execS P fuel body w hd = some (w1, o1)) (hf : execS P fuel fin w1 (finHd hd o1) = some (w2, o2))
    (ctx : Ctx) (pc cur : Nat) (st : List Val) (bs : List Block) (rv : Val)
    (hce : compErr ctx pc (.tryF ln body fin) = none)
    (hc : CodeAt code pc (compS ctx pc cur (.tryF ln body fin))) (hinv : CtxInv ctx bs) :
    ∃ vm', Reach P code ⟨pc, st, bs, .not, rv, {}, hdInfo hd, w⟩ vm' ∧ vm'.world = w2 ∧
      Post ctx (pc + len (.tryF ln body fin)) st bs (hdInfo hd) (if o2 = .normal then o1 else o2) w2 vm' := by
  have hx : execS P (fuel + 1) (.tryF ln body fin) w hd = some (w2, if o2 = .normal then o1 else o2) := by
    unfold execS at hb hf ⊢
    unfold execT
    simp only [hb, hf]
    cases o2 <;> simp
  obtain ⟨vm', hr, hp⟩ := compS_correct P code (fuel + 1) _ w w2 _ hd hx ctx pc cur st bs rv hce hc hinv
  exact ⟨vm', hr, hp.1, hp⟩

/-- **exit_called_once.**  `with cm(i): body`: `__enter__` is called once, then the body runs, then
`__exit__` is called exactly once — with the exception class if the body raised, with `None`
otherwise — and the exception is suppressed iff the answer is true (Python truth, not `is True`). -/
theorem exit_called_once {W} (P : Prims W) (code : Code) (fuel : Nat) (ln i : Nat) (body : Stmt)
    (w w1 : W) (o1 : Outcome) (hd : Handled)
    (hb : execS P fuel body (P.cmEnter w i) hd = some (w1, o1))
    (ctx : Ctx) (pc cur : Nat) (st : List Val) (bs : List Block) (rv : Val)
    (hce : compErr ctx pc (.withS ln i body) = none)
    (hc : CodeAt code pc (compS ctx pc cur (.withS ln i body))) (hinv : CtxInv ctx bs) :
    ∃ vm', Reach P code ⟨pc, st, bs, .not, rv, {}, hdInfo hd, w⟩ vm' ∧
      (match o1 with
       | .exc c l =>
         vm'.world = (P.cmExit w1 i (some c)).1 ∧
         Post ctx (pc + len (.withS ln i body)) st bs (hdInfo hd)
           (if pyTruth (P.cmExit w1 i (some c)).2 then .normal else .exc c l) (P.cmExit w1 i (some c)).1 vm'
       | o => vm'.world = (P.cmExit w1 i none).1 ∧
         Post ctx (pc + len (.withS ln i body)) st bs (hdInfo hd) o (P.cmExit w1 i none).1 vm') := by
  unfold execS at hb
  cases o1 with
  | exc c l =>
    have hx : execS P (fuel + 1) (.withS ln i body) w hd =
        some ((P.cmExit w1 i (some c)).1, if pyTruth (P.cmExit w1 i (some c)).2 then .normal else .exc c l) := by
      unfold execS execT
      simp only [hb]
      by_cases ht : pyTruth (P.cmExit w1 i (some c)).2 = true <;> simp [ht]
    obtain ⟨vm', hr, hp⟩ := compS_correct P code (fuel + 1) _ w _ _ hd hx ctx pc cur st bs rv hce hc hinv
    exact ⟨vm', hr, hp.1, hp⟩
  | normal =>
    have hx : execS P (fuel + 1) (.withS ln i body) w hd = some ((P.cmExit w1 i none).1, .normal) := by
      unfold execS execT
      simp only [hb]
    obtain ⟨vm', hr, hp⟩ := compS_correct P code (fuel + 1) _ w _ _ hd hx ctx pc cur st bs rv hce hc hinv
    exact ⟨vm', hr, hp.1, hp⟩
  | brk =>
    have hx : execS P (fuel + 1) (.withS ln i body) w hd = some ((P.cmExit w1 i none).1, .brk) := by
      unfold execS execT
      simp only [hb]
    obtain ⟨vm', hr, hp⟩ := compS_correct P code (fuel + 1) _ w _ _ hd hx ctx pc cur st bs rv hce hc hinv
    exact ⟨vm', hr, hp.1, hp⟩
  | cont =>
    have hx : execS P (fuel + 1) (.withS ln i body) w hd = some ((P.cmExit w1 i none).1, .cont) := by
      unfold execS execT
      simp only [hb]
    obtain ⟨vm', hr, hp⟩ := compS_correct P code (fuel + 1) _ w _ _ hd hx ctx pc cur st bs rv hce hc hinv
    exact ⟨vm', hr, hp.1, hp⟩
  | ret v =>
    have hx : execS P (fuel + 1) (.withS ln i body) w hd = some ((P.cmExit w1 i none).1, (.ret v)) := by
      unfold execS execT
      simp only [hb]
    obtain ⟨vm', hr, hp⟩ := compS_correct P code (fuel + 1) _ w _ _ hd hx ctx pc cur st bs rv hce hc hinv
    exact ⟨vm', hr, hp.1, hp⟩

/-- **handler_first_match.**  When the body of a `try` raises an exception of class `c`, the compiled
code runs the body of the *first* clause one of whose classes is `c` or an ancestor of `c`
(`Catches`, the reflexive-transitive base-class relation) — the second clause only if the first
does not catch — with that exception as the handled one, and no clause at all if none catches:
then the same exception (class, raising line) stays pending, in the world the body left. -/
theorem handler_first_match {W} (P : Prims W) (code : Code) (fuel : Nat) (ln : Nat) (body : Stmt)
    (m1 : Matcher) (h1 : Stmt) (m2 : Matcher) (h2 orelse : Stmt)
    (w w1 : W) (c : Cls) (l : Nat) (hd : Handled)
    (hb : execS P fuel body w hd = some (w1, .exc c l))
    (ctx : Ctx) (pc cur : Nat) (st : List Val) (bs : List Block) (rv : Val)
    (hce : compErr ctx pc (.tryE ln body m1 h1 (some m2) h2 orelse) = none)
    (hc : CodeAt code pc (compS ctx pc cur (.tryE ln body m1 h1 (some m2) h2 orelse))) (hinv : CtxInv ctx bs) :
    (Catches Cls.base c m1.classes → ∀ w' o, execS P fuel h1 w1 (some (c, l)) = some (w', o) →
      ∃ vm', Reach P code ⟨pc, st, bs, .not, rv, {}, hdInfo hd, w⟩ vm' ∧
        Post ctx (pc + len (.tryE ln body m1 h1 (some m2) h2 orelse)) st bs (hdInfo hd) o w' vm') ∧
    (¬ Catches Cls.base c m1.classes → Catches Cls.base c m2.classes → ∀ w' o, execS P fuel h2 w1 (some (c, l)) = some (w', o) →
      ∃ vm', Reach P code ⟨pc, st, bs, .not, rv, {}, hdInfo hd, w⟩ vm' ∧
        Post ctx (pc + len (.tryE ln body m1 h1 (some m2) h2 orelse)) st bs (hdInfo hd) o w' vm') ∧
    (¬ Catches Cls.base c m1.classes → ¬ Catches Cls.base c m2.classes →
      ∃ vm', Reach P code ⟨pc, st, bs, .not, rv, {}, hdInfo hd, w⟩ vm' ∧
        Post ctx (pc + len (.tryE ln body m1 h1 (some m2) h2 orelse)) st bs (hdInfo hd) (.exc c l) w1 vm') := by
  unfold execS at hb
  have key : ∀ w' o, (if catches m1.classes c then execT P fuel (.run h1) w1 (some (c, l))
                      else if catches m2.classes c then execT P fuel (.run h2) w1 (some (c, l)) else some (w1, .exc c l)) = some (w', o) →
      ∃ vm', Reach P code ⟨pc, st, bs, .not, rv, {}, hdInfo hd, w⟩ vm' ∧
        Post ctx (pc + len (.tryE ln body m1 h1 (some m2) h2 orelse)) st bs (hdInfo hd) o w' vm' := by
    intro w' o hk
    have hx : execS P (fuel + 1) (.tryE ln body m1 h1 (some m2) h2 orelse) w hd = some (w', o) := by
      unfold execS execT
      simp only [hb]
      exact hk
    exact compS_correct P code (fuel + 1) _ w w' o hd hx ctx pc cur st bs rv hce hc hinv
  refine ⟨?_, ?_, ?_⟩
  · intro hc1 w' o hh
    have : catches m1.classes c = true := (catches_iff _ _).mpr hc1
    exact key w' o (by rw [if_pos this]; exact hh)
  · intro hn1 hc2 w' o hh
    have h1f : ¬ catches m1.classes c = true := fun hh' => hn1 ((catches_iff _ _).mp hh')
    have h2t : catches m2.classes c = true := (catches_iff _ _).mpr hc2
    exact key w' o (by rw [if_neg h1f, if_pos h2t]; exact hh)
  · intro hn1 hn2
    have h1f : ¬ catches m1.classes c = true := fun hh' => hn1 ((catches_iff _ _).mp hh')
    have h2f : ¬ catches m2.classes c = true := fun hh' => hn2 ((catches_iff _ _).mp hh')
    exact key w1 (.exc c l) (by rw [if_neg h1f, if_neg h2f])

/-! ## (D') register discipline: a parked reason is resumed with its own operand

`vm.retval` is ONE register with several users: RETURN_VALUE keeps the value being returned in it,
CONTINUE_LOOP the loop-head address (as `py.Int`), YIELD_VALUE the yielded value; a resumed generator
frame runs in a fresh `Vm` whose `retval` is nil.  While a finally body runs, the pending
`return`/`continue` therefore lives on the VALUE STACK (`PUSH(retval); PUSH(Int(why))` in the
unwinder), and END_FINALLY must write it back. -/

/-- **end_finally_restores (instruction level).**  END_FINALLY on a parked `return`/`continue` pair
`Int(why) :: rv :: S` sets `vm.why` AND `vm.retval` from the pair - whatever the two registers hold
at that moment - and pops exactly the pair. -/
theorem end_finally_restores {W} (P : Prims W) (vm : VM W) (why : Why) (rv : Val) (S : List Val) (ln : Nat)
    (hw : why = .ret ∨ why = .cont) (hst : vm.stack = .int why.code :: rv :: S) :
    exec P .endFinally ln vm = .ok { vm with stack := S, why := why, retval := rv } := by
  obtain ⟨pc, st, bl, w0, r0, cur, exc, w⟩ := vm
  simp only at hst
  subst hst
  rcases hw with rfl | rfl <;> simp [exec, Why.code, Why.ofCode]

/-- a parked `break` has no operand: END_FINALLY restores the reason and leaves `retval` alone -/
theorem end_finally_restores_break {W} (P : Prims W) (vm : VM W) (S : List Val) (ln : Nat)
    (hst : vm.stack = .int Why.brk.code :: S) :
    exec P .endFinally ln vm = .ok { vm with stack := S, why := .brk } := by
  obtain ⟨pc, st, bl, w0, r0, cur, exc, w⟩ := vm
  simp only at hst
  subst hst
  simp [exec, Why.code, Why.ofCode]

/-- **parked_reason_restored.**  Unwinding into a finally block (`resumeState`) followed - after a
finally body that left the value stack as it found it but may have put ANYTHING into the registers
`vm.retval` (`clob`: its own CONTINUE_LOOP targets, its own return values, yielded values, nil of a
fresh Vm) and `vm.why`/`pc`/world (`pc'`, `w'`) - by END_FINALLY resumes the original reason with
the original operand. -/
theorem parked_reason_restored {W} (P : Prims W) (vm : VM W) (b : Block) (rest : List Block)
    (S : List Val) (e : ExcInfo) (ln pc' : Nat) (clob : Val) (w' : W)
    (hk : b.kind = .finally) (hw : vm.why = .ret ∨ vm.why = .cont ∨ vm.why = .brk) :
    ∃ vm2, exec P .endFinally ln { resumeState vm b rest S e with pc := pc', retval := clob, world := w' } = .ok vm2 ∧
      vm2.why = vm.why ∧ (vm.why = .ret ∨ vm.why = .cont → vm2.retval = vm.retval) ∧
      vm2.stack = cutTo b.level S ∧ vm2.blocks = rest ∧ vm2.world = w' := by
  obtain ⟨pc, st, bl, why, rv, cur, exc, w⟩ := vm
  obtain ⟨k, h, l⟩ := b
  simp only at hk hw
  subst hk
  rcases hw with hw | hw | hw <;> subst hw
  · exact ⟨_, by simp [resumeState, exec, Why.code, Why.ofCode]; rfl, by simp⟩
  · exact ⟨_, by simp [resumeState, exec, Why.code, Why.ofCode]; rfl, by simp⟩
  · exact ⟨_, by simp [resumeState, exec, Why.code, Why.ofCode]; rfl, by simp⟩

/-- **resumed_generator_frame.**  A generator frame that yields and is resumed keeps its FRAME (pc,
value stack with every parked pair on it, block stack, handled exception) and gets the `None` sent
by `next()` pushed; the `Vm` registers are fresh: `why = whyNot`, `retval = nil`, no pending
exception.  So nothing but the value stack can carry a parked reason across a yield. -/
theorem resumed_generator_frame {W} (P : Prims W) (code : Code) (vm : VM W) (hy : vm.why = .yield) :
    step P code vm = .next (resumeGen P vm) ∧
    (resumeGen P vm).pc = vm.pc ∧ (resumeGen P vm).stack = .none :: vm.stack ∧ (resumeGen P vm).blocks = vm.blocks ∧
    (resumeGen P vm).exc = vm.exc ∧ (resumeGen P vm).why = .not ∧ (resumeGen P vm).retval = .nil ∧
    (resumeGen P vm).curexc = {} ∧ (resumeGen P vm).world = P.yielded vm.world vm.retval := by
  refine ⟨?_, rfl, rfl, rfl, rfl, rfl, rfl, rfl, rfl⟩
  unfold step
  rw [if_neg (by rw [hy]; decide), if_pos hy]

/-- semantics of leaving k try/finally statements by a non-exceptional abrupt outcome -/
theorem execS_wrapF {W} (P : Prims W) (hd : Handled) (o : Outcome) (ho : finHd hd o = hd) :
    ∀ (fins : List (Nat × Stmt)) (f : Nat) (s : Stmt) (w w0 w' : W),
      execS P f s w hd = some (w0, o) → FinChain P hd f fins w0 w' →
      execS P (f + fins.length) (wrapF s fins) w hd = some (w', o) := by
  intro fins
  induction fins with
  | nil =>
    intro f s w w0 w' hs hch
    cases hch
    simpa [wrapF] using hs
  | cons x rest ih =>
    intro f s w w0 w' hs hch
    obtain ⟨ln, fin⟩ := x
    cases hch with
    | @cons _ _ _ _ _ w1 _ hfin hrest =>
      have hstep : execS P (f + 1) (.tryF ln s fin) w hd = some (w1, o) := by
        unfold execS at hs hfin ⊢
        unfold execT
        simp only [hs, ho, hfin]
      have := ih (f + 1) (.tryF ln s fin) w _ w' hstep hrest
      simpa [wrapF, List.length_cons, Nat.add_assoc, Nat.add_comm 1] using this

/-- **return_leaves_finallies_with_own_value (register discipline, `return`).**  For every k ≥ 0 and
every finally bodies `fins` - ANY statements of the fragment: with their own loops and
`continue`/`break` (CONTINUE_LOOP writes `vm.retval`), their own nested try/finally with their own
parked and overridden returns, yields of a generator frame (fresh `Vm` on resumption), handled
exceptions - that each run to a normal end: `return ev(i)` inside k nested try/finally statements
runs the finally bodies innermost first (world `w0 → w'` along `FinChain`) and then completes as a
`return` of ITS OWN value `v`: `vm.why = whyReturn ∧ vm.retval = v`.  Corollary of `compS_correct`:
every parked pair was restored exactly. -/
theorem return_leaves_finallies_with_own_value {W} (P : Prims W) (code : Code) (f : Nat) (ln i : Nat) (v : Int)
    (fins : List (Nat × Stmt)) (w w0 w' : W) (hd : Handled)
    (hev : P.ev w i = (w0, .val v)) (hch : FinChain P hd (f + 1) fins w0 w')
    (ctx : Ctx) (pc cur : Nat) (st : List Val) (bs : List Block) (rv : Val)
    (hce : compErr ctx pc (wrapF (.ret ln i) fins) = none)
    (hc : CodeAt code pc (compS ctx pc cur (wrapF (.ret ln i) fins))) (hinv : CtxInv ctx bs) :
    ∃ vm', Reach P code ⟨pc, st, bs, .not, rv, {}, hdInfo hd, w⟩ vm' ∧
      vm'.why = .ret ∧ vm'.retval = .int v ∧ vm'.world = w' ∧ vm'.blocks = bs ∧ vm'.curexc = {} ∧ vm'.exc = hdInfo hd := by
  have hs : execS P (f + 1) (.ret ln i) w hd = some (w0, .ret v) := by
    unfold execS execT
    simp only [hev]
  have hx := execS_wrapF P hd (.ret v) rfl fins (f + 1) (.ret ln i) w w0 w' hs hch
  obtain ⟨vm', hr, hp⟩ := compS_correct P code _ _ w w' _ hd hx ctx pc cur st bs rv hce hc hinv
  obtain ⟨hw, hb, he, hwhy, hrv, hcur, _⟩ := hp
  exact ⟨vm', hr, hwhy, hrv, hw, hb, hcur, he⟩

/-- **continue_leaves_finallies_with_own_target (register discipline, `continue`).**  The same for a
`continue` inside k ≥ 1 nested try/finally statements inside a loop whose head is at `s`
(`findLoop`): after the finally bodies, whatever they executed, the pending `continue` carries the
head of ITS loop (`vm.retval = Int s`; directly inside the loop body: the jump to `s` has been
taken) - not the head of a loop that ran inside a finally body. -/
theorem continue_leaves_finallies_with_own_target {W} (P : Prims W) (code : Code) (f : Nat) (ln : Nat)
    (fins : List (Nat × Stmt)) (w w' : W) (hd : Handled)
    (hch : FinChain P hd (f + 1) fins w w')
    (ctx : Ctx) (pc cur : Nat) (st : List Val) (bs : List Block) (rv : Val)
    (hce : compErr ctx pc (wrapF (.cont ln) fins) = none)
    (hc : CodeAt code pc (compS ctx pc cur (wrapF (.cont ln) fins))) (hinv : CtxInv ctx bs) :
    ∃ vm', Reach P code ⟨pc, st, bs, .not, rv, {}, hdInfo hd, w⟩ vm' ∧
      ContAt ctx vm' ∧ vm'.world = w' ∧ vm'.blocks = bs ∧ vm'.stack = st ∧ vm'.curexc = {} := by
  have hs : execS P (f + 1) (.cont ln) w hd = some (w, .cont) := by
    unfold execS execT; rfl
  have hx := execS_wrapF P hd .cont rfl fins (f + 1) (.cont ln) w w w' hs hch
  obtain ⟨vm', hr, hp⟩ := compS_correct P code _ _ w w' _ hd hx ctx pc cur st bs rv hce hc hinv
  obtain ⟨hw, hb, _, hcur, hst, hcont⟩ := hp
  exact ⟨vm', hr, hcont, hw, hb, hst, hcur⟩

/-- the same for `break` (no operand: the reason alone is parked) -/
theorem break_leaves_finallies {W} (P : Prims W) (code : Code) (f : Nat) (ln : Nat)
    (fins : List (Nat × Stmt)) (w w' : W) (hd : Handled)
    (hch : FinChain P hd (f + 1) fins w w')
    (ctx : Ctx) (pc cur : Nat) (st : List Val) (bs : List Block) (rv : Val)
    (hce : compErr ctx pc (wrapF (.brk ln) fins) = none)
    (hc : CodeAt code pc (compS ctx pc cur (wrapF (.brk ln) fins))) (hinv : CtxInv ctx bs) :
    ∃ vm', Reach P code ⟨pc, st, bs, .not, rv, {}, hdInfo hd, w⟩ vm' ∧
      vm'.why = .brk ∧ vm'.world = w' ∧ vm'.blocks = bs ∧ vm'.curexc = {} := by
  have hs : execS P (f + 1) (.brk ln) w hd = some (w, .brk) := by
    unfold execS execT; rfl
  have hx := execS_wrapF P hd .brk rfl fins (f + 1) (.brk ln) w w w' hs hch
  obtain ⟨vm', hr, hp⟩ := compS_correct P code _ _ w w' _ hd hx ctx pc cur st bs rv hce hc hinv
  obtain ⟨hw, hb, _, hwhy, _, hcur, _⟩ := hp
  exact ⟨vm', hr, hwhy, hw, hb, hcur⟩

/-! ## (D'') the register fact table: extracted from vm/eval.go, pinned against the step function

`GPy.C02.Generated.regFacts` is regenerated on every run by `extract/c02regs` (go/ast over the working
tree's vm/eval.go): per region of the interpreter that uses the unwinder's registers, whether it
writes `vm.retval` (from a `vm.POP()`? with nil?), reads it, writes `vm.why`, and how many `PUSH` /
`POP|DROP` calls it makes.  `modelRegFacts` is the same table as the MODEL has it; each row's content
is a universally quantified fact about `exec` / `unwind1` / `frameExit` (`modelRegFacts_sound`).
`regfacts_pinned` fails as soon as a handler of the real code stops restoring (or starts clobbering) a
register or moves a different number of values - even if no generated program tells the difference. -/

def modelRegFacts : List Generated.RegFact := [
  ⟨"RETURN_VALUE", true, true, true, false, false, true, 0, 1⟩,        -- retval := POP; why := return
  ⟨"CONTINUE_LOOP", true, true, false, false, false, true, 0, 0⟩,      -- retval := Int(target); why := continue
  ⟨"BREAK_LOOP", true, false, false, false, false, true, 0, 0⟩,        -- why := break, no operand
  ⟨"YIELD_VALUE", true, true, true, false, false, true, 0, 1⟩,         -- retval := POP; why := yield
  ⟨"YIELD_FROM.yield", true, true, false, false, false, true, 0, 0⟩,   -- (not in the model's instruction set; pinned only)
  ⟨"POP_EXCEPT", true, false, false, false, false, false, 0, 0⟩,       -- touches neither register
  ⟨"END_FINALLY.head", true, false, false, false, false, false, 0, 1⟩, -- v := POP
  ⟨"END_FINALLY.int", true, false, false, false, false, true, 0, 0⟩,   -- why := the popped Int
  ⟨"END_FINALLY.retcont", true, true, true, false, false, false, 0, 1⟩,-- retval := POP   (the restore)
  ⟨"END_FINALLY.silenced", true, false, false, false, false, true, 0, 0⟩,
  ⟨"END_FINALLY.exc", true, false, false, false, false, true, 0, 2⟩,   -- two more POPs, why := exception
  ⟨"WITH_CLEANUP.retcont", true, false, false, false, false, false, 0, 0⟩, -- shuffles the pair, registers untouched
  ⟨"WITH_CLEANUP.other", true, false, false, false, false, false, 0, 0⟩,
  ⟨"unwind.loopcont", true, false, false, false, true, true, 0, 0⟩,    -- Lasti := retval.(Int); why := not
  ⟨"unwind.finally", true, false, false, false, true, true, 2, 0⟩,     -- PUSH(retval) (return/continue); PUSH(Int(why)); why := not
  ⟨"exit", true, true, false, true, false, false, 0, 0⟩                -- why != return: retval := nil
]

/-- **regfacts_pinned.**  The table extracted from the working tree's vm/eval.go is the model's. -/
theorem regfacts_pinned : Generated.regFacts = modelRegFacts := by decide

/-- **modelRegFacts_sound.**  What the rows of `modelRegFacts` say, as facts about the model's step
function for ALL machine states (row by row, in the order of the table; YIELD_FROM is outside the
model, POP_EXCEPT / END_FINALLY.silenced / WITH_CLEANUP.other move no register in `exec` by
construction of the record updates). -/
theorem modelRegFacts_sound {W} (P : Prims W) (vm : VM W) (ln : Nat) :
    -- RETURN_VALUE / YIELD_VALUE: retval := the popped value
    (∀ v rest, vm.stack = v :: rest →
      exec P .returnValue ln vm = .ok { vm with stack := rest, retval := v, why := .ret } ∧
      exec P .yieldValue ln vm = .ok { vm with stack := rest, retval := v, why := .yield }) ∧
    -- CONTINUE_LOOP: retval := the loop head; BREAK_LOOP: no operand
    (∀ t, exec P (.continueLoop t) ln vm = .ok { vm with retval := .int t, why := .cont }) ∧
    exec P .breakLoop ln vm = .ok { vm with why := .brk } ∧
    -- END_FINALLY: head only (None) / the Int alone (break) / the pair (return, continue) / an exception triple
    (∀ rest, vm.stack = .none :: rest → exec P .endFinally ln vm = .ok { vm with stack := rest }) ∧
    (∀ S, vm.stack = .int Why.brk.code :: S → exec P .endFinally ln vm = .ok { vm with stack := S, why := .brk }) ∧
    (∀ why rv S, why = .ret ∨ why = .cont → vm.stack = .int why.code :: rv :: S →
      exec P .endFinally ln vm = .ok { vm with stack := S, why := why, retval := rv }) ∧
    (∀ c w u rest, vm.stack = .cls c :: w :: u :: rest →
      exec P .endFinally ln vm = .ok { vm with stack := rest, curexc := { type := some c, value := w, tb := u.asTb }, why := .exception }) ∧
    -- WITH_CLEANUP with a parked pair: `__exit__` is called, the pair stays, the registers are not touched
    (∀ n rv i rest, n = Why.ret.code ∨ n = Why.cont.code → vm.stack = .int n :: rv :: .exitm i :: rest →
      exec P .withCleanup ln vm = .ok { vm with stack := .int n :: rv :: rest, world := (P.cmExit vm.world i none).1 }) ∧
    -- the unwinder: a loop block takes `continue` by jumping to retval; a finally block parks reason (and operand)
    (∀ h l bs d, vm.why = .cont → vm.retval = .int d →
      unwind1 vm ⟨.loop, h, l⟩ bs = .resume { vm with why := .not, pc := d.toNat }) ∧
    (∀ h bs, vm.why = .ret ∨ vm.why = .cont →
      unwind1 vm ⟨.finally, h, vm.stack.length⟩ bs =
        .resume { vm with blocks := bs, stack := .int vm.why.code :: vm.retval :: vm.stack, why := .not, pc := h.toNat }) ∧
    -- the epilogue: unless the reason is `return` the register's content is dropped
    (vm.why ≠ .ret → frameExit vm = frameExit { vm with retval := .nil }) := by
  obtain ⟨pc, st, bl, why, rv, cur, exc, w⟩ := vm
  refine ⟨?_, ?_, ?_, ?_, ?_, ?_, ?_, ?_, ?_, ?_, ?_⟩
  · intro v rest h; simp only at h; subst h; exact ⟨rfl, rfl⟩
  · intro t; rfl
  · rfl
  · intro rest h; simp only at h; subst h; rfl
  · intro S h; exact end_finally_restores_break P _ S ln h
  · intro why' rv' S hw h; exact end_finally_restores P _ why' rv' S ln hw h
  · intro c w' u rest h; simp only at h; subst h; rfl
  · intro n rv' i rest hn h
    simp only at h; subst h
    rcases hn with rfl | rfl <;> simp [exec, Why.code]
  · intro h l bs d hw hr
    simp only at hw hr; subst hw; subst hr
    simp [unwind1]
  · intro h bs hw
    simp only at hw
    rcases hw with rfl | rfl <;> simp [unwind1, unwindBlock, Why.code]
  · intro hw
    simp only at hw
    simp [frameExit, hw]

/-! ## (E) the traceback names every active call -/

/-- one calling frame `def g(): return f()` (model `run` = RunFrame on `wrapperCode`) -/
theorem wrapper_frame {W} (P : Prims W) (ln : Nat) (w w1 : W) (r : CallRes) (hcall : P.call w = (w1, r)) (hok : CallOK r) :
    Exit.toCall w (run P (wrapperCode ln) 4 (initVM w)) = (w1, addCalls [ln] r) := by
  cases r with
  | val v =>
    have hv : v ≠ .nil := hok
    simp [run, step, wrapperCode, exec, initVM, hcall, frameExit, Exit.toCall, addCalls, hv, ExcInfo.isSet]
  | exc e =>
    obtain ⟨hset, t, ht⟩ := hok
    have hne : ¬ e.type = none := by
      intro h; simp [ExcInfo.isSet, h] at hset
    have hs : e.type.isSome = true := hset
    simp [run, step, wrapperCode, exec, initVM, hcall, frameExit, Exit.toCall, addCalls, ExcInfo.isSet, hne, hs]

/-- **traceback_chain.**  Through any number of calling frames (`lns` = the lines of the calls,
outermost first) a returned value reaches the outermost caller unchanged and an exception reaches
it with its class, its value and its traceback extended in front by exactly one entry per active
call, in call order; no entry is dropped, replaced or reordered. -/
theorem traceback_chain {W} (P : Prims W) (inner : W → W × CallRes) (lns : List Nat) (w : W) (hok : CallOK (inner w).2) :
    runChain P inner lns w = ((inner w).1, addCalls lns (inner w).2) := by
  induction lns with
  | nil =>
    simp only [runChain]
    cases hr : inner w with
    | mk w1 r =>
      rw [hr] at hok
      cases r with
      | val v => rfl
      | exc e =>
        obtain ⟨_, t, ht⟩ := hok
        obtain ⟨ty, v, tb⟩ := e
        simp only at ht
        subst ht
        simp [addCalls]
  | cons ln rest ih =>
    simp only [runChain]
    have hcall : ({ P with call := runChain P inner rest } : Prims W).call w = ((inner w).1, addCalls rest (inner w).2) := ih
    rw [wrapper_frame _ ln w _ _ hcall (addCalls_ok rest _ hok)]
    cases (inner w).2 with
    | val v => rfl
    | exc e => simp [addCalls]

/-- the module-level statement `r = f()`: an exception coming out of the call leaves the module
frame (and so reaches the embedder, `py.RunCode`) with the module's line in front -/
theorem module_frame {W} (P : Prims W) (ln : Nat) (w w1 : W) (e : ExcInfo) (hcall : P.call w = (w1, .exc e))
    (hset : e.isSet = true) :
    run P (moduleCode ln) 6 (initVM w) = some (.exc { e with tb := some (ln :: e.tb.getD []) } w1) := by
  have hne : ¬ e.type = none := by
    intro h; simp [ExcInfo.isSet, h] at hset
  have hs : e.type.isSome = true := hset
  simp [run, step, moduleCode, exec, initVM, hcall, frameExit, ExcInfo.isSet, hne, hs]

/-- **traceback_names_every_call.**  A function body of the fragment whose semantics lets an
exception of class `c` raised on line `l` escape, called through any chain of wrapper functions
(calls on the lines `lns`, outermost first) from a module-level statement on line `mln`: the
exception the module frame hands to the embedder has the original class and a traceback naming
the line of the module statement, of every active call, and of the raising statement, in that order. -/
theorem traceback_names_every_call {W} (P : Prims W) (defLine : Nat) (body : Stmt) (code : Code) (fuel : Nat)
    (w w' : W) (c : Cls) (l : Nat) (lns : List Nat) (mln : Nat)
    (hcomp : compileFn defLine body = .ok code)
    (hx : execFn P fuel body w = some (w', .exc c l)) :
    ∃ n, run { P with call := runChain P (fun w0 => Exit.toCall w0 (run P code n (initVM w0))) lns } (moduleCode mln) 6 (initVM w)
      = some (.exc ⟨some c, .excv c, some (mln :: lns ++ [l])⟩ w') := by
  obtain ⟨n, hn⟩ := no_exception_lost P defLine body code fuel w w' c l hcomp hx
  refine ⟨n, ?_⟩
  have hin : Exit.toCall w (run P code n (initVM w)) = (w', .exc ⟨some c, .excv c, some [l]⟩) := by
    simp only [hn, Exit.toCall]
  have hch := traceback_chain P (fun w0 => Exit.toCall w0 (run P code n (initVM w0))) lns w
    (by simp only [hin]; exact ⟨rfl, _, rfl⟩)
  simp only [hin] at hch
  have := module_frame { P with call := runChain P (fun w0 => Exit.toCall w0 (run P code n (initVM w0))) lns } mln w w' _ hch rfl
  simpa [addCalls] using this

example : CallOK (.exc ⟨some .KeyError, .excv .KeyError, some [3]⟩) := ⟨rfl, _, rfl⟩

/-- non-vacuity: a world with probes that always answer 1; `while ev(1): break` compiles, is covered,
and runs to a normal end -/
def unitPrims : Prims Unit where
  ev _ _ := ((), .val 1)
  itNew _ _ := ((), 0)
  itNext _ _ := ((), none)
  cmEnter _ _ := ()
  cmExit _ _ _ := ((), .none)

example : execFn unitPrims 10 (.whileS 2 1 (.brk 3) .skip) () = some ((), .ret none) := by decide
example : ∃ code, compileFn 1 (.whileS 2 1 (.brk 3) .skip) = .ok code := ⟨_, rfl⟩
example : execFn unitPrims 10 (.seq (.ev 2 1) (.raise 3 .KeyError)) () = some ((), .exc .KeyError 3) := by decide
/-- the seeded scenario: A's handler; inside it B passes through a `finally` and is caught; the bare
`raise` re-raises A (KeyError raised on line 3), not B -/
example : execFn unitPrims 20
    (.tryE 2 (.raise 3 .KeyError) ⟨4, [.KeyError], false⟩
      (.seq (.tryE 5 (.tryF 6 (.raise 7 .ValueError) (.pass 9)) ⟨10, [.ValueError], false⟩ (.pass 11) none .skip .skip)
            (.reraise 12)) none .skip .skip) () = some ((), .exc .KeyError 3) := by decide
example : execFn unitPrims 10 (.reraise 2) () = some ((), .exc .RuntimeError 2) := by decide

/-- non-vacuity of the register-discipline theorems - the seeded scenario C02-b: the finally body of
`try: return ev(1) finally: for x in it(1): try: continue finally: pass` runs to a normal end
(`FinChain`), although it executes CONTINUE_LOOP (which overwrites `vm.retval` with a loop head) -/
def onePrims : Prims Nat where
  ev w _ := (w, .val 7)
  itNew w _ := (0, 0)
  itNext w _ := if w < 2 then (w + 1, some 1) else (w, none)
  cmEnter w _ := w
  cmExit w _ _ := (w, .none)

def seedFin : Stmt := .forS 5 2 (.tryF 6 (.cont 7) (.pass 9)) .skip

example : FinChain onePrims none 11 [(2, seedFin)] 0 2 :=
  .cons (w1 := 2) (by decide) (.nil _ _)
example : compErr [] 0 (wrapF (.ret 3 1) [(2, seedFin)]) = none := by decide
example : execFn onePrims 20 (wrapF (.ret 3 1) [(2, seedFin)]) 0 = some (2, .ret (some 7)) := by decide
/-- and the model machine really runs CONTINUE_LOOP with the return parked, then returns 7 -/
example : ∃ code, compileFn 1 (wrapF (.ret 3 1) [(2, seedFin)]) = .ok code ∧
    isRet (run onePrims code 200 (initVM 0)) (.int 7) 2 = true := ⟨_, rfl, by decide⟩
/-- a generator frame: `try: return ev(1) finally: yield ev(2)` returns 7 although the frame was
resumed in a fresh Vm (retval nil) between the park and END_FINALLY -/
example : ∃ code, compileFn 1 (wrapF (.ret 3 1) [(2, .yieldS 5 2)]) = .ok code ∧
    isRet (run onePrims code 200 (initVM 0)) (.int 7) 0 = true := ⟨_, rfl, by decide⟩

end GPy.C02
