/-
C02 property theorems.  (A) unwinding, (B) exception matching, (C) line table,
(D) compiler/VM simulation against the statement semantics.
-/
import GPy.C02.Sim
namespace GPy.C02

/-! ## (A) the unwinding loop of `RunFrame` -/

/-- **unwind_spec.**  For every block stack `pre ++ b :: rest`, every reason and every value stack
that fits the block stack: if no block of `pre` takes the reason (`Selects`) and `b` does, the
unwinding loop pops exactly `pre`, stops at `b` and resumes in `resumeState`: the value stack
restored to `b`'s level, `continue` jumps to the loop start without popping the loop block,
`break` jumps to the loop's handler with the loop block popped, an exception enters the
except/finally handler with the six values pushed and an EXCEPT_HANDLER block, any other reason
enters a finally block with the reason (and return value) pushed. -/
theorem unwind_spec {W} (vm : VM W) (pre : List Block) (b : Block) (rest : List Block)
    (hb : vm.blocks = pre ++ b :: rest)
    (hpre : ∀ x ∈ pre, Selects x.kind vm.why = false)
    (hsel : Selects b.kind vm.why = true)
    (hok : BlocksOK vm.blocks vm.stack.length)
    (hcont : vm.why = .cont → ∃ d, vm.retval = .int d) :
    ∃ e, unwind vm = .resume (resumeState vm b rest (stackAfter pre vm.stack) e) := by
  unfold unwind
  rw [hb] at hok ⊢
  obtain ⟨e, h1, h2⟩ := unwindL_skip pre vm (b :: rest) hb hpre hok
  refine ⟨e, ?_⟩
  rw [h1]
  have hlvl := BlocksOK_level h2
  generalize stackAfter pre vm.stack = S at *
  obtain ⟨pc, st, bl, why, rv, cur, exc, w⟩ := vm
  obtain ⟨k, h, l⟩ := b
  simp only at hcont hsel hlvl
  cases k <;> cases why <;> simp [Selects] at hsel <;>
    simp [unwindL, unwind1, resumeState, unwindBlock_eq hlvl, cut_length hlvl, cut]
  · obtain ⟨d, hd⟩ := hcont rfl
    subst hd; simp

/-- **no_exception_lost (unwinding).**  If no block takes the reason, the frame exits with the very
same reason, pending exception, return value and world. -/
theorem unwind_exits_unchanged {W} (vm : VM W)
    (hnone : ∀ x ∈ vm.blocks, Selects x.kind vm.why = false)
    (hok : BlocksOK vm.blocks vm.stack.length) :
    ∃ vm', unwind vm = .exit vm' ∧ vm'.why = vm.why ∧ vm'.curexc = vm.curexc ∧
      vm'.retval = vm.retval ∧ vm'.world = vm.world ∧ vm'.blocks = [] := by
  unfold unwind
  have hb : vm.blocks = vm.blocks ++ [] := by simp
  rw [hb] at hok
  obtain ⟨e, h1, _⟩ := unwindL_skip vm.blocks vm [] hb hnone hok
  rw [hb, h1]
  exact ⟨_, rfl, rfl, rfl, rfl, rfl, rfl⟩

/-- **finally_preserves_reason.**  When a finally block took reason `why` (return, break,
continue, or an exception) and the finally body has left the value stack as it found it,
`END_FINALLY` resumes the *same* reason with the same return value / the same pending exception,
on the restored stack. -/
theorem finally_preserves_reason {W} (P : Prims W) (vm : VM W) (b : Block) (rest : List Block)
    (S : List Val) (e : ExcInfo) (ln pc' : Nat)
    (hk : b.kind = .finally)
    (hw : vm.why = .ret ∨ vm.why = .brk ∨ vm.why = .cont ∨ vm.why = .exception)
    (hexc : vm.why = .exception → ∃ c, vm.curexc.type = some c) :
    ∃ vm2, exec P .endFinally ln { resumeState vm b rest S e with pc := pc' } = .ok vm2 ∧
      vm2.why = vm.why ∧
      (vm.why = .ret ∨ vm.why = .cont → vm2.retval = vm.retval) ∧
      (vm.why = .exception → vm2.curexc = vm.curexc ∧
         vm2.stack = typeVal e.type :: e.value :: .tb e.tb :: cutTo b.level S ∧
         vm2.blocks = ⟨.handler, -1, b.level⟩ :: rest) ∧
      (vm.why ≠ .exception → vm2.stack = cutTo b.level S ∧ vm2.blocks = rest ∧ vm2.curexc = vm.curexc) ∧
      vm2.world = vm.world := by
  obtain ⟨pc, st, bl, why, rv, cur, exc, w⟩ := vm
  obtain ⟨k, h, l⟩ := b
  simp only at hk hw hexc
  subst hk
  rcases hw with hw | hw | hw | hw <;> subst hw
  · exact ⟨_, by simp [resumeState, exec, Why.code, Why.ofCode]; rfl, by simp⟩
  · exact ⟨_, by simp [resumeState, exec, Why.code, Why.ofCode]; rfl, by simp⟩
  · exact ⟨_, by simp [resumeState, exec, Why.code, Why.ofCode]; rfl, by simp⟩
  · obtain ⟨c, hc⟩ := hexc rfl
    obtain ⟨ct, cv, ctb⟩ := cur
    simp only at hc
    subst hc
    exact ⟨_, by simp [resumeState, exec, typeVal]; rfl, by simp [Val.asTb, typeVal]⟩

/-! ## (B) exception matching -/

/-- **exc_match_iff_ancestor.**  For every single-inheritance class hierarchy, `IsSubtype` (the walk
over the MRO) is exactly the reflexive-transitive base-class relation, and `ExceptionGivenMatches`
with a class or a tuple of classes is "some named class is an ancestor-or-self". -/
theorem exc_match_iff_ancestor {α} [DecidableEq α] (H : Hier α) (err : α) :
    (∀ c, givenMatches H err (.one c) = true ↔ Sub H.base err c) ∧
    (∀ cs, givenMatches H err (.tuple cs) = true ↔ Catches H.base err cs) :=
  ⟨fun c => isSubtype_iff H err c, fun cs => givenMatchesL_iff H err cs⟩

/-- the documented builtin hierarchy (`ancestors`) is the closure of `Type.Base` -/
theorem builtin_ancestors_spec (e c : Cls) : c ∈ ancestors e ↔ Sub Cls.base e c := by
  have h := isSubtype_iff builtinHier e c
  rw [← ancestors_eq_isSubtype] at h
  simpa [builtinHier] using h

/-- non-vacuity / sanity: KeyError is caught by `except LookupError`, not by `except ValueError`,
and `except Exception` does not catch KeyboardInterrupt -/
example : givenMatches builtinHier Cls.KeyError (.one .LookupError) = true := by decide
example : givenMatches builtinHier Cls.KeyError (.tuple [.ValueError, .ArithmeticError]) = false := by decide
example : givenMatches builtinHier Cls.KeyboardInterrupt (.one .Exception) = false := by decide

/-! ## (C) line table -/

/-- **addr2line_lnotab.**  For every instruction stream whose line numbers never decrease (first
line ≥ 1; any gaps, also > 255 in either column; labels of size 0 anywhere): decoding the table
`Lnotab()` produces at any byte address inside an instruction gives that instruction's line. -/
theorem addr2line_lnotab (pre : List LInstr) (i : LInstr) (post : List LInstr) (p : Nat)
    (hs : LinesSorted 1 (pre ++ i :: post)) (hsz : 0 < i.size)
    (h1 : sizeSum pre ≤ p) (h2 : p < sizeSum pre + i.size) :
    addr2line (lnotab (pre ++ i :: post)) 1 p = i.line := by
  unfold addr2line lnotab
  rw [lnotabGo_decode _ 0 0 1 p (Nat.le_refl _) (Nat.zero_le _)]
  exact lineAtByte_instr pre i post 0 1 1 p hs (Nat.le_refl _) hsz (by omega) (by omega)

/-- every entry of the table fits a byte, so the `byte(..)` conversions of `Lnotab()` lose nothing -/
theorem lnotab_bytes (is : List LInstr) : ∀ e ∈ lnotab is, e.1 < 256 ∧ e.2 < 256 :=
  lnotabGo_bytes is 0 0 1

/-- **traceback_line.**  The address the (repaired) `AddTraceback` passes, `Lasti - 1` with `Lasti`
already advanced past the raising instruction, lies inside that instruction: the reported line is
the raising instruction's line. -/
theorem traceback_line (pre : List LInstr) (i : LInstr) (post : List LInstr)
    (hs : LinesSorted 1 (pre ++ i :: post)) (hsz : 0 < i.size) :
    addr2line (lnotab (pre ++ i :: post)) 1 (tracebackAddr (pre ++ i :: post) pre.length) = i.line := by
  unfold tracebackAddr
  rw [posOf_append]
  exact addr2line_lnotab pre i post _ hs hsz (by omega) (by omega)

/-- The unrepaired code passed `Lasti` itself: for `raise X` (3+3 bytes on line 2) followed by a
statement on line 3 it reported line 3.  (Defect fixed in /repo; kept as the witness.) -/
theorem traceback_line_old_witness :
    addr2line (lnotab [⟨3, 2⟩, ⟨3, 2⟩, ⟨3, 3⟩]) 1 (tracebackAddrOld [⟨3, 2⟩, ⟨3, 2⟩, ⟨3, 3⟩] 1) = 3 ∧
    addr2line (lnotab [⟨3, 2⟩, ⟨3, 2⟩, ⟨3, 3⟩]) 1 (tracebackAddr [⟨3, 2⟩, ⟨3, 2⟩, ⟨3, 3⟩] 1) = 2 := by
  decide

example : LinesSorted 1 ([⟨3, 7⟩, ⟨1, 7⟩] ++ ⟨3, 300⟩ :: [⟨1, 301⟩]) := by simp [LinesSorted]
example : addr2line (lnotab [⟨3, 7⟩, ⟨1, 7⟩, ⟨3, 300⟩, ⟨1, 301⟩]) 1 5 = 300 := by decide

/-! ## (D) compiled code takes exactly the paths of the statement semantics -/

/-- **compS_correct.**  Forward simulation, for every world type `W`, every behaviour of the probes
(`Prims`: which call raises which class / returns what, iterator lengths, what `__exit__` answers),
every statement of the fragment {pass, ev(i), return, raise, break, continue, sequences,
if/elif/else, while(+else), for(+else), try/finally, try/except (1–2 clauses, classes or tuples,
`as e`, else), with}, every loop/try context and every fuel: if Python's semantics `execS`
finishes `s` from world `w` in world `w'` with outcome `o`, the VM, started at the first
instruction of `compS ctx pc cur s` with any value stack `st` and block stack `bs`, reaches with the
*same world* (same path log, same probe calls in the same order) the state `Post` prescribes for
`o`: fall-through at the end of the code with `st`/`bs` restored and no exception pending;
`break` / `return v` / exception of class `c` raised on line `ln` pending (`why`, `retval`,
`curexc` with traceback line `ln`) with block stack `bs`; `continue` at the loop start (directly
inside the loop) or pending with the loop start in `retval`. -/
theorem compS_correct {W} (P : Prims W) (code : Code) (fuel : Nat) (s : Stmt) (w w' : W) (o : Outcome)
    (hx : execS P fuel s w = some (w', o))
    (ctx : Ctx) (pc cur : Nat) (st : List Val) (bs : List Block) (rv : Val) (ex : ExcInfo)
    (hce : compErr ctx pc s = none) (hc : CodeAt code pc (compS ctx pc cur s)) (hinv : CtxInv ctx bs) :
    ∃ vm', Reach P code ⟨pc, st, bs, .not, rv, {}, ex, w⟩ vm' ∧ Post ctx (pc + len s) st bs o w' vm' :=
  (sim_all P code fuel).1 s w w' o hx (Cov_all s) ctx pc cur st bs rv ex hce hc hinv

/-- **frame_correct.**  A compiled function body run by `RunFrame` (model `run`) ends exactly as
the semantics says: same world (path log), `None` / the returned value / the unhandled exception
with its original class and the traceback line of the raising statement.  `break`/`continue`
cannot escape a body that compiled; `RunFrame` does not panic. -/
theorem frame_correct {W} (P : Prims W) (defLine : Nat) (body : Stmt) (code : Code) (fuel : Nat)
    (w w' : W) (fin : Final)
    (hcomp : compileFn defLine body = .ok code)
    (hx : execFn P fuel body w = some (w', fin)) :
    fin ≠ .stray ∧ ∃ n, run P code n (initVM w) = some (expectedExit fin w') :=
  frame_correct_cov P defLine body code fuel w w' fin hcomp (Cov_all body) hx

/-- **no_exception_lost.**  An exception the semantics lets escape from the function is what
`RunFrame` returns: same class, traceback naming the raising line, nothing swallowed or replaced,
and the world is the one the semantics reached (every finally body / `__exit__` on the way ran). -/
theorem no_exception_lost {W} (P : Prims W) (defLine : Nat) (body : Stmt) (code : Code) (fuel : Nat)
    (w w' : W) (c : Cls) (ln : Nat)
    (hcomp : compileFn defLine body = .ok code)
    (hx : execFn P fuel body w = some (w', .exc c ln)) :
    ∃ n, run P code n (initVM w) = some (.exc ⟨some c, .excv c, some [ln]⟩ w') :=
  (frame_correct_cov P defLine body code fuel w w' _ hcomp (Cov_all body) hx).2

/-- **finally_runs_once.**  Whatever way the body of `try: body finally: fin` ends (normally, break,
continue, return, exception) the compiled code reaches the world obtained by running `body`
once and then `fin` exactly once — for every world type, so for every way of counting the probe
calls of `fin` — and resumes the body's outcome when `fin` ends normally, else takes `fin`'s. -/
theorem finally_runs_once {W} (P : Prims W) (code : Code) (fuel : Nat) (ln : Nat) (body fin : Stmt)
    (w w1 w2 : W) (o1 o2 : Outcome)
    (hb : execS P fuel body w = some (w1, o1)) (hf : execS P fuel fin w1 = some (w2, o2))
    (ctx : Ctx) (pc cur : Nat) (st : List Val) (bs : List Block) (rv : Val) (ex : ExcInfo)
    (hce : compErr ctx pc (.tryF ln body fin) = none)
    (hc : CodeAt code pc (compS ctx pc cur (.tryF ln body fin))) (hinv : CtxInv ctx bs) :
    ∃ vm', Reach P code ⟨pc, st, bs, .not, rv, {}, ex, w⟩ vm' ∧ vm'.world = w2 ∧
      Post ctx (pc + len (.tryF ln body fin)) st bs (if o2 = .normal then o1 else o2) w2 vm' := by
  have hx : execS P (fuel + 1) (.tryF ln body fin) w = some (w2, if o2 = .normal then o1 else o2) := by
    unfold execS at hb hf ⊢
    unfold execT
    simp only [hb, hf]
    cases o2 <;> simp
  obtain ⟨vm', hr, hp⟩ := compS_correct P code (fuel + 1) _ w w2 _ hx ctx pc cur st bs rv ex hce hc hinv
  exact ⟨vm', hr, hp.1, hp⟩

/-- **exit_called_once.**  `with cm(i): body`: `__enter__` is called once, then the body runs, then
`__exit__` is called exactly once — with the exception class if the body raised, with `None`
otherwise — and the exception is suppressed iff the answer is true (Python truth, not `is True`). -/
theorem exit_called_once {W} (P : Prims W) (code : Code) (fuel : Nat) (ln i : Nat) (body : Stmt)
    (w w1 : W) (o1 : Outcome)
    (hb : execS P fuel body (P.cmEnter w i) = some (w1, o1))
    (ctx : Ctx) (pc cur : Nat) (st : List Val) (bs : List Block) (rv : Val) (ex : ExcInfo)
    (hce : compErr ctx pc (.withS ln i body) = none)
    (hc : CodeAt code pc (compS ctx pc cur (.withS ln i body))) (hinv : CtxInv ctx bs) :
    ∃ vm', Reach P code ⟨pc, st, bs, .not, rv, {}, ex, w⟩ vm' ∧
      (match o1 with
       | .exc c l =>
         vm'.world = (P.cmExit w1 i (some c)).1 ∧
         Post ctx (pc + len (.withS ln i body)) st bs
           (if pyTruth (P.cmExit w1 i (some c)).2 then .normal else .exc c l) (P.cmExit w1 i (some c)).1 vm'
       | o => vm'.world = (P.cmExit w1 i none).1 ∧
         Post ctx (pc + len (.withS ln i body)) st bs o (P.cmExit w1 i none).1 vm') := by
  unfold execS at hb
  cases o1 with
  | exc c l =>
    have hx : execS P (fuel + 1) (.withS ln i body) w =
        some ((P.cmExit w1 i (some c)).1, if pyTruth (P.cmExit w1 i (some c)).2 then .normal else .exc c l) := by
      unfold execS execT
      simp only [hb]
      by_cases ht : pyTruth (P.cmExit w1 i (some c)).2 = true <;> simp [ht]
    obtain ⟨vm', hr, hp⟩ := compS_correct P code (fuel + 1) _ w _ _ hx ctx pc cur st bs rv ex hce hc hinv
    exact ⟨vm', hr, hp.1, hp⟩
  | normal =>
    have hx : execS P (fuel + 1) (.withS ln i body) w = some ((P.cmExit w1 i none).1, .normal) := by
      unfold execS execT
      simp only [hb]
    obtain ⟨vm', hr, hp⟩ := compS_correct P code (fuel + 1) _ w _ _ hx ctx pc cur st bs rv ex hce hc hinv
    exact ⟨vm', hr, hp.1, hp⟩
  | brk =>
    have hx : execS P (fuel + 1) (.withS ln i body) w = some ((P.cmExit w1 i none).1, .brk) := by
      unfold execS execT
      simp only [hb]
    obtain ⟨vm', hr, hp⟩ := compS_correct P code (fuel + 1) _ w _ _ hx ctx pc cur st bs rv ex hce hc hinv
    exact ⟨vm', hr, hp.1, hp⟩
  | cont =>
    have hx : execS P (fuel + 1) (.withS ln i body) w = some ((P.cmExit w1 i none).1, .cont) := by
      unfold execS execT
      simp only [hb]
    obtain ⟨vm', hr, hp⟩ := compS_correct P code (fuel + 1) _ w _ _ hx ctx pc cur st bs rv ex hce hc hinv
    exact ⟨vm', hr, hp.1, hp⟩
  | ret v =>
    have hx : execS P (fuel + 1) (.withS ln i body) w = some ((P.cmExit w1 i none).1, (.ret v)) := by
      unfold execS execT
      simp only [hb]
    obtain ⟨vm', hr, hp⟩ := compS_correct P code (fuel + 1) _ w _ _ hx ctx pc cur st bs rv ex hce hc hinv
    exact ⟨vm', hr, hp.1, hp⟩

/-- **handler_first_match.**  When the body of a `try` raises an exception of class `c`, the compiled
code runs the body of the *first* clause one of whose classes is `c` or an ancestor of `c`
(`Catches`, the reflexive-transitive base-class relation) — the second clause only if the first
does not catch — and no clause at all if none catches: then the same exception (class, raising
line) stays pending, in the world the body left. -/
theorem handler_first_match {W} (P : Prims W) (code : Code) (fuel : Nat) (ln : Nat) (body : Stmt)
    (m1 : Matcher) (h1 : Stmt) (m2 : Matcher) (h2 orelse : Stmt)
    (w w1 : W) (c : Cls) (l : Nat)
    (hb : execS P fuel body w = some (w1, .exc c l))
    (ctx : Ctx) (pc cur : Nat) (st : List Val) (bs : List Block) (rv : Val) (ex : ExcInfo)
    (hce : compErr ctx pc (.tryE ln body m1 h1 (some m2) h2 orelse) = none)
    (hc : CodeAt code pc (compS ctx pc cur (.tryE ln body m1 h1 (some m2) h2 orelse))) (hinv : CtxInv ctx bs) :
    (Catches Cls.base c m1.classes → ∀ w' o, execS P fuel h1 w1 = some (w', o) →
      ∃ vm', Reach P code ⟨pc, st, bs, .not, rv, {}, ex, w⟩ vm' ∧
        Post ctx (pc + len (.tryE ln body m1 h1 (some m2) h2 orelse)) st bs o w' vm') ∧
    (¬ Catches Cls.base c m1.classes → Catches Cls.base c m2.classes → ∀ w' o, execS P fuel h2 w1 = some (w', o) →
      ∃ vm', Reach P code ⟨pc, st, bs, .not, rv, {}, ex, w⟩ vm' ∧
        Post ctx (pc + len (.tryE ln body m1 h1 (some m2) h2 orelse)) st bs o w' vm') ∧
    (¬ Catches Cls.base c m1.classes → ¬ Catches Cls.base c m2.classes →
      ∃ vm', Reach P code ⟨pc, st, bs, .not, rv, {}, ex, w⟩ vm' ∧
        Post ctx (pc + len (.tryE ln body m1 h1 (some m2) h2 orelse)) st bs (.exc c l) w1 vm') := by
  unfold execS at hb
  have key : ∀ w' o, (if catches m1.classes c then execT P fuel (.run h1) w1
                      else if catches m2.classes c then execT P fuel (.run h2) w1 else some (w1, .exc c l)) = some (w', o) →
      ∃ vm', Reach P code ⟨pc, st, bs, .not, rv, {}, ex, w⟩ vm' ∧
        Post ctx (pc + len (.tryE ln body m1 h1 (some m2) h2 orelse)) st bs o w' vm' := by
    intro w' o hk
    have hx : execS P (fuel + 1) (.tryE ln body m1 h1 (some m2) h2 orelse) w = some (w', o) := by
      unfold execS execT
      simp only [hb]
      exact hk
    exact compS_correct P code (fuel + 1) _ w w' o hx ctx pc cur st bs rv ex hce hc hinv
  refine ⟨?_, ?_, ?_⟩
  · intro hc1 w' o hh
    have : catches m1.classes c = true := (catches_iff _ _).mpr hc1
    exact key w' o (by rw [if_pos this]; exact hh)
  · intro hn1 hc2 w' o hh
    have h1f : ¬ catches m1.classes c = true := fun hh' => hn1 ((catches_iff _ _).mp hh')
    have h2t : catches m2.classes c = true := (catches_iff _ _).mpr hc2
    exact key w' o (by rw [if_neg h1f, if_pos h2t]; exact hh)
  · intro hn1 hn2
    have h1f : ¬ catches m1.classes c = true := fun hh' => hn1 ((catches_iff _ _).mp hh')
    have h2f : ¬ catches m2.classes c = true := fun hh' => hn2 ((catches_iff _ _).mp hh')
    exact key w1 (.exc c l) (by rw [if_neg h1f, if_neg h2f])

/-- non-vacuity: a world with probes that always answer 1; `while ev(1): break` compiles, is covered,
and runs to a normal end -/
def unitPrims : Prims Unit where
  ev _ _ := ((), .val 1)
  itNew _ _ := ((), 0)
  itNext _ _ := ((), none)
  cmEnter _ _ := ()
  cmExit _ _ _ := ((), .none)

example : execFn unitPrims 10 (.whileS 2 1 (.brk 3) .skip) () = some ((), .ret none) := by decide
example : ∃ code, compileFn 1 (.whileS 2 1 (.brk 3) .skip) = .ok code := ⟨_, rfl⟩
example : execFn unitPrims 10 (.seq (.ev 2 1) (.raise 3 .KeyError)) () = some ((), .exc .KeyError 3) := by decide

end GPy.C02
