/-
C02 layer (D): forward simulation of the compiled code (`compS`, run by `step`) against the
statement semantics `execT`, by induction on the fuel.
-/
import GPy.C02.Proofs
namespace GPy.C02
variable {W : Type}

/-! ### reachability in the machine -/

inductive Reach (P : Prims W) (code : Code) : VM W → VM W → Prop
  | refl (vm : VM W) : Reach P code vm vm
  | step {vm vm1 vm2 : VM W} : step P code vm = .next vm1 → Reach P code vm1 vm2 → Reach P code vm vm2

theorem Reach.trans {P : Prims W} {code : Code} {a b c : VM W}
    (h1 : Reach P code a b) (h2 : Reach P code b c) : Reach P code a c := by
  induction h1 with
  | refl => exact h2
  | step hs _ ih => exact Reach.step hs (ih h2)

/-- dispatch of one instruction -/
theorem Reach.instr {P : Prims W} {code : Code} {vm vm1 vm2 : VM W} {i : Instr} {ln : Nat}
    (hw : vm.why = .not) (hc : code[vm.pc]? = some (i, ln))
    (he : exec P i ln { vm with pc := vm.pc + 1 } = .ok vm1) (hr : Reach P code vm1 vm2) :
    Reach P code vm vm2 := by
  refine Reach.step ?_ hr
  unfold GPy.C02.step
  rw [if_pos hw]
  simp only [hc]
  rw [he]

/-- a generator frame yields and is resumed by the consumer's next `next()` (fresh `Vm` registers) -/
theorem Reach.yield {P : Prims W} {code : Code} {vm vm2 : VM W}
    (hw : vm.why = .yield) (hr : Reach P code (resumeGen P vm) vm2) : Reach P code vm vm2 := by
  refine Reach.step ?_ hr
  unfold GPy.C02.step
  rw [if_neg (by rw [hw]; decide), if_pos hw]

/-- one iteration of the unwinding loop that pops a block and goes on -/
theorem Reach.again {P : Prims W} {code : Code} {vm vm1 vm2 : VM W} {b : Block} {bs : List Block}
    (hw : vm.why ≠ .not) (hb : vm.blocks = b :: bs)
    (hu : unwind1 vm b bs = .again vm1) (hr : Reach P code vm1 vm2)
    (hy : vm.why ≠ .yield := by first | assumption | decide | (intro hh; simp_all)) : Reach P code vm vm2 := by
  refine Reach.step ?_ hr
  unfold GPy.C02.step
  rw [if_neg hw, if_neg hy, hb]
  simp only [hu]

/-- one iteration of the unwinding loop in which the block takes the reason -/
theorem Reach.resume {P : Prims W} {code : Code} {vm vm1 vm2 : VM W} {b : Block} {bs : List Block}
    (hw : vm.why ≠ .not) (hb : vm.blocks = b :: bs)
    (hu : unwind1 vm b bs = .resume vm1) (hr : Reach P code vm1 vm2)
    (hy : vm.why ≠ .yield := by first | assumption | decide | (intro hh; simp_all)) : Reach P code vm vm2 := by
  refine Reach.step ?_ hr
  unfold GPy.C02.step
  rw [if_neg hw, if_neg hy, hb]
  simp only [hu]

/-! ### code layout -/

def CodeAt (code : Code) (pc : Nat) (l : Code) : Prop :=
  ∃ pre post, code = pre ++ l ++ post ∧ pre.length = pc

theorem CodeAt.nth {code : Code} {pc : Nat} {l : Code} (h : CodeAt code pc l) (k : Nat) (hk : k < l.length) :
    code[pc + k]? = some l[k] := by
  obtain ⟨pre, post, rfl, rfl⟩ := h
  rw [List.append_assoc, List.getElem?_append_right (by omega)]
  simp only [Nat.add_sub_cancel_left]
  rw [List.getElem?_append_left hk]
  exact List.getElem?_eq_getElem hk

theorem CodeAt.drop {code : Code} {pc : Nat} {l : Code} (h : CodeAt code pc l) (k : Nat) (hk : k ≤ l.length) :
    CodeAt code (pc + k) (l.drop k) := by
  obtain ⟨pre, post, rfl, rfl⟩ := h
  refine ⟨pre ++ l.take k, post, ?_, ?_⟩
  · simp only [List.append_assoc]
    rw [← List.append_assoc (l.take k), List.take_append_drop]
  · rw [List.length_append, List.length_take]; omega

theorem CodeAt.left {code : Code} {pc : Nat} {a b : Code} (h : CodeAt code pc (a ++ b)) : CodeAt code pc a := by
  obtain ⟨pre, post, rfl, rfl⟩ := h
  exact ⟨pre, b ++ post, by simp, rfl⟩

theorem CodeAt.right {code : Code} {pc : Nat} {a b : Code} (h : CodeAt code pc (a ++ b)) :
    CodeAt code (pc + a.length) b := by
  obtain ⟨pre, post, rfl, rfl⟩ := h
  exact ⟨pre ++ a, post, by simp, by simp⟩

theorem CodeAt.cast {code : Code} {pc pc' : Nat} {l : Code} (h : CodeAt code pc l) (e : pc = pc') :
    CodeAt code pc' l := e ▸ h

theorem classesExpr_length (m : Matcher) :
    (classesExpr m).length = (if m.classes.length = 1 then 1 else m.classes.length + 1) := by
  unfold classesExpr
  match hm : m.classes with
  | [] => simp
  | [c] => simp
  | c :: d :: r => simp

theorem compHandler_length (m : Matcher) (pc cur : Nat) (body : Code) (bl endL : Nat) :
    (compHandler m pc cur body bl endL).length = handlerLen m body.length := by
  unfold compHandler handlerLen
  by_cases hn : m.named
  · simp [hn, classesExpr_length]; omega
  · simp [hn, classesExpr_length]; omega

theorem compS_length : ∀ (s : Stmt) (ctx : Ctx) (pc cur : Nat), (compS ctx pc cur s).length = len s := by
  intro s
  induction s with
  | skip => intros; rfl
  | pass => intros; rfl
  | ev => intros; rfl
  | ret => intros; rfl
  | yieldS => intros; rfl
  | raise => intros; rfl
  | reraise => intros; rfl
  | raiseX ln fm => intro ctx pc cur; cases fm <;> rfl
  | brk => intros; rfl
  | cont ln =>
    intro ctx pc cur
    unfold compS
    cases contInstr ctx <;> rfl
  | seq a b iha ihb => intro ctx pc cur; simp [compS, len, iha, ihb]
  | ifS ln i b o ihb iho => intro ctx pc cur; simp [compS, len, callProbe, ihb, iho]; omega
  | whileS ln i b o ihb iho => intro ctx pc cur; simp [compS, len, callProbe, ihb, iho]; omega
  | forS ln i b o ihb iho => intro ctx pc cur; simp [compS, len, callProbe, ihb, iho]; omega
  | tryF ln b f ihb ihf => intro ctx pc cur; simp [compS, len, ihb, ihf]; omega
  | tryE ln b m1 h1 m2 h2 o ihb ih1 ih2 iho =>
    intro ctx pc cur
    cases m2 with
    | none => simp [compS, len, compHandler_length, ihb, ih1, iho]; omega
    | some m => simp [compS, len, compHandler_length, ihb, ih1, ih2, iho]; omega
  | withS ln i b ihb => intro ctx pc cur; simp [compS, len, callProbe, ihb]; omega

/-! ### what a statement's execution establishes -/

/-- the compile-time loop stack and the run-time block stack fit: directly inside a loop body the
loop's block is on top -/
def CtxInv (ctx : Ctx) (bs : List Block) : Prop :=
  ∀ s rest, ctx = .loop s :: rest → ∃ h l bs', bs = ⟨.loop, h, l⟩ :: bs'

/-- where a `continue` has got to: at the loop start when directly inside the loop body, otherwise
pending as `whyContinue` with the loop start in `retval` -/
def ContAt (ctx : Ctx) (vm : VM W) : Prop :=
  match ctx with
  | .loop s :: _ => vm.why = .not ∧ vm.pc = s
  | _ => vm.why = .cont ∧ ∃ s, findLoop ctx = some s ∧ vm.retval = .int s

/-- State reached by the code of a statement that was entered with value stack `st` and block
stack `bs`, for each outcome of the statement: falls through to `endpc`, or the reason is pending
with the block stack of the statement's context (values above `st` may be left for the enclosing
block to cut away).  In every case the handled exception `vm.exc` is `ex`, the one in force when the
statement was entered: whatever handlers were entered inside the statement have been left again. -/
def Post (ctx : Ctx) (endpc : Nat) (st : List Val) (bs : List Block) (ex : ExcInfo) (o : Outcome) (w' : W) (vm : VM W) : Prop :=
  vm.world = w' ∧ vm.blocks = bs ∧ vm.exc = ex ∧
  match o with
  | .normal => vm.why = .not ∧ vm.pc = endpc ∧ vm.stack = st ∧ vm.curexc = {}
  | .brk => vm.why = .brk ∧ hasLoop ctx = true ∧ vm.curexc = {} ∧ ∃ junk, vm.stack = junk ++ st
  | .cont => vm.curexc = {} ∧ vm.stack = st ∧ ContAt ctx vm
  | .ret v => vm.why = .ret ∧ vm.retval = .int v ∧ vm.curexc = {} ∧ ∃ junk, vm.stack = junk ++ st
  | .exc c ln => vm.why = .exception ∧ vm.curexc = ⟨some c, .excv c, some [ln]⟩ ∧ ∃ junk, vm.stack = junk ++ st

theorem Post.mono {ctx : Ctx} {e1 e2 : Nat} {st : List Val} {bs : List Block} {ex : ExcInfo} {o : Outcome} {w' : W} {vm : VM W}
    (hn : o ≠ .normal) (h : Post ctx e1 st bs ex o w' vm) : Post ctx e2 st bs ex o w' vm := by
  cases o with
  | normal => exact absurd rfl hn
  | _ => exact h

theorem unwindBlock_junk (junk st : List Val) : unwindBlock st.length (junk ++ st) = st := by
  unfold unwindBlock
  by_cases h : (junk ++ st).length > st.length
  · rw [if_pos h]
    have : (junk ++ st).length - st.length = junk.length := by rw [List.length_append]; omega
    rw [this, List.drop_left]
  · rw [if_neg h]
    have : junk = [] := by
      rw [List.length_append] at h
      exact List.eq_nil_of_length_eq_zero (by omega)
    subst this; rfl

/-- which statements the simulation proof covers (all of them: `Cov_all`) -/
def Cov : Stmt → Bool
  | .skip | .pass _ | .ev _ _ | .ret _ _ | .raise _ _ | .brk _ | .cont _ | .reraise _ | .raiseX _ _ | .yieldS _ _ => true
  | .seq a b => Cov a && Cov b
  | .ifS _ _ b o => Cov b && Cov o
  | .whileS _ _ b o => Cov b && Cov o
  | .forS _ _ b o => Cov b && Cov o
  | .tryF _ b f => Cov b && Cov f
  | .tryE _ b _ h1 _ h2 o => Cov b && Cov h1 && Cov h2 && Cov o
  | .withS _ _ b => Cov b

/-- simulation statement for statements -/
def SimS (P : Prims W) (code : Code) (fuel : Nat) : Prop :=
  ∀ (s : Stmt) (w w' : W) (o : Outcome) (hd : Handled), execT P fuel (.run s) w hd = some (w', o) → Cov s = true →
  ∀ (ctx : Ctx) (pc cur : Nat) (st : List Val) (bs : List Block) (rv : Val) (ex : ExcInfo), ex = hdInfo hd →
    compErr ctx pc s = none → CodeAt code pc (compS ctx pc cur s) → CtxInv ctx bs →
    ∃ vm', Reach P code ⟨pc, st, bs, .not, rv, {}, ex, w⟩ vm' ∧ Post ctx (pc + len s) st bs ex o w' vm'

/-- simulation statement for a `while` loop entered at its head (loop block already pushed) -/
def SimW (P : Prims W) (code : Code) (fuel : Nat) : Prop :=
  ∀ (ln i : Nat) (b o : Stmt) (w w' : W) (out : Outcome) (hd : Handled),
  execT P fuel (.run (.whileS ln i b o)) w hd = some (w', out) → Cov b = true → Cov o = true →
  ∀ (ctx : Ctx) (pc cur : Nat) (st : List Val) (bs : List Block) (rv : Val) (ex : ExcInfo), ex = hdInfo hd →
    compErr ctx pc (.whileS ln i b o) = none → CodeAt code pc (compS ctx pc cur (.whileS ln i b o)) → CtxInv ctx bs →
    ∃ vm', Reach P code ⟨pc + 1, st, ⟨.loop, ((pc + 5 + len b + 1 + 1 + len o : Nat) : Int), st.length⟩ :: bs,
                          .not, rv, {}, ex, w⟩ vm' ∧
      Post ctx (pc + len (.whileS ln i b o)) st bs ex out w' vm'

/-- simulation statement for a `for` loop at its `FOR_ITER` (loop block pushed, iterator on the stack) -/
def SimF (P : Prims W) (code : Code) (fuel : Nat) : Prop :=
  ∀ (ln i h : Nat) (b o : Stmt) (w w' : W) (out : Outcome) (hd : Handled),
  execT P fuel (.forLoop h b o) w hd = some (w', out) → Cov b = true → Cov o = true →
  ∀ (ctx : Ctx) (pc cur : Nat) (st : List Val) (bs : List Block) (rv : Val) (ex : ExcInfo), ex = hdInfo hd →
    compErr ctx pc (.forS ln i b o) = none → CodeAt code pc (compS ctx pc cur (.forS ln i b o)) → CtxInv ctx bs →
    ∃ vm', Reach P code ⟨pc + 5, .iter h :: st, ⟨.loop, ((pc + 7 + len b + 1 + 1 + len o : Nat) : Int), st.length⟩ :: bs,
                          .not, rv, {}, ex, w⟩ vm' ∧
      Post ctx (pc + len (.forS ln i b o)) st bs ex out w' vm'

theorem orElse_none {α} {a : Option α} {f : Unit → Option α} (h : a.orElse f = none) : a = none ∧ f () = none := by
  cases a with
  | none => exact ⟨rfl, by simpa [Option.orElse] using h⟩
  | some x => simp [Option.orElse] at h

macro "vstep " h:term : tactic => `(tactic| refine Reach.instr rfl $h (by simp only [exec]; rfl) ?_)
macro "vstepx " "[" ls:Lean.Parser.Tactic.simpLemma,* "] " h:term : tactic =>
  `(tactic| refine Reach.instr rfl $h (by simp [exec, $ls,*]; rfl) ?_)

/-- the three instructions of a probe call `f(i)` -/
theorem callProbe_at {code : Code} {pc : Nat} {f : Fn} {i ln : Nat} {rest : Code}
    (hc : CodeAt code pc ((Instr.loadGlobal (.fn f), ln) :: (Instr.loadConst (.int i), ln) :: (Instr.callFunction 1, ln) :: rest)) :
    code[pc]? = some (Instr.loadGlobal (.fn f), ln) ∧ code[pc + 1]? = some (Instr.loadConst (.int i), ln) ∧
    code[pc + 2]? = some (Instr.callFunction 1, ln) ∧ CodeAt code (pc + 3) rest := by
  have h0 := hc.nth 0 (by simp)
  have h1 := hc.nth 1 (by simp)
  have h2 := hc.nth 2 (by simp)
  have h3 := hc.drop 3 (by simp)
  exact ⟨h0, h1, h2, h3⟩

theorem sim_simple (P : Prims W) (code : Code) (f : Nat) (s : Stmt)
    (hs : match s with | .skip | .pass _ | .ev _ _ | .ret _ _ | .raise _ _ | .brk _ | .cont _ | .reraise _ | .raiseX _ _ | .yieldS _ _ => True | _ => False)
    (w w' : W) (o : Outcome) (hd : Handled) (h : execT P (f+1) (.run s) w hd = some (w', o))
    (ctx : Ctx) (pc cur : Nat) (st : List Val) (bs : List Block) (rv : Val) (ex : ExcInfo) (hex : ex = hdInfo hd)
    (hce : compErr ctx pc s = none) (hc : CodeAt code pc (compS ctx pc cur s)) :
    ∃ vm', Reach P code ⟨pc, st, bs, .not, rv, {}, ex, w⟩ vm' ∧ Post ctx (pc + len s) st bs ex o w' vm' := by
  cases s with
  | skip =>
    simp only [execT, Option.some.injEq, Prod.mk.injEq] at h
    obtain ⟨rfl, rfl⟩ := h
    exact ⟨_, Reach.refl _, by simp [Post, len]⟩
  | pass ln =>
    simp only [execT, Option.some.injEq, Prod.mk.injEq] at h
    obtain ⟨rfl, rfl⟩ := h
    exact ⟨_, Reach.refl _, by simp [Post, len]⟩
  | ev ln i =>
    simp only [compS, callProbe, List.cons_append, List.nil_append] at hc
    obtain ⟨h0, h1, h2, hr⟩ := callProbe_at hc
    have h3 := hr.nth 0 (by simp)
    unfold execT at h
    simp only at h
    cases hev : P.ev w i with
    | mk w1 r =>
      rw [hev] at h
      cases r with
      | val v =>
        simp only [Option.some.injEq, Prod.mk.injEq] at h
        obtain ⟨rfl, rfl⟩ := h
        refine ⟨?_, ?_, ?_⟩
        rotate_left
        · vstep h0
          vstep h1
          vstepx [hev] h2
          vstep h3
          exact Reach.refl _
        · simp [Post, len]
      | raise c =>
        simp only [Option.some.injEq, Prod.mk.injEq] at h
        obtain ⟨rfl, rfl⟩ := h
        refine ⟨?_, ?_, ?_⟩
        rotate_left
        · vstep h0
          vstep h1
          vstepx [hev] h2
          exact Reach.refl _
        · simp [Post, raiseAt]
  | ret ln i =>
    simp only [compS, callProbe, List.cons_append, List.nil_append] at hc
    obtain ⟨h0, h1, h2, hr⟩ := callProbe_at hc
    have h3 := hr.nth 0 (by simp)
    unfold execT at h
    simp only at h
    cases hev : P.ev w i with
    | mk w1 r =>
      rw [hev] at h
      cases r with
      | val v =>
        simp only [Option.some.injEq, Prod.mk.injEq] at h
        obtain ⟨rfl, rfl⟩ := h
        refine ⟨?_, ?_, ?_⟩
        rotate_left
        · vstep h0
          vstep h1
          vstepx [hev] h2
          vstep h3
          exact Reach.refl _
        · simp [Post]
      | raise c =>
        simp only [Option.some.injEq, Prod.mk.injEq] at h
        obtain ⟨rfl, rfl⟩ := h
        refine ⟨?_, ?_, ?_⟩
        rotate_left
        · vstep h0
          vstep h1
          vstepx [hev] h2
          exact Reach.refl _
        · simp [Post, raiseAt]
  | yieldS ln i =>
    simp only [compS, callProbe, List.cons_append, List.nil_append] at hc
    obtain ⟨h0, h1, h2, hr⟩ := callProbe_at hc
    have h3 := hr.nth 0 (by simp)
    have h4 := hr.nth 1 (by simp)
    unfold execT at h
    simp only at h
    cases hev : P.ev w i with
    | mk w1 r =>
      rw [hev] at h
      cases r with
      | val v =>
        simp only [Option.some.injEq, Prod.mk.injEq] at h
        obtain ⟨rfl, rfl⟩ := h
        refine ⟨?_, ?_, ?_⟩
        rotate_left
        · vstep h0
          vstep h1
          vstepx [hev] h2
          vstep h3
          refine Reach.yield rfl ?_
          refine Reach.instr rfl h4 (by simp only [exec, resumeGen]; rfl) ?_
          exact Reach.refl _
        · simp [Post, len]
      | raise c =>
        simp only [Option.some.injEq, Prod.mk.injEq] at h
        obtain ⟨rfl, rfl⟩ := h
        refine ⟨?_, ?_, ?_⟩
        rotate_left
        · vstep h0
          vstep h1
          vstepx [hev] h2
          exact Reach.refl _
        · simp [Post, raiseAt]
  | raise ln c =>
    simp only [compS] at hc
    have h0 := hc.nth 0 (by simp)
    have h1 := hc.nth 1 (by simp)
    simp only [execT, Option.some.injEq, Prod.mk.injEq] at h
    obtain ⟨rfl, rfl⟩ := h
    refine ⟨?_, ?_, ?_⟩
    rotate_left
    · vstep h0
      vstepx [] h1
      exact Reach.refl _
    · simp [Post, raiseAt]
  | brk ln =>
    simp only [compS] at hc
    have h0 := hc.nth 0 (by simp)
    simp only [execT, Option.some.injEq, Prod.mk.injEq] at h
    obtain ⟨rfl, rfl⟩ := h
    have hl : hasLoop ctx = true := by
      simp only [compErr] at hce
      by_cases hh : hasLoop ctx = true
      · exact hh
      · simp [hh] at hce
    refine ⟨?_, ?_, ?_⟩
    rotate_left
    · vstep h0
      exact Reach.refl _
    · simp [Post, hl]
  | cont ln =>
    simp only [execT, Option.some.injEq, Prod.mk.injEq] at h
    obtain ⟨rfl, rfl⟩ := h
    cases hci : contInstr ctx with
    | none => simp [compErr, hci] at hce
    | some ci =>
      simp only [compS, hci] at hc
      have h0 := hc.nth 0 (by simp)
      simp only [List.getElem_cons_zero] at h0
      match ctx, hci with
      | [], hci => simp [contInstr] at hci
      | .loop s :: rest, hci =>
        simp only [contInstr, Option.some.injEq] at hci
        subst hci
        refine ⟨?_, ?_, ?_⟩
        rotate_left
        · vstep h0
          exact Reach.refl _
        · simp [Post, ContAt]
      | .finallyEnd :: rest, hci => simp [contInstr] at hci
      | .except :: rest, hci =>
        simp only [contInstr] at hci
        cases hf : findLoop rest with
        | none => simp [hf] at hci
        | some s =>
          simp only [hf, Option.map_some, Option.some.injEq] at hci
          subst hci
          refine ⟨?_, ?_, ?_⟩
          rotate_left
          · vstep h0
            exact Reach.refl _
          · simp [Post, ContAt, findLoop, hf]
      | .finallyTry :: rest, hci =>
        simp only [contInstr] at hci
        cases hf : findLoop rest with
        | none => simp [hf] at hci
        | some s =>
          simp only [hf, Option.map_some, Option.some.injEq] at hci
          subst hci
          refine ⟨?_, ?_, ?_⟩
          rotate_left
          · vstep h0
            exact Reach.refl _
          · simp [Post, ContAt, findLoop, hf]
  | reraise ln =>
    simp only [compS] at hc
    have h0 := hc.nth 0 (by simp)
    simp only [List.getElem_cons_zero] at h0
    unfold execT at h
    simp only at h
    cases hd with
    | none =>
      simp only [Option.some.injEq, Prod.mk.injEq] at h
      obtain ⟨rfl, rfl⟩ := h
      subst hex
      refine ⟨?_, ?_, ?_⟩
      rotate_left
      · vstepx [hdInfo, ExcInfo.isSet] h0
        exact Reach.refl _
      · simp [Post, raiseAt, hdInfo]
    | some p =>
      obtain ⟨c, l⟩ := p
      simp only [Option.some.injEq, Prod.mk.injEq] at h
      obtain ⟨rfl, rfl⟩ := h
      subst hex
      refine ⟨?_, ?_, ?_⟩
      rotate_left
      · vstepx [hdInfo, ExcInfo.isSet] h0
        exact Reach.refl _
      · simp [Post, hdInfo]
  | raiseX ln fm =>
    simp only [execT, Option.some.injEq, Prod.mk.injEq] at h
    obtain ⟨rfl, rfl⟩ := h
    cases fm with
    | inst c k =>
      simp only [compS] at hc
      have h0 := hc.nth 0 (by simp)
      have h1 := hc.nth 1 (by simp)
      have h2 := hc.nth 2 (by simp)
      have h3 := hc.nth 3 (by simp)
      simp only [List.getElem_cons_zero, List.getElem_cons_succ] at h0 h1 h2 h3
      refine ⟨?_, ?_, ?_⟩
      rotate_left
      · vstep h0
        vstep h1
        vstepx [] h2
        vstepx [] h3
        exact Reach.refl _
      · simp [Post, raiseAt, RaiseForm.cls]
    | «from» c d =>
      simp only [compS] at hc
      have h0 := hc.nth 0 (by simp)
      have h1 := hc.nth 1 (by simp)
      have h2 := hc.nth 2 (by simp)
      simp only [List.getElem_cons_zero, List.getElem_cons_succ] at h0 h1 h2
      refine ⟨?_, ?_, ?_⟩
      rotate_left
      · vstep h0
        vstep h1
        vstepx [raisable] h2
        exact Reach.refl _
      · simp [Post, raiseAt, RaiseForm.cls]
    | nonExc k =>
      simp only [compS] at hc
      have h0 := hc.nth 0 (by simp)
      have h1 := hc.nth 1 (by simp)
      simp only [List.getElem_cons_zero, List.getElem_cons_succ] at h0 h1
      refine ⟨?_, ?_, ?_⟩
      rotate_left
      · vstep h0
        vstepx [] h1
        exact Reach.refl _
      · simp [Post, raiseAt, RaiseForm.cls]
  | _ => exact absurd hs (by simp)

/-- destructure a state that satisfies `Post .. normal` -/
theorem Post.normal_eq {ctx : Ctx} {e : Nat} {st : List Val} {bs : List Block} {ex : ExcInfo} {w' : W} {vm : VM W}
    (h : Post ctx e st bs ex .normal w' vm) : ∃ rv, vm = ⟨e, st, bs, .not, rv, {}, ex, w'⟩ := by
  obtain ⟨pc1, st1, bs1, why1, rv1, cur1, ex1, ww1⟩ := vm
  simp only [Post] at h
  obtain ⟨rfl, rfl, rfl, rfl, rfl, rfl, rfl⟩ := h
  exact ⟨rv1, rfl⟩

theorem Post.cont_loop_eq {ctx : Ctx} {s e : Nat} {st : List Val} {bs : List Block} {ex : ExcInfo} {w' : W} {vm : VM W}
    (h : Post (.loop s :: ctx) e st bs ex .cont w' vm) : ∃ rv, vm = ⟨s, st, bs, .not, rv, {}, ex, w'⟩ := by
  obtain ⟨pc1, st1, bs1, why1, rv1, cur1, ex1, ww1⟩ := vm
  simp only [Post, ContAt] at h
  obtain ⟨rfl, rfl, rfl, rfl, rfl, rfl, rfl⟩ := h
  exact ⟨rv1, rfl⟩

theorem Post.brk_eq {ctx : Ctx} {e : Nat} {st : List Val} {bs : List Block} {ex : ExcInfo} {w' : W} {vm : VM W}
    (h : Post ctx e st bs ex .brk w' vm) :
    hasLoop ctx = true ∧ ∃ pc junk rv, vm = ⟨pc, junk ++ st, bs, .brk, rv, {}, ex, w'⟩ := by
  obtain ⟨pc1, st1, bs1, why1, rv1, cur1, ex1, ww1⟩ := vm
  simp only [Post] at h
  obtain ⟨rfl, rfl, rfl, rfl, hl, rfl, ⟨junk, rfl⟩⟩ := h
  exact ⟨hl, pc1, junk, rv1, rfl⟩

theorem Post.ret_eq {ctx : Ctx} {e : Nat} {st : List Val} {bs : List Block} {ex : ExcInfo} {w' : W} {vm : VM W} {v : Int}
    (h : Post ctx e st bs ex (.ret v) w' vm) :
    ∃ pc junk, vm = ⟨pc, junk ++ st, bs, .ret, .int v, {}, ex, w'⟩ := by
  obtain ⟨pc1, st1, bs1, why1, rv1, cur1, ex1, ww1⟩ := vm
  simp only [Post] at h
  obtain ⟨rfl, rfl, rfl, rfl, rfl, rfl, ⟨junk, rfl⟩⟩ := h
  exact ⟨pc1, junk, rfl⟩

theorem Post.exc_eq {ctx : Ctx} {e : Nat} {st : List Val} {bs : List Block} {ex : ExcInfo} {w' : W} {vm : VM W} {c : Cls} {l : Nat}
    (h : Post ctx e st bs ex (.exc c l) w' vm) :
    ∃ pc junk rv, vm = ⟨pc, junk ++ st, bs, .exception, rv, ⟨some c, .excv c, some [l]⟩, ex, w'⟩ := by
  obtain ⟨pc1, st1, bs1, why1, rv1, cur1, ex1, ww1⟩ := vm
  simp only [Post] at h
  obtain ⟨rfl, rfl, rfl, rfl, rfl, ⟨junk, rfl⟩⟩ := h
  exact ⟨pc1, junk, rv1, rfl⟩


theorem sim_seq (P : Prims W) (code : Code) (f : Nat) (ihS : SimS P code f) (a b : Stmt)
    (w w' : W) (o : Outcome) (hd : Handled) (h : execT P (f+1) (.run (.seq a b)) w hd = some (w', o)) (hcov : Cov (.seq a b) = true)
    (ctx : Ctx) (pc cur : Nat) (st : List Val) (bs : List Block) (rv : Val) (ex : ExcInfo) (hex : ex = hdInfo hd)
    (hce : compErr ctx pc (.seq a b) = none) (hc : CodeAt code pc (compS ctx pc cur (.seq a b))) (hinv : CtxInv ctx bs) :
    ∃ vm', Reach P code ⟨pc, st, bs, .not, rv, {}, ex, w⟩ vm' ∧ Post ctx (pc + len (.seq a b)) st bs ex o w' vm' := by
  simp only [Cov, Bool.and_eq_true] at hcov
  simp only [compErr] at hce
  obtain ⟨hca, hcb⟩ := orElse_none hce
  simp only [compS] at hc
  have hA := hc.left
  have hB := hc.right
  rw [compS_length] at hB
  unfold execT at h
  simp only at h
  cases ha : execT P f (.run a) w hd with
  | none => rw [ha] at h; simp at h
  | some r =>
    obtain ⟨w1, o1⟩ := r
    rw [ha] at h
    obtain ⟨vm1, hr1, hp1⟩ := ihS a w w1 o1 hd ha hcov.1 ctx pc cur st bs rv ex hex hca hA hinv
    cases o1 with
    | normal =>
      simp only at h
      obtain ⟨rv1, rfl⟩ := hp1.normal_eq
      obtain ⟨vm2, hr2, hp2⟩ := ihS b w1 w' o hd h hcov.2 ctx (pc + len a) (endLine cur a) st bs rv1 ex hex hcb hB hinv
      refine ⟨vm2, hr1.trans hr2, ?_⟩
      simpa [len, Nat.add_assoc] using hp2
    | brk | cont | ret _ | exc _ _ =>
      simp only [Option.some.injEq, Prod.mk.injEq] at h
      obtain ⟨rfl, rfl⟩ := h
      exact ⟨vm1, hr1, hp1.mono (by simp)⟩

theorem sim_if (P : Prims W) (code : Code) (f : Nat) (ihS : SimS P code f) (ln i : Nat) (b o' : Stmt)
    (w w' : W) (o : Outcome) (hd : Handled) (h : execT P (f+1) (.run (.ifS ln i b o')) w hd = some (w', o)) (hcov : Cov (.ifS ln i b o') = true)
    (ctx : Ctx) (pc cur : Nat) (st : List Val) (bs : List Block) (rv : Val) (ex : ExcInfo) (hex : ex = hdInfo hd)
    (hce : compErr ctx pc (.ifS ln i b o') = none) (hc : CodeAt code pc (compS ctx pc cur (.ifS ln i b o'))) (hinv : CtxInv ctx bs) :
    ∃ vm', Reach P code ⟨pc, st, bs, .not, rv, {}, ex, w⟩ vm' ∧ Post ctx (pc + len (.ifS ln i b o')) st bs ex o w' vm' := by
  simp only [Cov, Bool.and_eq_true] at hcov
  simp only [compErr] at hce
  obtain ⟨hcb, hco⟩ := orElse_none hce
  simp only [compS, callProbe, List.cons_append, List.nil_append, List.append_assoc] at hc
  obtain ⟨h0, h1, h2, hr⟩ := callProbe_at hc
  have h3 := hr.nth 0 (by simp)
  have hrest := hr.drop 1 (by simp)
  simp only [List.drop_succ_cons, List.drop_zero, List.getElem_cons_zero] at hrest h3
  have hB := hrest.left
  have hR := hrest.right
  rw [compS_length] at hR
  have hj := hR.nth 0 (by simp)
  have hO := hR.drop 1 (by simp)
  simp only [List.drop_succ_cons, List.drop_zero, List.getElem_cons_zero] at hO hj
  unfold execT at h
  simp only at h
  cases hev : P.ev w i with
  | mk w1 r =>
    rw [hev] at h
    cases r with
    | raise c =>
      simp only [Option.some.injEq, Prod.mk.injEq] at h
      obtain ⟨rfl, rfl⟩ := h
      refine ⟨?_, ?_, ?_⟩
      rotate_left
      · vstep h0
        vstep h1
        vstepx [hev] h2
        exact Reach.refl _
      · simp [Post, raiseAt]
    | val v =>
      simp only at h
      by_cases hv : v = 0
      · simp only [hv, ne_eq, not_true_eq_false, if_false] at h
        obtain ⟨vm2, hr2, hp2⟩ := ihS o' w1 w' o hd h hcov.2 ctx (pc + 3 + 1 + len b + 1) (endLine ln b) st bs rv ex hex hco
          (hO.cast (by omega)) hinv
        refine ⟨vm2, ?_, ?_⟩
        · vstep h0
          vstep h1
          vstepx [hev] h2
          vstepx [truthy, hv] h3
          have e : pc + 4 + len b + 1 = pc + 3 + 1 + len b + 1 := by omega
          rw [e]
          exact hr2
        · have e : pc + 3 + 1 + len b + 1 + len o' = pc + len (.ifS ln i b o') := by simp [len]; omega
          rw [← e]; exact hp2
      · simp only [ne_eq, hv, not_false_eq_true, if_true] at h
        obtain ⟨vm2, hr2, hp2⟩ := ihS b w1 w' o hd h hcov.1 ctx (pc + 3 + 1) ln st bs rv ex hex hcb hB hinv
        have hpre : Reach P code ⟨pc, st, bs, .not, rv, {}, ex, w⟩ vm2 := by
          vstep h0
          vstep h1
          vstepx [hev] h2
          vstepx [truthy, hv] h3
          exact hr2
        cases o with
        | normal =>
          obtain ⟨rv2, rfl⟩ := hp2.normal_eq
          refine ⟨?_, ?_, ?_⟩
          rotate_left
          · refine hpre.trans ?_
            vstep hj
            exact Reach.refl _
          · simp [Post, len]; omega
        | brk | cont | ret _ | exc _ _ => exact ⟨vm2, hpre, hp2.mono (by simp)⟩
/-- a pending reason that a loop block does not take pops the block and restores the stack -/
theorem loop_passes {P : Prims W} {code : Code} {pc : Nat} {junk st : List Val} {h : Int} {bs : List Block}
    {why : Why} {rv : Val} {cur ex : ExcInfo} {w : W} (hw : why = .ret ∨ why = .exception) :
    Reach P code ⟨pc, junk ++ st, ⟨.loop, h, st.length⟩ :: bs, why, rv, cur, ex, w⟩
                 ⟨pc, st, bs, why, rv, cur, ex, w⟩ := by
  refine Reach.again (b := ⟨.loop, h, st.length⟩) (bs := bs) ?_ rfl ?_ (Reach.refl _)
  · rcases hw with rfl | rfl <;> simp
  · rcases hw with rfl | rfl <;> simp [unwind1, unwindBlock_junk]

/-- `break` reaching its loop block: block popped, stack restored, jump to the loop's handler -/
theorem loop_breaks {P : Prims W} {code : Code} {pc : Nat} {junk st : List Val} {h : Nat} {bs : List Block}
    {rv : Val} {cur ex : ExcInfo} {w : W} :
    Reach P code ⟨pc, junk ++ st, ⟨.loop, (h : Int), st.length⟩ :: bs, .brk, rv, cur, ex, w⟩
                 ⟨h, st, bs, .not, rv, cur, ex, w⟩ := by
  refine Reach.resume (b := ⟨.loop, (h : Int), st.length⟩) (bs := bs) (by simp) rfl ?_ (Reach.refl _)
  simp [unwind1, unwindBlock_junk]

/-- a finally block takes `break` / `return` / `continue`: block popped, stack restored, the reason
(and `retval` for return/continue) pushed, jump to the finally body -/
theorem finally_takes {P : Prims W} {code : Code} {pc : Nat} {junk st : List Val} {h : Nat} {bs : List Block}
    {why : Why} {rv : Val} {cur ex : ExcInfo} {w : W} (hw : why = .brk ∨ why = .ret ∨ why = .cont) :
    Reach P code ⟨pc, junk ++ st, ⟨.finally, (h : Int), st.length⟩ :: bs, why, rv, cur, ex, w⟩
      ⟨h, .int why.code :: (if why = .ret ∨ why = .cont then rv :: st else st), bs, .not, rv, cur, ex, w⟩ := by
  refine Reach.resume (b := ⟨.finally, (h : Int), st.length⟩) (bs := bs) ?_ rfl ?_ (Reach.refl _)
  · rcases hw with rfl | rfl | rfl <;> simp
  · rcases hw with rfl | rfl | rfl <;> simp [unwind1, unwindBlock_junk]

/-- a finally (or except) block takes an exception -/
theorem handler_entry {P : Prims W} {code : Code} {pc : Nat} {junk st : List Val} {h : Nat} {bs : List Block}
    {k : BKind} (hk : k = .finally ∨ k = .except)
    {rv : Val} {cur ex : ExcInfo} {w : W} :
    Reach P code ⟨pc, junk ++ st, ⟨k, (h : Int), st.length⟩ :: bs, .exception, rv, cur, ex, w⟩
      ⟨h, typeVal cur.type :: cur.value :: .tb cur.tb :: typeVal ex.type :: ex.value :: .tb ex.tb :: st,
       ⟨.handler, -1, st.length⟩ :: bs, .not, rv, {}, cur, w⟩ := by
  refine Reach.resume (b := ⟨k, (h : Int), st.length⟩) (bs := bs) (by simp) rfl ?_ (Reach.refl _)
  rcases hk with rfl | rfl <;> simp [unwind1, unwindBlock_junk]

theorem cut_junk (junk st : List Val) : cut st.length (junk ++ st) = st := by
  unfold cut cutTo
  rw [List.length_append]
  have : junk.length + st.length - st.length = junk.length := by omega
  rw [this, List.drop_left]

theorem savedAt_junk (junk : List Val) (a b c : Val) (st : List Val) :
    savedAt st.length (junk ++ a :: b :: c :: st) = savedOf a b c := by
  unfold savedAt
  have h := cut_junk junk (a :: b :: c :: st)
  unfold cut at h
  simp only [List.length_cons] at h
  rw [h]

theorem unwindExceptHandler_junk (junk : List Val) (a b c : Val) (st : List Val) :
    unwindExceptHandler st.length (junk ++ a :: b :: c :: st) = some (st, savedOf a b c) := by
  have hlen : st.length + 3 ≤ (junk ++ a :: b :: c :: st).length := by simp
  have he := unwindExceptHandler_ok hlen
  rw [savedAt_junk] at he
  have : junk ++ a :: b :: c :: st = (junk ++ [a, b, c]) ++ st := by simp
  rw [this, cut_junk] at he
  rw [this]
  exact he

/-- `Post` for the handled exception restored from the three values pushed on handler entry -/
theorem Post.saved {ctx : Ctx} {e : Nat} {st : List Val} {bs : List Block} {ex : ExcInfo} {o : Outcome} {w' : W} {vm : VM W}
    (h : Post ctx e st bs (savedOf (typeVal ex.type) ex.value (.tb ex.tb)) o w' vm) : Post ctx e st bs ex o w' vm := by
  rwa [savedOf_typeVal] at h

/-- a pending reason pops an EXCEPT_HANDLER block: the three saved values and everything above go,
and the handled exception is again the one that was saved when the handler was entered -/
theorem handler_passes {P : Prims W} {code : Code} {pc : Nat} {junk st : List Val} {a b c : Val} {bs : List Block}
    {why : Why} (hw : why ≠ .not) {rv : Val} {cur ex : ExcInfo} {w : W}
    (hy : why ≠ .yield := by first | assumption | decide | (intro hh; simp_all)) :
    Reach P code ⟨pc, junk ++ a :: b :: c :: st, ⟨.handler, -1, st.length⟩ :: bs, why, rv, cur, ex, w⟩
      ⟨pc, st, bs, why, rv, cur, savedOf a b c, w⟩ := by
  have he := unwindExceptHandler_junk junk a b c st
  refine Reach.again (b := ⟨.handler, -1, st.length⟩) (bs := bs) hw rfl ?_ (Reach.refl _)
  cases why <;> simp [unwind1, he] at hw ⊢
/-- a pending `continue` that has come down to the statement's own context -/
theorem cont_settle {P : Prims W} {code : Code} {ctx : Ctx} {x : Loop} (hx : x = .finallyTry ∨ x = .except)
    {pc s e : Nat} {st : List Val} {bs : List Block} {ex : ExcInfo} {w : W}
    (hf : findLoop (x :: ctx) = some s) (hinv : CtxInv ctx bs) :
    ∃ vm', Reach P code ⟨pc, st, bs, .cont, .int s, {}, ex, w⟩ vm' ∧ Post ctx e st bs ex .cont w vm' := by
  have hf' : findLoop ctx = some s := by rcases hx with rfl | rfl <;> simpa [findLoop] using hf
  match ctx, hf', hinv with
  | [], hf', _ => simp [findLoop] at hf'
  | .loop s' :: rest, hf', hinv =>
    simp only [findLoop, Option.some.injEq] at hf'
    subst hf'
    obtain ⟨h, l, bs', rfl⟩ := hinv s' rest rfl
    refine ⟨⟨s', st, ⟨.loop, h, l⟩ :: bs', .not, .int s', {}, ex, w⟩, ?_, ?_⟩
    · refine Reach.resume (b := ⟨.loop, h, l⟩) (bs := bs') (by simp) rfl ?_ (Reach.refl _)
      simp [unwind1]
    · simp [Post, ContAt]
  | .except :: rest, hf', _ =>
    exact ⟨_, Reach.refl _, by simp [Post, ContAt, hf']⟩
  | .finallyTry :: rest, hf', _ =>
    exact ⟨_, Reach.refl _, by simp [Post, ContAt, hf']⟩
  | .finallyEnd :: rest, hf', _ => simp [findLoop] at hf'
def Abrupt : Outcome → Prop
  | .brk | .ret _ | .exc _ _ => True
  | _ => False

/-- an abrupt outcome seen with extra values `X` on the stack is the same outcome for the enclosing statement -/
theorem Post.weaken {ctx1 ctx2 : Ctx} {e1 e2 : Nat} {X st : List Val} {bs : List Block} {ex : ExcInfo} {o : Outcome} {w' : W} {vm : VM W}
    (hl : hasLoop ctx1 = hasLoop ctx2) (ho : Abrupt o)
    (h : Post ctx1 e1 (X ++ st) bs ex o w' vm) : Post ctx2 e2 st bs ex o w' vm := by
  cases o with
  | normal => exact absurd ho (by simp [Abrupt])
  | cont => exact absurd ho (by simp [Abrupt])
  | brk =>
    simp only [Post] at h ⊢
    obtain ⟨h1, h2, hx, h3, h4, h5, ⟨junk, h6⟩⟩ := h
    exact ⟨h1, h2, hx, h3, hl ▸ h4, h5, ⟨junk ++ X, by rw [h6, List.append_assoc]⟩⟩
  | ret v =>
    simp only [Post] at h ⊢
    obtain ⟨h1, h2, hx, h3, h4, h5, ⟨junk, h6⟩⟩ := h
    exact ⟨h1, h2, hx, h3, h4, h5, ⟨junk ++ X, by rw [h6, List.append_assoc]⟩⟩
  | exc c l =>
    simp only [Post] at h ⊢
    obtain ⟨h1, h2, hx, h3, h4, ⟨junk, h6⟩⟩ := h
    exact ⟨h1, h2, hx, h3, h4, ⟨junk ++ X, by rw [h6, List.append_assoc]⟩⟩

/-- no `continue` comes out of a `finally` body -/
theorem Post.no_cont_in_finally {ctx : Ctx} {e : Nat} {st : List Val} {bs : List Block} {ex : ExcInfo} {w' : W} {vm : VM W}
    (h : Post (.finallyEnd :: ctx) e st bs ex .cont w' vm) : False := by
  simp only [Post, ContAt, findLoop] at h
  obtain ⟨_, _, _, _, _, _, s, hs, _⟩ := h
  simp at hs

/-- an abrupt outcome inside an exception handler region (EXCEPT_HANDLER block on top, its three
saved values on the stack) leaves through the handler block -/
theorem abrupt_through_handler {P : Prims W} {code : Code} {ctx1 ctx2 : Ctx} {e1 e2 : Nat} {X : List Val} {a b c : Val}
    {st : List Val} {bs : List Block} {ex : ExcInfo} {o : Outcome} {w' : W} {vm : VM W}
    (hl : hasLoop ctx1 = hasLoop ctx2) (ho : Abrupt o)
    (h : Post ctx1 e1 (X ++ a :: b :: c :: st) (⟨.handler, -1, st.length⟩ :: bs) ex o w' vm) :
    ∃ vm', Reach P code vm vm' ∧ Post ctx2 e2 st bs (savedOf a b c) o w' vm' := by
  cases o with
  | normal => exact absurd ho (by simp [Abrupt])
  | cont => exact absurd ho (by simp [Abrupt])
  | brk =>
    obtain ⟨hlp, pc2, junk, rv2, rfl⟩ := h.brk_eq
    have hr := handler_passes (P := P) (code := code) (pc := pc2) (junk := junk ++ X) (st := st) (a := a) (b := b) (c := c)
      (bs := bs) (why := .brk) (by simp) (rv := rv2) (cur := {}) (ex := ex) (w := w')
    rw [List.append_assoc] at hr
    exact ⟨_, hr, by simp [Post, ← hl, hlp]⟩
  | ret v =>
    obtain ⟨pc2, junk, rfl⟩ := h.ret_eq
    have hr := handler_passes (P := P) (code := code) (pc := pc2) (junk := junk ++ X) (st := st) (a := a) (b := b) (c := c)
      (bs := bs) (why := .ret) (by simp) (rv := .int v) (cur := {}) (ex := ex) (w := w')
    rw [List.append_assoc] at hr
    exact ⟨_, hr, by simp [Post]⟩
  | exc cl l =>
    obtain ⟨pc2, junk, rv2, rfl⟩ := h.exc_eq
    have hr := handler_passes (P := P) (code := code) (pc := pc2) (junk := junk ++ X) (st := st) (a := a) (b := b) (c := c)
      (bs := bs) (why := .exception) (by simp) (rv := rv2) (cur := ⟨some cl, .excv cl, some [l]⟩) (ex := ex) (w := w')
    rw [List.append_assoc] at hr
    exact ⟨_, hr, by simp [Post]⟩

theorem hasLoop_finallyTry (ctx : Ctx) : hasLoop (.finallyTry :: ctx) = hasLoop ctx := rfl
theorem hasLoop_finallyEnd (ctx : Ctx) : hasLoop (.finallyEnd :: ctx) = hasLoop ctx := rfl
theorem hasLoop_except (ctx : Ctx) : hasLoop (.except :: ctx) = hasLoop ctx := rfl
theorem sim_while_head (P : Prims W) (code : Code) (f : Nat) (ihS : SimS P code f) (ihW : SimW P code f) :
    SimW P code (f+1) := by
  intro ln i b o w w' out hd h hcovb hcovo ctx pc cur st bs rv ex hex hce hc hinv
  have hce' := hce
  simp only [compErr] at hce'
  obtain ⟨hcb, hco⟩ := orElse_none hce'
  have hc' := hc
  simp only [compS, callProbe, List.cons_append, List.nil_append, List.append_assoc] at hc'
  have hcall := hc'.drop 1 (by simp)
  simp only [List.drop_succ_cons, List.drop_zero] at hcall
  obtain ⟨h1, h2, h3, hr⟩ := callProbe_at hcall
  have h4 := hr.nth 0 (by simp)
  have hrest := hr.drop 1 (by simp)
  simp only [List.drop_succ_cons, List.drop_zero, List.getElem_cons_zero] at hrest h4
  have hB := hrest.left
  have hR := hrest.right
  rw [compS_length] at hR
  have hja := hR.nth 0 (by simp)
  have hpb := hR.nth 1 (by simp)
  have hO := hR.drop 2 (by simp)
  simp only [List.drop_succ_cons, List.drop_zero, List.getElem_cons_zero, List.getElem_cons_succ] at hO hja hpb
  have hinv' : CtxInv (.loop (pc + 1) :: ctx) (⟨.loop, ((pc + 5 + len b + 1 + 1 + len o : Nat) : Int), st.length⟩ :: bs) := by
    intro s rest _; exact ⟨_, _, _, rfl⟩
  unfold execT at h
  simp only at h
  cases hev : P.ev w i with
  | mk w1 r =>
    rw [hev] at h
    cases r with
    | raise c =>
      simp only [Option.some.injEq, Prod.mk.injEq] at h
      obtain ⟨rfl, rfl⟩ := h
      refine ⟨?_, ?_, ?_⟩
      rotate_left
      · vstep h1
        vstep h2
        vstepx [hev] h3
        simp only [raiseAt]
        exact loop_passes (junk := []) (Or.inr rfl)
      · simp [Post]
    | val v =>
      simp only at h
      by_cases hv : v = 0
      · simp only [hv, ne_eq, not_true_eq_false, if_false] at h
        obtain ⟨vm2, hr2, hp2⟩ := ihS o w1 w' out hd h hcovo ctx (pc + 1 + 3 + 1 + len b + 2) (endLine ln b) st bs rv ex hex
          (by have e : pc + 1 + 3 + 1 + len b + 2 = pc + 5 + len b + 1 + 1 := by omega
              rw [e]; exact hco)
          (hO.cast (by omega)) hinv
        refine ⟨vm2, ?_, ?_⟩
        · vstep h1
          vstep h2
          vstepx [hev] h3
          vstepx [truthy, hv] h4
          have e : pc + 5 + len b + 1 = pc + 1 + 3 + 1 + len b + 1 := by omega
          rw [e]
          vstep hpb
          exact hr2
        · have e : pc + 1 + 3 + 1 + len b + 2 + len o = pc + len (.whileS ln i b o) := by simp [len]; omega
          rw [← e]; exact hp2
      · simp only [ne_eq, hv, not_false_eq_true, if_true] at h
        cases hb : execT P f (.run b) w1 hd with
        | none => rw [hb] at h; simp at h
        | some r =>
          obtain ⟨w2, o1⟩ := r
          rw [hb] at h
          obtain ⟨vm2, hr2, hp2⟩ := ihS b w1 w2 o1 hd hb hcovb (.loop (pc + 1) :: ctx) (pc + 1 + 3 + 1) ln st
            (⟨.loop, ((pc + 5 + len b + 1 + 1 + len o : Nat) : Int), st.length⟩ :: bs) rv ex hex hcb hB hinv'
          have hpre : Reach P code ⟨pc + 1, st, ⟨.loop, ((pc + 5 + len b + 1 + 1 + len o : Nat) : Int), st.length⟩ :: bs,
              .not, rv, {}, ex, w⟩ vm2 := by
            vstep h1
            vstep h2
            vstepx [hev] h3
            vstepx [truthy, hv] h4
            exact hr2
          cases o1 with
          | normal =>
            simp only at h
            obtain ⟨rv2, rfl⟩ := hp2.normal_eq
            obtain ⟨vm3, hr3, hp3⟩ := ihW ln i b o _ w' out hd h hcovb hcovo ctx pc cur st bs rv2 ex hex hce hc hinv
            refine ⟨vm3, hpre.trans ?_, hp3⟩
            vstep hja
            exact hr3
          | cont =>
            simp only at h
            obtain ⟨rv2, rfl⟩ := hp2.cont_loop_eq
            obtain ⟨vm3, hr3, hp3⟩ := ihW ln i b o _ w' out hd h hcovb hcovo ctx pc cur st bs rv2 ex hex hce hc hinv
            exact ⟨vm3, hpre.trans hr3, hp3⟩
          | brk =>
            simp only [Option.some.injEq, Prod.mk.injEq] at h
            obtain ⟨rfl, rfl⟩ := h
            obtain ⟨_, pc2, junk, rv2, rfl⟩ := hp2.brk_eq
            refine ⟨_, hpre.trans loop_breaks, ?_⟩
            simp [Post, len]; omega
          | ret v' =>
            simp only [Option.some.injEq, Prod.mk.injEq] at h
            obtain ⟨rfl, rfl⟩ := h
            obtain ⟨pc2, junk, rfl⟩ := hp2.ret_eq
            refine ⟨_, hpre.trans (loop_passes (Or.inl rfl)), ?_⟩
            simp [Post]
          | exc c l =>
            simp only [Option.some.injEq, Prod.mk.injEq] at h
            obtain ⟨rfl, rfl⟩ := h
            obtain ⟨pc2, junk, rv2, rfl⟩ := hp2.exc_eq
            refine ⟨_, hpre.trans (loop_passes (Or.inr rfl)), ?_⟩
            simp [Post]
theorem sim_for_head (P : Prims W) (code : Code) (f : Nat) (ihS : SimS P code f) (ihF : SimF P code f) :
    SimF P code (f+1) := by
  intro ln i hnd b o w w' out hd h hcovb hcovo ctx pc cur st bs rv ex hex hce hc hinv
  have hce' := hce
  simp only [compErr] at hce'
  obtain ⟨hcb, hco⟩ := orElse_none hce'
  have hc' := hc
  simp only [compS, callProbe, List.cons_append, List.nil_append, List.append_assoc] at hc'
  have h5 := hc'.nth 5 (by simp)
  have h6 := hc'.nth 6 (by simp)
  have hrest := hc'.drop 7 (by simp)
  simp only [List.drop_succ_cons, List.drop_zero, List.getElem_cons_zero, List.getElem_cons_succ] at hrest h5 h6
  have hB := hrest.left
  have hR := hrest.right
  rw [compS_length] at hR
  have hja := hR.nth 0 (by simp)
  have hpb := hR.nth 1 (by simp)
  have hO := hR.drop 2 (by simp)
  simp only [List.drop_succ_cons, List.drop_zero, List.getElem_cons_zero, List.getElem_cons_succ] at hO hja hpb
  have hinv' : CtxInv (.loop (pc + 5) :: ctx) (⟨.loop, ((pc + 7 + len b + 1 + 1 + len o : Nat) : Int), st.length⟩ :: bs) := by
    intro s rest _; exact ⟨_, _, _, rfl⟩
  unfold execT at h
  cases hn : P.itNext w hnd with
  | mk w1 r =>
    rw [hn] at h
    cases r with
    | none =>
      simp only at h
      obtain ⟨vm2, hr2, hp2⟩ := ihS o w1 w' out hd h hcovo ctx (pc + 7 + len b + 2) (endLine ln b) st bs rv ex hex
        (by have e : pc + 7 + len b + 2 = pc + 7 + len b + 1 + 1 := by omega
            rw [e]; exact hco)
        (hO.cast (by omega)) hinv
      refine ⟨vm2, ?_, ?_⟩
      · vstepx [hn] h5
        have e : pc + 7 + len b + 1 = pc + 7 + len b + 1 := rfl
        vstep hpb
        exact hr2
      · have e : pc + 7 + len b + 2 + len o = pc + len (.forS ln i b o) := by simp [len]; omega
        rw [← e]; exact hp2
    | some k =>
      simp only at h
      cases hb : execT P f (.run b) w1 hd with
      | none => rw [hb] at h; simp at h
      | some r =>
        obtain ⟨w2, o1⟩ := r
        rw [hb] at h
        obtain ⟨vm2, hr2, hp2⟩ := ihS b w1 w2 o1 hd hb hcovb (.loop (pc + 5) :: ctx) (pc + 7) ln (.iter hnd :: st)
          (⟨.loop, ((pc + 7 + len b + 1 + 1 + len o : Nat) : Int), st.length⟩ :: bs) rv ex hex hcb hB hinv'
        have hpre : Reach P code ⟨pc + 5, .iter hnd :: st, ⟨.loop, ((pc + 7 + len b + 1 + 1 + len o : Nat) : Int), st.length⟩ :: bs,
            .not, rv, {}, ex, w⟩ vm2 := by
          vstepx [hn] h5
          vstep h6
          exact hr2
        cases o1 with
        | normal =>
          simp only at h
          obtain ⟨rv2, rfl⟩ := hp2.normal_eq
          obtain ⟨vm3, hr3, hp3⟩ := ihF ln i hnd b o _ w' out hd h hcovb hcovo ctx pc cur st bs rv2 ex hex hce hc hinv
          refine ⟨vm3, hpre.trans ?_, hp3⟩
          vstep hja
          exact hr3
        | cont =>
          simp only at h
          obtain ⟨rv2, rfl⟩ := hp2.cont_loop_eq
          obtain ⟨vm3, hr3, hp3⟩ := ihF ln i hnd b o _ w' out hd h hcovb hcovo ctx pc cur st bs rv2 ex hex hce hc hinv
          exact ⟨vm3, hpre.trans hr3, hp3⟩
        | brk =>
          simp only [Option.some.injEq, Prod.mk.injEq] at h
          obtain ⟨rfl, rfl⟩ := h
          obtain ⟨_, pc2, junk, rv2, rfl⟩ := hp2.brk_eq
          refine ⟨⟨pc + 7 + len b + 1 + 1 + len o, st, bs, .not, rv2, {}, ex, w2⟩, hpre.trans ?_, ?_⟩
          · have e : junk ++ Val.iter hnd :: st = (junk ++ [Val.iter hnd]) ++ st := by simp
            rw [e]; exact loop_breaks
          · simp [Post, len]; omega
        | ret v' =>
          simp only [Option.some.injEq, Prod.mk.injEq] at h
          obtain ⟨rfl, rfl⟩ := h
          obtain ⟨pc2, junk, rfl⟩ := hp2.ret_eq
          refine ⟨⟨pc2, st, bs, .ret, .int v', {}, ex, w2⟩, hpre.trans ?_, ?_⟩
          · have e : junk ++ Val.iter hnd :: st = (junk ++ [Val.iter hnd]) ++ st := by simp
            rw [e]; exact loop_passes (Or.inl rfl)
          · simp [Post]
        | exc c l =>
          simp only [Option.some.injEq, Prod.mk.injEq] at h
          obtain ⟨rfl, rfl⟩ := h
          obtain ⟨pc2, junk, rv2, rfl⟩ := hp2.exc_eq
          refine ⟨⟨pc2, st, bs, .exception, rv2, ⟨some c, .excv c, some [l]⟩, ex, w2⟩, hpre.trans ?_, ?_⟩
          · have e : junk ++ Val.iter hnd :: st = (junk ++ [Val.iter hnd]) ++ st := by simp
            rw [e]; exact loop_passes (Or.inr rfl)
          · simp [Post]
theorem sim_while (P : Prims W) (code : Code) (f : Nat) (hW : SimW P code (f+1)) (ln i : Nat) (b o' : Stmt)
    (w w' : W) (o : Outcome) (hd : Handled) (h : execT P (f+1) (.run (.whileS ln i b o')) w hd = some (w', o)) (hcov : Cov (.whileS ln i b o') = true)
    (ctx : Ctx) (pc cur : Nat) (st : List Val) (bs : List Block) (rv : Val) (ex : ExcInfo) (hex : ex = hdInfo hd)
    (hce : compErr ctx pc (.whileS ln i b o') = none) (hc : CodeAt code pc (compS ctx pc cur (.whileS ln i b o'))) (hinv : CtxInv ctx bs) :
    ∃ vm', Reach P code ⟨pc, st, bs, .not, rv, {}, ex, w⟩ vm' ∧ Post ctx (pc + len (.whileS ln i b o')) st bs ex o w' vm' := by
  simp only [Cov, Bool.and_eq_true] at hcov
  obtain ⟨vm2, hr2, hp2⟩ := hW ln i b o' w w' o hd h hcov.1 hcov.2 ctx pc cur st bs rv ex hex hce hc hinv
  have hc' := hc
  simp only [compS, callProbe, List.cons_append, List.nil_append, List.append_assoc] at hc'
  have h0 := hc'.nth 0 (by simp)
  simp only [List.getElem_cons_zero] at h0
  refine ⟨vm2, ?_, hp2⟩
  vstepx [pushBlock] h0
  exact hr2

theorem sim_for (P : Prims W) (code : Code) (f : Nat) (ihF : SimF P code f) (ln i : Nat) (b o' : Stmt)
    (w w' : W) (o : Outcome) (hd : Handled) (h : execT P (f+1) (.run (.forS ln i b o')) w hd = some (w', o)) (hcov : Cov (.forS ln i b o') = true)
    (ctx : Ctx) (pc cur : Nat) (st : List Val) (bs : List Block) (rv : Val) (ex : ExcInfo) (hex : ex = hdInfo hd)
    (hce : compErr ctx pc (.forS ln i b o') = none) (hc : CodeAt code pc (compS ctx pc cur (.forS ln i b o'))) (hinv : CtxInv ctx bs) :
    ∃ vm', Reach P code ⟨pc, st, bs, .not, rv, {}, ex, w⟩ vm' ∧ Post ctx (pc + len (.forS ln i b o')) st bs ex o w' vm' := by
  simp only [Cov, Bool.and_eq_true] at hcov
  unfold execT at h
  simp only at h
  obtain ⟨vm2, hr2, hp2⟩ := ihF ln i (P.itNew w i).2 b o' (P.itNew w i).1 w' o hd h hcov.1 hcov.2 ctx pc cur st bs rv ex hex hce hc hinv
  have hc' := hc
  simp only [compS, callProbe, List.cons_append, List.nil_append, List.append_assoc] at hc'
  have h0 := hc'.nth 0 (by simp)
  have h1 := hc'.nth 1 (by simp)
  have h2 := hc'.nth 2 (by simp)
  have h3 := hc'.nth 3 (by simp)
  have h4 := hc'.nth 4 (by simp)
  simp only [List.getElem_cons_zero, List.getElem_cons_succ] at h0 h1 h2 h3 h4
  refine ⟨vm2, ?_, hp2⟩
  vstepx [pushBlock] h0
  vstep h1
  vstep h2
  vstepx [] h3
  vstep h4
  exact hr2

theorem Post.cont_pending_eq {ctx : Ctx} {x : Loop} (hx : x = .finallyTry ∨ x = .except)
    {e : Nat} {st : List Val} {bs : List Block} {ex : ExcInfo} {w' : W} {vm : VM W}
    (h : Post (x :: ctx) e st bs ex .cont w' vm) :
    ∃ pc s, findLoop (x :: ctx) = some s ∧ vm = ⟨pc, st, bs, .cont, .int s, {}, ex, w'⟩ := by
  obtain ⟨pc1, st1, bs1, why1, rv1, cur1, ex1, ww1⟩ := vm
  rcases hx with rfl | rfl
  all_goals
    simp only [Post, ContAt] at h
    obtain ⟨rfl, rfl, rfl, rfl, rfl, rfl, s, hs, rfl⟩ := h
    exact ⟨pc1, s, hs, rfl⟩

theorem sim_tryF (P : Prims W) (code : Code) (f : Nat) (ihS : SimS P code f) (ln : Nat) (b fi : Stmt)
    (w w' : W) (o : Outcome) (hd : Handled) (h : execT P (f+1) (.run (.tryF ln b fi)) w hd = some (w', o))
    (hcovb : Cov b = true) (hcovf : Cov fi = true)
    (ctx : Ctx) (pc cur : Nat) (st : List Val) (bs : List Block) (rv : Val) (ex : ExcInfo) (hex : ex = hdInfo hd)
    (hce : compErr ctx pc (.tryF ln b fi) = none) (hc : CodeAt code pc (compS ctx pc cur (.tryF ln b fi))) (hinv : CtxInv ctx bs) :
    ∃ vm', Reach P code ⟨pc, st, bs, .not, rv, {}, ex, w⟩ vm' ∧ Post ctx (pc + len (.tryF ln b fi)) st bs ex o w' vm' := by
  simp only [compErr] at hce
  obtain ⟨hcb, hcf⟩ := orElse_none hce
  simp only [compS, List.cons_append, List.nil_append, List.append_assoc] at hc
  have h0 := hc.nth 0 (by simp)
  have hrest := hc.drop 1 (by simp)
  simp only [List.drop_succ_cons, List.drop_zero, List.getElem_cons_zero] at hrest h0
  have hB := hrest.left
  have hR := hrest.right
  rw [compS_length] at hR
  have hpb := hR.nth 0 (by simp)
  have hlc := hR.nth 1 (by simp)
  have hF' := hR.drop 2 (by simp)
  simp only [List.drop_succ_cons, List.drop_zero, List.getElem_cons_zero, List.getElem_cons_succ] at hF' hpb hlc
  have hFi := hF'.left
  have hE := hF'.right
  rw [compS_length] at hE
  have hef := hE.nth 0 (by simp)
  simp only [List.getElem_cons_zero] at hef
  have hinvB : CtxInv (.finallyTry :: ctx) (⟨.finally, ((pc + 1 + len b + 2 : Nat) : Int), st.length⟩ :: bs) := by
    intro s rest hh; simp at hh
  have hinvF : ∀ bsF, CtxInv (.finallyEnd :: ctx) bsF := by
    intro bsF s rest hh; simp at hh
  have hlen : pc + 1 + len b + 2 + len fi + 1 = pc + len (.tryF ln b fi) := by simp [len]; omega
  unfold execT at h
  simp only at h
  cases hb : execT P f (.run b) w hd with
  | none => rw [hb] at h; simp at h
  | some r1 =>
    obtain ⟨w1, o1⟩ := r1
    rw [hb] at h
    simp only at h
    cases hfi : execT P f (.run fi) w1 (finHd hd o1) with
    | none => rw [hfi] at h; simp at h
    | some r2 =>
      obtain ⟨w2, o2⟩ := r2
      rw [hfi] at h
      obtain ⟨vm1, hr1, hp1⟩ := ihS b w w1 o1 hd hb hcovb (.finallyTry :: ctx) (pc + 1) ln st
        (⟨.finally, ((pc + 1 + len b + 2 : Nat) : Int), st.length⟩ :: bs) rv ex hex hcb hB hinvB
      have hpre : Reach P code ⟨pc, st, bs, .not, rv, {}, ex, w⟩ vm1 := by
        vstepx [pushBlock] h0
        exact hr1
      cases o1 with
      | exc c l =>
        -- the exception enters the finally body through an EXCEPT_HANDLER block
        obtain ⟨pc1, junk, rv1, rfl⟩ := hp1.exc_eq
        have hent := handler_entry (P := P) (code := code) (pc := pc1) (junk := junk) (st := st) (h := pc + 1 + len b + 2)
          (bs := bs) (k := .finally) (Or.inl rfl) (rv := rv1) (cur := ⟨some c, .excv c, some [l]⟩) (ex := ex) (w := w1)
        obtain ⟨vm2, hr2, hp2⟩ := ihS fi w1 w2 o2 (some (c, l)) hfi hcovf (.finallyEnd :: ctx) (pc + 1 + len b + 2) (endLine ln b)
          (typeVal (some c) :: Val.excv c :: .tb (some [l]) :: typeVal ex.type :: ex.value :: .tb ex.tb :: st)
          (⟨.handler, -1, st.length⟩ :: bs) rv1 ⟨some c, .excv c, some [l]⟩ rfl hcf hFi (hinvF _)
        have hpre2 := (hpre.trans hent).trans hr2
        cases o2 with
        | normal =>
          simp only [Option.some.injEq, Prod.mk.injEq] at h
          obtain ⟨rfl, rfl⟩ := h
          obtain ⟨rv2, rfl⟩ := hp2.normal_eq
          have hr3 := handler_passes (P := P) (code := code) (pc := pc + 1 + len b + 2 + len fi + 1) (junk := [])
            (st := st) (a := typeVal ex.type) (b := ex.value) (c := .tb ex.tb) (bs := bs) (why := .exception)
            (by simp) (rv := rv2) (cur := ⟨some c, .excv c, some [l]⟩) (ex := ⟨some c, .excv c, some [l]⟩) (w := w2)
          have hstep : Reach P code
              ⟨pc + 1 + len b + 2 + len fi,
               typeVal (some c) :: Val.excv c :: .tb (some [l]) :: typeVal ex.type :: ex.value :: .tb ex.tb :: st,
               ⟨.handler, -1, st.length⟩ :: bs, .not, rv2, {}, ⟨some c, .excv c, some [l]⟩, w2⟩
              ⟨pc + 1 + len b + 2 + len fi + 1, [] ++ typeVal ex.type :: ex.value :: .tb ex.tb :: st,
               ⟨.handler, -1, st.length⟩ :: bs, .exception, rv2, ⟨some c, .excv c, some [l]⟩, ⟨some c, .excv c, some [l]⟩, w2⟩ := by
            vstepx [typeVal, Val.asTb] hef
            exact Reach.refl _
          exact ⟨_, (hpre2.trans hstep).trans hr3, by simp [Post]⟩
        | cont => exact absurd hp2 (fun hh => hh.no_cont_in_finally)
        | brk =>
          simp only [Option.some.injEq, Prod.mk.injEq] at h
          obtain ⟨rfl, rfl⟩ := h
          obtain ⟨vm3, hr3, hp3⟩ := abrupt_through_handler (P := P) (code := code) (ctx2 := ctx)
            (e2 := pc + len (.tryF ln b fi)) (X := [typeVal (some c), Val.excv c, .tb (some [l])])
            (hasLoop_finallyEnd ctx) (by simp [Abrupt]) hp2
          exact ⟨vm3, hpre2.trans hr3, hp3.saved⟩
        | ret v =>
          simp only [Option.some.injEq, Prod.mk.injEq] at h
          obtain ⟨rfl, rfl⟩ := h
          obtain ⟨vm3, hr3, hp3⟩ := abrupt_through_handler (P := P) (code := code) (ctx2 := ctx)
            (e2 := pc + len (.tryF ln b fi)) (X := [typeVal (some c), Val.excv c, .tb (some [l])])
            (hasLoop_finallyEnd ctx) (by simp [Abrupt]) hp2
          exact ⟨vm3, hpre2.trans hr3, hp3.saved⟩
        | exc c2 l2 =>
          simp only [Option.some.injEq, Prod.mk.injEq] at h
          obtain ⟨rfl, rfl⟩ := h
          obtain ⟨vm3, hr3, hp3⟩ := abrupt_through_handler (P := P) (code := code) (ctx2 := ctx)
            (e2 := pc + len (.tryF ln b fi)) (X := [typeVal (some c), Val.excv c, .tb (some [l])])
            (hasLoop_finallyEnd ctx) (by simp [Abrupt]) hp2
          exact ⟨vm3, hpre2.trans hr3, hp3.saved⟩
      | normal =>
        obtain ⟨rv1, rfl⟩ := hp1.normal_eq
        obtain ⟨vm2, hr2, hp2⟩ := ihS fi w1 w2 o2 hd hfi hcovf (.finallyEnd :: ctx) (pc + 1 + len b + 2) (endLine ln b)
          ([Val.none] ++ st) bs rv1 ex hex hcf hFi (hinvF _)
        have hpre2 : Reach P code ⟨pc, st, bs, .not, rv, {}, ex, w⟩ vm2 := by
          refine hpre.trans ?_
          vstep hpb
          vstep hlc
          exact hr2
        cases o2 with
        | normal =>
          simp only [Option.some.injEq, Prod.mk.injEq] at h
          obtain ⟨rfl, rfl⟩ := h
          obtain ⟨rv2, rfl⟩ := hp2.normal_eq
          have hstep : Reach P code ⟨pc + 1 + len b + 2 + len fi, [Val.none] ++ st, bs, .not, rv2, {}, ex, w2⟩
              ⟨pc + 1 + len b + 2 + len fi + 1, st, bs, .not, rv2, {}, ex, w2⟩ := by
            vstepx [] hef
            exact Reach.refl _
          exact ⟨_, hpre2.trans hstep, by simp [Post, hlen]⟩
        | cont => exact absurd hp2 (fun hh => hh.no_cont_in_finally)
        | brk | ret _ | exc _ _ =>
          simp only [Option.some.injEq, Prod.mk.injEq] at h
          obtain ⟨rfl, rfl⟩ := h
          exact ⟨vm2, hpre2, hp2.weaken (hasLoop_finallyEnd ctx) (by simp [Abrupt])⟩
      | brk =>
        obtain ⟨hlp, pc1, junk, rv1, rfl⟩ := hp1.brk_eq
        have hent : Reach P code
            ⟨pc1, junk ++ st, ⟨.finally, ((pc + 1 + len b + 2 : Nat) : Int), st.length⟩ :: bs, .brk, rv1, {}, ex, w1⟩
            ⟨pc + 1 + len b + 2, [Val.int 3] ++ st, bs, .not, rv1, {}, ex, w1⟩ := by
          simpa [Why.code] using finally_takes (P := P) (code := code) (pc := pc1) (junk := junk) (st := st)
            (h := pc + 1 + len b + 2) (bs := bs) (why := .brk) (rv := rv1) (cur := {}) (ex := ex) (w := w1) (Or.inl rfl)
        obtain ⟨vm2, hr2, hp2⟩ := ihS fi w1 w2 o2 hd hfi hcovf (.finallyEnd :: ctx) (pc + 1 + len b + 2) (endLine ln b)
          ([Val.int 3] ++ st) bs rv1 ex hex hcf hFi (hinvF _)
        have hpre2 := (hpre.trans hent).trans hr2
        cases o2 with
        | normal =>
          simp only [Option.some.injEq, Prod.mk.injEq] at h
          obtain ⟨rfl, rfl⟩ := h
          obtain ⟨rv2, rfl⟩ := hp2.normal_eq
          have hstep : Reach P code ⟨pc + 1 + len b + 2 + len fi, [Val.int 3] ++ st, bs, .not, rv2, {}, ex, w2⟩
              ⟨pc + 1 + len b + 2 + len fi + 1, st, bs, .brk, rv2, {}, ex, w2⟩ := by
            vstepx [Why.ofCode] hef
            exact Reach.refl _
          exact ⟨_, hpre2.trans hstep, by simpa [Post] using (hasLoop_finallyTry ctx ▸ hlp)⟩
        | cont => exact absurd hp2 (fun hh => hh.no_cont_in_finally)
        | brk | ret _ | exc _ _ =>
          simp only [Option.some.injEq, Prod.mk.injEq] at h
          obtain ⟨rfl, rfl⟩ := h
          exact ⟨vm2, hpre2, hp2.weaken (hasLoop_finallyEnd ctx) (by simp [Abrupt])⟩
      | ret v =>
        obtain ⟨pc1, junk, rfl⟩ := hp1.ret_eq
        have hent : Reach P code
            ⟨pc1, junk ++ st, ⟨.finally, ((pc + 1 + len b + 2 : Nat) : Int), st.length⟩ :: bs, .ret, .int v, {}, ex, w1⟩
            ⟨pc + 1 + len b + 2, [Val.int 2, Val.int v] ++ st, bs, .not, .int v, {}, ex, w1⟩ := by
          simpa [Why.code] using finally_takes (P := P) (code := code) (pc := pc1) (junk := junk) (st := st)
            (h := pc + 1 + len b + 2) (bs := bs) (why := .ret) (rv := .int v) (cur := {}) (ex := ex) (w := w1) (Or.inr (Or.inl rfl))
        obtain ⟨vm2, hr2, hp2⟩ := ihS fi w1 w2 o2 hd hfi hcovf (.finallyEnd :: ctx) (pc + 1 + len b + 2) (endLine ln b)
          ([Val.int 2, Val.int v] ++ st) bs (.int v) ex hex hcf hFi (hinvF _)
        have hpre2 := (hpre.trans hent).trans hr2
        cases o2 with
        | normal =>
          simp only [Option.some.injEq, Prod.mk.injEq] at h
          obtain ⟨rfl, rfl⟩ := h
          obtain ⟨rv2, rfl⟩ := hp2.normal_eq
          have hstep : Reach P code ⟨pc + 1 + len b + 2 + len fi, [Val.int 2, Val.int v] ++ st, bs, .not, rv2, {}, ex, w2⟩
              ⟨pc + 1 + len b + 2 + len fi + 1, st, bs, .ret, .int v, {}, ex, w2⟩ := by
            vstepx [Why.ofCode] hef
            exact Reach.refl _
          exact ⟨_, hpre2.trans hstep, by simp [Post]⟩
        | cont => exact absurd hp2 (fun hh => hh.no_cont_in_finally)
        | brk | ret _ | exc _ _ =>
          simp only [Option.some.injEq, Prod.mk.injEq] at h
          obtain ⟨rfl, rfl⟩ := h
          exact ⟨vm2, hpre2, hp2.weaken (hasLoop_finallyEnd ctx) (by simp [Abrupt])⟩
      | cont =>
        obtain ⟨pc1, s, hfl, rfl⟩ := hp1.cont_pending_eq (Or.inl rfl)
        have hent : Reach P code
            ⟨pc1, [] ++ st, ⟨.finally, ((pc + 1 + len b + 2 : Nat) : Int), st.length⟩ :: bs, .cont, .int s, {}, ex, w1⟩
            ⟨pc + 1 + len b + 2, [Val.int 4, Val.int s] ++ st, bs, .not, .int s, {}, ex, w1⟩ := by
          simpa [Why.code] using finally_takes (P := P) (code := code) (pc := pc1) (junk := []) (st := st)
            (h := pc + 1 + len b + 2) (bs := bs) (why := .cont) (rv := .int s) (cur := {}) (ex := ex) (w := w1) (Or.inr (Or.inr rfl))
        obtain ⟨vm2, hr2, hp2⟩ := ihS fi w1 w2 o2 hd hfi hcovf (.finallyEnd :: ctx) (pc + 1 + len b + 2) (endLine ln b)
          ([Val.int 4, Val.int s] ++ st) bs (.int s) ex hex hcf hFi (hinvF _)
        have hpre2 := (hpre.trans hent).trans hr2
        cases o2 with
        | normal =>
          simp only [Option.some.injEq, Prod.mk.injEq] at h
          obtain ⟨rfl, rfl⟩ := h
          obtain ⟨rv2, rfl⟩ := hp2.normal_eq
          have hstep : Reach P code ⟨pc + 1 + len b + 2 + len fi, [Val.int 4, Val.int s] ++ st, bs, .not, rv2, {}, ex, w2⟩
              ⟨pc + 1 + len b + 2 + len fi + 1, st, bs, .cont, .int s, {}, ex, w2⟩ := by
            vstepx [Why.ofCode] hef
            exact Reach.refl _
          obtain ⟨vm3, hr3, hp3⟩ := cont_settle (P := P) (code := code) (ctx := ctx) (x := .finallyTry) (Or.inl rfl)
            (pc := pc + 1 + len b + 2 + len fi + 1) (s := s) (e := pc + len (.tryF ln b fi)) (st := st) (bs := bs)
            (ex := ex) (w := w2) hfl hinv
          exact ⟨vm3, (hpre2.trans hstep).trans hr3, hp3⟩
        | cont => exact absurd hp2 (fun hh => hh.no_cont_in_finally)
        | brk | ret _ | exc _ _ =>
          simp only [Option.some.injEq, Prod.mk.injEq] at h
          obtain ⟨rfl, rfl⟩ := h
          exact ⟨vm2, hpre2, hp2.weaken (hasLoop_finallyEnd ctx) (by simp [Abrupt])⟩
theorem truthy_eq_pyTruth (v : Val) : truthy v = pyTruth v := by
  cases v <;> simp [truthy, pyTruth, bne]

theorem typeVal_some (c : Cls) : typeVal (some c) = .cls c := rfl



theorem sim_with (P : Prims W) (code : Code) (f : Nat) (ihS : SimS P code f) (ln i : Nat) (b : Stmt)
    (w w' : W) (o : Outcome) (hd : Handled) (h : execT P (f+1) (.run (.withS ln i b)) w hd = some (w', o))
    (hcovb : Cov b = true)
    (ctx : Ctx) (pc cur : Nat) (st : List Val) (bs : List Block) (rv : Val) (ex : ExcInfo) (hex : ex = hdInfo hd)
    (hce : compErr ctx pc (.withS ln i b) = none) (hc : CodeAt code pc (compS ctx pc cur (.withS ln i b))) (hinv : CtxInv ctx bs) :
    ∃ vm', Reach P code ⟨pc, st, bs, .not, rv, {}, ex, w⟩ vm' ∧ Post ctx (pc + len (.withS ln i b)) st bs ex o w' vm' := by
  simp only [compErr] at hce
  simp only [compS, callProbe, List.cons_append, List.nil_append] at hc
  obtain ⟨h0, h1, h2, hr⟩ := callProbe_at hc
  have h3 := hr.nth 0 (by simp)
  have h4 := hr.nth 1 (by simp)
  have hrest := hr.drop 2 (by simp)
  simp only [List.drop_succ_cons, List.drop_zero, List.getElem_cons_zero, List.getElem_cons_succ] at hrest h3 h4
  have hB := hrest.left
  have hR := hrest.right
  rw [compS_length] at hR
  have hpb := hR.nth 0 (by simp)
  have hlc := hR.nth 1 (by simp)
  have hwc := hR.nth 2 (by simp)
  have hef := hR.nth 3 (by simp)
  simp only [List.getElem_cons_zero, List.getElem_cons_succ] at hpb hlc hwc hef
  have hinvB : CtxInv (.finallyTry :: ctx) (⟨.finally, ((pc + 5 + len b + 2 : Nat) : Int), (Val.exitm i :: st).length⟩ :: bs) := by
    intro s rest hh; simp at hh
  have hlen : pc + 3 + 2 + len b + 3 + 1 = pc + len (.withS ln i b) := by simp [len]; omega
  unfold execT at h
  simp only at h
  cases hb : execT P f (.run b) (P.cmEnter w i) hd with
  | none => rw [hb] at h; simp at h
  | some r1 =>
    obtain ⟨w1, o1⟩ := r1
    rw [hb] at h
    obtain ⟨vm1, hr1, hp1⟩ := ihS b (P.cmEnter w i) w1 o1 hd hb hcovb (.finallyTry :: ctx) (pc + 3 + 2) ln (Val.exitm i :: st)
      (⟨.finally, ((pc + 5 + len b + 2 : Nat) : Int), (Val.exitm i :: st).length⟩ :: bs) rv ex hex hce hB hinvB
    have hpre : Reach P code ⟨pc, st, bs, .not, rv, {}, ex, w⟩ vm1 := by
      vstep h0
      vstep h1
      vstepx [] h2
      vstepx [pushBlock] h3
      vstep h4
      exact hr1
    cases o1 with
    | normal =>
      simp only [Option.some.injEq, Prod.mk.injEq] at h
      obtain ⟨rfl, rfl⟩ := h
      obtain ⟨rv1, rfl⟩ := hp1.normal_eq
      refine ⟨⟨pc + 3 + 2 + len b + 3 + 1, st, bs, .not, rv1, {}, ex, (P.cmExit w1 i none).1⟩, hpre.trans ?_, by simp [Post, hlen]⟩
      vstep hpb
      vstep hlc
      vstepx [] hwc
      vstepx [] hef
      exact Reach.refl _
    | brk =>
      simp only [Option.some.injEq, Prod.mk.injEq] at h
      obtain ⟨rfl, rfl⟩ := h
      obtain ⟨hlp, pc1, junk, rv1, rfl⟩ := hp1.brk_eq
      have hent : Reach P code
          ⟨pc1, junk ++ Val.exitm i :: st, ⟨.finally, ((pc + 5 + len b + 2 : Nat) : Int), (Val.exitm i :: st).length⟩ :: bs, .brk, rv1, {}, ex, w1⟩
          ⟨pc + 5 + len b + 2, Val.int 3 :: Val.exitm i :: st, bs, .not, rv1, {}, ex, w1⟩ := by
        simpa [Why.code] using finally_takes (P := P) (code := code) (pc := pc1) (junk := junk) (st := Val.exitm i :: st)
          (h := pc + 5 + len b + 2) (bs := bs) (why := .brk) (rv := rv1) (cur := {}) (ex := ex) (w := w1) (Or.inl rfl)
      refine ⟨⟨pc + 5 + len b + 2 + 1 + 1, st, bs, .brk, rv1, {}, ex, (P.cmExit w1 i none).1⟩, (hpre.trans hent).trans ?_,
        by simpa [Post] using (hasLoop_finallyTry ctx ▸ hlp)⟩
      vstepx [Why.code] hwc
      vstepx [Why.ofCode] hef
      exact Reach.refl _
    | ret v =>
      simp only [Option.some.injEq, Prod.mk.injEq] at h
      obtain ⟨rfl, rfl⟩ := h
      obtain ⟨pc1, junk, rfl⟩ := hp1.ret_eq
      have hent : Reach P code
          ⟨pc1, junk ++ Val.exitm i :: st, ⟨.finally, ((pc + 5 + len b + 2 : Nat) : Int), (Val.exitm i :: st).length⟩ :: bs, .ret, .int v, {}, ex, w1⟩
          ⟨pc + 5 + len b + 2, Val.int 2 :: Val.int v :: Val.exitm i :: st, bs, .not, .int v, {}, ex, w1⟩ := by
        simpa [Why.code] using finally_takes (P := P) (code := code) (pc := pc1) (junk := junk) (st := Val.exitm i :: st)
          (h := pc + 5 + len b + 2) (bs := bs) (why := .ret) (rv := .int v) (cur := {}) (ex := ex) (w := w1) (Or.inr (Or.inl rfl))
      refine ⟨⟨pc + 5 + len b + 2 + 1 + 1, st, bs, .ret, .int v, {}, ex, (P.cmExit w1 i none).1⟩, (hpre.trans hent).trans ?_,
        by simp [Post]⟩
      vstepx [Why.code] hwc
      vstepx [Why.ofCode] hef
      exact Reach.refl _
    | cont =>
      simp only [Option.some.injEq, Prod.mk.injEq] at h
      obtain ⟨rfl, rfl⟩ := h
      obtain ⟨pc1, s, hfl, rfl⟩ := hp1.cont_pending_eq (Or.inl rfl)
      have hent : Reach P code
          ⟨pc1, [] ++ Val.exitm i :: st, ⟨.finally, ((pc + 5 + len b + 2 : Nat) : Int), (Val.exitm i :: st).length⟩ :: bs, .cont, .int s, {}, ex, w1⟩
          ⟨pc + 5 + len b + 2, Val.int 4 :: Val.int s :: Val.exitm i :: st, bs, .not, .int s, {}, ex, w1⟩ := by
        simpa [Why.code] using finally_takes (P := P) (code := code) (pc := pc1) (junk := []) (st := Val.exitm i :: st)
          (h := pc + 5 + len b + 2) (bs := bs) (why := .cont) (rv := .int s) (cur := {}) (ex := ex) (w := w1) (Or.inr (Or.inr rfl))
      have hstep : Reach P code ⟨pc + 5 + len b + 2, Val.int 4 :: Val.int s :: Val.exitm i :: st, bs, .not, .int s, {}, ex, w1⟩
          ⟨pc + 5 + len b + 2 + 1 + 1, st, bs, .cont, .int s, {}, ex, (P.cmExit w1 i none).1⟩ := by
        vstepx [Why.code] hwc
        vstepx [Why.ofCode] hef
        exact Reach.refl _
      obtain ⟨vm3, hr3, hp3⟩ := cont_settle (P := P) (code := code) (ctx := ctx) (x := .finallyTry) (Or.inl rfl)
        (pc := pc + 5 + len b + 2 + 1 + 1) (s := s) (e := pc + len (.withS ln i b)) (st := st) (bs := bs)
        (ex := ex) (w := (P.cmExit w1 i none).1) hfl hinv
      exact ⟨vm3, ((hpre.trans hent).trans hstep).trans hr3, hp3⟩
    | exc c l =>
      simp only at h
      obtain ⟨pc1, junk, rv1, rfl⟩ := hp1.exc_eq
      have hent := handler_entry (P := P) (code := code) (pc := pc1) (junk := junk) (st := Val.exitm i :: st) (h := pc + 5 + len b + 2)
        (bs := bs) (k := .finally) (Or.inl rfl) (rv := rv1) (cur := ⟨some c, .excv c, some [l]⟩) (ex := ex) (w := w1)
      have hpre2 := hpre.trans hent
      by_cases ht : pyTruth (P.cmExit w1 i (some c)).2 = true
      · rw [if_pos ht] at h
        simp only [Option.some.injEq, Prod.mk.injEq] at h
        obtain ⟨rfl, rfl⟩ := h
        have he3 := unwindExceptHandler_junk [Val.cls c, Val.excv c, Val.tb (some [l]), Val.nil]
          (typeVal ex.type) ex.value (Val.tb ex.tb) st
        simp only [List.cons_append, List.nil_append, savedOf_typeVal] at he3
        refine ⟨⟨pc + 5 + len b + 2 + 1 + 1, st, bs, .not, rv1, {}, ex, (P.cmExit w1 i (some c)).1⟩, hpre2.trans ?_,
          by simp [Post]; omega⟩
        vstepx [typeVal_some, truthy_eq_pyTruth, ht] hwc
        vstepx [Why.code, Why.ofCode, he3] hef
        exact Reach.refl _
      · rw [if_neg ht] at h
        simp only [Option.some.injEq, Prod.mk.injEq] at h
        obtain ⟨rfl, rfl⟩ := h
        have hr3 := handler_passes (P := P) (code := code) (pc := pc + 5 + len b + 2 + 1 + 1) (junk := [Val.nil])
          (st := st) (a := typeVal ex.type) (b := ex.value) (c := .tb ex.tb) (bs := bs) (why := .exception)
          (by simp) (rv := rv1) (cur := ⟨some c, .excv c, some [l]⟩) (ex := ⟨some c, .excv c, some [l]⟩) (w := (P.cmExit w1 i (some c)).1)
        refine ⟨_, (hpre2.trans ?_).trans hr3, by simp [Post]⟩
        vstepx [typeVal_some, truthy_eq_pyTruth, ht] hwc
        vstepx [Val.asTb] hef
        exact Reach.refl _
theorem popN_all (l : List Val) (rest : List Val) : popN l.length (l ++ rest) = some (l.reverse, rest) := by
  induction l with
  | nil => simp [popN]
  | cons v l ih => simp [popN, ih]

theorem popN_cls (cs : List Cls) (rest : List Val) :
    popN cs.length ((cs.reverse.map Val.cls) ++ rest) = some (cs.map Val.cls, rest) := by
  have := popN_all (cs.reverse.map Val.cls) rest
  simpa using this

theorem allCls_map (cs : List Cls) : allCls (cs.map Val.cls) = some cs := by
  induction cs with
  | nil => rfl
  | cons c cs ih => simp [allCls, ih]

/-- pushing the classes of a tuple display one by one -/
theorem loadClasses {P : Prims W} {code : Code} (cs : List Cls) : ∀ (pc ln : Nat) (st : List Val) (bs : List Block)
    (rv : Val) (ex : ExcInfo) (w : W),
    CodeAt code pc (cs.map fun c => (Instr.loadGlobal (.cls c), ln)) →
    Reach P code ⟨pc, st, bs, .not, rv, {}, ex, w⟩ ⟨pc + cs.length, (cs.reverse.map Val.cls) ++ st, bs, .not, rv, {}, ex, w⟩ := by
  induction cs with
  | nil => intro pc ln st bs rv ex w _; exact Reach.refl _
  | cons c cs ih =>
    intro pc ln st bs rv ex w hc
    have h0 := hc.nth 0 (by simp)
    have hr := hc.drop 1 (by simp)
    simp only [List.map_cons, List.drop_succ_cons, List.drop_zero, List.getElem_cons_zero] at h0 hr
    vstep h0
    have := ih (pc + 1) ln (Val.cls c :: st) bs rv ex w hr
    have e1 : pc + 1 + cs.length = pc + (c :: cs).length := by simp; omega
    have e2 : (cs.reverse.map Val.cls) ++ Val.cls c :: st = ((c :: cs).reverse.map Val.cls) ++ st := by simp
    rw [e1, e2] at this
    exact this

/-- the test part of an `except` clause: DUP_TOP, the class expression, EXC_MATCH, POP_JUMP_IF_FALSE, (POP_TOP) -/
theorem handler_test {P : Prims W} {code : Code} (m : Matcher) (hp cur : Nat) (rest : Code) (next : Nat)
    (hc : CodeAt code hp ([(Instr.dupTop, cur)] ++ classesExpr m ++ [(Instr.compareExcMatch, m.ln), (Instr.popJumpIfFalse next, m.ln)] ++
                           [(Instr.popTop, m.ln)] ++ rest))
    (c : Cls) (v2 : Val) (S : List Val) (bs : List Block) (rv : Val) (ex : ExcInfo) (w : W) :
    Reach P code ⟨hp, Val.cls c :: v2 :: S, bs, .not, rv, {}, ex, w⟩
      (if catches m.classes c then
         ⟨hp + (1 + (classesExpr m).length + 2) + 1, v2 :: S, bs, .not, rv, {}, ex, w⟩
       else ⟨next, Val.cls c :: v2 :: S, bs, .not, rv, {}, ex, w⟩) := by
  simp only [List.append_assoc, List.cons_append, List.nil_append] at hc
  have h0 := hc.nth 0 (by simp)
  have hr := hc.drop 1 (by simp)
  simp only [List.drop_succ_cons, List.drop_zero, List.getElem_cons_zero] at h0 hr
  have hE := hr.left
  have hR := hr.right
  have hcmp := hR.nth 0 (by simp)
  have hpj := hR.nth 1 (by simp)
  have hpt := hR.nth 2 (by simp)
  simp only [List.getElem_cons_zero, List.getElem_cons_succ] at hcmp hpj hpt
  -- state after the class expression
  have hexpr : ∃ top, Reach P code ⟨hp + 1, Val.cls c :: Val.cls c :: v2 :: S, bs, .not, rv, {}, ex, w⟩
      ⟨hp + 1 + (classesExpr m).length, top :: Val.cls c :: Val.cls c :: v2 :: S, bs, .not, rv, {}, ex, w⟩ ∧
      ∃ sp, excSpecOf top = some sp ∧ givenMatches builtinHier c sp = catches m.classes c := by
    unfold classesExpr at hE ⊢
    match hm : m.classes with
    | [d] =>
      simp only [hm] at hE ⊢
      have hl := hE.nth 0 (by simp)
      simp only [List.getElem_cons_zero] at hl
      refine ⟨Val.cls d, ?_, .one d, rfl, ?_⟩
      · vstep hl
        exact Reach.refl _
      · have := givenMatches_catches c [d]
        simpa [givenMatches, givenMatchesL] using this
    | [] =>
      simp only [hm] at hE ⊢
      have hl := hE.nth 0 (by simp)
      simp only [List.map_nil, List.nil_append, List.getElem_cons_zero, List.length_nil] at hl
      refine ⟨Val.clsTuple [], ?_, .tuple [], rfl, ?_⟩
      · vstepx [popN, allCls] hl
        exact Reach.refl _
      · simp [givenMatches, givenMatchesL, catches]
    | d1 :: d2 :: ds =>
      simp only [hm] at hE ⊢
      have hL := hE.left
      have hB := hE.right
      have hbt := hB.nth 0 (by simp)
      simp only [List.getElem_cons_zero, List.length_map] at hbt
      refine ⟨Val.clsTuple (d1 :: d2 :: ds), ?_, .tuple (d1 :: d2 :: ds), rfl, ?_⟩
      · refine (loadClasses (P := P) (d1 :: d2 :: ds) (hp + 1) m.ln _ bs rv ex w hL).trans ?_
        have hpop := popN_cls (d1 :: d2 :: ds) (Val.cls c :: Val.cls c :: v2 :: S)
        have hall := allCls_map (d1 :: d2 :: ds)
        refine Reach.instr (vm1 := ⟨hp + 1 + (d1 :: d2 :: ds).length + 1, Val.clsTuple (d1 :: d2 :: ds) :: Val.cls c :: Val.cls c :: v2 :: S, bs, .not, rv, {}, ex, w⟩)
          rfl hbt ?_ ?_
        · simp only [exec, hpop, hall]
        · have e : hp + 1 + (d1 :: d2 :: ds).length + 1 = hp + 1 + (List.map (fun c => (Instr.loadGlobal (Glob.cls c), m.ln)) (d1 :: d2 :: ds) ++
              [(Instr.buildTuple (d1 :: d2 :: ds).length, m.ln)]).length := by simp; omega
          rw [e]; exact Reach.refl _
      · exact givenMatches_catches c (d1 :: d2 :: ds)
  obtain ⟨top, hre, sp, hsp, hgm⟩ := hexpr
  have hpre : Reach P code ⟨hp, Val.cls c :: v2 :: S, bs, .not, rv, {}, ex, w⟩
      ⟨hp + 1 + (classesExpr m).length, top :: Val.cls c :: Val.cls c :: v2 :: S, bs, .not, rv, {}, ex, w⟩ := by
    vstep h0
    exact hre
  refine hpre.trans ?_
  by_cases hcat : catches m.classes c = true
  · rw [if_pos hcat]
    vstepx [hsp, hgm, hcat] hcmp
    vstepx [truthy] hpj
    vstep hpt
    have e : hp + 1 + (classesExpr m).length + 1 + 1 + 1 = hp + (1 + (classesExpr m).length + 2) + 1 := by omega
    rw [e]; exact Reach.refl _
  · rw [if_neg hcat]
    have hcf : catches m.classes c = false := by simpa using hcat
    vstepx [hsp, hgm, hcf] hcmp
    vstepx [truthy] hpj
    exact Reach.refl _
/-- a pending `break`/`return`/`continue` passes a try/except block: block popped, stack restored -/
theorem except_passes {P : Prims W} {code : Code} {pc : Nat} {junk st : List Val} {h : Int} {bs : List Block}
    {why : Why} {rv : Val} {cur ex : ExcInfo} {w : W} (hw : why = .ret ∨ why = .brk ∨ why = .cont) :
    Reach P code ⟨pc, junk ++ st, ⟨.except, h, st.length⟩ :: bs, why, rv, cur, ex, w⟩
                 ⟨pc, st, bs, why, rv, cur, ex, w⟩ := by
  refine Reach.again (b := ⟨.except, h, st.length⟩) (bs := bs) ?_ rfl ?_ (Reach.refl _)
  · rcases hw with rfl | rfl | rfl <;> simp
  · rcases hw with rfl | rfl | rfl <;> simp [unwind1, unwindBlock_junk]

/-- an outcome established relative to the loop stack `x :: ctx` (x a try/with entry) is established
relative to `ctx`, after settling a pending `continue` if `ctx` is directly a loop body -/
theorem Post.lift {P : Prims W} {code : Code} {ctx : Ctx} {x : Loop} (hx : x = .finallyTry ∨ x = .except)
    {e : Nat} {st : List Val} {bs : List Block} {ex : ExcInfo} {o : Outcome} {w' : W} {vm : VM W}
    (hinv : CtxInv ctx bs) (h : Post (x :: ctx) e st bs ex o w' vm) :
    ∃ vm', Reach P code vm vm' ∧ Post ctx e st bs ex o w' vm' := by
  have hl : hasLoop (x :: ctx) = hasLoop ctx := by rcases hx with rfl | rfl <;> rfl
  cases o with
  | normal => exact ⟨vm, Reach.refl _, h⟩
  | brk =>
    refine ⟨vm, Reach.refl _, ?_⟩
    simp only [Post] at h ⊢
    rw [hl] at h; exact h
  | ret v => exact ⟨vm, Reach.refl _, h⟩
  | exc c l => exact ⟨vm, Reach.refl _, h⟩
  | cont =>
    obtain ⟨pc1, s, hfl, rfl⟩ := h.cont_pending_eq hx
    exact cont_settle hx hfl hinv
theorem Reach.start_pc {P : Prims W} {code : Code} {pc pc' : Nat} (e : pc = pc') {st : List Val} {bs : List Block} {why : Why}
    {rv : Val} {cur ex : ExcInfo} {w : W} {b : VM W}
    (h : Reach P code ⟨pc', st, bs, why, rv, cur, ex, w⟩ b) : Reach P code ⟨pc, st, bs, why, rv, cur, ex, w⟩ b := e ▸ h

theorem handlerBodyOff_eq (m : Matcher) :
    handlerBodyOff m = (1 + (classesExpr m).length + 2) + 1 + (if m.named then 3 else 2) := by
  unfold handlerBodyOff; rw [classesExpr_length]

/-- the body part of an `except` clause whose test succeeded (the exception type has been popped) -/
theorem sim_handler (P : Prims W) (code : Code) (f : Nat) (ihS : SimS P code f) (m : Matcher) (hb : Stmt)
    (ctx : Ctx) (hp cur bl endL : Nat) (hcov : Cov hb = true)
    (hc : CodeAt code hp (compHandler m hp cur (compS (.except :: ctx) (hp + handlerBodyOff m) m.ln hb) bl endL))
    (hce : compErr (.except :: ctx) (hp + handlerBodyOff m) hb = none)
    (st : List Val) (bs : List Block) (hinv : CtxInv ctx bs)
    (w1 w' : W) (o : Outcome) (hd : Handled) (hx : execT P f (.run hb) w1 hd = some (w', o))
    (v2 v3 o1 o2 o3 : Val) (rv : Val) (ex : ExcInfo) (hex : ex = hdInfo hd) :
    ∃ vm', Reach P code ⟨hp + (1 + (classesExpr m).length + 2) + 1, v2 :: v3 :: o1 :: o2 :: o3 :: st,
                          ⟨.handler, -1, st.length⟩ :: bs, .not, rv, {}, ex, w1⟩ vm' ∧
           Post ctx endL st bs (savedOf o1 o2 o3) o w' vm' := by
  have hoff := handlerBodyOff_eq m
  unfold compHandler at hc
  have hT : ([(Instr.dupTop, cur)] ++ classesExpr m ++ [(Instr.compareExcMatch, m.ln), (Instr.popJumpIfFalse (hp + handlerLen m (compS (.except :: ctx) (hp + handlerBodyOff m) m.ln hb).length), m.ln)] ++
      [(Instr.popTop, m.ln)]).length = (1 + (classesExpr m).length + 2) + 1 := by simp; omega
  have hinvX : ∀ bsX, CtxInv (.except :: ctx) bsX := by intro bsX s rest hh; simp at hh
  by_cases hn : m.named = true
  · -- `except C as e:` : the body runs inside an inner try/finally that unbinds e
    simp only [hn, if_true] at hc hoff
    have hI := hc.left.right
    have hJ := hc.right
    rw [hT] at hI
    simp only [List.length_append, hT, List.length_cons, List.length_nil, compS_length] at hJ
    simp only [List.cons_append, List.nil_append, List.append_assoc] at hI
    have h0 := hI.nth 0 (by simp)
    have h1 := hI.nth 1 (by simp)
    have h2 := hI.nth 2 (by simp)
    have hrest := hI.drop 3 (by simp)
    simp only [List.drop_succ_cons, List.drop_zero, List.getElem_cons_zero, List.getElem_cons_succ] at hrest h0 h1 h2
    have hB := hrest.left
    have hR := hrest.right
    rw [compS_length] at hR
    have t0 := hR.nth 0 (by simp)
    have t1 := hR.nth 1 (by simp)
    have t2 := hR.nth 2 (by simp)
    have t3 := hR.nth 3 (by simp)
    have t4 := hR.nth 4 (by simp)
    have t5 := hR.nth 5 (by simp)
    have t6 := hR.nth 6 (by simp)
    simp only [List.getElem_cons_zero, List.getElem_cons_succ] at t0 t1 t2 t3 t4 t5 t6
    have hjf := hJ.nth 0 (by simp)
    simp only [List.getElem_cons_zero] at hjf
    have hpos : hp + (1 + (classesExpr m).length + 2 + 1) + 3 = hp + handlerBodyOff m := by rw [hoff]; omega
    rw [hpos] at hB
    obtain ⟨vm1, hr1, hp1⟩ := ihS hb w1 w' o hd hx hcov (.except :: ctx) (hp + handlerBodyOff m) m.ln
      (o1 :: o2 :: o3 :: st)
      (⟨.finally, ((hp + handlerBodyOff m + len hb + 3 : Nat) : Int), (o1 :: o2 :: o3 :: st).length⟩ :: ⟨.handler, -1, st.length⟩ :: bs)
      rv ex hex hce hB (hinvX _)
    have hpre : Reach P code ⟨hp + (1 + (classesExpr m).length + 2) + 1, v2 :: v3 :: o1 :: o2 :: o3 :: st,
        ⟨.handler, -1, st.length⟩ :: bs, .not, rv, {}, ex, w1⟩ vm1 := by
      vstep h0
      vstep h1
      vstepx [pushBlock, compS_length] h2
      exact Reach.start_pc (by rw [hoff]; omega) hr1
    have hQ : hp + (1 + (classesExpr m).length + 2 + 1) + 3 + len hb = hp + handlerBodyOff m + len hb := by rw [hoff]; omega
    rw [hQ] at t0 t1 t2 t3 t4 t5 t6
    have hjf' : code[hp + handlerBodyOff m + len hb + 7]? = some (Instr.jumpForward endL, bl) := by
      have := hJ.cast (show _ = hp + handlerBodyOff m + len hb + 7 by rw [hoff]; omega)
      exact this.nth 0 (by simp)
    cases o with
    | normal =>
      obtain ⟨rv1, rfl⟩ := hp1.normal_eq
      have he3 := unwindExceptHandler_junk [] o1 o2 o3 st
      simp only [List.nil_append] at he3
      refine ⟨⟨endL, st, bs, .not, rv1, {}, savedOf o1 o2 o3, w'⟩, hpre.trans ?_, by simp [Post]⟩
      vstep t0
      vstepx [he3] t1
      vstep t2
      vstep t3
      vstep t4
      vstep t5
      vstepx [] t6
      vstep hjf'
      exact Reach.refl _
    | brk =>
      obtain ⟨hlp, pc1, junk, rv1, rfl⟩ := hp1.brk_eq
      have hent : Reach P code
          ⟨pc1, junk ++ o1 :: o2 :: o3 :: st, ⟨.finally, ((hp + handlerBodyOff m + len hb + 3 : Nat) : Int), (o1 :: o2 :: o3 :: st).length⟩ :: ⟨.handler, -1, st.length⟩ :: bs, .brk, rv1, {}, ex, w'⟩
          ⟨hp + handlerBodyOff m + len hb + 3, Val.int 3 :: o1 :: o2 :: o3 :: st, ⟨.handler, -1, st.length⟩ :: bs, .not, rv1, {}, ex, w'⟩ := by
        simpa [Why.code] using finally_takes (P := P) (code := code) (pc := pc1) (junk := junk) (st := o1 :: o2 :: o3 :: st)
          (h := hp + handlerBodyOff m + len hb + 3) (bs := ⟨.handler, -1, st.length⟩ :: bs) (why := .brk) (rv := rv1) (cur := {}) (ex := ex) (w := w') (Or.inl rfl)
      have hstep : Reach P code
          ⟨hp + handlerBodyOff m + len hb + 3, Val.int 3 :: o1 :: o2 :: o3 :: st, ⟨.handler, -1, st.length⟩ :: bs, .not, rv1, {}, ex, w'⟩
          ⟨hp + handlerBodyOff m + len hb + 7, [] ++ o1 :: o2 :: o3 :: st, ⟨.handler, -1, st.length⟩ :: bs, .brk, rv1, {}, ex, w'⟩ := by
        vstep t3
        vstep t4
        vstep t5
        vstepx [Why.ofCode] t6
        exact Reach.refl _
      have hr3 := handler_passes (P := P) (code := code) (pc := hp + handlerBodyOff m + len hb + 7) (junk := [])
        (st := st) (a := o1) (b := o2) (c := o3) (bs := bs) (why := .brk) (by simp) (rv := rv1) (cur := {}) (ex := ex) (w := w')
      exact ⟨_, ((hpre.trans hent).trans hstep).trans hr3, by simpa [Post] using (hasLoop_except ctx ▸ hlp)⟩
    | ret v =>
      obtain ⟨pc1, junk, rfl⟩ := hp1.ret_eq
      have hent : Reach P code
          ⟨pc1, junk ++ o1 :: o2 :: o3 :: st, ⟨.finally, ((hp + handlerBodyOff m + len hb + 3 : Nat) : Int), (o1 :: o2 :: o3 :: st).length⟩ :: ⟨.handler, -1, st.length⟩ :: bs, .ret, .int v, {}, ex, w'⟩
          ⟨hp + handlerBodyOff m + len hb + 3, Val.int 2 :: Val.int v :: o1 :: o2 :: o3 :: st, ⟨.handler, -1, st.length⟩ :: bs, .not, .int v, {}, ex, w'⟩ := by
        simpa [Why.code] using finally_takes (P := P) (code := code) (pc := pc1) (junk := junk) (st := o1 :: o2 :: o3 :: st)
          (h := hp + handlerBodyOff m + len hb + 3) (bs := ⟨.handler, -1, st.length⟩ :: bs) (why := .ret) (rv := .int v) (cur := {}) (ex := ex) (w := w') (Or.inr (Or.inl rfl))
      have hstep : Reach P code
          ⟨hp + handlerBodyOff m + len hb + 3, Val.int 2 :: Val.int v :: o1 :: o2 :: o3 :: st, ⟨.handler, -1, st.length⟩ :: bs, .not, .int v, {}, ex, w'⟩
          ⟨hp + handlerBodyOff m + len hb + 7, [] ++ o1 :: o2 :: o3 :: st, ⟨.handler, -1, st.length⟩ :: bs, .ret, .int v, {}, ex, w'⟩ := by
        vstep t3
        vstep t4
        vstep t5
        vstepx [Why.ofCode] t6
        exact Reach.refl _
      have hr3 := handler_passes (P := P) (code := code) (pc := hp + handlerBodyOff m + len hb + 7) (junk := [])
        (st := st) (a := o1) (b := o2) (c := o3) (bs := bs) (why := .ret) (by simp) (rv := .int v) (cur := {}) (ex := ex) (w := w')
      exact ⟨_, ((hpre.trans hent).trans hstep).trans hr3, by simp [Post]⟩
    | cont =>
      obtain ⟨pc1, s, hfl, rfl⟩ := hp1.cont_pending_eq (Or.inr rfl)
      have hent : Reach P code
          ⟨pc1, [] ++ o1 :: o2 :: o3 :: st, ⟨.finally, ((hp + handlerBodyOff m + len hb + 3 : Nat) : Int), (o1 :: o2 :: o3 :: st).length⟩ :: ⟨.handler, -1, st.length⟩ :: bs, .cont, .int s, {}, ex, w'⟩
          ⟨hp + handlerBodyOff m + len hb + 3, Val.int 4 :: Val.int s :: o1 :: o2 :: o3 :: st, ⟨.handler, -1, st.length⟩ :: bs, .not, .int s, {}, ex, w'⟩ := by
        simpa [Why.code] using finally_takes (P := P) (code := code) (pc := pc1) (junk := []) (st := o1 :: o2 :: o3 :: st)
          (h := hp + handlerBodyOff m + len hb + 3) (bs := ⟨.handler, -1, st.length⟩ :: bs) (why := .cont) (rv := .int s) (cur := {}) (ex := ex) (w := w') (Or.inr (Or.inr rfl))
      have hstep : Reach P code
          ⟨hp + handlerBodyOff m + len hb + 3, Val.int 4 :: Val.int s :: o1 :: o2 :: o3 :: st, ⟨.handler, -1, st.length⟩ :: bs, .not, .int s, {}, ex, w'⟩
          ⟨hp + handlerBodyOff m + len hb + 7, [] ++ o1 :: o2 :: o3 :: st, ⟨.handler, -1, st.length⟩ :: bs, .cont, .int s, {}, ex, w'⟩ := by
        vstep t3
        vstep t4
        vstep t5
        vstepx [Why.ofCode] t6
        exact Reach.refl _
      have hr3 := handler_passes (P := P) (code := code) (pc := hp + handlerBodyOff m + len hb + 7) (junk := [])
        (st := st) (a := o1) (b := o2) (c := o3) (bs := bs) (why := .cont) (by simp) (rv := .int s) (cur := {}) (ex := ex) (w := w')
      obtain ⟨vm4, hr4, hp4⟩ := cont_settle (P := P) (code := code) (ctx := ctx) (x := .except) (Or.inr rfl)
        (pc := hp + handlerBodyOff m + len hb + 7) (s := s) (e := endL) (st := st) (bs := bs) (ex := savedOf o1 o2 o3) (w := w') hfl hinv
      exact ⟨vm4, (((hpre.trans hent).trans hstep).trans hr3).trans hr4, hp4⟩
    | exc c2 l2 =>
      obtain ⟨pc1, junk, rv1, rfl⟩ := hp1.exc_eq
      have hent := handler_entry (P := P) (code := code) (pc := pc1) (junk := junk) (st := o1 :: o2 :: o3 :: st)
        (h := hp + handlerBodyOff m + len hb + 3) (bs := ⟨.handler, -1, st.length⟩ :: bs) (k := .finally) (Or.inl rfl)
        (rv := rv1) (cur := ⟨some c2, .excv c2, some [l2]⟩) (ex := ex) (w := w')
      have hstep : Reach P code
          ⟨hp + handlerBodyOff m + len hb + 3,
           typeVal (some c2) :: Val.excv c2 :: .tb (some [l2]) :: typeVal ex.type :: ex.value :: .tb ex.tb :: o1 :: o2 :: o3 :: st,
           ⟨.handler, -1, (o1 :: o2 :: o3 :: st).length⟩ :: ⟨.handler, -1, st.length⟩ :: bs, .not, rv1, {}, ⟨some c2, .excv c2, some [l2]⟩, w'⟩
          ⟨hp + handlerBodyOff m + len hb + 7, [] ++ typeVal ex.type :: ex.value :: .tb ex.tb :: o1 :: o2 :: o3 :: st,
           ⟨.handler, -1, (o1 :: o2 :: o3 :: st).length⟩ :: ⟨.handler, -1, st.length⟩ :: bs, .exception, rv1,
           ⟨some c2, .excv c2, some [l2]⟩, ⟨some c2, .excv c2, some [l2]⟩, w'⟩ := by
        vstep t3
        vstep t4
        vstep t5
        vstepx [typeVal_some, Val.asTb] t6
        exact Reach.refl _
      have hr3 := handler_passes (P := P) (code := code) (pc := hp + handlerBodyOff m + len hb + 7) (junk := [])
        (st := o1 :: o2 :: o3 :: st) (a := typeVal ex.type) (b := ex.value) (c := .tb ex.tb) (bs := ⟨.handler, -1, st.length⟩ :: bs)
        (why := .exception) (by simp) (rv := rv1) (cur := ⟨some c2, .excv c2, some [l2]⟩) (ex := ⟨some c2, .excv c2, some [l2]⟩) (w := w')
      have hr4 := handler_passes (P := P) (code := code) (pc := hp + handlerBodyOff m + len hb + 7) (junk := [])
        (st := st) (a := o1) (b := o2) (c := o3) (bs := bs)
        (why := .exception) (by simp) (rv := rv1) (cur := ⟨some c2, .excv c2, some [l2]⟩) (ex := savedOf (typeVal ex.type) ex.value (.tb ex.tb)) (w := w')
      exact ⟨_, ((((hpre.trans hent).trans hstep).trans hr3).trans hr4), by simp [Post]⟩
  · -- plain `except C:` : the body runs with the EXCEPT_HANDLER block on top
    have hn' : m.named = false := by simpa using hn
    simp only [hn', Bool.false_eq_true, if_false] at hc hoff
    have hI := hc.left.right
    have hJ := hc.right
    rw [hT] at hI
    simp only [List.length_append, hT, List.length_cons, List.length_nil, compS_length] at hJ
    simp only [List.cons_append, List.nil_append, List.append_assoc] at hI
    have h0 := hI.nth 0 (by simp)
    have h1 := hI.nth 1 (by simp)
    have hrest := hI.drop 2 (by simp)
    simp only [List.drop_succ_cons, List.drop_zero, List.getElem_cons_zero, List.getElem_cons_succ] at hrest h0 h1
    have hB := hrest.left
    have hR := hrest.right
    rw [compS_length] at hR
    have t0 := hR.nth 0 (by simp)
    simp only [List.getElem_cons_zero] at t0
    have hpos : hp + (1 + (classesExpr m).length + 2 + 1) + 2 = hp + handlerBodyOff m := by rw [hoff]; omega
    rw [hpos] at hB
    obtain ⟨vm1, hr1, hp1⟩ := ihS hb w1 w' o hd hx hcov (.except :: ctx) (hp + handlerBodyOff m) m.ln
      ([] ++ o1 :: o2 :: o3 :: st) (⟨.handler, -1, st.length⟩ :: bs) rv ex hex hce hB (hinvX _)
    have hpre : Reach P code ⟨hp + (1 + (classesExpr m).length + 2) + 1, v2 :: v3 :: o1 :: o2 :: o3 :: st,
        ⟨.handler, -1, st.length⟩ :: bs, .not, rv, {}, ex, w1⟩ vm1 := by
      vstep h0
      vstep h1
      exact Reach.start_pc (by rw [hoff]; omega) hr1
    have hQ : hp + (1 + (classesExpr m).length + 2 + 1) + 2 + len hb = hp + handlerBodyOff m + len hb := by rw [hoff]; omega
    rw [hQ] at t0
    have hjf' : code[hp + handlerBodyOff m + len hb + 1]? = some (Instr.jumpForward endL, bl) := by
      have := hJ.cast (show _ = hp + handlerBodyOff m + len hb + 1 by rw [hoff]; omega)
      exact this.nth 0 (by simp)
    cases o with
    | normal =>
      obtain ⟨rv1, rfl⟩ := hp1.normal_eq
      have he3 := unwindExceptHandler_junk [] o1 o2 o3 st
      simp only [List.nil_append] at he3
      refine ⟨⟨endL, st, bs, .not, rv1, {}, savedOf o1 o2 o3, w'⟩, hpre.trans ?_, by simp [Post]⟩
      vstepx [he3] t0
      vstep hjf'
      exact Reach.refl _
    | cont =>
      obtain ⟨pc1, s, hfl, rfl⟩ := hp1.cont_pending_eq (Or.inr rfl)
      have hr3 := handler_passes (P := P) (code := code) (pc := pc1) (junk := [])
        (st := st) (a := o1) (b := o2) (c := o3) (bs := bs) (why := .cont) (by simp) (rv := .int s) (cur := {}) (ex := ex) (w := w')
      obtain ⟨vm4, hr4, hp4⟩ := cont_settle (P := P) (code := code) (ctx := ctx) (x := .except) (Or.inr rfl)
        (pc := pc1) (s := s) (e := endL) (st := st) (bs := bs) (ex := savedOf o1 o2 o3) (w := w') hfl hinv
      exact ⟨vm4, (hpre.trans hr3).trans hr4, hp4⟩
    | brk =>
      obtain ⟨vm3, hr3, hp3⟩ := abrupt_through_handler (P := P) (code := code) (ctx2 := ctx) (e2 := endL) (X := [])
        (hasLoop_except ctx) (by simp [Abrupt]) hp1
      exact ⟨vm3, hpre.trans hr3, hp3⟩
    | ret v =>
      obtain ⟨vm3, hr3, hp3⟩ := abrupt_through_handler (P := P) (code := code) (ctx2 := ctx) (e2 := endL) (X := [])
        (hasLoop_except ctx) (by simp [Abrupt]) hp1
      exact ⟨vm3, hpre.trans hr3, hp3⟩
    | exc c2 l2 =>
      obtain ⟨vm3, hr3, hp3⟩ := abrupt_through_handler (P := P) (code := code) (ctx2 := ctx) (e2 := endL) (X := [])
        (hasLoop_except ctx) (by simp [Abrupt]) hp1
      exact ⟨vm3, hpre.trans hr3, hp3⟩
theorem compHandler_shape (m : Matcher) (pc cur : Nat) (body : Code) (bl endL : Nat) :
    ∃ rest, compHandler m pc cur body bl endL =
      [(Instr.dupTop, cur)] ++ classesExpr m ++ [(Instr.compareExcMatch, m.ln), (Instr.popJumpIfFalse (pc + handlerLen m body.length), m.ln)] ++
        [(Instr.popTop, m.ln)] ++ rest := by
  unfold compHandler
  refine ⟨(if m.named = true then
      [(Instr.storeFast "e", m.ln), (Instr.popTop, m.ln), (Instr.setupFinally (pc + handlerBodyOff m + body.length + 3), m.ln)] ++ body ++
        [(Instr.popBlock, bl), (Instr.popExcept, bl), (Instr.loadConst Const.none, bl),
         (Instr.loadConst Const.none, bl), (Instr.storeFast "e", bl), (Instr.deleteFast "e", bl), (Instr.endFinally, bl)]
    else [(Instr.popTop, m.ln), (Instr.popTop, m.ln)] ++ body ++ [(Instr.popExcept, bl)]) ++ [(Instr.jumpForward endL, bl)], ?_⟩
  simp only [List.append_assoc]

/-- no clause matched: the END_FINALLY after the handlers re-raises the same exception -/
theorem reraise {P : Prims W} {code : Code} {ctx : Ctx} {n e ln : Nat} (hef : code[n]? = some (Instr.endFinally, ln))
    (c : Cls) (l : Nat) (t1 t2 t3 : Val) (st : List Val) (bs : List Block) (rv : Val) (ex : ExcInfo) (w : W) :
    ∃ vm', Reach P code ⟨n, Val.cls c :: Val.excv c :: Val.tb (some [l]) :: t1 :: t2 :: t3 :: st,
                          ⟨.handler, -1, st.length⟩ :: bs, .not, rv, {}, ex, w⟩ vm' ∧
           Post ctx e st bs (savedOf t1 t2 t3) (.exc c l) w vm' := by
  have hstep : Reach P code ⟨n, Val.cls c :: Val.excv c :: Val.tb (some [l]) :: t1 :: t2 :: t3 :: st,
        ⟨.handler, -1, st.length⟩ :: bs, .not, rv, {}, ex, w⟩
      ⟨n + 1, [] ++ t1 :: t2 :: t3 :: st, ⟨.handler, -1, st.length⟩ :: bs, .exception, rv, ⟨some c, .excv c, some [l]⟩, ex, w⟩ := by
    vstepx [Val.asTb] hef
    exact Reach.refl _
  have hr3 := handler_passes (P := P) (code := code) (pc := n + 1) (junk := [])
    (st := st) (a := t1) (b := t2) (c := t3) (bs := bs) (why := .exception) (by simp) (rv := rv)
    (cur := ⟨some c, .excv c, some [l]⟩) (ex := ex) (w := w)
  exact ⟨_, hstep.trans hr3, by simp [Post]⟩

/-- one `except` clause at `hp`, entered with the exception's six values on the stack: either it
catches (its body runs, result as `Post` at `endL`) or control is at the next clause, stack untouched -/
theorem sim_clause (P : Prims W) (code : Code) (f : Nat) (ihS : SimS P code f) (m : Matcher) (hb : Stmt)
    (ctx : Ctx) (hp cur bl endL : Nat) (hcov : Cov hb = true)
    (hc : CodeAt code hp (compHandler m hp cur (compS (.except :: ctx) (hp + handlerBodyOff m) m.ln hb) bl endL))
    (hce : compErr (.except :: ctx) (hp + handlerBodyOff m) hb = none)
    (st : List Val) (bs : List Block) (hinv : CtxInv ctx bs)
    (c : Cls) (v2 v3 o1 o2 o3 : Val) (rv : Val) (ex : ExcInfo) (w1 : W) (hd : Handled) (hex : ex = hdInfo hd) :
    (catches m.classes c = true → ∀ w' o, execT P f (.run hb) w1 hd = some (w', o) →
      ∃ vm', Reach P code ⟨hp, Val.cls c :: v2 :: v3 :: o1 :: o2 :: o3 :: st, ⟨.handler, -1, st.length⟩ :: bs, .not, rv, {}, ex, w1⟩ vm' ∧
             Post ctx endL st bs (savedOf o1 o2 o3) o w' vm') ∧
    (catches m.classes c = false →
      Reach P code ⟨hp, Val.cls c :: v2 :: v3 :: o1 :: o2 :: o3 :: st, ⟨.handler, -1, st.length⟩ :: bs, .not, rv, {}, ex, w1⟩
        ⟨hp + handlerLen m (len hb), Val.cls c :: v2 :: v3 :: o1 :: o2 :: o3 :: st, ⟨.handler, -1, st.length⟩ :: bs, .not, rv, {}, ex, w1⟩) := by
  obtain ⟨rest, hshape⟩ := compHandler_shape m hp cur (compS (.except :: ctx) (hp + handlerBodyOff m) m.ln hb) bl endL
  have hc' := hc
  rw [hshape] at hc'
  have ht := handler_test (P := P) m hp cur rest _ hc' c v2 (v3 :: o1 :: o2 :: o3 :: st) (⟨.handler, -1, st.length⟩ :: bs) rv ex w1
  constructor
  · intro hcat w' o hx
    rw [if_pos hcat] at ht
    obtain ⟨vm', hr, hp'⟩ := sim_handler P code f ihS m hb ctx hp cur bl endL hcov hc hce st bs hinv w1 w' o hd hx v2 v3 o1 o2 o3 rv ex hex
    exact ⟨vm', ht.trans hr, hp'⟩
  · intro hcat
    rw [hcat] at ht
    simp only [Bool.false_eq_true, if_false, compS_length] at ht
    exact ht
def elseOrPass (P : Prims W) (f : Nat) (o' : Stmt) (w1 : W) (hd : Handled) : Outcome → Option (W × Outcome)
  | .normal => execT P f (.run o') w1 hd
  | r => some (w1, r)

/-- what the body of a `try/except` leaves for the statement, when no exception is pending:
normal → else-branch; break/return/continue → through the except block -/
theorem tryE_nonexc (P : Prims W) (code : Code) (f : Nat) (ihS : SimS P code f) (ctx : Ctx) (o' : Stmt)
    (pcB excL orelse l0 l2 : Nat) (st : List Val) (bs : List Block) (hinv : CtxInv ctx bs)
    (hpb : code[pcB]? = some (Instr.popBlock, l0)) (hjo : code[pcB + 1]? = some (Instr.jumpForward orelse, l0))
    (hO : CodeAt code orelse (compS (.except :: ctx) orelse l2 o'))
    (hco : compErr (.except :: ctx) orelse o' = none) (hcovo : Cov o' = true)
    (o1 : Outcome) (hne : ∀ c l, o1 ≠ .exc c l) (w1 w' : W) (o : Outcome) (hd : Handled) (ex : ExcInfo) (hex : ex = hdInfo hd)
    (hx : elseOrPass P f o' w1 hd o1 = some (w', o))
    (vm1 : VM W)
    (hp1 : Post (.except :: ctx) pcB st (⟨.except, (excL : Int), st.length⟩ :: bs) ex o1 w1 vm1) :
    ∃ vm', Reach P code vm1 vm' ∧ Post ctx (orelse + len o') st bs ex o w' vm' := by
  have hinvX : CtxInv (.except :: ctx) bs := by intro s rest hh; simp at hh
  cases o1 with
  | exc c l => exact absurd rfl (hne c l)
  | normal =>
    simp only [elseOrPass] at hx
    obtain ⟨rv1, rfl⟩ := hp1.normal_eq
    obtain ⟨vm2, hr2, hp2⟩ := ihS o' w1 w' o hd hx hcovo (.except :: ctx) orelse l2 st bs rv1 ex hex hco hO hinvX
    obtain ⟨vm3, hr3, hp3⟩ := Post.lift (P := P) (code := code) (Or.inr rfl) hinv hp2
    refine ⟨vm3, ?_, hp3⟩
    vstep hpb
    vstep hjo
    exact hr2.trans hr3
  | brk =>
    simp only [elseOrPass, Option.some.injEq, Prod.mk.injEq] at hx
    obtain ⟨rfl, rfl⟩ := hx
    obtain ⟨hlp, pc1, junk, rv1, rfl⟩ := hp1.brk_eq
    exact ⟨_, except_passes (Or.inr (Or.inl rfl)), by simpa [Post] using (hasLoop_except ctx ▸ hlp)⟩
  | ret v =>
    simp only [elseOrPass, Option.some.injEq, Prod.mk.injEq] at hx
    obtain ⟨rfl, rfl⟩ := hx
    obtain ⟨pc1, junk, rfl⟩ := hp1.ret_eq
    exact ⟨_, except_passes (Or.inl rfl), by simp [Post]⟩
  | cont =>
    simp only [elseOrPass, Option.some.injEq, Prod.mk.injEq] at hx
    obtain ⟨rfl, rfl⟩ := hx
    obtain ⟨pc1, s, hfl, rfl⟩ := hp1.cont_pending_eq (Or.inr rfl)
    obtain ⟨vm4, hr4, hp4⟩ := cont_settle (P := P) (code := code) (ctx := ctx) (x := .except) (Or.inr rfl)
      (pc := pc1) (s := s) (e := orelse + len o') (st := st) (bs := bs) (ex := ex) (w := w1) hfl hinv
    refine ⟨vm4, ?_, hp4⟩
    exact (except_passes (junk := []) (Or.inr (Or.inr rfl))).trans hr4

theorem sim_tryE (P : Prims W) (code : Code) (f : Nat) (ihS : SimS P code f) (ln : Nat) (b : Stmt) (m1 : Matcher) (h1 : Stmt)
    (m2 : Option Matcher) (h2 o' : Stmt)
    (w w' : W) (o : Outcome) (hd : Handled) (h : execT P (f+1) (.run (.tryE ln b m1 h1 m2 h2 o')) w hd = some (w', o))
    (hcovb : Cov b = true) (hcov1 : Cov h1 = true) (hcov2 : Cov h2 = true) (hcovo : Cov o' = true)
    (ctx : Ctx) (pc cur : Nat) (st : List Val) (bs : List Block) (rv : Val) (ex : ExcInfo) (hex : ex = hdInfo hd)
    (hce : compErr ctx pc (.tryE ln b m1 h1 m2 h2 o') = none)
    (hc : CodeAt code pc (compS ctx pc cur (.tryE ln b m1 h1 m2 h2 o'))) (hinv : CtxInv ctx bs) :
    ∃ vm', Reach P code ⟨pc, st, bs, .not, rv, {}, ex, w⟩ vm' ∧
      Post ctx (pc + len (.tryE ln b m1 h1 m2 h2 o')) st bs ex o w' vm' := by
  have hinvX : ∀ bsX, CtxInv (.except :: ctx) bsX := by intro bsX s rest hh; simp at hh
  unfold execT at h
  simp only at h
  cases m2 with
  | none =>
    simp only [compErr] at hce
    obtain ⟨hcb, hce⟩ := orElse_none hce
    obtain ⟨hc1, hce⟩ := orElse_none hce
    obtain ⟨_, hco⟩ := orElse_none hce
    simp only [compS] at hc
    have hO := hc.right
    have hE := hc.left.right
    have hH1 := hc.left.left.left.right
    have hC := hc.left.left.left.left.right
    have hBd := hc.left.left.left.left.left.right
    have hA := hc.left.left.left.left.left.left
    simp only [List.length_append, List.length_cons, List.length_nil, compS_length, compHandler_length] at hO hE hH1 hC hBd
    have h0 := hA.nth 0 (by simp)
    have hpb := hC.nth 0 (by simp)
    have hjo := hC.nth 1 (by simp)
    have hef := hE.nth 0 (by simp)
    simp only [List.getElem_cons_zero, List.getElem_cons_succ] at h0 hpb hjo hef
    have hlen : pc + 1 + len b + 2 + handlerLen m1 (len h1) + 0 + 1 + len o' = pc + len (.tryE ln b m1 h1 none h2 o') := by
      simp [len]; omega
    cases hb : execT P f (.run b) w hd with
    | none => rw [hb] at h; simp at h
    | some r1 =>
      obtain ⟨w1, o1⟩ := r1
      rw [hb] at h
      obtain ⟨vm1, hr1, hp1⟩ := ihS b w w1 o1 hd hb hcovb (.except :: ctx) (pc + 1) ln st
        (⟨.except, ((pc + 1 + len b + 2 : Nat) : Int), st.length⟩ :: bs) rv ex hex hcb (hBd.cast (by omega)) (hinvX _)
      have hpre : Reach P code ⟨pc, st, bs, .not, rv, {}, ex, w⟩ vm1 := by
        vstepx [pushBlock] h0
        exact hr1
      have hnon : ∀ (o1' : Outcome), (∀ c l, o1' ≠ .exc c l) →
          elseOrPass P f o' w1 hd o1' = some (w', o) →
          Post (.except :: ctx) (pc + 1 + len b) st (⟨.except, ((pc + 1 + len b + 2 : Nat) : Int), st.length⟩ :: bs) ex o1' w1 vm1 →
          ∃ vm', Reach P code ⟨pc, st, bs, .not, rv, {}, ex, w⟩ vm' ∧
            Post ctx (pc + len (.tryE ln b m1 h1 none h2 o')) st bs ex o w' vm' := by
        intro o1' hne hx hp1'
        obtain ⟨vm3, hr3, hp3⟩ := tryE_nonexc P code f ihS ctx o' (pc + 1 + len b) (pc + 1 + len b + 2)
          (pc + 1 + len b + 2 + handlerLen m1 (len h1) + 0 + 1) (endLine ln b) (endLine m1.ln h1) st bs hinv
          (by have := hpb; rwa [show pc + (0 + 1 + len b) + 0 = pc + 1 + len b by omega] at this)
          (by have := hjo; rwa [show pc + (0 + 1 + len b) + 1 = pc + 1 + len b + 1 by omega] at this)
          (hO.cast (by omega)) hco hcovo o1' hne w1 w' o hd ex hex hx vm1 hp1'
        exact ⟨vm3, hpre.trans hr3, hlen ▸ hp3⟩
      cases o1 with
      | normal => exact hnon .normal (by intros; simp) h hp1
      | brk => exact hnon .brk (by intros; simp) h hp1
      | cont => exact hnon .cont (by intros; simp) h hp1
      | ret v => exact hnon (.ret v) (by intros; simp) h hp1
      | exc c l =>
        simp only at h
        obtain ⟨pc1, junk, rv1, rfl⟩ := hp1.exc_eq
        have hent := handler_entry (P := P) (code := code) (pc := pc1) (junk := junk) (st := st) (h := pc + 1 + len b + 2)
          (bs := bs) (k := .except) (Or.inr rfl) (rv := rv1) (cur := ⟨some c, .excv c, some [l]⟩) (ex := ex) (w := w1)
        have hpre2 := hpre.trans hent
        obtain ⟨hyes, hno⟩ := sim_clause P code f ihS m1 h1 ctx (pc + 1 + len b + 2) (endLine ln b) (endLine m1.ln h1)
          (pc + 1 + len b + 2 + handlerLen m1 (len h1) + 0 + 1 + len o') hcov1 (hH1.cast (by omega)) hc1 st bs hinv c
          (Val.excv c) (Val.tb (some [l])) (typeVal ex.type) ex.value (Val.tb ex.tb) rv1 ⟨some c, .excv c, some [l]⟩ w1 (some (c, l)) rfl
        by_cases hcat : catches m1.classes c = true
        · rw [if_pos hcat] at h
          obtain ⟨vm3, hr3, hp3⟩ := hyes hcat w' o h
          exact ⟨vm3, hpre2.trans hr3, hlen ▸ hp3.saved⟩
        · rw [if_neg hcat] at h
          simp only [Option.some.injEq, Prod.mk.injEq] at h
          obtain ⟨rfl, rfl⟩ := h
          have hcf : catches m1.classes c = false := by simpa using hcat
          obtain ⟨vm3, hr3, hp3⟩ := reraise (P := P) (code := code) (ctx := ctx)
            (n := pc + 1 + len b + 2 + handlerLen m1 (len h1)) (e := pc + len (.tryE ln b m1 h1 none h2 o')) (ln := endLine m1.ln h1)
            (by have := hef; rwa [show pc + (0 + 1 + len b + (0 + 1 + 1) + handlerLen m1 (len h1) + 0) + 0 = pc + 1 + len b + 2 + handlerLen m1 (len h1) by omega] at this)
            c l (typeVal ex.type) ex.value (Val.tb ex.tb) st bs rv1 ⟨some c, .excv c, some [l]⟩ w1
          exact ⟨vm3, (hpre2.trans (hno hcf)).trans hr3, hp3.saved⟩
  | some m =>
    simp only [compErr] at hce
    obtain ⟨hcb, hce⟩ := orElse_none hce
    obtain ⟨hc1, hce⟩ := orElse_none hce
    obtain ⟨hc2, hco⟩ := orElse_none hce
    simp only [compS] at hc
    have hO := hc.right
    have hE := hc.left.right
    have hH2 := hc.left.left.right
    have hH1 := hc.left.left.left.right
    have hC := hc.left.left.left.left.right
    have hBd := hc.left.left.left.left.left.right
    have hA := hc.left.left.left.left.left.left
    simp only [List.length_append, List.length_cons, List.length_nil, compS_length, compHandler_length] at hO hE hH2 hH1 hC hBd
    have h0 := hA.nth 0 (by simp)
    have hpb := hC.nth 0 (by simp)
    have hjo := hC.nth 1 (by simp)
    have hef := hE.nth 0 (by simp)
    simp only [List.getElem_cons_zero, List.getElem_cons_succ] at h0 hpb hjo hef
    have hlen : pc + 1 + len b + 2 + handlerLen m1 (len h1) + handlerLen m (len h2) + 1 + len o' = pc + len (.tryE ln b m1 h1 (some m) h2 o') := by
      simp [len]; omega
    cases hb : execT P f (.run b) w hd with
    | none => rw [hb] at h; simp at h
    | some r1 =>
      obtain ⟨w1, o1⟩ := r1
      rw [hb] at h
      obtain ⟨vm1, hr1, hp1⟩ := ihS b w w1 o1 hd hb hcovb (.except :: ctx) (pc + 1) ln st
        (⟨.except, ((pc + 1 + len b + 2 : Nat) : Int), st.length⟩ :: bs) rv ex hex hcb (hBd.cast (by omega)) (hinvX _)
      have hpre : Reach P code ⟨pc, st, bs, .not, rv, {}, ex, w⟩ vm1 := by
        vstepx [pushBlock] h0
        exact hr1
      have hnon : ∀ (o1' : Outcome), (∀ c l, o1' ≠ .exc c l) →
          elseOrPass P f o' w1 hd o1' = some (w', o) →
          Post (.except :: ctx) (pc + 1 + len b) st (⟨.except, ((pc + 1 + len b + 2 : Nat) : Int), st.length⟩ :: bs) ex o1' w1 vm1 →
          ∃ vm', Reach P code ⟨pc, st, bs, .not, rv, {}, ex, w⟩ vm' ∧
            Post ctx (pc + len (.tryE ln b m1 h1 (some m) h2 o')) st bs ex o w' vm' := by
        intro o1' hne hx hp1'
        obtain ⟨vm3, hr3, hp3⟩ := tryE_nonexc P code f ihS ctx o' (pc + 1 + len b) (pc + 1 + len b + 2)
          (pc + 1 + len b + 2 + handlerLen m1 (len h1) + handlerLen m (len h2) + 1) (endLine ln b) (endLine m.ln h2) st bs hinv
          (by have := hpb; rwa [show pc + (0 + 1 + len b) + 0 = pc + 1 + len b by omega] at this)
          (by have := hjo; rwa [show pc + (0 + 1 + len b) + 1 = pc + 1 + len b + 1 by omega] at this)
          (hO.cast (by omega)) hco hcovo o1' hne w1 w' o hd ex hex hx vm1 hp1'
        exact ⟨vm3, hpre.trans hr3, hlen ▸ hp3⟩
      cases o1 with
      | normal => exact hnon .normal (by intros; simp) h hp1
      | brk => exact hnon .brk (by intros; simp) h hp1
      | cont => exact hnon .cont (by intros; simp) h hp1
      | ret v => exact hnon (.ret v) (by intros; simp) h hp1
      | exc c l =>
        simp only at h
        obtain ⟨pc1, junk, rv1, rfl⟩ := hp1.exc_eq
        have hent := handler_entry (P := P) (code := code) (pc := pc1) (junk := junk) (st := st) (h := pc + 1 + len b + 2)
          (bs := bs) (k := .except) (Or.inr rfl) (rv := rv1) (cur := ⟨some c, .excv c, some [l]⟩) (ex := ex) (w := w1)
        have hpre2 := hpre.trans hent
        obtain ⟨hyes, hno⟩ := sim_clause P code f ihS m1 h1 ctx (pc + 1 + len b + 2) (endLine ln b) (endLine m1.ln h1)
          (pc + 1 + len b + 2 + handlerLen m1 (len h1) + handlerLen m (len h2) + 1 + len o') hcov1 (hH1.cast (by omega)) hc1 st bs hinv c
          (Val.excv c) (Val.tb (some [l])) (typeVal ex.type) ex.value (Val.tb ex.tb) rv1 ⟨some c, .excv c, some [l]⟩ w1 (some (c, l)) rfl
        obtain ⟨hyes2, hno2⟩ := sim_clause P code f ihS m h2 ctx (pc + 1 + len b + 2 + handlerLen m1 (len h1)) (endLine m1.ln h1) (endLine m.ln h2)
          (pc + 1 + len b + 2 + handlerLen m1 (len h1) + handlerLen m (len h2) + 1 + len o') hcov2 (hH2.cast (by omega)) hc2 st bs hinv c
          (Val.excv c) (Val.tb (some [l])) (typeVal ex.type) ex.value (Val.tb ex.tb) rv1 ⟨some c, .excv c, some [l]⟩ w1 (some (c, l)) rfl
        by_cases hcat : catches m1.classes c = true
        · rw [if_pos hcat] at h
          obtain ⟨vm3, hr3, hp3⟩ := hyes hcat w' o h
          exact ⟨vm3, hpre2.trans hr3, hlen ▸ hp3.saved⟩
        · rw [if_neg hcat] at h
          have hcf : catches m1.classes c = false := by simpa using hcat
          by_cases hcat2 : catches m.classes c = true
          · rw [if_pos hcat2] at h
            obtain ⟨vm3, hr3, hp3⟩ := hyes2 hcat2 w' o h
            exact ⟨vm3, (hpre2.trans (hno hcf)).trans hr3, hlen ▸ hp3.saved⟩
          · rw [if_neg hcat2] at h
            simp only [Option.some.injEq, Prod.mk.injEq] at h
            obtain ⟨rfl, rfl⟩ := h
            have hcf2 : catches m.classes c = false := by simpa using hcat2
            obtain ⟨vm3, hr3, hp3⟩ := reraise (P := P) (code := code) (ctx := ctx)
              (n := pc + 1 + len b + 2 + handlerLen m1 (len h1) + handlerLen m (len h2)) (e := pc + len (.tryE ln b m1 h1 (some m) h2 o')) (ln := endLine m.ln h2)
              (by have := hef; rwa [show pc + (0 + 1 + len b + (0 + 1 + 1) + handlerLen m1 (len h1) + handlerLen m (len h2)) + 0 = pc + 1 + len b + 2 + handlerLen m1 (len h1) + handlerLen m (len h2) by omega] at this)
              c l (typeVal ex.type) ex.value (Val.tb ex.tb) st bs rv1 ⟨some c, .excv c, some [l]⟩ w1
            exact ⟨vm3, ((hpre2.trans (hno hcf)).trans (hno2 hcf2)).trans hr3, hp3.saved⟩
theorem sim_all (P : Prims W) (code : Code) : ∀ fuel, SimS P code fuel ∧ SimW P code fuel ∧ SimF P code fuel := by
  intro fuel
  induction fuel with
  | zero =>
    refine ⟨?_, ?_, ?_⟩
    · intro s w w' o hd h; simp [execT] at h
    · intro ln i b o w w' out hd h; simp [execT] at h
    · intro ln i hnd b o w w' out hd h; simp [execT] at h
  | succ f ih =>
    obtain ⟨ihS, ihW, ihF⟩ := ih
    have hW := sim_while_head P code f ihS ihW
    have hF := sim_for_head P code f ihS ihF
    refine ⟨?_, hW, hF⟩
    intro s w w' o hd h hcov ctx pc cur st bs rv ex hex hce hc hinv
    cases s with
    | skip => exact sim_simple P code f _ trivial w w' o hd h ctx pc cur st bs rv ex hex hce hc
    | pass ln => exact sim_simple P code f _ trivial w w' o hd h ctx pc cur st bs rv ex hex hce hc
    | ev ln i => exact sim_simple P code f _ trivial w w' o hd h ctx pc cur st bs rv ex hex hce hc
    | ret ln i => exact sim_simple P code f _ trivial w w' o hd h ctx pc cur st bs rv ex hex hce hc
    | raise ln c => exact sim_simple P code f _ trivial w w' o hd h ctx pc cur st bs rv ex hex hce hc
    | brk ln => exact sim_simple P code f _ trivial w w' o hd h ctx pc cur st bs rv ex hex hce hc
    | cont ln => exact sim_simple P code f _ trivial w w' o hd h ctx pc cur st bs rv ex hex hce hc
    | reraise ln => exact sim_simple P code f _ trivial w w' o hd h ctx pc cur st bs rv ex hex hce hc
    | yieldS ln i => exact sim_simple P code f _ trivial w w' o hd h ctx pc cur st bs rv ex hex hce hc
    | raiseX ln fm => exact sim_simple P code f _ trivial w w' o hd h ctx pc cur st bs rv ex hex hce hc
    | seq a b => exact sim_seq P code f ihS a b w w' o hd h hcov ctx pc cur st bs rv ex hex hce hc hinv
    | ifS ln i b o' => exact sim_if P code f ihS ln i b o' w w' o hd h hcov ctx pc cur st bs rv ex hex hce hc hinv
    | whileS ln i b o' => exact sim_while P code f hW ln i b o' w w' o hd h hcov ctx pc cur st bs rv ex hex hce hc hinv
    | forS ln i b o' => exact sim_for P code f ihF ln i b o' w w' o hd h hcov ctx pc cur st bs rv ex hex hce hc hinv
    | tryF ln b fi =>
      simp only [Cov, Bool.and_eq_true] at hcov
      exact sim_tryF P code f ihS ln b fi w w' o hd h hcov.1 hcov.2 ctx pc cur st bs rv ex hex hce hc hinv
    | tryE ln b m1 h1 m2 h2 o' =>
      simp only [Cov, Bool.and_eq_true] at hcov
      exact sim_tryE P code f ihS ln b m1 h1 m2 h2 o' w w' o hd h hcov.1.1.1 hcov.1.1.2 hcov.1.2 hcov.2 ctx pc cur st bs rv ex hex hce hc hinv
    | withS ln i b =>
      simp only [Cov] at hcov
      exact sim_with P code f ihS ln i b w w' o hd h hcov ctx pc cur st bs rv ex hex hce hc hinv
theorem run_of_reach {P : Prims W} {code : Code} {vm vm' : VM W} (h : Reach P code vm vm') :
    ∀ {n : Nat} {e : Exit W}, run P code n vm' = some e → ∃ m, run P code m vm = some e := by
  induction h with
  | refl => intro n e hr; exact ⟨n, hr⟩
  | step hs _ ih =>
    intro n e hr
    obtain ⟨m, hm⟩ := ih hr
    exact ⟨m + 1, by simp [run, hs, hm]⟩

/-- a statement list whose last emitted instruction is a `return` cannot complete normally -/
theorem endsRet_not_normal (P : Prims W) : ∀ (s : Stmt) (prev : Bool) (f : Nat) (w w' : W) (hd : Handled),
    endsRet prev s = true → execT P f (.run s) w hd = some (w', .normal) → prev = true := by
  intro s
  induction s with
  | skip => intro prev f w w' hd h _; simpa [endsRet] using h
  | pass => intro prev f w w' hd h _; simpa [endsRet] using h
  | ret ln i =>
    intro prev f w w' hd _ hx
    cases f with
    | zero => simp [execT] at hx
    | succ f =>
      unfold execT at hx
      simp only at hx
      cases hev : P.ev w i with
      | mk w1 r => rw [hev] at hx; cases r <;> simp at hx
  | seq a b iha ihb =>
    intro prev f w w' hd h hx
    cases f with
    | zero => simp [execT] at hx
    | succ f =>
      unfold execT at hx
      simp only at hx
      simp only [endsRet] at h
      cases ha : execT P f (.run a) w hd with
      | none => rw [ha] at hx; simp at hx
      | some r =>
        obtain ⟨w1, o1⟩ := r
        rw [ha] at hx
        cases o1 with
        | normal =>
          simp only at hx
          exact iha prev f w w1 hd (ihb _ f w1 w' hd h hx) ha
        | brk | cont | ret _ | exc _ _ => simp at hx
  | ev | raise | reraise | raiseX | yieldS | brk | cont | ifS | whileS | forS | tryF | tryE | withS => intro prev f w w' hd h _; simp [endsRet] at h

/-- what `RunFrame` must hand back for each way the function can end -/
def expectedExit (fin : Final) (w' : W) : Exit W :=
  match fin with
  | .ret none => .ret .none w'
  | .ret (some v) => .ret (.int v) w'
  | .exc c ln => .exc ⟨some c, .excv c, some [ln]⟩ w'
  | .stray => .panic "unreachable"

theorem frame_correct_cov (P : Prims W) (defLine : Nat) (body : Stmt) (code : Code) (fuel : Nat) (w w' : W) (fin : Final)
    (hcomp : compileFn defLine body = .ok code) (hcov : Cov body = true)
    (hx : execFn P fuel body w = some (w', fin)) :
    fin ≠ .stray ∧ ∃ n, run P code n (initVM w) = some (expectedExit fin w') := by
  unfold compileFn at hcomp
  cases hce : compErr [] 0 body with
  | some e => rw [hce] at hcomp; simp at hcomp
  | none =>
    rw [hce] at hcomp
    simp only [Except.ok.injEq] at hcomp
    unfold execFn execS at hx
    cases hxs : execT P fuel (.run body) w none with
    | none => rw [hxs] at hx; simp at hx
    | some r =>
      obtain ⟨w1, o⟩ := r
      rw [hxs] at hx
      simp only [Option.some.injEq, Prod.mk.injEq] at hx
      obtain ⟨rfl, rfl⟩ := hx
      have hcode : CodeAt code 0 (compS [] 0 defLine body) := by
        by_cases he : endsRet false body = true
        · rw [if_pos he] at hcomp; subst hcomp; exact ⟨[], [], by simp, rfl⟩
        · rw [if_neg he] at hcomp; subst hcomp
          exact ⟨[], [(Instr.loadConst .none, endLine defLine body), (Instr.returnValue, endLine defLine body)], by simp, rfl⟩
      obtain ⟨vm', hr, hp⟩ := (sim_all P code fuel).1 body w w1 o none hxs hcov [] 0 defLine [] [] .nil {} rfl hce hcode
        (by intro s rest h; simp at h)
      cases o with
      | normal =>
        refine ⟨by simp [Final.ofOutcome], ?_⟩
        obtain ⟨rv2, rfl⟩ := hp.normal_eq
        have he : ¬ endsRet false body = true := by
          intro he
          have := endsRet_not_normal P body false fuel w w1 none he hxs
          simp at this
        rw [if_neg he] at hcomp
        have hepi : CodeAt code (0 + len body) [(Instr.loadConst .none, endLine defLine body), (Instr.returnValue, endLine defLine body)] := by
          subst hcomp
          exact ⟨compS [] 0 defLine body, [], by simp, by simp [compS_length]⟩
        have h0 := hepi.nth 0 (by simp)
        have h1 := hepi.nth 1 (by simp)
        simp only [List.getElem_cons_zero, List.getElem_cons_succ] at h0 h1
        have hfin : Reach P code ⟨0 + len body, [], [], .not, rv2, {}, {}, w1⟩
            ⟨0 + len body + 1 + 1, [], [], .ret, .none, {}, {}, w1⟩ := by
          vstep h0
          vstep h1
          exact Reach.refl _
        exact run_of_reach (hr.trans hfin) (n := 1)
          (by simp [run, GPy.C02.step, frameExit, expectedExit, Final.ofOutcome, ExcInfo.isSet])
      | ret v =>
        refine ⟨by simp [Final.ofOutcome], ?_⟩
        obtain ⟨pc2, junk, rfl⟩ := hp.ret_eq
        refine run_of_reach hr (n := 1) ?_
        simp [run, GPy.C02.step, frameExit, expectedExit, Final.ofOutcome, ExcInfo.isSet]
      | exc c l =>
        refine ⟨by simp [Final.ofOutcome], ?_⟩
        obtain ⟨pc2, junk, rv2, rfl⟩ := hp.exc_eq
        refine run_of_reach hr (n := 1) ?_
        simp [run, GPy.C02.step, frameExit, expectedExit, Final.ofOutcome, ExcInfo.isSet]
      | brk =>
        obtain ⟨hl, _⟩ := hp.brk_eq
        simp [hasLoop] at hl
      | cont =>
        simp only [Post, ContAt, findLoop] at hp
        obtain ⟨_, _, _, _, _, _, s, hs, _⟩ := hp
        simp at hs
/-- every statement of the fragment is covered -/
theorem Cov_all : ∀ s : Stmt, Cov s = true := by
  intro s
  induction s with
  | skip | pass | ev | ret | raise | brk | cont | reraise | raiseX | yieldS => rfl
  | seq a b iha ihb => simp [Cov, iha, ihb]
  | ifS ln i b o ihb iho => simp [Cov, ihb, iho]
  | whileS ln i b o ihb iho => simp [Cov, ihb, iho]
  | forS ln i b o ihb iho => simp [Cov, ihb, iho]
  | tryF ln b f ihb ihf => simp [Cov, ihb, ihf]
  | tryE ln b m1 h1 m2 h2 o ihb ih1 ih2 iho => simp [Cov, ihb, ih1, ih2, iho]
  | withS ln i b ihb => simp [Cov, ihb]

end GPy.C02
