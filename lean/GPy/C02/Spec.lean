/-
C02 specification (core Lean only): what Python 3.4 defines, written independently of the
VM/compiler formulas.

* `Sub`      : the subclass relation = reflexive-transitive closure of "is the base of"
* `execS`    : control-flow semantics of the statement fragment, outcome
               `normal | brk | cont | ret v | exc class line`; every `finally` body and every
               `__exit__` runs exactly once on every way out; handler = first clause that catches;
               `Handled` = the exception being handled (what a bare `raise` re-raises), a stack discipline
* `wf`       : the two SyntaxError rules (`break`/`continue` outside a loop, `continue` in `finally`)
* `Selects`  : which block kind handles which unwinding reason (Python's block-stack rule)
* `lineAtByte` : the line of the instruction whose bytes contain an address
-/
import GPy.C02.Model
namespace GPy.C02

/-! ## subclass relation -/

/-- `Sub base a b`: class `a` is `b` or inherits from it -/
inductive Sub {α : Type} (base : α → Option α) : α → α → Prop
  | refl (a : α) : Sub base a a
  | step {a b c : α} : base a = some b → Sub base b c → Sub base a c

/-- an `except` clause naming the classes `cs` catches an exception of class `err` -/
def Catches {α : Type} (base : α → Option α) (err : α) (cs : List α) : Prop :=
  ∃ c, c ∈ cs ∧ Sub base err c

/-- the builtin hierarchy as documented (library reference, "Exception hierarchy"): all
ancestors-or-self of each class -/
def ancestors : Cls → List Cls
  | .BaseException => [.BaseException]
  | .Exception => [.Exception, .BaseException]
  | .KeyboardInterrupt => [.KeyboardInterrupt, .BaseException]
  | .LookupError => [.LookupError, .Exception, .BaseException]
  | .ArithmeticError => [.ArithmeticError, .Exception, .BaseException]
  | .ValueError => [.ValueError, .Exception, .BaseException]
  | .KeyError => [.KeyError, .LookupError, .Exception, .BaseException]
  | .IndexError => [.IndexError, .LookupError, .Exception, .BaseException]
  | .ZeroDivisionError => [.ZeroDivisionError, .ArithmeticError, .Exception, .BaseException]
  | .OverflowError => [.OverflowError, .ArithmeticError, .Exception, .BaseException]
  | .RuntimeError => [.RuntimeError, .Exception, .BaseException]
  | .TypeError => [.TypeError, .Exception, .BaseException]

/-- executable form of `Catches` for the builtin classes -/
def catches (cs : List Cls) (err : Cls) : Bool := cs.any fun c => (ancestors err).contains c

/-! ## statement semantics -/

inductive Outcome
  | normal
  | brk
  | cont
  | ret (v : Int)
  | exc (c : Cls) (ln : Nat)    -- exception of class `c` raised by the statement on line `ln`
deriving DecidableEq, Repr, Inhabited

/-- Python truth value of what `__exit__` may return -/
def pyTruth : Val → Bool
  | .none => false
  | .bool b => b
  | .int n => !(n == 0)
  | .nil => false
  | _ => true

inductive Task
  | run (s : Stmt)
  | forLoop (h : Nat) (body orelse : Stmt)   -- the iteration of `for x in <iterator h>: body else: orelse`

/-- The exception being handled (`sys.exc_info()`, what a bare `raise` re-raises): class and
raising line, `none` outside every handler.  Python keeps it as a *stack discipline*: entering an
`except` clause body (or a `finally` body on the exception path) makes the caught exception the
handled one, and leaving that body by ANY route - falling off its end, `break`, `continue`,
`return`, or another exception - makes the previously handled exception current again.  In the
big-step semantics this is lexical scoping: `hd` is handed down, never returned. -/
abbrev Handled := Option (Cls × Nat)

/-- the class a `raise <form>` statement raises -/
def RaiseForm.cls : RaiseForm → Cls
  | .inst c _ => c
  | .from c _ => c
  | .nonExc _ => .TypeError      -- "exceptions must derive from BaseException"

/-- the handled exception inside a `finally` body: the exception the body is entered with on the
exception path, otherwise the one of the surrounding code -/
def finHd (hd : Handled) : Outcome → Handled
  | .exc c l => some (c, l)
  | _ => hd

/-- Big-step semantics with fuel (`none` = fuel exhausted; loops may run forever). -/
def execT {W} (P : Prims W) : Nat → Task → W → Handled → Option (W × Outcome)
  | 0, _, _, _ => none
  | f+1, .forLoop h b o, w, hd =>
    match P.itNext w h with
    | (w1, none) => execT P f (.run o) w1 hd
    | (w1, some _) =>
      match execT P f (.run b) w1 hd with
      | some (w2, .normal) => execT P f (.forLoop h b o) w2 hd
      | some (w2, .cont) => execT P f (.forLoop h b o) w2 hd
      | some (w2, .brk) => some (w2, .normal)
      | r => r
  | f+1, .run s, w, hd =>
    match s with
    | .skip => some (w, .normal)
    | .pass _ => some (w, .normal)
    | .ev ln i =>
      (match P.ev w i with
       | (w1, .val _) => some (w1, .normal)
       | (w1, .raise c) => some (w1, .exc c ln))
    | .ret ln i =>
      (match P.ev w i with
       | (w1, .val v) => some (w1, .ret v)
       | (w1, .raise c) => some (w1, .exc c ln))
    | .yieldS ln i =>
      -- the consumer receives the value; the generator goes on when it is asked for the next one
      (match P.ev w i with
       | (w1, .val v) => some (P.yielded w1 (.int v), .normal)
       | (w1, .raise c) => some (w1, .exc c ln))
    | .raise ln c => some (w, .exc c ln)
    | .reraise ln =>
      -- bare `raise`: the exception being handled, with its own traceback; none: RuntimeError here
      (match hd with
       | some (c, l) => some (w, .exc c l)
       | none => some (w, .exc .RuntimeError ln))
    | .raiseX ln fm => some (w, .exc fm.cls ln)
    | .brk _ => some (w, .brk)
    | .cont _ => some (w, .cont)
    | .seq a b =>
      (match execT P f (.run a) w hd with
       | some (w1, .normal) => execT P f (.run b) w1 hd
       | r => r)
    | .ifS ln i b o =>
      (match P.ev w i with
       | (w1, .raise c) => some (w1, .exc c ln)
       | (w1, .val v) => if v ≠ 0 then execT P f (.run b) w1 hd else execT P f (.run o) w1 hd)
    | .whileS ln i b o =>
      (match P.ev w i with
       | (w1, .raise c) => some (w1, .exc c ln)
       | (w1, .val v) =>
         if v ≠ 0 then
           match execT P f (.run b) w1 hd with
           | some (w2, .normal) => execT P f (.run (.whileS ln i b o)) w2 hd
           | some (w2, .cont) => execT P f (.run (.whileS ln i b o)) w2 hd
           | some (w2, .brk) => some (w2, .normal)
           | r => r
         else execT P f (.run o) w1 hd)
    | .forS _ i b o =>
      let r := P.itNew w i
      execT P f (.forLoop r.2 b o) r.1 hd
    | .tryF _ b fin =>
      (match execT P f (.run b) w hd with
       | none => none
       | some (w1, o1) =>
         -- on the exception path the finally body runs with that exception as the handled one
         match execT P f (.run fin) w1 (finHd hd o1) with
         | none => none
         | some (w2, .normal) => some (w2, o1)     -- the pending outcome is resumed
         | some (w2, o2) => some (w2, o2))         -- the finally body's own outcome replaces it
    | .tryE _ b m1 h1 m2 h2 o =>
      (match execT P f (.run b) w hd with
       | some (w1, .normal) => execT P f (.run o) w1 hd
       | some (w1, .exc c ln) =>
         -- the clause body runs with the caught exception as the handled one
         if catches m1.classes c then execT P f (.run h1) w1 (some (c, ln))
         else match m2 with
           | some m => if catches m.classes c then execT P f (.run h2) w1 (some (c, ln)) else some (w1, .exc c ln)
           | none => some (w1, .exc c ln)
       | r => r)
    | .withS _ i b =>
      let w1 := P.cmEnter w i
      (match execT P f (.run b) w1 hd with
       | none => none
       | some (w2, .exc c ln) =>
         let r := P.cmExit w2 i (some c)
         if pyTruth r.2 then some (r.1, .normal) else some (r.1, .exc c ln)
       | some (w2, o) => some ((P.cmExit w2 i none).1, o))

def execS {W} (P : Prims W) (fuel : Nat) (s : Stmt) (w : W) (hd : Handled := none) : Option (W × Outcome) :=
  execT P fuel (.run s) w hd

/-- how a call of the function ends -/
inductive Final
  | ret (v : Option Int)            -- returned value (`none` = `None`, the body fell off its end)
  | exc (c : Cls) (ln : Nat)        -- unhandled exception, raised on line `ln` of the function
  | stray                           -- `break`/`continue` escaping the body: excluded by `wf`
deriving DecidableEq, Repr, Inhabited

def Final.ofOutcome : Outcome → Final
  | .normal => .ret none
  | .ret v => .ret (some v)
  | .exc c ln => .exc c ln
  | .brk => .stray
  | .cont => .stray

def execFn {W} (P : Prims W) (fuel : Nat) (body : Stmt) (w : W) : Option (W × Final) :=
  match execS P fuel body w none with   -- a call starts with no exception being handled in the fragment
  | some (w1, o) => some (w1, Final.ofOutcome o)
  | none => none

/-- Python's SyntaxError rules for `break` and `continue`: `inLoop` = a loop body encloses the
statement; `inFin` = a `finally` body lies between the statement and that loop. -/
def wf : Bool → Bool → Stmt → Bool
  | _, _, .skip | _, _, .pass _ | _, _, .ev _ _ | _, _, .ret _ _ | _, _, .raise _ _ => true
  | _, _, .reraise _ | _, _, .raiseX _ _ | _, _, .yieldS _ _ => true
  | inLoop, _, .brk _ => inLoop
  | inLoop, inFin, .cont _ => inLoop && !inFin
  | l, fi, .seq a b => wf l fi a && wf l fi b
  | l, fi, .ifS _ _ b o => wf l fi b && wf l fi o
  | l, fi, .whileS _ _ b o => wf true false b && wf l fi o
  | l, fi, .forS _ _ b o => wf true false b && wf l fi o
  | l, fi, .tryF _ b f => wf l fi b && wf l true f
  | l, fi, .tryE _ b _ h1 _ h2 o => wf l fi b && wf l fi h1 && wf l fi h2 && wf l fi o
  | l, fi, .withS _ _ b => wf l fi b

/-! ## leaving k nested try/finally statements -/

/-- `s` inside k nested `try ... finally` statements, innermost finally body first -/
def wrapF (s : Stmt) : List (Nat × Stmt) → Stmt
  | [] => s
  | (ln, fin) :: rest => wrapF (.tryF ln s fin) rest

/-- the finally bodies `fins` (innermost first) run one after the other from world `w` to world `w'`,
each to a normal end; the first with fuel `f`, the next with `f + 1`, .. (what the nested `try`
statements hand them) -/
inductive FinChain {W} (P : Prims W) (hd : Handled) : Nat → List (Nat × Stmt) → W → W → Prop
  | nil (f : Nat) (w : W) : FinChain P hd f [] w w
  | cons {f : Nat} {ln : Nat} {fin : Stmt} {rest : List (Nat × Stmt)} {w w1 w2 : W} :
      execS P f fin w hd = some (w1, .normal) → FinChain P hd (f + 1) rest w1 w2 →
      FinChain P hd f ((ln, fin) :: rest) w w2

/-- test helper for the non-vacuity examples: the frame returned `v` in world `w` -/
def isRet : Option (Exit Nat) → Val → Nat → Bool
  | some (.ret v w), v', w' => v == v' && w == w'
  | _, _, _ => false

/-! ## Python's block-stack rule -/

/-- `Selects k why`: a block of kind `k` is where unwinding for reason `why` stops.
A loop block takes `break` and `continue`, a try/except block takes exceptions, a finally block
(also the one `with` sets up) takes every reason; an EXCEPT_HANDLER block takes nothing. -/
def Selects : BKind → Why → Bool
  | .loop, .brk => true
  | .loop, .cont => true
  | .except, .exception => true
  | .finally, _ => true
  | _, _ => false

/-- value stack cut down to its lowest `lvl` entries (what "restore the stack to the block's level" means) -/
def cutTo (lvl : Nat) (st : List Val) : List Val := st.drop (st.length - lvl)

/-- The state in which execution resumes when block `b` (with `rest` below it) takes the reason
`vm.why`; `S` = value stack when `b` is reached, `e` = the "exception being handled" at that moment.
* loop + continue : nothing is popped, jump to the loop start carried in `retval`
* loop + break    : block popped, stack restored, jump to the block's handler (after the loop)
* except/finally + exception : block replaced by an EXCEPT_HANDLER block; the previous handled
  exception (3 values) and the raised one (traceback, value, type) are pushed; the raised one
  becomes the handled exception, no exception is pending any more
* finally + anything else : block popped, the reason (and the return value / continue target
  if it has one) pushed for END_FINALLY -/
def resumeState {W} (vm : VM W) (b : Block) (rest : List Block) (S : List Val) (e : ExcInfo) : VM W :=
  let base := cutTo b.level S
  match b.kind, vm.why with
  | .loop, .cont =>
    { vm with why := .not, pc := (match vm.retval with | .int d => d.toNat | _ => 0),
              blocks := b :: rest, stack := S, exc := e }
  | .loop, _ => { vm with why := .not, pc := b.handler.toNat, blocks := rest, stack := base, exc := e }
  | _, .exception =>
    { vm with why := .not, pc := b.handler.toNat, blocks := ⟨.handler, -1, b.level⟩ :: rest,
              stack := typeVal vm.curexc.type :: vm.curexc.value :: .tb vm.curexc.tb ::
                       typeVal e.type :: e.value :: .tb e.tb :: base,
              exc := vm.curexc, curexc := {} }
  | _, _ =>
    { vm with why := .not, pc := b.handler.toNat, blocks := rest, exc := e,
              stack := .int vm.why.code :: (if vm.why = .ret ∨ vm.why = .cont then vm.retval :: base else base) }

/-! ## the handled exception as the machine keeps it -/

/-- the VM's record (`vm.exc`) of the handled exception `hd` -/
def hdInfo : Handled → ExcInfo
  | none => {}
  | some (c, l) => ⟨some c, .excv c, some [l]⟩

/-- the handled exception read back from the three values saved on the value stack when a handler
was entered (what POP_EXCEPT and the unwinding of an EXCEPT_HANDLER block restore) -/
def savedOf (a b c : Val) : ExcInfo := { type := a.asType, value := b, tb := c.asTb }

/-- the three values saved under an EXCEPT_HANDLER block of level `lvl` -/
def savedAt (lvl : Nat) (st : List Val) : ExcInfo :=
  match cutTo (lvl + 3) st with
  | a :: b :: c :: _ => savedOf a b c
  | _ => {}

/-- the handled exception after the blocks `pre` have been popped by the unwinding loop: every
EXCEPT_HANDLER block among them restores the one saved under it (stack discipline) -/
def excAfter : List Block → List Val → ExcInfo → ExcInfo
  | [], _, e => e
  | b :: pre, st, e => excAfter pre (cutTo b.level st) (if b.kind = .handler then savedAt b.level st else e)

/-! ## calls -/

/-- what a call may hand back to the calling frame: a result, or an exception with a class and a traceback -/
def CallOK : CallRes → Prop
  | .val v => v ≠ .nil
  | .exc e => e.isSet = true ∧ ∃ t, e.tb = some t

/-- the same outcome seen through calls on the lines `lns` (outermost first): a result is passed
up unchanged, an exception keeps its class and value and gets one traceback entry per call in front -/
def addCalls (lns : List Nat) : CallRes → CallRes
  | .val v => .val v
  | .exc e => .exc { e with tb := some (lns ++ e.tb.getD []) }

/-! ## line table -/

/-- the line in force at byte address `p`: the line of the last instruction (of positive size)
starting at or before `p`, never going backwards (`cur` = line before the stream) -/
def lineAtByte : List LInstr → Nat → Nat → Nat → Nat
  | [], _, cur, _ => cur
  | i :: is, off, cur, p =>
    if i.size = 0 then lineAtByte is off cur p
    else if off ≤ p then lineAtByte is (off + i.size) (max cur i.line) p
    else cur

/-- line numbers never decrease along the stream and start at `lo` or later -/
def LinesSorted : Nat → List LInstr → Prop
  | _, [] => True
  | lo, i :: is => lo ≤ i.line ∧ LinesSorted i.line is

end GPy.C02
