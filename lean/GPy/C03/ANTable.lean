/-
C03, regenerated tie for `(*SymTable).AnalyzeName` (symtable/symtable.go).

`Prog` is the abstract syntax of the straight-line/if-return fragment of Go that AnalyzeName is written
in: the ORDER of its tests on the def-use flags and on the sets `bound`/`global`, and the set operation
(Add / Discard / Contains on bound / local / free / global), scope assignment or SyntaxError each branch
performs.  `extract/symfacts` (go/ast) prints the function of the working tree as a `Prog` term into
`lean/GPy/C03/Generated/AnalyzeNameFacts.lean` on every run; `anTree` below is the decision sequence the
Lean model was written from; `interp` gives a `Prog` its meaning on the model's state `AN`.
Props.lean proves
  * `analyzeName_is_table`   : ∀ inputs, `AnalyzeName = run anTree`  (the model IS the table), and
  * `analyzeName_decision_pinned` : the table extracted from the code = `anTree` (by `decide`),
so a reordering of the tests or a dropped `Discard` in the Go code breaks a named obligation even when
no generated program distinguishes the two.
Core Lean only.
-/
import GPy.C03.Model
namespace GPy.C03

/-- the four `StringSet` parameters of AnalyzeName -/
inductive SetId | bound | loc | free | glob
deriving DecidableEq, Repr, Inhabited

/-- the `Def…` masks AnalyzeName tests (`DefBound = DefLocal | DefParam | DefImport`) -/
inductive FlagId | defGlobal | defLocal | defParam | defNonlocal | defUse | defFree | defFreeClass | defImport | defBound
deriving DecidableEq, Repr, Inhabited

inductive Cond
  | flag (f : FlagId)          -- `(flags & f) != 0`
  | isNil (s : SetId)          -- `s == nil`
  | notNil (s : SetId)         -- `s != nil`
  | has (s : SetId)            -- `s.Contains(name)`
  | nested                     -- `st.Nested`
  | not (c : Cond)             -- `!c`
  | and (a b : Cond)           -- `a && b`
  | unknown                    -- anything else (never equal to the model's table)
deriving DecidableEq, Repr, Inhabited

inductive Act
  | setScope (s : Scope)       -- `scopes[name] = Scope…`
  | add (s : SetId)            -- `s.Add(name)`
  | discard (s : SetId)        -- `s.Discard(name)`
  | panic (e : Err)            -- `st.panicSyntaxErrorLinenof(…)` with the message of `e`
  | setFree                    -- `st.Free = true`   (a field the model does not carry)
  | ret                        -- `return`
  | unknown                    -- any other statement
deriving DecidableEq, Repr, Inhabited

/-- statement sequences (first-statement / rest encoding): `ite c thn rest` is `if c { thn }; rest` -/
inductive Prog
  | done
  | act (a : Act) (rest : Prog)
  | ite (c : Cond) (thn : Prog) (rest : Prog)
deriving DecidableEq, Repr, Inhabited

/-- the three `Copy()` calls of AnalyzeChildBlock, in order, and the arguments it hands to AnalyzeBlock:
`(set copied, true)` = the copy is what AnalyzeBlock receives -/
abbrev CopyFacts := List (SetId × Bool)



/-! ## meaning of a `Prog` on the model's state -/

/-- what the tests of AnalyzeName look at besides the sets -/
structure ANCtx where
  name : Name
  flags : Flags
  nested : Bool

def FlagId.test (f : FlagId) (fl : Flags) : Bool :=
  match f with
  | .defGlobal => fl.glob | .defLocal => fl.loc | .defParam => fl.param | .defNonlocal => fl.nonloc
  | .defUse => fl.use | .defFree => fl.free | .defFreeClass => fl.freeClass | .defImport => fl.imp
  | .defBound => fl.bound

/-- a Go `StringSet` parameter: `bound` may be nil, the other three never are in the model -/
def setIsNil (s : AN) : SetId → Bool
  | .bound => s.bound.isNone
  | _ => false

def setHas (s : AN) (n : Name) : SetId → Bool
  | .bound => (match s.bound with | some b => b n | none => false)
  | .loc => s.loc n
  | .free => s.free n
  | .glob => s.glob n

def Cond.eval (c : Cond) (x : ANCtx) (s : AN) : Bool :=
  match c with
  | .flag f => f.test x.flags
  | .isNil i => setIsNil s i
  | .notNil i => !setIsNil s i
  | .has i => setHas s x.name i
  | .nested => x.nested
  | .not c => !c.eval x s
  | .and a b => a.eval x s && b.eval x s
  | .unknown => false

def setAdd (s : AN) (n : Name) : SetId → AN
  | .bound => { s with bound := s.bound.map (·.add n) }
  | .loc => { s with loc := s.loc.add n }
  | .free => { s with free := s.free.add n }
  | .glob => { s with glob := s.glob.add n }

def setDiscard (s : AN) (n : Name) : SetId → AN
  | .bound => { s with bound := s.bound.map (·.discard n) }
  | .loc => { s with loc := s.loc.discard n }
  | .free => { s with free := s.free.discard n }
  | .glob => { s with glob := s.glob.discard n }

/-- outcome of a statement sequence: it returned / panicked (`done`), or control reaches its end (`fall`) -/
inductive Outcome
  | done (r : Except Err AN)
  | fall (s : AN)

def Prog.exec (x : ANCtx) : Prog → AN → Outcome
  | .done, s => .fall s
  | .act a rest, s =>
    match a with
    | .setScope sc => rest.exec x { s with scopes := s.scopes.set x.name sc }
    | .add i => rest.exec x (setAdd s x.name i)
    | .discard i => rest.exec x (setDiscard s x.name i)
    | .panic e => .done (.error e)
    | .setFree => rest.exec x s            -- `st.Free` is not part of the model's state
    | .ret => .done (.ok s)
    | .unknown => rest.exec x s
  | .ite c thn rest, s =>
    if c.eval x s then
      (match thn.exec x s with
       | .done r => .done r
       | .fall s' => rest.exec x s')
    else rest.exec x s

/-- run a function body: falling off the end is a return -/
def Prog.run (p : Prog) (x : ANCtx) (s : AN) : Except Err AN :=
  match p.exec x s with
  | .done r => r
  | .fall s => .ok s

/-- the decision sequence the Lean model `AnalyzeName` was written from (symtable.go:561-620) -/
def anTree : Prog :=
  .ite (.flag .defGlobal)
    (.ite (.flag .defParam) (.act (.panic .paramAndGlobal) .done) <|
     .ite (.flag .defNonlocal) (.act (.panic .nonlocalAndGlobal) .done) <|
     .act (.setScope .globalExplicit) <| .act (.add .glob) <|
     .ite (.notNil .bound) (.act (.discard .bound) .done) <|
     .act .ret .done) <|
  .ite (.flag .defNonlocal)
    (.ite (.flag .defParam) (.act (.panic .paramAndNonlocal) .done) <|
     .ite (.isNil .bound) (.act (.panic .nonlocalAtModule) .done) <|
     .ite (.not (.has .bound)) (.act (.panic .noBindingNonlocal) .done) <|
     .act (.setScope .free) <| .act .setFree <| .act (.add .free) <| .act .ret .done) <|
  .ite (.flag .defBound)
    (.act (.setScope .local) <| .act (.add .loc) <| .act (.discard .glob) <| .act .ret .done) <|
  .ite (.and (.notNil .bound) (.has .bound))
    (.act (.setScope .free) <| .act .setFree <| .act (.add .free) <| .act .ret .done) <|
  .ite (.and (.notNil .glob) (.has .glob))
    (.act (.setScope .globalImplicit) <| .act .ret .done) <|
  .ite .nested (.act .setFree .done) <|
  .act (.setScope .globalImplicit) .done

/-- the `Copy()` calls the model's `analyzeForest` (= `analyzeForestG … true`) performs: sites 11, 12, 13 -/
def modelCopies : CopyFacts := [(.bound, true), (.free, true), (.glob, true)]

end GPy.C03
