/-
C03 case generator: scope trees → Python source, model analysis/run, spec analysis/run.
  * systematic part: every chain module ⊃ b1 ⊃ b2 (⊃ b3 in the thorough tier) of
    function/lambda/class/comprehension blocks × placement patterns of
    bind/use/global/nonlocal/del of one name around the nested block × parameter variants;
  * sibling families (added in round 2, after seeded change C03-a was missed): every parent block
    (module, function binding x before / after its children / by a parameter of each kind, class,
    function or class nested in a function that binds x) × every ORDERED pair (and triple) of child
    scopes, each child drawn independently from the full alphabet (def/class/lambda/comprehension ×
    use/bind/global/nonlocal/del sequences of x × a nested grandchild scope);
  * seeded random trees (nesting ≤ 3, ≤ 2–4 items per block, names x, y, abs, several
    children per block, all parameter kinds, duplicate parameters, `__class__`); a second profile
    ("dense") has one name and a scope-heavy mix so that blocks with 2–4 child scopes are the rule.

Tag `cpsens` marks a case on which the model WITHOUT `temp_bound := bound.Copy()` (`newSymTableNoCopy`)
differs from the model: the measured number of cases that see a callee write into a shared `bound` set.
-/
import GPy.C03.Spec
namespace GPy.C03

/-! ### rendering to Python -/

def indent (d : Nat) : String := String.ofList (List.replicate (2 * d) ' ')

def renderParam (p : Param) : String :=
  match p.kind with
  | .star => "*" ++ p.name
  | .dstar => "**" ++ p.name
  | _ => p.name ++ "=" ++ (match p.dflt with | some y => y | none => toString p.val)

def renderParams (ps : List Param) : String :=
  let pos := ps.filter (·.kind == .pos)
  let star := ps.filter (·.kind == .star)
  let kw := ps.filter (·.kind == .kwonly)
  let dstar := ps.filter (·.kind == .dstar)
  let parts := pos.map renderParam ++ star.map renderParam
    ++ (if star.isEmpty && !kw.isEmpty then ["*"] else []) ++ kw.map renderParam ++ dstar.map renderParam
  ", ".intercalate parts

def tupleOf (es : List String) : String :=
  match es with
  | [] => "()"
  | [e] => "(" ++ e ++ ",)"
  | _ => "(" ++ ", ".intercalate es ++ ")"

/-- body of a lambda / comprehension: a tuple of expressions -/
partial def renderExprs : Body → List String
  | .nil => []
  | .op (.use n) rest => ("p(" ++ n ++ ")") :: renderExprs rest
  | .op _ rest => "None" :: renderExprs rest
  | .child .lam _ ps body rest =>
    ("(lambda " ++ renderParams ps ++ ": " ++ tupleOf (renderExprs body) ++ ")()") :: renderExprs rest
  | .child .comp _ ps body rest =>
    let p := ps.headD {name := "t"}
    ("[" ++ tupleOf (renderExprs body) ++ " for " ++ p.name ++ " in (" ++
      (match p.dflt with | some y => y | none => toString p.val) ++ ",)]") :: renderExprs rest
  | .child _ _ _ _ rest => "None" :: renderExprs rest

def funcNames : Body → List Name
  | .nil => []
  | .op _ rest => funcNames rest
  | .child k name _ _ rest => (if k == .func then [name] else []) ++ funcNames rest

partial def renderStmts (d : Nat) (b : Body) (style : Nat := 0) : List String :=
  let rec go : Body → List String
    | .nil => []
    | .op (.bind n v) rest =>
      -- surface form of a binding occurrence (`Name` in Store context): assignment or `for` target
      (if style == 1 then indent d ++ "for " ++ n ++ " in (" ++ toString v ++ ",): pass"
       else indent d ++ n ++ " = " ++ toString v) :: go rest
    | .op (.use n) rest => (indent d ++ "p(" ++ n ++ ")") :: go rest
    | .op (.glob n) rest => (indent d ++ "global " ++ n) :: go rest
    | .op (.nonloc n) rest => (indent d ++ "nonlocal " ++ n) :: go rest
    | .op (.del n) rest => (indent d ++ "del " ++ n) :: go rest
    | .child .func name ps body rest =>
      [indent d ++ "def " ++ name ++ "(" ++ renderParams ps ++ "):"] ++ block body ++ [indent d ++ name ++ "()"] ++ go rest
    | .child .cls name _ body rest =>
      [indent d ++ "class " ++ name ++ ":"] ++ block body ++ go rest
    | c@(.child _ _ _ _ rest) =>
      (indent d ++ (renderExprs (match c with | .child k n ps b _ => .child k n ps b .nil | x => x)).headD "None") :: go rest
  go b ++ (funcNames b).map (fun f => indent d ++ f ++ "()")
where
  block (body : Body) : List String :=
    let ls := renderStmts (d + 1) body style
    if ls.isEmpty then [indent (d + 1) ++ "pass"] else ls

def render (b : Body) (style : Nat := 0) : String :=
  let ls := renderStmts 0 b style
  "\\n".intercalate (if ls.isEmpty then ["pass"] else ls)

/-! ### canonical dumps (must agree with harness/c03.go) -/

def hiddenV (n : Name) : Bool := n.startsWith "." || n.startsWith "_["

def Scope.letter : Scope → String
  | .invalid => "?" | .local => "L" | .globalExplicit => "GE" | .globalImplicit => "GI" | .free => "F" | .cell => "C"

def Cls.letter : Cls → String
  | .local => "L" | .cell => "C" | .free => "F" | .globalExplicit => "GE" | .globalImplicit => "GI"

def BlockType.letter : BlockType → String
  | .function => "F" | .cls => "C" | .module => "M"

partial def dumpV (U : List Name) : Forest → String
  | .nil => ""
  | .node st kids sibs =>
    let names := sortNames (U.filter fun n => (st.syms n).isSome && !hiddenV n)
    let ents := names.map fun n => n ++ "=" ++
      (if st.typ == .module then "G" else match st.syms n with | some s => s.scope.letter | none => "?")
    " " ++ st.typ.letter ++ ":" ++ st.name ++ "{" ++ ",".intercalate ents ++ dumpV U kids ++ "}" ++ dumpV U sibs

partial def dumpR (U : List Name) : Forest → String
  | .nil => ""
  | .node st kids sibs =>
    let names := sortNames (U.filter fun n => (st.syms n).isSome)
    let ents := names.map fun n => match st.syms n with
      | some s => n ++ "=" ++ toString s.flags.toNat ++ ":" ++ s.scope.letter
      | none => n
    " " ++ st.name ++ "{" ++ ",".intercalate ents ++ ";" ++ ",".intercalate st.varnames ++
      (if st.needsClassClosure then ";ncc" else "") ++ dumpR U kids ++ "}" ++ dumpR U sibs

partial def sdumpV (U : List Name) : SForest → String
  | .nil => ""
  | .node kind name cls kids sibs =>
    let names := sortNames (U.filter fun n => (cls n).isSome && !hiddenV n)
    let ents := names.map fun n => n ++ "=" ++
      (if kind == none then "G" else match cls n with | some c => c.letter | none => "?")
    let t := match kind with | none => "M" | some .cls => "C" | some _ => "F"
    " " ++ t ++ ":" ++ name ++ "{" ++ ",".intercalate ents ++ sdumpV U kids ++ "}" ++ sdumpV U sibs

/-- the reversed iteration order at every range site (a self-check of the model) -/
def Order.rev : Order := ⟨fun _ _ l => l.reverse⟩
def Order.rot : Order := ⟨fun p s l => l.rotateLeft (p.length + s + 1)⟩

def bodyKinds : Body → List Kind
  | .nil => []
  | .op _ rest => bodyKinds rest
  | .child k _ _ body rest => k :: (bodyKinds body ++ bodyKinds rest)

def bodyOps : Body → List NOp
  | .nil => []
  | .op o rest => o :: bodyOps rest
  | .child _ _ _ body rest => bodyOps body ++ bodyOps rest

def hasSub (s sub : String) : Bool := (s.splitOn sub).length > 1

/-- number of child scopes directly in this body -/
def kidCount : Body → Nat
  | .nil => 0
  | .op _ rest => kidCount rest
  | .child _ _ _ _ rest => kidCount rest + 1

/-- the largest number of child scopes of any block -/
def maxKids : Body → Nat
  | .nil => 0
  | .op _ rest => maxKids rest
  | .child k n ps body rest => max (max (maxKids body) (kidCount (.child k n ps body rest))) (maxKids rest)

def mkCase (b : Body) (extraTags : List String := []) (style : Nat := 0) : Case :=
  let U := namesOf b
  let src := render b style
  let m := newSymTable Order.id b
  let (mV, mR) := match m with
    | .error _ => ("E:SyntaxError", "-")
    | .ok t =>
      let v := ((dumpV U t).drop 1).toString
      let r := ((dumpR U t).drop 1).toString
      -- model self-check: other iteration orders must give the same tables
      let same := [Order.rev, Order.rot].all fun σ => match newSymTable σ b with
        | .ok t' => ((dumpR U t').drop 1).toString == r
        | .error _ => false
      if same then (v ++ " # " ++ runResult U b t, r) else ("MODEL-ORDER-DEPENDENT " ++ v, r)
  let mV := match m with
    | .error _ => if [Order.rev, Order.rot].all (fun σ => match newSymTable σ b with | .error _ => true | .ok _ => false)
                  then mV else "MODEL-ORDER-DEPENDENT-ERROR"
    | .ok _ => mV
  let sV := match specAnalyze b with
    | .error _ => "E:SyntaxError"
    | .ok t => ((sdumpV U t).drop 1).toString ++ " # " ++ specRunResult U b t
  let ks := bodyKinds b
  let ops := bodyOps b
  let cpsens := match m, newSymTableNoCopy Order.id b with
    | .ok t, .ok t' => dumpR U t != dumpR U t'
    | .ok _, .error _ => true
    | .error _, .ok _ => true
    | .error _, .error _ => false
  let tags := extraTags ++ (if cpsens then ["cpsens"] else []) ++ (if maxKids b ≥ 2 then ["sibs"] else []) ++
    (if sV == "E:SyntaxError" then ["syn"] else []) ++
    (if hasSub sV "=C" then ["cell"] else []) ++
    (if hasSub sV "=F" then ["free"] else []) ++
    (if hasSub sV "=GE" then ["ge"] else []) ++
    (if hasSub sV "NameError" then ["nameerr"] else []) ++
    (if hasSub sV "UnboundLocal" then ["unbound"] else []) ++
    (if ks.contains .cls then ["class"] else []) ++
    (if ks.contains .comp then ["comp"] else []) ++
    (if ks.contains .lam then ["lambda"] else []) ++
    (if ops.any (fun o => match o with | .nonloc _ => true | _ => false) then ["nonlocal"] else []) ++
    (if ops.any (fun o => match o with | .glob _ => true | _ => false) then ["global"] else []) ++
    (if ops.any (fun o => match o with | .del _ => true | _ => false) then ["del"] else []) ++
    ["depth" ++ toString (let rec dp : Body → Nat
        | .nil => 0 | .op _ r => dp r | .child _ _ _ b r => max (dp b + 1) (dp r)
      dp b)]
  let nt := tags.any fun t => t == "syn" || t == "cell" || t == "free" || t == "ge" || t == "nameerr" || t == "unbound"
  { input := src, modelV := mV, modelR := mR, specV := sV, tags := (if nt then ["nt"] else []) ++ tags }

/-! ### systematic chains -/

/-- placement pattern of one name around the nested block: operations before / after it -/
structure Pat where
  pre : List (Name → Nat → NOp)
  post : List (Name → Nat → NOp)
deriving Inhabited

def oBind : Name → Nat → NOp := fun n v => .bind n v
def oUse : Name → Nat → NOp := fun n _ => .use n
def oGlob : Name → Nat → NOp := fun n _ => .glob n
def oNonl : Name → Nat → NOp := fun n _ => .nonloc n
def oDel : Name → Nat → NOp := fun n _ => .del n

def stmtPats : Array Pat := #[
  ⟨[], []⟩, ⟨[oBind], []⟩, ⟨[], [oBind]⟩, ⟨[oUse], []⟩, ⟨[], [oUse]⟩, ⟨[oBind], [oUse]⟩,
  ⟨[oBind, oUse], [oBind]⟩, ⟨[oGlob], []⟩, ⟨[oGlob, oBind], [oUse]⟩, ⟨[oNonl], []⟩,
  ⟨[oNonl, oBind], []⟩, ⟨[oNonl], [oUse]⟩, ⟨[oBind], [oDel]⟩, ⟨[oDel], []⟩,
  ⟨[oBind], [oGlob]⟩, ⟨[oUse], [oNonl]⟩, ⟨[oBind, oDel], [oUse]⟩, ⟨[oGlob], [oDel]⟩, ⟨[oNonl], [oDel]⟩,
  ⟨[oBind], [oNonl]⟩, ⟨[oUse], [oGlob]⟩ ]

def exprPats : Array Pat := #[ ⟨[], []⟩, ⟨[oUse], []⟩, ⟨[], [oUse]⟩ ]

/-- parameter variants for a function / lambda over the name `x` -/
def paramVariants (x : Name) : Array (List Param) := #[
  [], [{ name := x, val := 90 }], [{ name := x, dflt := some x }], [{ name := x, kind := .star }],
  [{ name := "a", dflt := some x }], [{ name := x, kind := .kwonly, val := 91 }], [{ name := x, kind := .dstar }],
  [{ name := x, val := 92 }, { name := x, val := 93 }] ]

def compVariants (x : Name) : Array (List Param) := #[
  [{ name := "t", val := 70 }], [{ name := x, val := 71 }], [{ name := "t", dflt := some x }], [{ name := x, dflt := some x }] ]

def seqOps (ops : List (Name → Nat → NOp)) (x : Name) (ctr : Nat) (rest : Body) : Body × Nat :=
  ops.foldr (fun o (acc : Body × Nat) => (.op (o x acc.2) acc.1, acc.2 + 1)) (rest, ctr)

/-- a block spec of the chain: kind, parameters, pattern -/
structure Level where
  kind : Kind
  ps : List Param
  pat : Pat
deriving Inhabited

/-- the chain of nested blocks as a function of what follows it in the enclosing body -/
def buildLevels (x : Name) : List Level → Nat → Body → Body
  | [], _ => id
  | l :: more, idx => fun rest =>
    let (post, _) := seqOps l.pat.post x (100 * idx + 50) .nil
    let mid := buildLevels x more (idx + 1) post
    let (bodyB, _) := seqOps l.pat.pre x (100 * idx + 10) mid
    .child l.kind ((if l.kind == .cls then "C" else "f") ++ toString idx) l.ps bodyB rest

/-- module body: the `top` pattern around the chain of levels -/
def buildChain (x : Name) (top : Pat) (levels : List Level) : Body :=
  let (post, _) := seqOps top.post x 50 .nil
  (seqOps top.pre x 10 (buildLevels x levels 1 post)).1

def emit (c : Case) : IO Unit := IO.println c.line

def levelChoices (x : Name) (exprCtx : Bool) (spi : List Nat) (pvi : List Nat) : List Level := Id.run do
  let mut out : List Level := []
  if !exprCtx then
    for i in spi do
      for j in pvi do
        out := ⟨.func, (paramVariants x)[j]!, stmtPats[i]!⟩ :: out
      out := ⟨.cls, [], stmtPats[i]!⟩ :: out
  for i in [0, 1, 2] do
    for j in pvi do
      if j < 5 then out := ⟨.lam, (paramVariants x)[j]!, exprPats[i]!⟩ :: out
    for j in [0, 1, 2, 3] do
      if pvi.contains j then out := ⟨.comp, (compVariants x)[j]!, exprPats[i]!⟩ :: out
  return out.reverse

def isExprKind (k : Kind) : Bool := k == .lam || k == .comp

/-! ### sibling families: a parent block with 2 or 3 child scopes in every order -/

/-- a child scope as a function of the name, its index and what follows it in the parent -/
abbrev KidF := Name → Nat → Body → Body

def kid (k : Kind) (ps : Name → List Param) (pre : List (Name → Nat → NOp))
    (inner : Option KidF := none) (post : List (Name → Nat → NOp) := []) : KidF :=
  fun x idx rest =>
    let (postB, _) := seqOps post x (100 * idx + 50) .nil
    let mid := match inner with | some f => f x (idx * 10 + 1) postB | none => postB
    let (body, _) := seqOps pre x (100 * idx + 10) mid
    .child k ((if k == .cls then "C" else "f") ++ toString idx) (ps x) body rest

def noPs : Name → List Param := fun _ => []
def compT : Name → List Param := fun _ => [{ name := "t", val := 70 }]

/-- the statement-level operation sequences a child scope may consist of (one name) -/
def kidSeqs : Array (List (Name → Nat → NOp)) := #[
  [], [oUse], [oBind], [oGlob], [oGlob, oBind], [oGlob, oUse], [oNonl], [oNonl, oBind], [oNonl, oUse],
  [oDel], [oBind, oUse], [oUse, oBind], [oGlob, oBind, oUse], [oGlob, oDel], [oNonl, oDel], [oBind, oGlob],
  [oBind, oNonl], [oUse, oGlob], [oUse, oNonl] ]

/-- the child alphabet.  `level` 0: small (triples in quick), 1: quick pairs, 2: thorough -/
def kidAlphabet (level : Nat) : List KidF := Id.run do
  let seqIdx : List Nat := if level == 0 then [1, 4, 7] else if level == 1 then [0, 1, 2, 3, 4, 5, 6, 7, 8, 9, 10]
                           else List.range kidSeqs.size
  let mut out : List KidF := []
  for i in seqIdx do
    out := kid .func noPs kidSeqs[i]! :: out
  if level == 1 then out := kid .func noPs kidSeqs[16]! :: out   -- assignment before `nonlocal`
  for i in (if level == 0 then [1, 3] else seqIdx) do
    out := kid .cls noPs kidSeqs[i]! :: out
  -- expression scopes
  out := kid .lam noPs [oUse] :: kid .comp compT [oUse] :: out
  if level ≥ 1 then
    out := kid .lam noPs [] :: kid .lam (fun x => [{ name := x, val := 90 }]) [oUse]
      :: kid .lam (fun x => [{ name := "a", dflt := some x }]) [oUse]
      :: kid .comp (fun x => [{ name := x, val := 71 }]) [oUse] :: kid .comp (fun x => [{ name := "t", dflt := some x }]) [oUse] :: out
    -- parameters of every kind as binders, defaults that read the name
    out := kid .func (fun x => [{ name := x, val := 90 }]) [oUse] :: kid .func (fun x => [{ name := "a", dflt := some x }]) [oUse]
      :: kid .func (fun x => [{ name := x, kind := .star }]) [oUse] :: kid .func (fun x => [{ name := x, kind := .kwonly, val := 91 }]) [oUse]
      :: kid .func (fun x => [{ name := x, kind := .dstar }]) [oUse] :: out
  -- a scope nested in the child
  out := kid .func noPs [] (some (kid .func noPs [oUse])) :: out
  if level ≥ 1 then
    out := kid .func noPs [] (some (kid .func noPs [oNonl, oBind])) :: kid .func noPs [] (some (kid .func noPs [oGlob, oBind]))
      :: kid .func noPs [] (some (kid .lam noPs [oUse])) :: kid .func noPs [oGlob] (some (kid .func noPs [oUse]))
      :: kid .func noPs [oBind] (some (kid .func noPs [oUse]))
      -- class bodies whose methods / comprehensions use the name the class body binds
      :: kid .cls noPs [] (some (kid .func noPs [oUse])) :: kid .cls noPs [oBind] (some (kid .func noPs [oUse])) [oUse]
      :: kid .cls noPs [oBind] (some (kid .comp compT [oUse])) :: kid .cls noPs [oGlob, oBind] (some (kid .func noPs [oUse]))
      :: kid .cls noPs [oBind] (some (kid .func noPs [oNonl, oBind])) :: kid .cls noPs [oUse] (some (kid .lam noPs [oUse])) :: out
  if level ≥ 2 then
    out := kid .func noPs [] (some (kid .cls noPs [oUse])) :: kid .func noPs [] (some (kid .comp compT [oUse]))
      :: kid .func noPs [oNonl] (some (kid .func noPs [oUse])) :: kid .cls noPs [oNonl] (some (kid .func noPs [oUse]))
      :: kid .cls noPs [oBind] (some (kid .cls noPs [oUse])) :: kid .cls noPs [] (some (kid .comp (fun x => [{ name := x, val := 72 }]) [oUse])) [oUse]
      :: kid .func (fun x => [{ name := x, val := 92 }]) [] (some (kid .func noPs [oNonl, oBind])) [oUse] :: out
  return out.reverse

/-- a parent: the block whose children the siblings are, as a function of the children -/
abbrev ParF := Name → (Body → Body) → Body

def parModule (top : List (Name → Nat → NOp)) : ParF := fun x kids => (seqOps top x 10 (kids .nil)).1

/-- `chain` = enclosing blocks of the parent, outermost first: (kind, params, ops before the nested block) -/
def parNest (top : List (Name → Nat → NOp)) (chain : List (Kind × (Name → List Param) × List (Name → Nat → NOp)))
    (post : List (Name → Nat → NOp)) : ParF := fun x kids =>
  let rec go : List (Kind × (Name → List Param) × List (Name → Nat → NOp)) → Nat → Body
    | [], _ => .nil
    | [(k, ps, pre)], idx =>
      let (postB, _) := seqOps post x (1000 * idx + 50) .nil
      .child k ((if k == .cls then "K" else "g") ++ toString idx) (ps x) (seqOps pre x (1000 * idx + 10) (kids postB)).1 .nil
    | (k, ps, pre) :: more, idx =>
      .child k ((if k == .cls then "K" else "g") ++ toString idx) (ps x) (seqOps pre x (1000 * idx + 10) (go more (idx + 1))).1 .nil
  (seqOps top x 10 (go chain 1)).1

/-- the parents.  `level` 0: triples in quick, 1: quick pairs, 2: thorough -/
def parents (level : Nat) : List ParF := Id.run do
  let f (ps : Name → List Param) (pre : List (Name → Nat → NOp)) := ((Kind.func, ps, pre) : Kind × (Name → List Param) × List (Name → Nat → NOp))
  let c (pre : List (Name → Nat → NOp)) := ((Kind.cls, noPs, pre) : Kind × (Name → List Param) × List (Name → Nat → NOp))
  let mut out : List ParF := [
    parNest [oBind] [f noPs [oBind]] [],                              -- x = 10; def g1(): x = ..; <kids>
    parNest [] [f (fun x => [{ name := x, val := 95 }]) []] [],       -- def g1(x=95): <kids>
    parNest [oBind] [c [oBind]] [oUse],                               -- class K1: x = ..; <kids>; p(x)
    parNest [] [f noPs [oBind], f noPs []] [] ]                       -- def g1(): x = ..; def g2(): <kids>
  if level ≥ 1 then
    out := out ++ [
      parModule [], parModule [oBind],
      parNest [] [f noPs [oBind]] [],
      parNest [oBind] [f noPs []] [oBind],                            -- bound after the children
      parNest [oBind] [f (fun x => [{ name := x, kind := .star }]) []] [],
      parNest [oBind] [f (fun x => [{ name := x, kind := .kwonly, val := 96 }]) []] [],
      parNest [oBind] [f (fun x => [{ name := x, kind := .dstar }]) []] [],
      parNest [oBind] [f noPs [oBind], c []] [],                      -- def g1(): x = ..; class K2: <kids>
      parNest [oBind] [f noPs [oUse]] [] ]                            -- the parent only uses x
  if level ≥ 2 then
    out := out ++ [
      parNest [oBind] [f (fun x => [{ name := "a", dflt := some x }]) [oBind]] [oUse],
      parNest [oBind] [f noPs [oGlob, oBind]] [],
      parNest [oBind] [f noPs [oBind], f noPs [oNonl]] [oBind],
      parNest [] [f noPs [oBind], c [oBind]] [oUse],
      parNest [oBind] [c [oBind], f noPs []] [],
      parNest [] [f noPs [oBind]] [oDel],
      parNest [] [c []] [] ]
  return out

/-- all ordered `n`-tuples of children for every parent -/
def genFamilies (x : Name) (pars : List ParF) (alpha : List KidF) (n : Nat) (tag : String) : IO Unit := do
  let rec tuples : Nat → List (List KidF)
    | 0 => [[]]
    | k + 1 => (tuples k).flatMap fun t => alpha.map fun a => a :: t
  for par in pars do
    for t in tuples n do
      let kids : Body → Body := fun rest =>
        (t.foldr (fun (a : KidF) (acc : Body × Nat) => (a x acc.2 acc.1, acc.2 - 1)) (rest, t.length + 1)).1
      emit (mkCase (par x kids) [tag])


/-! ### outer-declaration chains (round 3): a chain of nested blocks of depth ≤ 4 in which every level draws its
operations on the one name independently from the level alphabet (nothing / bind / `global` / `global`+bind /
`nonlocal` / use / parameter / bind+del / declaration AFTER the nested block …), the innermost block is a reader,
and ONE extra sibling scope (a function or class that declares `global x`, binds x, or only reads it) stands
before or after the chain's block at any one level (module level included: `AddDef` marks the MODULE symbol
DefGlobal for a `global x` anywhere below).  The resolution of the reader must depend on its chain only. -/

structure Lv where
  kind : Kind
  ps : Name → List Param := fun _ => []
  pre : List (Name → Nat → NOp) := []
  post : List (Name → Nat → NOp) := []

def Lv.isExpr (l : Lv) : Bool := isExprKind l.kind

/-- the level alphabet (statement context) -/
def lvStmt (level : Nat) : List Lv :=
  [ { kind := .func }, { kind := .func, pre := [oBind] }, { kind := .func, pre := [oGlob] },
    { kind := .func, pre := [oGlob, oBind] }, { kind := .func, pre := [oNonl] }, { kind := .func, pre := [oUse] },
    { kind := .func, ps := fun x => [{ name := x, val := 90 }] }, { kind := .func, post := [oBind] },
    { kind := .cls }, { kind := .cls, pre := [oBind] }, { kind := .cls, pre := [oGlob] },
    { kind := .lam, ps := fun x => [{ name := x, val := 91 }] }, { kind := .comp, ps := fun x => [{ name := x, val := 71 }] } ] ++
  (if level ≥ 2 then
    [ { kind := .func, pre := [oBind], post := [oDel] }, { kind := .func, pre := [oNonl, oBind] },
      { kind := .func, ps := fun x => [{ name := x, kind := .star }] }, { kind := .func, ps := fun x => [{ name := "a", dflt := some x }] },
      { kind := .cls, pre := [oGlob, oBind] }, { kind := .cls, pre := [oNonl] }, { kind := .lam }, { kind := .comp, ps := compT },
      { kind := .func, pre := [oBind, oDel] }, { kind := .func, pre := [oGlob], post := [oBind] } ] else [])

/-- the level alphabet inside a lambda / comprehension -/
def lvExpr : List Lv :=
  [ { kind := .lam }, { kind := .lam, ps := fun x => [{ name := x, val := 92 }] },
    { kind := .comp, ps := compT }, { kind := .comp, ps := fun x => [{ name := x, val := 72 }] } ]

/-- the innermost block: a scope that merely reads the name (or re-declares it) -/
def lvReaders (exprCtx : Bool) (level : Nat) : List Lv :=
  (if exprCtx then [] else
    [ { kind := .func, pre := [oUse] }, { kind := .cls, pre := [oUse] } ] ++
    (if level ≥ 1 then [ { kind := .func, pre := [oNonl, oUse] }, { kind := .func, pre := [oUse], post := [oUse] } ] else [])) ++
  [ { kind := .lam, pre := [oUse] }, { kind := .comp, ps := compT, pre := [oUse] } ]

/-- the extra sibling scopes -/
def gSibs (level : Nat) : List KidF :=
  [ kid .func noPs [oGlob], kid .func noPs [oGlob, oBind], kid .func noPs [oBind], kid .cls noPs [oGlob] ] ++
  (if level ≥ 2 then [ kid .func noPs [oUse], kid .func noPs [oGlob] (some (kid .func noPs [oUse])),
                       kid .func noPs [oBind] (some (kid .func noPs [oNonl, oBind])) ] else [])

/-- the chain `levels` (outermost first) followed by `rest`; `sib = (depth, after?, scope)`: the extra sibling stands in the
body that contains the block of level `depth` (0 = module), before or after it -/
def gNest (x : Name) (sib : Option (Nat × Bool × KidF)) : List Lv → Nat → Body → Body
  | [], _, rest => rest
  | l :: more, idx, rest =>
    let here : Option (Bool × KidF) := match sib with
      | some (d, after, s) => if d + 1 == idx then some (after, s) else none
      | none => none
    let rest' := match here with | some (true, s) => s x (idx * 10 + 7) rest | _ => rest
    let (postB, _) := seqOps l.post x (100 * idx + 50) .nil
    let mid := gNest x sib more (idx + 1) postB
    let (body, _) := seqOps l.pre x (100 * idx + 10) mid
    let me := Body.child l.kind ((if l.kind == .cls then "C" else "f") ++ toString idx) (l.ps x) body rest'
    match here with | some (false, s) => s x (idx * 10 + 5) me | _ => me

/-- module-level patterns around the chain -/
def gTops : List Pat := [ ⟨[], []⟩, ⟨[oBind], []⟩, ⟨[oGlob], []⟩, ⟨[oGlob, oBind], []⟩, ⟨[], [oBind]⟩ ]

/-- all chains of `depth` levels (the last one a reader) × tops × sibling placements; every `stride`-th one is emitted
(offset `off`), the others are skipped: quick samples the space the thorough tier enumerates -/
def genGChains (x : Name) (depth : Nat) (level : Nat) (stride off : Nat) (styles : List Nat) : IO Unit := do
  -- the chains (without the reader), as lists of levels, expression context respected
  let rec chains : Nat → Bool → List (List Lv)
    | 0, _ => [[]]
    | k + 1, exprCtx =>
      (if exprCtx then lvExpr else lvStmt level).flatMap fun l =>
        (chains k l.isExpr).map fun c => l :: c
  let mut ctr := 0
  for top in gTops do
    for c in chains (depth - 1) false do
      let lastExpr := match c.getLast? with | some l => l.isExpr | none => false
      for r in lvReaders lastExpr level do
        let lv := c ++ [r]
        -- sibling placements: none, or one sibling in the body of any statement-context level
        let mut places : List (Option (Nat × Bool × KidF)) := [none]
        for d in List.range depth do
          let parentExpr := if d == 0 then false else (match lv[d - 1]? with | some l => l.isExpr | none => false)
          if !parentExpr then
            for s in gSibs level do
              places := places ++ [some (d, false, s), some (d, true, s)]
        for pl in places do
          ctr := ctr + 1
          if (ctr + off) % stride == 0 then
            let (post, _) := seqOps top.post x 50 .nil
            let b := (seqOps top.pre x 10 (gNest x pl lv 1 post)).1
            let style := styles[(ctr / stride) % styles.length]!
            emit (mkCase b (["gchain", "gd" ++ toString depth] ++ (if style != 0 then ["forstyle"] else [])) style)

/-! ### random trees -/

structure GenSt where
  r : Rng
  ctr : Nat := 1

def GenSt.nat (g : GenSt) (n : Nat) : GenSt × Nat := let (r, v) := g.r.nat n; ({ g with r := r }, v)
def GenSt.fresh (g : GenSt) : GenSt × Nat := ({ g with ctr := g.ctr + 1 }, g.ctr)

def pickName (g : GenSt) (names : Array Name) : GenSt × Name :=
  let (g, i) := g.nat names.size
  (g, names[i]!)

def genParams (g : GenSt) (names : Array Name) : GenSt × List Param := Id.run do
  let (g0, n) := g.nat 8
  let mut g := g0
  let cnt := if n < 3 then 0 else if n < 6 then 1 else if n < 7 then 2 else 3
  let mut ps : List Param := []
  let mut haveStar := false
  let mut haveDstar := false
  for _ in [0:cnt] do
    let (g1, nm) := pickName g (names.push "a")
    let (g2, k) := g1.nat 10
    let (g3, d) := g2.nat 10
    let (g4, dn) := pickName g3 names
    let (g5, v) := g4.fresh
    g := g5
    let kind : PKind := if k < 6 then .pos else if k < 8 then .kwonly else if k < 9 then (if haveStar then .pos else .star)
                        else (if haveDstar then .pos else .dstar)
    if kind == .star then haveStar := true
    if kind == .dstar then haveDstar := true
    ps := ps ++ [{ name := nm, kind := kind, dflt := if kind == .pos && d < 3 then some dn else none, val := v }]
  return (g, ps)

partial def genBody (g : GenSt) (names : Array Name) (depth : Nat) (exprCtx : Bool) (inClass : Bool) (dense : Bool := false) : GenSt × Body := Id.run do
  let (g0, cnt0) := g.nat 5
  let cnt := if dense && cnt0 < 2 && depth < 2 then cnt0 + 2 else cnt0
  let mut g := g0
  let mut items : List (Body → Body) := []
  for _ in [0:cnt] do
    let (g1, c) := g.nat 100
    g := g1
    if c < (if dense then 52 else 34) && depth < 3 then
      -- a nested block
      let (g2, kk) := g.nat 100
      let kind : Kind := if exprCtx then (if kk < 50 then .lam else .comp)
                         else if kk < 45 then .func else if kk < 70 then .cls else if kk < 85 then .lam else .comp
      let (g3, id) := g2.fresh
      g := g3
      let nm := (if kind == .cls then "C" else "f") ++ toString id
      if kind == .comp then
        let (g4, t) := pickName g (names.push "t")
        let (g5, d) := g4.nat 10
        let (g6, dn) := pickName g5 names
        let (g7, v) := g6.fresh
        let (g8, body) := genBody g7 names (depth + 1) true false dense
        g := g8
        let p : Param := { name := t, dflt := if d < 4 then some dn else none, val := v }
        items := items ++ [fun rest => .child kind nm [p] body rest]
      else
        let (g4, ps) := if kind == .cls then (g, []) else genParams g names
        let (g5, body) := genBody g4 names (depth + 1) (isExprKind kind) (kind == .cls) dense
        g := g5
        items := items ++ [fun rest => .child kind nm ps body rest]
    else
      let nms := if inClass || depth ≥ 2 then names.push "__class__" else names
      let (g2, n) := pickName g (if exprCtx then nms else names)
      let (g3, o) := g2.nat 100
      let (g4, v) := g3.fresh
      g := g4
      let op : NOp := if exprCtx then .use n
        else if dense then
          (if o < 38 then .use n else if o < 62 then .bind n v else if o < 66 then .del n
           else if o < 84 then .glob n else .nonloc n)
        else if o < 34 then .use n else if o < 64 then .bind n v else if o < 74 then .del n
        else if o < 87 then .glob n else .nonloc n
      let op := match op with
        | .use m => if !exprCtx && depth ≥ 1 && o < 3 then NOp.use "__class__" else .use m
        | other => other
      items := items ++ [fun rest => .op op rest]
  return (g, items.foldr (fun f acc => f acc) .nil)

def genMain (tier : String) (seed : Nat) : IO Unit := do
  let thorough := tier == "thorough"
  let x := "x"
  -- hand-picked programs (the property's named cases)
  let closures : Body :=
    .child .func "f1" [] (
      .op (.bind "x" 1) <| .child .func "f2" [] (.op (.nonloc "x") <| .op (.bind "x" 2) .nil) <|
      .child .func "f3" [] (.op (.use "x") .nil) <| .op (.bind "x" 3) .nil) .nil
  emit (mkCase closures)
  let defaults : Body :=
    .op (.bind "x" 1) <| .child .func "f1" [{ name := "a", dflt := some "x" }] (.op (.use "a") <| .op (.use "x") .nil) <|
    .op (.bind "x" 2) .nil
  emit (mkCase defaults)
  -- a class body's own `__class__` is an ordinary (global) name even when a method needs the implicit cell
  let classCell : Body :=
    .op (.bind "__class__" 5) <| .child .cls "C1" [] (
      .op (.use "__class__") <| .child .func "f2" [] (.op (.use "__class__") .nil) .nil) .nil
  emit (mkCase classCell)
  -- one cell shared by two closures, rebinding after the closures were created
  let shared : Body :=
    .child .func "f1" [{ name := "x", val := 7 }] (
      .child .func "f2" [] (.op (.use "x") .nil) <|
      .child .func "f3" [] (.op (.nonloc "x") <| .op (.bind "x" 8) .nil) <|
      .op (.use "x") <| .op (.bind "x" 9) .nil) .nil
  emit (mkCase shared)
  -- systematic chains over one name
  let spiTop : List Nat := if thorough then List.range stmtPats.size else [0, 1, 5, 6, 8]
  let spi1 : List Nat := if thorough then List.range stmtPats.size else [0, 1, 3, 5, 6, 7, 8, 9, 10, 12, 14, 16, 19]
  let spi2 : List Nat := if thorough then List.range stmtPats.size else [0, 1, 3, 4, 7, 8, 9, 10, 11, 13, 15, 19, 20]
  let pv1 : List Nat := if thorough then List.range 8 else [0, 1, 2, 4]
  let pv2 : List Nat := if thorough then [0, 1, 2, 3, 4, 5, 7] else [0, 1, 3]
  for ti in spiTop do
    let top := stmtPats[ti]!
    emit (mkCase (buildChain x top []))
    for l1 in levelChoices x false spi1 pv1 do
      emit (mkCase (buildChain x top [l1]))
      for l2 in levelChoices x (isExprKind l1.kind) spi2 pv2 do
        emit (mkCase (buildChain x top [l1, l2]))
  -- depth 3 chains (reduced pattern sets)
  let spi3 : List Nat := if thorough then [0, 1, 3, 5, 7, 8, 9, 10, 12] else [3, 8, 10]
  let spiM : List Nat := if thorough then [0, 1, 5, 7, 8, 9] else [1, 7]
  for ti in (if thorough then [0, 1, 5, 8] else [1]) do
    let top := stmtPats[ti]!
    for l1 in levelChoices x false spiM [0, 1] do
      for l2 in levelChoices x (isExprKind l1.kind) spiM [0, 1] do
        for l3 in levelChoices x (isExprKind l2.kind) spi3 [0, 1] do
          emit (mkCase (buildChain x top [l1, l2, l3]))
  -- sibling families: every parent × every ordered pair / triple of child scopes
  genFamilies x (parents (if thorough then 2 else 1)) (kidAlphabet (if thorough then 2 else 1)) 2 "fam2"
  genFamilies x (parents 0) (kidAlphabet (if thorough then 1 else 0)) 3 "fam3"
  -- outer-declaration chains: depth 2 and 3 (all in thorough; quick: all of depth 2, a seed-dependent sample of depth 3), depth 4 sampled
  genGChains x 2 (if thorough then 2 else 1) 1 0 [0, 0, 1]
  genGChains x 3 (if thorough then 2 else 1) (if thorough then 3 else 9) seed [0, 0, 1]
  genGChains x 4 1 (if thorough then 37 else 601) seed [0, 1]
  -- random trees
  let n := if thorough then 150000 else 7000
  let mut g : GenSt := { r := ⟨(seed * 2654435761 + 12345).toUInt64⟩ }
  for i in [0:n] do
    let names : Array Name := if i % 3 == 0 then #["x"] else if i % 3 == 1 then #["x", "y"] else #["x", "y", "abs"]
    let (g1, b) := genBody { g with ctr := 1 } names 0 false false
    g := g1
    emit (mkCase b)
  -- dense profile: one or two names, scope-heavy, 2–4 children per block
  let nd := if thorough then 100000 else 6000
  for i in [0:nd] do
    let names : Array Name := if i % 2 == 0 then #["x"] else #["x", "y"]
    let (g1, b) := genBody { g with ctr := 1 } names 0 false false true
    g := g1
    emit (mkCase b ["dense"])

end GPy.C03
