/-
C03 model: executable transliteration of
  symtable/symtable.go  (pass 1: Parse/AddDef/parseComprehension; pass 2: AnalyzeName,
                         AnalyzeCells, DropClassFree, Symbols.Update, AnalyzeBlock,
                         AnalyzeChildBlock, Analyze, Find)
  compile/compile.go    (compileAst's Cellvars/Freevars, NameOp, getRefType, makeClosure)
  vm/eval.go, py/cell.go, py/code.go (EvalCode cell/free set-up with Cell2arg, the
                         LOAD/STORE/DELETE_{FAST,DEREF,GLOBAL,NAME}, LOAD_CLASSDEREF, LOAD_CLOSURE)
over abstract scope trees.  Core Lean only.

Go maps are functions `Name → _`; a Go `for k := range m` is a fold over
`σ (univ.filter (· ∈ m))` where `univ` lists every name of the program and `σ`
(`Order.perm`, indexed by block path and range-site) is an ARBITRARY re-ordering:
the theorems quantify over it.
-/
import GPy.Common.Basic
namespace GPy.C03

abbrev Name := String

/-! ## Scope trees (the abstract programs) -/

/-- kind of a nested block -/
inductive Kind | func | lam | cls | comp
deriving DecidableEq, Repr, Inhabited

/-- a name operation of a block body, in source order -/
inductive NOp
  | bind (n : Name) (v : Nat)   -- `n = v`
  | use (n : Name)              -- `p(n)`
  | glob (n : Name)             -- `global n`
  | nonloc (n : Name)           -- `nonlocal n`
  | del (n : Name)              -- `del n`
deriving DecidableEq, Repr, Inhabited

inductive PKind | pos | star | kwonly | dstar
deriving DecidableEq, Repr, Inhabited

/-- a parameter.  `dflt = some y`: the default is the expression `y`, evaluated in the
enclosing block when the `def` executes; otherwise the constant `val`.
For a comprehension the single "parameter" is the target variable and the default is
the (one-element) iterable. -/
structure Param where
  name : Name
  kind : PKind := .pos
  dflt : Option Name := none
  val : Nat := 0
deriving DecidableEq, Repr, Inhabited

/-- a block body: name operations and nested blocks, in source order
(first-child/next-sibling encoding, so plain structural induction works) -/
inductive Body
  | nil
  | op (o : NOp) (rest : Body)
  | child (k : Kind) (name : Name) (ps : List Param) (body : Body) (rest : Body)
deriving Repr, Inhabited

/-! ## symtable.go data -/

inductive Scope | invalid | local | globalExplicit | globalImplicit | free | cell
deriving DecidableEq, Repr, Inhabited

/-- `DefUseFlags` as a record of bits -/
structure Flags where
  glob : Bool := false      -- DefGlobal   1
  loc : Bool := false       -- DefLocal    2
  param : Bool := false     -- DefParam    4
  nonloc : Bool := false    -- DefNonlocal 8
  use : Bool := false       -- DefUse      16
  free : Bool := false      -- DefFree     32
  freeClass : Bool := false -- DefFreeClass 64
  imp : Bool := false       -- DefImport   128
deriving DecidableEq, Repr, Inhabited

def Flags.or (a b : Flags) : Flags :=
  { glob := a.glob || b.glob, loc := a.loc || b.loc, param := a.param || b.param,
    nonloc := a.nonloc || b.nonloc, use := a.use || b.use, free := a.free || b.free,
    freeClass := a.freeClass || b.freeClass, imp := a.imp || b.imp }

def Flags.toNat (f : Flags) : Nat :=
  (if f.glob then 1 else 0) + (if f.loc then 2 else 0) + (if f.param then 4 else 0) +
  (if f.nonloc then 8 else 0) + (if f.use then 16 else 0) + (if f.free then 32 else 0) +
  (if f.freeClass then 64 else 0) + (if f.imp then 128 else 0)

/-- `flags & DefBound != 0` -/
def Flags.bound (f : Flags) : Bool := f.loc || f.param || f.imp

def DefGlobal : Flags := { glob := true }
def DefLocal : Flags := { loc := true }
def DefParam : Flags := { param := true }
def DefNonlocal : Flags := { nonloc := true }
def DefUse : Flags := { use := true }

inductive BlockType | function | cls | module
deriving DecidableEq, Repr, Inhabited

structure Sym where
  scope : Scope := .invalid
  flags : Flags := {}
deriving DecidableEq, Repr, Inhabited

/-- the SyntaxErrors symtable.go raises (all are `SyntaxError` for the observer) -/
inductive Err
  | assignedBeforeNonlocal | usedBeforeNonlocal | assignedBeforeGlobal | usedBeforeGlobal
  | dupArg | paramAndGlobal | nonlocalAndGlobal | paramAndNonlocal | nonlocalAtModule | noBindingNonlocal
deriving DecidableEq, Repr, Inhabited

/-- function update -/
@[noinline] def upd {α : Type} (f : Name → α) (n : Name) (v : α) : Name → α := fun m => if m = n then v else f m

/-- a Go map `map[string]α` whose missing keys read as a default: a total function, boxed in a
structure so that compiled code builds it strictly (a bare function type would be re-evaluated
on every lookup) -/
structure Tbl (α : Type) where
  get : Name → α

instance {α : Type} : CoeFun (Tbl α) (fun _ => Name → α) := ⟨Tbl.get⟩
instance {α : Type} [Inhabited α] : Inhabited (Tbl α) := ⟨⟨fun _ => default⟩⟩

/-- Go `m[k] = v` -/
def Tbl.set {α : Type} (t : Tbl α) (n : Name) (v : α) : Tbl α := ⟨upd t.get n v⟩

/-- Go `StringSet` -/
abbrev NSet := Tbl Bool
def NSet.empty : NSet := ⟨fun _ => false⟩
def NSet.add (s : NSet) (n : Name) : NSet := s.set n true
def NSet.discard (s : NSet) (n : Name) : NSet := s.set n false

/-- one `SymTable` (without its children) -/
structure Ste where
  typ : BlockType
  name : String
  nested : Bool
  syms : Tbl (Option Sym) := ⟨fun _ => none⟩
  varnames : List Name := []
  needsClassClosure : Bool := false
deriving Inhabited

/-- a list of symbol tables with their children (`Children []*SymTable`) -/
inductive Forest
  | nil
  | node (d : Ste) (kids : Forest) (sibs : Forest)
deriving Inhabited

/-! ## Pass 1: Parse / AddDef -/

/-- `AddDef` without its `st.Global.Symbols` side effect (that part is `addGlobalSym`) -/
def addDef (st : Ste) (name : Name) (flags : Flags) : Except Err Ste := do
  let syms ← match st.syms name with
    | some sym =>
      if flags.param && sym.flags.param then throw Err.dupArg
      else pure (st.syms.set name (some { sym with flags := sym.flags.or flags }))
    | none => pure (st.syms.set name (some { scope := .invalid, flags := flags }))
  let varnames := if flags.param then st.varnames ++ [name] else st.varnames
  pure { st with syms := syms, varnames := varnames }

/-- the `else if (flags & DefGlobal) != 0` arm of `AddDef`, applied to the module table -/
def addGlobalSym (g : Ste) (name : Name) : Ste :=
  match g.syms name with
  | some sym => { g with syms := g.syms.set name (some { sym with flags := sym.flags.or DefGlobal }) }
  | none => { g with syms := g.syms.set name (some { scope := .invalid, flags := DefGlobal }) }

/-- `Parse` on one name statement; returns the names handed to `st.Global.Symbols` -/
def parseOp (st : Ste) : NOp → Except Err (Ste × List Name)
  | .nonloc name => do
    match st.syms name with
    | some cur =>
      if cur.flags.loc then throw Err.assignedBeforeNonlocal
      if cur.flags.use then throw Err.usedBeforeNonlocal
    | none => pure ()
    let st ← addDef st name DefNonlocal
    pure (st, [])
  | .glob name => do
    match st.syms name with
    | some cur =>
      if cur.flags.loc then throw Err.assignedBeforeGlobal
      if cur.flags.use then throw Err.usedBeforeGlobal
    | none => pure ()
    let st ← addDef st name DefGlobal
    pure (st, [name])
  | .use name => do let st ← addDef st name DefUse; pure (st, [])
  | .bind name _ => do let st ← addDef st name DefLocal; pure (st, [])
  | .del name => do let st ← addDef st name DefLocal; pure (st, [])

def blockTypeOf : Kind → BlockType
  | .cls => .cls
  | _ => .function

def blockNameOf : Kind → Name → String
  | .func, n => n | .cls, n => n | .lam, _ => "lambda" | .comp, _ => "listcomp"

/-- the names used by default expressions (`st.Parse(node.Args)` in the enclosing table) -/
def defaultUses (st : Ste) : List Param → Except Err Ste
  | [] => pure st
  | p :: ps => do
    let st ← match p.dflt with
      | some y => addDef st y DefUse
      | none => pure st
    defaultUses st ps

/-- `addArgumentsToSymbolTable`: Args, Kwonlyargs, Vararg, Kwarg -/
def addParams (st : Ste) (ps : List Param) : Except Err Ste := do
  let order := (ps.filter (·.kind == .pos)) ++ (ps.filter (·.kind == .kwonly)) ++
               (ps.filter (·.kind == .star)) ++ (ps.filter (·.kind == .dstar))
  order.foldlM (fun st p => addDef st p.name DefParam) st

def newSte (typ : BlockType) (name : String) (parent : Ste) : Ste :=
  { typ := typ, name := name, nested := parent.nested || parent.typ == .function }

/-- `Parse` over a block body.  Result: the updated table, the tables of the nested
blocks (in order), and the names declared `global` anywhere below (for the module table). -/
def parseBody (st : Ste) : Body → Except Err (Ste × Forest × List Name)
  | .nil => pure (st, .nil, [])
  | .op o rest => do
    let (st, g) ← parseOp st o
    let (st, kids, gs) ← parseBody st rest
    pure (st, kids, g ++ gs)
  | .child k name ps body rest => do
    -- in the enclosing table
    let st ← if k == .func || k == .cls then addDef st name DefLocal else pure st
    let st ← defaultUses st ps
    -- the new table
    let stNew := newSte (blockTypeOf k) (blockNameOf k name) st
    let stNew ← match k with
      | .comp => do
        let s ← addDef stNew ".0" DefParam
        let s ← addDef s "_[1]" DefLocal          -- newTmpName
        ps.foldlM (fun s p => addDef s p.name DefLocal) s   -- the target
      | .cls => pure stNew
      | _ => addParams stNew ps
    let (stNew, kidsNew, g1) ← parseBody stNew body
    -- the call `name()` that follows a def
    let st ← if k == .func then addDef st name DefUse else pure st
    let (st, sibs, g2) ← parseBody st rest
    pure (st, .node stNew kidsNew sibs, g1 ++ g2)

/-- pass 1 of `NewSymTable` -/
def parseModule (b : Body) : Except Err Forest := do
  let top : Ste := { typ := .module, name := "top", nested := false }
  let (st, kids, gs) ← parseBody top b
  pure (.node (gs.foldl addGlobalSym st) kids .nil)

/-! ## Pass 2: Analyze -/

/-- iteration orders of Go's map ranges: `perm path site keys` is the order in which the
`range` at `site` of the block at `path` visits `keys` -/
structure Order where
  perm : List Nat → Nat → List Name → List Name

def Order.id : Order := ⟨fun _ _ l => l⟩

/-- the keys of a Go map/set, in the order the range statement at `(p, site)` visits them -/
def keysOf (U : List Name) (σ : Order) (p : List Nat) (site : Nat) (s : Name → Bool) : List Name :=
  σ.perm p site (U.filter s)

/-- `StringSet.Update`: `for elem := range other { s[elem] = struct{}{} }` -/
def setUpdate (U : List Name) (σ : Order) (p : List Nat) (site : Nat) (s other : NSet) : NSet :=
  (keysOf U σ p site other.get).foldl NSet.add s

/-- `StringSet.Copy` -/
def setCopy (U : List Name) (σ : Order) (p : List Nat) (site : Nat) (s : NSet) : NSet :=
  setUpdate U σ p site NSet.empty s

/-- the dictionaries `AnalyzeName` works on (`bound = none` is Go's nil map) -/
structure AN where
  scopes : Tbl Scope := ⟨fun _ => .invalid⟩
  bound : Option NSet
  loc : NSet := NSet.empty
  free : NSet
  glob : NSet

def AnalyzeName (s : AN) (name : Name) (flags : Flags) : Except Err AN :=
  if flags.glob then
    if flags.param then .error Err.paramAndGlobal
    else if flags.nonloc then .error Err.nonlocalAndGlobal
    else .ok { s with scopes := s.scopes.set name .globalExplicit, glob := s.glob.add name,
                      bound := s.bound.map (·.discard name) }
  else if flags.nonloc then
    if flags.param then .error Err.paramAndNonlocal
    else match s.bound with
      | none => .error Err.nonlocalAtModule
      | some b =>
        if !b name then .error Err.noBindingNonlocal
        else .ok { s with scopes := s.scopes.set name .free, free := s.free.add name }
  else if flags.bound then
    .ok { s with scopes := s.scopes.set name .local, loc := s.loc.add name, glob := s.glob.discard name }
  else if (match s.bound with | some b => b name | none => false) then
    .ok { s with scopes := s.scopes.set name .free, free := s.free.add name }
  else if s.glob name then
    .ok { s with scopes := s.scopes.set name .globalImplicit }
  else
    .ok { s with scopes := s.scopes.set name .globalImplicit }

def AnalyzeCells (U : List Name) (σ : Order) (p : List Nat) (scopes : Tbl Scope) (free : NSet) :
    Tbl Scope × NSet :=
  (keysOf U σ p 1 (fun n => scopes n != .invalid)).foldl (fun (sf : Tbl Scope × NSet) name =>
    if sf.1 name != .local then sf
    else if !sf.2 name then sf
    else (sf.1.set name .cell, sf.2.discard name)) (scopes, free)

def DropClassFree (st : Ste) (free : NSet) : Ste × NSet :=
  if free "__class__" then ({ st with needsClassClosure := true }, free.discard "__class__") else (st, free)

/-- `Symbols.Update` -/
def SymbolsUpdate (U : List Name) (σ : Order) (p : List Nat) (symbols : Tbl (Option Sym))
    (scopes : Tbl Scope) (bound : Option NSet) (free : NSet) (classflag : Bool) : Tbl (Option Sym) :=
  let symbols := (keysOf U σ p 2 (fun n => (symbols n).isSome)).foldl (fun (symbols : Tbl (Option Sym)) name =>
    match symbols name with
    | some symbol => symbols.set name (some { symbol with scope := scopes name })
    | none => symbols) symbols
  (keysOf U σ p 3 free.get).foldl (fun (symbols : Tbl (Option Sym)) name =>
    match symbols name with
    | some symbol =>
      if classflag && (symbol.flags.bound || symbol.flags.glob) then
        symbols.set name (some { symbol with flags := symbol.flags.or { freeClass := true } })
      else symbols
    | none =>
      if !(match bound with | some b => b name | none => false) then symbols
      else symbols.set name (some { scope := .free, flags := {} })) symbols

/-- what `AnalyzeBlock` has computed when it reaches its children -/
structure Pre where
  an : AN
  newbound : NSet
  newglobal : NSet
  newfree : NSet

/-- `AnalyzeBlock` up to (excluding) the loop over the children -/
def blockPre (U : List Name) (σ : Order) (p : List Nat) (st : Ste) (bound : Option NSet) (free glob : NSet) :
    Except Err Pre := do
  let newglobal := NSet.empty
  let newfree := NSet.empty
  let newbound := NSet.empty
  let (newglobal, newbound) :=
    if st.typ == .cls then
      (setUpdate U σ p 4 newglobal glob,
       match bound with | some b => setUpdate U σ p 5 newbound b | none => newbound)
    else (newglobal, newbound)
  let an ← (keysOf U σ p 0 (fun n => (st.syms n).isSome)).foldlM (fun (s : AN) name =>
      match st.syms name with
      | some v => AnalyzeName s name v.flags
      | none => pure s) ({ bound := bound, free := free, glob := glob } : AN)
  let (newglobal, newbound) :=
    if st.typ != .cls then
      let newbound := if st.typ == .function then setUpdate U σ p 6 newbound an.loc else newbound
      let newbound := match an.bound with | some b => setUpdate U σ p 7 newbound b | none => newbound
      (setUpdate U σ p 8 newglobal an.glob, newbound)
    else (newglobal, newbound.add "__class__")
  pure { an := an, newbound := newbound, newglobal := newglobal, newfree := newfree }

/-- `AnalyzeBlock` after the loop over the children; returns the table and the updated `free` -/
def blockPost (U : List Name) (σ : Order) (p : List Nat) (st : Ste) (pre : Pre) (allfree : NSet) : Ste × NSet :=
  let newfree := setUpdate U σ p 9 pre.newfree allfree
  let (st, scopes, newfree) :=
    if st.typ == .function then
      let (sc, nf) := AnalyzeCells U σ p pre.an.scopes newfree
      (st, sc, nf)
    else if st.typ == .cls then
      let (st, nf) := DropClassFree st newfree
      (st, pre.an.scopes, nf)
    else (st, pre.an.scopes, newfree)
  let st := { st with syms := SymbolsUpdate U σ p st.syms scopes pre.an.bound newfree (st.typ == .cls) }
  (st, setUpdate U σ p 10 pre.an.free newfree)

/-- The three sets a block hands to `AnalyzeChildBlock` for each of its children
(`newbound`, `newfree`, `newglobal` of `AnalyzeBlock`).  Go maps are REFERENCES: a callee that is
handed the map itself writes into the caller's set.  The sets are therefore threaded through the
loop over the children as state, and what the caller holds after each call is computed explicitly. -/
structure Sets where
  bound : NSet
  free : NSet
  glob : NSet

/-- the loop `for _, entry := range st.Children { entry.AnalyzeChildBlock(newbound, newfree, newglobal, allfree) }`
(`AnalyzeChildBlock` and the `AnalyzeBlock` it calls are inlined; `i` is the child's index; `ps` = the
parent's three sets as they are when child `i` is reached; the result carries them as they are after
the last child).

`cpBound` is the line `temp_bound := bound.Copy()` of `AnalyzeChildBlock`: `true` (the code that
exists) = `AnalyzeBlock` works on a copy, so its in-place `bound.Discard(name)` (a `global` declaration,
see `AnalyzeName`) stays private to the child and the parent's `newbound` is what it was;
`false` = the map itself is passed, the callee's discards land in the parent's `newbound` and every
child analysed LATER sees them.  Only `analyzeForest := analyzeForestG … true` models gpython; the
`false` variant exists to state (Props: `bound_copy_needed_witness`) that the copy is load-bearing.
`temp_free`/`temp_global` are copies in both variants (sites 12, 13). -/
def analyzeForestG (U : List Name) (σ : Order) (cpBound : Bool) : Forest → List Nat → Nat → Sets → NSet →
    Except Err (Forest × Sets × NSet)
  | .nil, _, _, ps, childFree => pure (.nil, ps, childFree)
  | .node st kids sibs, path, i, ps, childFree => do
    let p := path ++ [i]
    -- AnalyzeChildBlock(bound, free, global, child_free)
    let tempBound := if cpBound then setCopy U σ p 11 ps.bound else ps.bound
    let tempFree := setCopy U σ p 12 ps.free
    let tempGlobal := setCopy U σ p 13 ps.glob
    -- st.AnalyzeBlock(temp_bound, temp_free, temp_global); the AnalyzeName loop writes all three
    let pre ← blockPre U σ p st (some tempBound) tempFree tempGlobal
    let (kids, ns, allfree) ← analyzeForestG U σ cpBound kids p 0 ⟨pre.newbound, pre.newfree, pre.newglobal⟩ NSet.empty
    let (st, tempFree) := blockPost U σ p st { pre with newfree := ns.free } allfree
    -- child_free.Update(temp_free)
    let childFree := setUpdate U σ p 14 childFree tempFree
    -- what the parent's `newbound` holds now: untouched if the child got a copy, otherwise
    -- `temp_bound` IS `newbound` and holds what the child's AnalyzeName loop left in it
    let boundAfter := if cpBound then ps.bound else (match pre.an.bound with | some b => b | none => ps.bound)
    let (sibs, ps, childFree) ← analyzeForestG U σ cpBound sibs path (i + 1) { ps with bound := boundAfter } childFree
    pure (.node st kids sibs, ps, childFree)

/-- the analysis of the children of a block as gpython does it (`temp_bound := bound.Copy()`) -/
def analyzeForest (U : List Name) (σ : Order) : Forest → List Nat → Nat → Sets → NSet →
    Except Err (Forest × Sets × NSet) := analyzeForestG U σ true

/-- `Analyze` on the module table (`forest` = the result of pass 1) -/
def analyzeTopG (U : List Name) (σ : Order) (cpBound : Bool) : Forest → Except Err Forest
  | .node st kids _ => do
    let pre ← blockPre U σ [] st none NSet.empty NSet.empty
    let (kids, ns, allfree) ← analyzeForestG U σ cpBound kids [] 0 ⟨pre.newbound, pre.newfree, pre.newglobal⟩ NSet.empty
    let (st, _) := blockPost U σ [] st { pre with newfree := ns.free } allfree
    pure (.node st kids .nil)
  | .nil => pure .nil

def analyzeTop (U : List Name) (σ : Order) : Forest → Except Err Forest := analyzeTopG U σ true

/-! names of a program (the universe `U` the map ranges filter) -/

def NOp.name : NOp → Name
  | .bind n _ | .use n | .glob n | .nonloc n | .del n => n

def Body.names : Body → List Name
  | .nil => []
  | .op o rest => o.name :: rest.names
  | .child _ name ps body rest =>
    name :: (ps.map (·.name) ++ ps.filterMap (·.dflt)) ++ body.names ++ rest.names

def namesOf (b : Body) : List Name := (["__class__", ".0", "_[1]"] ++ b.names).eraseDups

/-- `symtable.NewSymTable` with iteration orders `σ` -/
def newSymTable (σ : Order) (b : Body) : Except Err Forest := do
  let f ← parseModule b
  analyzeTop (namesOf b) σ f

/-- `NewSymTable` as it would be WITHOUT the line `temp_bound := bound.Copy()` (not gpython's code;
used by `bound_copy_needed_witness` and by the generator's sensitivity tag `sib`) -/
def newSymTableNoCopy (σ : Order) (b : Body) : Except Err Forest := do
  let f ← parseModule b
  analyzeTopG (namesOf b) σ false f

/-! ## compile.go: Find, NameOp, makeClosure — and vm/eval.go on the resulting access paths -/

def sortNames (l : List Name) : List Name := l.mergeSort (fun a b => a ≤ b)

/-- `SymTable.Find(scopeType, flag)` restricted to the two uses in compileAst -/
def findCell (U : List Name) (st : Ste) : List Name :=
  sortNames (U.filter fun n => match st.syms n with | some v => v.scope == .cell | none => false)
def findFree (U : List Name) (st : Ste) : List Name :=
  sortNames (U.filter fun n => match st.syms n with | some v => v.scope == .free || v.flags.freeClass | none => false)

/-- `FindId` -/
def findId (id : Name) (names : List Name) : Option Nat :=
  let i := names.findIdx (· == id)
  if i < names.length then some i else none

inductive OpFamily | fast | global | deref | name
deriving DecidableEq, Repr, Inhabited

/-- the scope → opcode family table of `NameOp` (`unoptimized`: the module table's optTopLevel) -/
def opFamily (typ : BlockType) (scope : Scope) : OpFamily :=
  match scope with
  | .free => .deref
  | .cell => .deref
  | .local => if typ == .function then .fast else .name
  | .globalImplicit => if typ == .function then .global else .name
  | .globalExplicit => .global
  | .invalid => .name

/-- the code object's name tables as far as name access needs them -/
structure Code where
  typ : BlockType
  syms : Tbl (Option Sym)
  params : List Name
  cellvars : List Name
  freevars : List Name
deriving Inhabited

def getScope (c : Code) (n : Name) : Scope := match c.syms n with | some s => s.scope | none => .invalid

/-- the `Varnames`/`Cellvars`/`Freevars` lines of `compileAst` (the implicit `__class__`
cell of a class that needs a class closure is the first cell) -/
def mkCode (U : List Name) (st : Ste) : Code :=
  { typ := st.typ, syms := st.syms, params := st.varnames,
    cellvars := (if st.needsClassClosure then ["__class__"] else []) ++ findCell U st,
    freevars := findFree U st }

/-- the operand `NameOp` emits for a DEREF access: `Index(name, dict)` (+ `len(Cellvars)` for a free variable).
`none`: `Index` would append a new entry, i.e. a slot no frame has. -/
def derefSlot (c : Code) (n : Name) : Option Nat :=
  if getScope c n == .free then (findId n c.freevars).map (· + c.cellvars.length)
  else findId n c.cellvars

/-- the operand `makeClosure` emits for `LOAD_CLOSURE` of the child's free variable `n`;
`none` = the Go code panics (`arg < 0`, or getRefType's unknown scope) -/
def closureSlot (c : Code) (n : Name) : Option Nat :=
  let reftype := if c.typ == .cls && n == "__class__" then some Scope.cell
                 else if getScope c n == .invalid then none else some (getScope c n)
  match reftype with
  | none => none
  | some .cell => findId n c.cellvars
  | some _ =>
    match findId n c.freevars with
    | some i => some (c.cellvars.length + i)
    | none => if c.cellvars.length ≥ 1 then some (c.cellvars.length - 1) else none   -- `len + (-1)`

/-! ### run-time values and state -/

inductive Val | int (n : Nat) | tup | dict | str | builtin | cls
deriving DecidableEq, Repr, Inhabited

def Val.show : Val → String
  | .int n => toString n | .tup => "()" | .dict => "{}" | .str => "S" | .builtin => "B" | .cls => "T"

inductive Exc | nameError | unboundLocal | panic
deriving DecidableEq, Repr, Inhabited

def Exc.show : Exc → String
  | .nameError => "E:NameError" | .unboundLocal => "E:UnboundLocalError" | .panic => "PANIC"

abbrev Dict := List (Name × Val)
def Dict.get (d : Dict) (n : Name) : Option Val := (d.find? (·.1 == n)).map (·.2)
def Dict.set (d : Dict) (n : Name) (v : Val) : Dict := (n, v) :: d.filter (·.1 != n)
def Dict.del (d : Dict) (n : Name) : Dict := d.filter (·.1 != n)

/-- the names the builtins module defines, as far as generated programs mention them -/
def isBuiltin (n : Name) : Bool := n == "abs"

/-- machine state: the cells (`*py.Cell`, identified by their index), module globals, output of `p` -/
structure MState where
  cells : List (Option Val) := []
  globals : Dict := []
  out : List String := []
deriving Inhabited

/-- `py.Frame` as far as names are concerned -/
structure Frame where
  code : Code
  fast : Dict := []               -- LocalVars (by name)
  locals : Option Dict := none    -- Locals of a class body (the module's Locals IS Globals)
  cellAndFree : List Nat := []    -- CellAndFreeVars: indices into MState.cells
deriving Inhabited

abbrev M := StateT MState (Except (Exc × MState))

def raise {α} (e : Exc) : M α := fun s => .error (e, s)

def cellGet (i : Nat) : M (Option Val) := do return ((← get).cells.getD i none)
def cellSet (i : Nat) (v : Option Val) : M Unit := modify fun s => { s with cells := s.cells.set i v }
def newCell (v : Option Val) : M Nat := do
  let s ← get
  set { s with cells := s.cells ++ [v] }
  return s.cells.length

/-- `unboundDeref` -/
def unboundDeref {α} (c : Code) (slot : Nat) : M α :=
  if slot < c.cellvars.length then raise .unboundLocal else raise .nameError

def lookupGlobal (n : Name) : M Val := do
  match (← get).globals.get n with
  | some v => pure v
  | none => if isBuiltin n then pure .builtin else raise .nameError

def slotCell (f : Frame) (slot : Option Nat) : M (Nat × Nat) :=
  match slot with
  | none => raise .panic
  | some s => match f.cellAndFree[s]? with
    | some c => pure (s, c)
    | none => raise .panic

/-- `NameOp(name, Load)` followed by the opcode's execution -/
def loadName (f : Frame) (n : Name) : M Val := do
  match opFamily f.code.typ (getScope f.code n) with
  | .fast => match f.fast.get n with
    | some v => pure v
    | none => raise .unboundLocal
  | .global => lookupGlobal n
  | .name =>
    match f.locals with
    | some d => match d.get n with
      | some v => pure v
      | none => lookupGlobal n
    | none => lookupGlobal n
  | .deref => do
    let (s, c) ← slotCell f (derefSlot f.code n)
    if f.code.typ == .cls then      -- LOAD_CLASSDEREF
      match f.locals.bind (·.get n) with
      | some v => return v
      | none => pure ()
    match ← cellGet c with
    | some v => pure v
    | none => unboundDeref f.code s

/-- `NameOp(name, Store)` + STORE_* -/
def storeName (f : Frame) (n : Name) (v : Val) : M Frame := do
  match opFamily f.code.typ (getScope f.code n) with
  | .fast => pure { f with fast := f.fast.set n v }
  | .global => do modify fun s => { s with globals := s.globals.set n v }; pure f
  | .name =>
    match f.locals with
    | some d => pure { f with locals := some (d.set n v) }
    | none => do modify fun s => { s with globals := s.globals.set n v }; pure f
  | .deref => do
    let (_, c) ← slotCell f (derefSlot f.code n)
    cellSet c (some v); pure f

/-- `NameOp(name, Del)` + DELETE_* -/
def delName (f : Frame) (n : Name) : M Frame := do
  match opFamily f.code.typ (getScope f.code n) with
  | .fast => match f.fast.get n with
    | some _ => pure { f with fast := f.fast.del n }
    | none => raise .unboundLocal
  | .global => do
    match (← get).globals.get n with
    | some _ => modify fun s => { s with globals := s.globals.del n }; pure f
    | none => raise .nameError
  | .name =>
    match f.locals with
    | some d => match d.get n with
      | some _ => pure { f with locals := some (d.del n) }
      | none => raise .nameError
    | none => do
      match (← get).globals.get n with
      | some _ => modify fun s => { s with globals := s.globals.del n }; pure f
      | none => raise .nameError
  | .deref => do
    let (s, c) ← slotCell f (derefSlot f.code n)
    match ← cellGet c with
    | some _ => cellSet c none; pure f
    | none => unboundDeref f.code s

/-- what a `def`/`lambda` leaves behind: the closure tuple and the default values -/
structure FuncObj where
  closure : List Nat
  args : List (Name × Val)
deriving Inhabited

/-- `makeClosure`: one `LOAD_CLOSURE` per free variable of the child -/
def makeClosure (f : Frame) (child : Code) : M (List Nat) :=
  child.freevars.mapM fun n => do
    let (_, c) ← slotCell f (closureSlot f.code n)
    pure c

/-- the loop over `code.Cellvars` in `EvalCode`: one fresh cell per cell variable; an argument that is a
cell variable moves from its fast slot into its cell (`Cell2arg`) -/
def enterCells (params : List Name) : List Name → Dict → M (Dict × List Nat)
  | [], fast => pure (fast, [])
  | cv :: rest, fast => do
    if params.contains cv then
      let c ← newCell (fast.get cv)
      let (fast, cs) ← enterCells params rest (fast.del cv)
      pure (fast, c :: cs)
    else
      let c ← newCell none
      let (fast, cs) ← enterCells params rest fast
      pure (fast, c :: cs)

/-- `EvalCode`'s cell/free set-up: `CellAndFreeVars` = the fresh cells, then the closure tuple -/
def enterFunction (code : Code) (args : List (Name × Val)) (closure : List Nat) : M Frame := do
  let (fast, cs) ← enterCells code.params code.cellvars args
  pure { code := code, fast := fast, locals := none, cellAndFree := cs ++ closure }

/-- the values of the parameters of one call `f()`: defaults were evaluated at `def` time -/
def paramDefault (p : Param) : Val :=
  match p.kind with
  | .star => .tup
  | .dstar => .dict
  | _ => .int p.val

/-- evaluate the default expressions in the defining frame (positional ones, left to right) -/
def evalDefaults (f : Frame) : List Param → M (List (Name × Val))
  | [] => pure []
  | p :: ps => do
    let v ← match p.dflt with
      | some y => loadName f y
      | none => pure (paramDefault p)
    let rest ← evalDefaults f ps
    pure ((p.name, v) :: rest)

def emitOut (v : Val) : M Unit := modify fun s => { s with out := s.out ++ [v.show] }

def execOp (f : Frame) : NOp → M Frame
  | .bind n v => storeName f n (.int v)
  | .use n => do emitOut (← loadName f n); pure f
  | .glob _ => pure f
  | .nonloc _ => pure f
  | .del n => delName f n

mutual
/-- first pass over a body: run the statements; every `def` is called once right after its
definition; returns the function objects for the second call -/
def runA (U : List Name) : Body → Forest → Frame → M (Frame × List FuncObj)
  | .nil, _, f => pure (f, [])
  | .op o rest, kids, f => do
    let f ← execOp f o
    runA U rest kids f
  | .child k _ ps body rest, .node st kids sibs, f => do
    let code := mkCode U st
    match k with
    | .cls => do
      let closure ← makeClosure f code
      let cs ← if st.needsClassClosure then (do let c ← newCell none; pure [c]) else pure []
      let cf : Frame := { code := code, locals := some [("__module__", .str), ("__qualname__", .str)],
                          cellAndFree := cs ++ closure }
      let (cf, fos) ← runA U body kids cf
      let _ ← runB U body kids cf fos
      runA U rest sibs f
    | .comp => do
      let args ← evalDefaults f ps
      let closure ← makeClosure f code
      let cf ← enterFunction code [] closure
      let cf ← args.foldlM (fun cf (nv : Name × Val) => storeName cf nv.1 nv.2) cf
      let (cf, fos) ← runA U body kids cf
      let _ ← runB U body kids cf fos
      runA U rest sibs f
    | _ => do
      let args ← evalDefaults f ps
      let closure ← makeClosure f code
      let cf ← enterFunction code args closure
      let (cf, fos) ← runA U body kids cf
      let _ ← runB U body kids cf fos
      let (f, fos') ← runA U rest sibs f
      pure (f, if k == .func then { closure := closure, args := args } :: fos' else fos')
  | .child _ _ _ _ _, .nil, _ => raise .panic

/-- second pass: at the end of a body every `def` of that body is called once more -/
def runB (U : List Name) : Body → Forest → Frame → List FuncObj → M Unit
  | .nil, _, _, _ => pure ()
  | .op _ rest, kids, f, fos => runB U rest kids f fos
  | .child .func _ _ body rest, .node st kids sibs, f, fo :: fos => do
    let code := mkCode U st
    let cf ← enterFunction code fo.args fo.closure
    let (cf, fos2) ← runA U body kids cf
    let _ ← runB U body kids cf fos2
    runB U rest sibs f fos
  | .child .func _ _ _ _, _, _, _ => raise .panic
  | .child _ _ _ _ rest, .node _ _ sibs, f, fos => runB U rest sibs f fos
  | .child _ _ _ _ _, .nil, _, _ => raise .panic
end

/-- compile and run a module (`analysed` = the result of `newSymTable`) -/
def runModule (U : List Name) (b : Body) : Forest → M Unit
  | .node st kids _ => do
    let f : Frame := { code := mkCode U st, locals := none }
    let (f, fos) ← runA U b kids f
    runB U b kids f fos
  | .nil => raise .panic

def runResult (U : List Name) (b : Body) (t : Forest) : String :=
  match (runModule U b t).run {} with
  | .ok (_, s) => ",".intercalate s.out ++ ";ok"
  | .error (e, s) => ",".intercalate s.out ++ ";" ++ e.show

end GPy.C03
