/-
C03 helper lemmas: order-independence of every map range of the analysis
(`StringSet.Update`, `AnalyzeCells`, both loops of `Symbols.Update`, the
`AnalyzeName` loop) and its lifting through `AnalyzeBlock`/`AnalyzeChildBlock`.
-/
import GPy.C03.Spec
import Mathlib.Tactic.SplitIfs
namespace GPy.C03

/-! ### tables -/

@[simp] theorem upd_apply {α : Type} (f : Name → α) (n m : Name) (v : α) :
    upd f n v m = if m = n then v else f m := rfl

theorem Tbl.ext {α : Type} {a b : Tbl α} (h : ∀ n, a.get n = b.get n) : a = b := by
  cases a; cases b; simp only [Tbl.mk.injEq]; funext n; exact h n

@[simp] theorem Tbl.set_get {α : Type} (t : Tbl α) (n m : Name) (v : α) :
    (t.set n v).get m = if m = n then v else t.get m := rfl

theorem Tbl.set_comm {α : Type} (t : Tbl α) {a b : Name} (h : a ≠ b) (x y : α) :
    (t.set a x).set b y = (t.set b y).set a x := by
  apply Tbl.ext; intro m
  simp only [Tbl.set_get]
  by_cases h1 : m = a <;> by_cases h2 : m = b <;> simp_all

@[simp] theorem NSet.add_get (s : NSet) (n m : Name) : (s.add n).get m = if m = n then true else s.get m := rfl
@[simp] theorem NSet.discard_get (s : NSet) (n m : Name) : (s.discard n).get m = if m = n then false else s.get m := rfl

theorem NSet.add_comm (s : NSet) (a b : Name) : (s.add a).add b = (s.add b).add a := by
  by_cases h : a = b
  · subst h; rfl
  · exact Tbl.set_comm s h true true

/-! ### iteration orders -/

/-- every range visits exactly the keys of the map, each once -/
def Order.Valid (σ : Order) : Prop := ∀ p s l, (σ.perm p s l).Perm l

theorem Order.id_valid : Order.id.Valid := fun _ _ _ => List.Perm.refl _

theorem keysOf_perm {σ σ' : Order} (h : σ.Valid) (h' : σ'.Valid) (U : List Name) (p p' : List Nat) (i i' : Nat)
    (f : Name → Bool) : (keysOf U σ p i f).Perm (keysOf U σ' p' i' f) :=
  (h p i _).trans (h' p' i' _).symm

theorem setUpdate_perm {σ σ' : Order} (h : σ.Valid) (h' : σ'.Valid) (U : List Name) (p p' : List Nat) (i i' : Nat)
    (s o : NSet) : setUpdate U σ p i s o = setUpdate U σ' p' i' s o := by
  unfold setUpdate
  exact List.Perm.foldl_eq' (keysOf_perm h h' U p p' i i' _) (fun x _ y _ z => NSet.add_comm z x y) s

theorem setCopy_perm {σ σ' : Order} (h : σ.Valid) (h' : σ'.Valid) (U : List Name) (p p' : List Nat) (i i' : Nat)
    (s : NSet) : setCopy U σ p i s = setCopy U σ' p' i' s := setUpdate_perm h h' U p p' i i' _ _

/-! ### AnalyzeCells -/

def cellsStep (sf : Tbl Scope × NSet) (name : Name) : Tbl Scope × NSet :=
  if sf.1 name != .local then sf
  else if !sf.2 name then sf
  else (sf.1.set name .cell, sf.2.discard name)

theorem cellsStep_comm (sf : Tbl Scope × NSet) (a b : Name) :
    cellsStep (cellsStep sf a) b = cellsStep (cellsStep sf b) a := by
  by_cases hab : a = b
  · subst hab; rfl
  · have hba : b ≠ a := fun h => hab h.symm
    obtain ⟨sc, fr⟩ := sf
    by_cases h1 : sc.get a = .local <;> by_cases h2 : fr.get a = true <;>
      by_cases h3 : sc.get b = .local <;> by_cases h4 : fr.get b = true <;>
      simp [cellsStep, NSet.discard, Tbl.set_get, h1, h2, h3, h4, hab, hba, Tbl.set_comm _ hab]

theorem AnalyzeCells_perm {σ σ' : Order} (h : σ.Valid) (h' : σ'.Valid) (U : List Name) (p p' : List Nat)
    (sc : Tbl Scope) (fr : NSet) : AnalyzeCells U σ p sc fr = AnalyzeCells U σ' p' sc fr := by
  unfold AnalyzeCells
  exact List.Perm.foldl_eq' (f := cellsStep) (keysOf_perm h h' U p p' 1 1 _) (fun x _ y _ z => cellsStep_comm z x y) _

/-! ### Symbols.Update -/

def updStep1 (scopes : Tbl Scope) (symbols : Tbl (Option Sym)) (name : Name) : Tbl (Option Sym) :=
  match symbols name with
  | some symbol => symbols.set name (some { symbol with scope := scopes name })
  | none => symbols

def updStep2 (bound : Option NSet) (classflag : Bool) (symbols : Tbl (Option Sym)) (name : Name) : Tbl (Option Sym) :=
  match symbols name with
  | some symbol =>
    if classflag && (symbol.flags.bound || symbol.flags.glob) then
      symbols.set name (some { symbol with flags := symbol.flags.or { freeClass := true } })
    else symbols
  | none =>
    if !(match bound with | some b => b name | none => false) then symbols
    else symbols.set name (some { scope := .free, flags := {} })

theorem updStep1_comm (scopes : Tbl Scope) (t : Tbl (Option Sym)) (a b : Name) :
    updStep1 scopes (updStep1 scopes t a) b = updStep1 scopes (updStep1 scopes t b) a := by
  by_cases hab : a = b
  · subst hab; rfl
  · have hba : b ≠ a := fun h => hab h.symm
    cases h1 : t.get a <;> cases h2 : t.get b <;>
      simp [updStep1, Tbl.set_get, h1, h2, hab, hba, Tbl.set_comm _ hab]

theorem updStep2_comm (bound : Option NSet) (cf : Bool) (t : Tbl (Option Sym)) (a b : Name) :
    updStep2 bound cf (updStep2 bound cf t a) b = updStep2 bound cf (updStep2 bound cf t b) a := by
  by_cases hab : a = b
  · subst hab; rfl
  · have hba : b ≠ a := fun h => hab h.symm
    cases h1 : t.get a <;> cases h2 : t.get b <;>
      simp only [updStep2, h1, h2] <;> split_ifs <;>
      simp [Tbl.set_get, Tbl.set_comm _ hab, *]

theorem SymbolsUpdate_perm {σ σ' : Order} (h : σ.Valid) (h' : σ'.Valid) (U : List Name) (p p' : List Nat)
    (symbols : Tbl (Option Sym)) (scopes : Tbl Scope) (bound : Option NSet) (free : NSet) (cf : Bool) :
    SymbolsUpdate U σ p symbols scopes bound free cf = SymbolsUpdate U σ' p' symbols scopes bound free cf := by
  have e1 := List.Perm.foldl_eq' (f := updStep1 scopes) (keysOf_perm h h' U p p' 2 2 (fun n => (symbols n).isSome))
    (fun x _ y _ z => updStep1_comm scopes z x y) symbols
  show List.foldl (updStep2 bound cf) (List.foldl (updStep1 scopes) symbols (keysOf U σ p 2 _)) (keysOf U σ p 3 _)
     = List.foldl (updStep2 bound cf) (List.foldl (updStep1 scopes) symbols (keysOf U σ' p' 2 _)) (keysOf U σ' p' 3 _)
  rw [e1]
  exact List.Perm.foldl_eq' (f := updStep2 bound cf) (keysOf_perm h h' U p p' 3 3 _)
    (fun x _ y _ z => updStep2_comm bound cf z x y) _

/-! ### folds in `Except` over permuted lists: equal results, or both fail -/

/-- same successful result, or both fail (with possibly different errors) -/
def ExEq {ε α : Type} (x y : Except ε α) : Prop :=
  match x, y with
  | .ok a, .ok b => a = b
  | .error _, .error _ => True
  | _, _ => False

theorem ExEq.refl {ε α : Type} (x : Except ε α) : ExEq x x := by cases x <;> simp [ExEq]

theorem ExEq.symm {ε α : Type} {x y : Except ε α} (h : ExEq x y) : ExEq y x := by
  cases x <;> cases y <;> simp_all [ExEq]

theorem ExEq.trans {ε α : Type} {x y z : Except ε α} (h : ExEq x y) (h' : ExEq y z) : ExEq x z := by
  cases x <;> cases y <;> cases z <;> simp_all [ExEq]

theorem ExEq.of_eq {ε α : Type} {x y : Except ε α} (h : x = y) : ExEq x y := h ▸ ExEq.refl x

theorem ExEq.bind_congr {ε α β : Type} {x y : Except ε α} (h : ExEq x y) (k : α → Except ε β) :
    ExEq (x >>= k) (y >>= k) := by
  cases x <;> cases y <;> simp_all [ExEq, bind, Except.bind]
  exact ExEq.refl _

theorem foldlM_perm {ε σ α : Type} (f : σ → α → Except ε σ)
    (hcomm : ∀ s a b, ExEq (f s a >>= fun s' => f s' b) (f s b >>= fun s' => f s' a))
    {l₁ l₂ : List α} (h : l₁.Perm l₂) : ∀ s, ExEq (l₁.foldlM f s) (l₂.foldlM f s) := by
  induction h with
  | nil => intro s; exact ExEq.refl _
  | cons x _ ih =>
    intro s
    simp only [List.foldlM_cons]
    cases hx : f s x with
    | error e => simp [ExEq, bind, Except.bind]
    | ok s' => simpa [bind, Except.bind] using ih s'
  | swap x y l =>
    intro s
    simp only [List.foldlM_cons]
    have := ExEq.bind_congr (hcomm s y x) (fun s' => l.foldlM f s')
    simpa [bind_assoc] using this
  | trans _ _ ih1 ih2 => intro s; exact (ih1 s).trans (ih2 s)

/-! ### the AnalyzeName loop -/

/-- the decision `AnalyzeName` takes for one name: it reads the flags, whether `bound` is nil /
contains the name, and whether `global` contains the name -/
inductive NAct | err (e : Err) | ge | free | loc | gi
deriving DecidableEq

def nameAct (f : Flags) (bnd : Option Bool) (g : Bool) : NAct :=
  if f.glob then
    if f.param then .err Err.paramAndGlobal
    else if f.nonloc then .err Err.nonlocalAndGlobal
    else .ge
  else if f.nonloc then
    if f.param then .err Err.paramAndNonlocal
    else match bnd with
      | none => .err Err.nonlocalAtModule
      | some b => if !b then .err Err.noBindingNonlocal else .free
  else if f.bound then .loc
  else if (match bnd with | some b => b | none => false) then .free
  else if g then .gi else .gi

def applyAct (s : AN) (n : Name) : NAct → Except Err AN
  | .err e => .error e
  | .ge => .ok { s with scopes := s.scopes.set n .globalExplicit, glob := s.glob.add n,
                        bound := s.bound.map (·.discard n) }
  | .free => .ok { s with scopes := s.scopes.set n .free, free := s.free.add n }
  | .loc => .ok { s with scopes := s.scopes.set n .local, loc := s.loc.add n, glob := s.glob.discard n }
  | .gi => .ok { s with scopes := s.scopes.set n .globalImplicit }

theorem AnalyzeName_eq (s : AN) (n : Name) (f : Flags) :
    AnalyzeName s n f = applyAct s n (nameAct f (s.bound.map (·.get n)) (s.glob.get n)) := by
  unfold AnalyzeName nameAct
  cases hb : s.bound <;> simp only [Option.map] <;> split_ifs <;> simp_all [applyAct]

/-- the reads at another key are unaffected by an action -/
theorem applyAct_reads {s s' : AN} {a b : Name} (hab : a ≠ b) {A : NAct} (h : applyAct s a A = .ok s') :
    s'.bound.map (·.get b) = s.bound.map (·.get b) ∧ s'.glob.get b = s.glob.get b := by
  have hba : b ≠ a := fun h => hab h.symm
  cases A <;> simp only [applyAct, Except.ok.injEq, reduceCtorEq] at h <;> subst h <;>
    (try cases s.bound) <;> simp [hba, NSet.add, NSet.discard, Tbl.set_get]

theorem applyAct_comm (s : AN) {a b : Name} (hab : a ≠ b) (A B : NAct) :
    ExEq (applyAct s a A >>= fun s' => applyAct s' b B) (applyAct s b B >>= fun s' => applyAct s' a A) := by
  have hba : b ≠ a := fun h => hab h.symm
  cases A <;> cases B <;> simp only [applyAct, bind, Except.bind, ExEq] <;>
    (cases hbd : s.bound <;>
      simp [NSet.add, NSet.discard, Tbl.set_comm _ hab, Option.map])

theorem bind_applyAct_congr (s : AN) {a b : Name} (hab : a ≠ b) (A : NAct) (fb : Flags) :
    (applyAct s a A >>= fun s' => applyAct s' b (nameAct fb (s'.bound.map (·.get b)) (s'.glob.get b)))
    = (applyAct s a A >>= fun s' => applyAct s' b (nameAct fb (s.bound.map (·.get b)) (s.glob.get b))) := by
  cases h : applyAct s a A with
  | error e => rfl
  | ok s' =>
    obtain ⟨h1, h2⟩ := applyAct_reads hab h
    simp only [bind, Except.bind, h1, h2]

/-- body of the loop `for name, v := range st.Symbols { st.AnalyzeName(...) }` -/
def anStep (syms : Tbl (Option Sym)) (s : AN) (name : Name) : Except Err AN :=
  match syms name with
  | some v => AnalyzeName s name v.flags
  | none => pure s

theorem anStep_comm (syms : Tbl (Option Sym)) (s : AN) (a b : Name) :
    ExEq (anStep syms s a >>= fun s' => anStep syms s' b) (anStep syms s b >>= fun s' => anStep syms s' a) := by
  by_cases hab : a = b
  · subst hab; exact ExEq.refl _
  · have hba : b ≠ a := fun h => hab h.symm
    cases h1 : syms.get a with
    | none =>
      cases h2 : syms.get b with
      | none => simp only [anStep, h1, h2, pure_bind]; exact ExEq.refl _
      | some vb =>
        simp only [anStep, h1, h2, pure_bind]
        exact ExEq.of_eq (bind_pure _).symm
    | some va =>
      cases h2 : syms.get b with
      | none =>
        simp only [anStep, h1, h2, pure_bind]
        exact ExEq.of_eq (bind_pure _)
      | some vb =>
        simp only [anStep, h1, h2, AnalyzeName_eq]
        rw [bind_applyAct_congr s hab, bind_applyAct_congr s hba]
        exact applyAct_comm s hab _ _

/-! ### AnalyzeBlock -/

theorem blockPre_perm {σ σ' : Order} (h : σ.Valid) (h' : σ'.Valid) (U : List Name) (p p' : List Nat)
    (st : Ste) (bound : Option NSet) (free glob : NSet) :
    ExEq (blockPre U σ p st bound free glob) (blockPre U σ' p' st bound free glob) := by
  unfold blockPre
  simp only [setUpdate_perm h h' U p p' 4 4, setUpdate_perm h h' U p p' 5 5, setUpdate_perm h h' U p p' 6 6,
    setUpdate_perm h h' U p p' 7 7, setUpdate_perm h h' U p p' 8 8]
  exact ExEq.bind_congr (foldlM_perm (anStep st.syms) (anStep_comm st.syms)
    (keysOf_perm h h' U p p' 0 0 _) _) _

theorem blockPost_perm {σ σ' : Order} (h : σ.Valid) (h' : σ'.Valid) (U : List Name) (p p' : List Nat)
    (st : Ste) (pre : Pre) (allfree : NSet) :
    blockPost U σ p st pre allfree = blockPost U σ' p' st pre allfree := by
  unfold blockPost
  simp only [setUpdate_perm h h' U p p' 9 9, setUpdate_perm h h' U p p' 10 10,
    AnalyzeCells_perm h h' U p p', SymbolsUpdate_perm h h' U p p']

theorem ExEq.bind {ε α β : Type} {x y : Except ε α} {k k' : α → Except ε β} (h : ExEq x y)
    (hk : ∀ a, ExEq (k a) (k' a)) : ExEq (x >>= k) (y >>= k') := by
  cases x <;> cases y <;> simp_all [ExEq, Bind.bind, Except.bind]

theorem analyzeForestG_perm {σ σ' : Order} (h : σ.Valid) (h' : σ'.Valid) (U : List Name) (cp : Bool) :
    ∀ (f : Forest) (path path' : List Nat) (i i' : Nat) (ps : Sets) (childFree : NSet),
      ExEq (analyzeForestG U σ cp f path i ps childFree)
           (analyzeForestG U σ' cp f path' i' ps childFree) := by
  intro f
  induction f with
  | nil => intro _ _ _ _ _ _; exact ExEq.refl _
  | node st kids sibs ihk ihs =>
    intro path path' i i' ps childFree
    simp only [analyzeForestG]
    simp only [setCopy_perm h h' U (path ++ [i]) (path' ++ [i']) 11 11,
      setCopy_perm h h' U (path ++ [i]) (path' ++ [i']) 12 12,
      setCopy_perm h h' U (path ++ [i]) (path' ++ [i']) 13 13]
    refine ExEq.bind (blockPre_perm h h' U _ _ st _ _ _) (fun pre => ?_)
    refine ExEq.bind (ihk _ _ 0 0 _ _) (fun r => ?_)
    obtain ⟨kids', ns, allfree⟩ := r
    simp only [blockPost_perm h h' U (path ++ [i]) (path' ++ [i']),
      setUpdate_perm h h' U (path ++ [i]) (path' ++ [i']) 14 14]
    refine ExEq.bind (ihs _ _ _ _ _ _) (fun r2 => ?_)
    exact ExEq.refl _

theorem analyzeTopG_perm {σ σ' : Order} (h : σ.Valid) (h' : σ'.Valid) (U : List Name) (cp : Bool) (f : Forest) :
    ExEq (analyzeTopG U σ cp f) (analyzeTopG U σ' cp f) := by
  cases f with
  | nil => exact ExEq.refl _
  | node st kids sibs =>
    simp only [analyzeTopG]
    refine ExEq.bind (blockPre_perm h h' U _ _ st _ _ _) (fun pre => ?_)
    refine ExEq.bind (analyzeForestG_perm h h' U cp kids _ _ 0 0 _ _) (fun r => ?_)
    obtain ⟨kids', ns, allfree⟩ := r
    simp only [blockPost_perm h h' U [] []]
    exact ExEq.refl _

theorem analyzeTop_perm {σ σ' : Order} (h : σ.Valid) (h' : σ'.Valid) (U : List Name) (f : Forest) :
    ExEq (analyzeTop U σ f) (analyzeTop U σ' f) := analyzeTopG_perm h h' U true f

theorem newSymTable_perm {σ σ' : Order} (h : σ.Valid) (h' : σ'.Valid) (b : Body) :
    ExEq (newSymTable σ b) (newSymTable σ' b) := by
  unfold newSymTable
  exact ExEq.bind (ExEq.refl _) (fun f => analyzeTop_perm h h' _ f)

/-! ### one name: AnalyzeName's decision against `resolve` -/

/-- the part of `forbidden` that concerns one declared name -/
def nameForbidden (b : SInfo) (chain : List SInfo) (n : Name) : Bool :=
  (b.globs n && (b.params.contains n || b.nonlocs n)) ||
  (b.nonlocs n && (b.params.contains n || b.isModule || !visible chain n))

def NAct.cls : NAct → Option Cls
  | .err _ => none | .ge => some .globalExplicit | .free => some .free | .loc => some .local | .gi => some .globalImplicit

theorem nameAct_resolve (b : SInfo) (chain : List SInfo) (n : Name) (f : Flags) (g : Bool)
    (hg : f.glob = b.globs n) (hn : f.nonloc = b.nonlocs n) (hp : f.param = b.params.contains n)
    (hb : f.bound = b.binds n) (hm : b.mentions n = true) (hpb : b.params.contains n = true → b.binds n = true) :
    (nameAct f (if b.isModule then none else some (visible chain n)) g).cls
      = if nameForbidden b chain n then none else resolve b chain n := by
  unfold nameAct nameForbidden resolve SInfo.mentions at *
  rw [hg, hn, hp, hb]
  revert hm hpb
  generalize b.globs n = G
  generalize b.nonlocs n = N
  generalize b.params.contains n = P
  generalize b.binds n = B
  generalize b.uses n = Us
  generalize b.isModule = M
  generalize visible chain n = V
  cases G <;> cases N <;> cases P <;> cases B <;> cases Us <;> cases M <;> cases V <;> cases g <;> simp [NAct.cls]

/-! ### NameOp slots -/

/-- `_var_name` of vm/eval.go: the variable a slot of `CellAndFreeVars` belongs to -/
def varName (c : Code) (i : Nat) : Option Name :=
  if i < c.cellvars.length then c.cellvars[i]? else c.freevars[i - c.cellvars.length]?

theorem findId_get {id : Name} {names : List Name} {i : Nat} (h : findId id names = some i) :
    names[i]? = some id := by
  by_cases hlt : List.findIdx (fun x => x == id) names < names.length
  · simp only [findId, hlt, if_true, Option.some.injEq] at h
    subst h
    have := List.findIdx_getElem (w := hlt)
    simp only [beq_iff_eq] at this
    rw [List.getElem?_eq_getElem hlt, this]
  · simp [findId, hlt] at h

theorem findId_lt {id : Name} {names : List Name} {i : Nat} (h : findId id names = some i) : i < names.length := by
  by_cases hlt : List.findIdx (fun x => x == id) names < names.length
  · simp only [findId, hlt, if_true, Option.some.injEq] at h
    subst h; exact hlt
  · simp [findId, hlt] at h

/-- every DEREF operand `NameOp` emits addresses the slot of that very variable -/
theorem derefSlot_varName {c : Code} {n : Name} {i : Nat} (h : derefSlot c n = some i) : varName c i = some n := by
  unfold derefSlot at h
  split at h
  · cases hf : findId n c.freevars with
    | none => simp [hf] at h
    | some j =>
      simp only [hf, Option.map_some, Option.some.injEq] at h
      subst h
      have := findId_get hf
      simp [varName, this]
  · have hlt := findId_lt h
    have hg := findId_get h
    simp only [varName, hlt, if_true]
    exact hg

/-- ... and lies inside the frame's `CellAndFreeVars` -/
theorem derefSlot_lt {c : Code} {n : Name} {i : Nat} (h : derefSlot c n = some i) :
    i < c.cellvars.length + c.freevars.length := by
  unfold derefSlot at h
  split at h
  · cases hf : findId n c.freevars with
    | none => simp [hf] at h
    | some j =>
      simp only [hf, Option.map_some, Option.some.injEq] at h
      have := findId_lt hf
      omega
  · have := findId_lt h; omega

/-- `makeClosure`: when the child's free variable is one of this block's free variables (or is
provided here as a cell), the `LOAD_CLOSURE` operand addresses that variable's slot -/
theorem closureSlot_varName {c : Code} {n : Name} {i : Nat} (h : closureSlot c n = some i)
    (hin : findId n c.freevars ≠ none ∨ findId n c.cellvars = some i) : varName c i = some n := by
  rcases hin with hin | hin
  · cases hf : findId n c.freevars with
    | none => exact absurd hf hin
    | some j =>
      have hj := findId_get hf
      unfold closureSlot at h
      simp only [hf] at h
      split at h
      · cases h
      · have := findId_lt h
        simp only [varName, this, if_true]; exact findId_get h
      · simp only [Option.some.injEq] at h
        subst h
        simp [varName, hj]
  · have := findId_lt hin
    simp only [varName, this, if_true]; exact findId_get hin

end GPy.C03
