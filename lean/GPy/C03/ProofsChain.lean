/-
C03 round 3: the classification of a name in a nested block is `classify` applied to the block's own source
facts and to the CHAIN of its enclosing blocks (`blockAt`), for every program the specification accepts.
Used by `resolve_depends_on_chain_only` and `local_shadows_outer_global` (Props.lean).
-/
import GPy.C03.ProofsSpec6
namespace GPy.C03

/-- the classification of a name in the block at `path` (child indices from the module), spec side -/
def SForest.nth : SForest → Nat → Option ((Name → Option Cls) × SForest)
  | .nil, _ => none
  | .node _ _ cls kids _, 0 => some (cls, kids)
  | .node _ _ _ _ sibs, i + 1 => sibs.nth i

def clsAtAux : List Nat → (Name → Option Cls) → SForest → Name → Option Cls
  | [], cls, _, n => cls n
  | i :: rest, _, kids, n => match kids.nth i with
    | some (cls', kids') => clsAtAux rest cls' kids' n
    | none => none

def clsAt (s : SForest) (path : List Nat) (n : Name) : Option Cls :=
  match s with
  | .node _ _ cls kids _ => clsAtAux path cls kids n
  | .nil => none

/-- the `i`-th nested block of a body: kind, parameters, body -/
def Body.kid : Body → Nat → Option (Kind × List Param × Body)
  | .nil, _ => none
  | .op _ rest, i => rest.kid i
  | .child k _ ps body _, 0 => some (k, ps, body)
  | .child _ _ _ _ rest, i + 1 => rest.kid i

/-- source facts of the block reached by `path` from the block `b` (body `body`, enclosed by `chain`), together
with ITS chain of enclosing blocks, innermost first.  Only the blocks ON the path contribute. -/
def blockAtAux : List Nat → SInfo → List SInfo → Body → Option (SInfo × List SInfo)
  | [], b, chain, _ => some (b, chain)
  | i :: rest, b, chain, body => match body.kid i with
    | some (k, ps, body') => blockAtAux rest (infoOf k ps body') (b :: chain) body'
    | none => none

def moduleInfo (prog : Body) : SInfo := { kind := none, params := [], evs := events prog }

/-- the block at `path` of a program and the chain of blocks that enclose it (the last one is the module) -/
def blockAt (prog : Body) (path : List Nat) : Option (SInfo × List SInfo) :=
  blockAtAux path (moduleInfo prog) [] prog

theorem specForest_kid (chain : List SInfo) : ∀ (body : Body) (sf : SForest) (fv : NPred),
    specForest chain body = .ok (sf, fv) →
    ∀ i, match body.kid i with
      | some (k, ps, body') => ∃ kids' cfv, specForest (infoOf k ps body' :: chain) body' = .ok (kids', cfv) ∧
            sf.nth i = some (classify (infoOf k ps body') chain cfv, kids')
      | none => sf.nth i = none
  | .nil, sf, fv, h, i => by
    simp only [specForest, pure, Except.pure, Except.ok.injEq, Prod.mk.injEq] at h
    simp only [Body.kid, ← h.1, SForest.nth]
  | .op o rest, sf, fv, h, i => by
    simp only [specForest] at h
    simpa only [Body.kid] using specForest_kid chain rest sf fv h i
  | .child k name ps body rest, sf, fv, h, i => by
    rw [specForest_child] at h
    split at h
    · cases h
    · cases h1 : specForest (infoOf k ps body :: chain) body with
      | error e => rw [h1] at h; cases h
      | ok r =>
        cases h2 : specForest chain rest with
        | error e => rw [h1, h2] at h; cases h
        | ok r2 =>
          rw [h1, h2] at h
          simp only [bind, Except.bind, pure, Except.pure, Except.ok.injEq, Prod.mk.injEq] at h
          obtain ⟨hsf, _⟩ := h
          subst hsf
          cases i with
          | zero =>
            simp only [Body.kid, SForest.nth]
            exact ⟨r.1, r.2, by rw [h1], rfl⟩
          | succ j =>
            simp only [Body.kid, SForest.nth]
            exact specForest_kid chain rest r2.1 r2.2 (by rw [h2]) j

/-- the block reached by a non-empty path is classified by `classify` on ITS source facts and ITS chain -/
theorem clsAtAux_classify (n : Name) : ∀ (rest : List Nat) (i : Nat) (b : SInfo) (chain : List SInfo) (body : Body)
    (kids : SForest) (cfv : NPred) (cls0 : Name → Option Cls) (info : SInfo) (chain' : List SInfo),
    specForest (b :: chain) body = .ok (kids, cfv) →
    blockAtAux (i :: rest) b chain body = some (info, chain') →
    info.isModule = false ∧ ∃ cfv', clsAtAux (i :: rest) cls0 kids n = classify info chain' cfv' n
  | [], i, b, chain, body, kids, cfv, cls0, info, chain', hs, hb => by
    have hA := specForest_kid (b :: chain) body kids cfv hs i
    simp only [blockAtAux] at hb
    cases hk : body.kid i with
    | none => rw [hk] at hb; cases hb
    | some r =>
      obtain ⟨k, ps, body'⟩ := r
      rw [hk] at hA hb
      simp only [Option.some.injEq, Prod.mk.injEq] at hb
      obtain ⟨kids', cfv', _, hn⟩ := hA
      obtain ⟨h1, h2⟩ := hb
      subst h1; subst h2
      refine ⟨rfl, cfv', ?_⟩
      simp only [clsAtAux, hn]
  | j :: rest, i, b, chain, body, kids, cfv, cls0, info, chain', hs, hb => by
    have hA := specForest_kid (b :: chain) body kids cfv hs i
    rw [blockAtAux] at hb
    cases hk : body.kid i with
    | none => rw [hk] at hb; cases hb
    | some r =>
      obtain ⟨k, ps, body'⟩ := r
      rw [hk] at hA hb
      obtain ⟨kids', cfv', hs', hn⟩ := hA
      have ih := clsAtAux_classify n rest j (infoOf k ps body') (b :: chain) body' kids' cfv'
        (classify (infoOf k ps body') (b :: chain) cfv') info chain' hs' hb
      refine ⟨ih.1, ?_⟩
      obtain ⟨c2, hc2⟩ := ih.2
      refine ⟨c2, ?_⟩
      rw [clsAtAux, hn]
      exact hc2

theorem clsAt_classify (prog : Body) (s : SForest) (hs : specAnalyze prog = .ok s) (i : Nat) (rest : List Nat) (n : Name)
    (info : SInfo) (chain : List SInfo) (hb : blockAt prog (i :: rest) = some (info, chain)) :
    info.isModule = false ∧ ∃ cfv, clsAt s (i :: rest) n = classify info chain cfv n := by
  unfold specAnalyze at hs
  simp only [bind, Except.bind] at hs
  split at hs
  · cases hs
  · cases h1 : specForest [moduleInfo prog] prog with
    | error e => simp only [moduleInfo] at h1; rw [h1] at hs; cases hs
    | ok r =>
      have h1' := h1
      simp only [moduleInfo] at h1'
      rw [h1'] at hs
      simp only [pure, Except.pure, Except.ok.injEq] at hs
      subst hs
      simp only [clsAt]
      exact clsAtAux_classify n rest i (moduleInfo prog) [] prog r.1 r.2 _ info chain h1 hb

end GPy.C03
