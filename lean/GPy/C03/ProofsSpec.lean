/-
C03: the whole-tree theorem `analyze_spec` – gpython's two-pass symbol-table analysis
(model: `parseModule` + `analyzeTop`) against the specification (`specAnalyze`).

Part A  names universe, key lists of the map ranges, `StringSet.Update` pointwise
Part B  pass 1: `parseBody` = the `events` facts of every block (invariant (i))
Part C  pass 2 on one block, pointwise: the `AnalyzeName` loop, `AnalyzeCells`, `Symbols.Update`
Part D  the induction over the scope tree: `bound` = `visible chain` (invariant (ii)),
        free-variable propagation = `freeVars`/`classify` (invariant (iii))
-/
import GPy.C03.Proofs
namespace GPy.C03

/-! ## Part A -/

theorem nodup_eraseDups : ∀ (l : List Name), l.eraseDups.Nodup
  | [] => by simp
  | a :: as => by
    rw [List.eraseDups_cons]
    have : (as.filter fun b => !b == a).length < as.length + 1 :=
      Nat.lt_succ_of_le (List.length_filter_le _ as)
    refine List.nodup_cons.2 ⟨?_, nodup_eraseDups _⟩
    simp [List.mem_filter]
termination_by l => l.length

theorem namesOf_nodup (b : Body) : (namesOf b).Nodup := nodup_eraseDups _

theorem mem_namesOf {b : Body} {n : Name} :
    n ∈ namesOf b ↔ n = "__class__" ∨ n = ".0" ∨ n = "_[1]" ∨ n ∈ b.names := by
  simp [namesOf]

theorem mem_keysOf {σ : Order} (h : σ.Valid) {U : List Name} {p : List Nat} {i : Nat} {f : Name → Bool} {n : Name} :
    n ∈ keysOf U σ p i f ↔ n ∈ U ∧ f n = true := by
  unfold keysOf
  rw [(h p i _).mem_iff, List.mem_filter]

theorem nodup_keysOf {σ : Order} (h : σ.Valid) {U : List Name} (hU : U.Nodup) (p : List Nat) (i : Nat) (f : Name → Bool) :
    (keysOf U σ p i f).Nodup := by
  unfold keysOf
  exact (h p i _).nodup_iff.2 (hU.filter _)

theorem foldl_add_get (l : List Name) (s : NSet) (n : Name) :
    (l.foldl NSet.add s).get n = (s.get n || decide (n ∈ l)) := by
  induction l generalizing s with
  | nil => simp
  | cons a l ih =>
    simp only [List.foldl_cons, ih, NSet.add_get, List.mem_cons]
    by_cases h : n = a <;> simp [h]

theorem setUpdate_get {σ : Order} (h : σ.Valid) (U : List Name) (p : List Nat) (i : Nat) (s o : NSet) (n : Name) :
    (setUpdate U σ p i s o).get n = (s.get n || (decide (n ∈ U) && o.get n)) := by
  unfold setUpdate
  rw [foldl_add_get]
  congr 1
  rw [Bool.eq_iff_iff]
  simp [mem_keysOf h]

theorem setCopy_get {σ : Order} (h : σ.Valid) (U : List Name) (p : List Nat) (i : Nat) (s : NSet) (n : Name) :
    (setCopy U σ p i s).get n = (decide (n ∈ U) && s.get n) := by
  unfold setCopy
  rw [setUpdate_get h]
  simp [NSet.empty]


/-! ## Part B: pass 1 -/

/-! ### flags algebra -/

@[ext] theorem Flags.ext' {a b : Flags} (h1 : a.glob = b.glob) (h2 : a.loc = b.loc) (h3 : a.param = b.param)
    (h4 : a.nonloc = b.nonloc) (h5 : a.use = b.use) (h6 : a.free = b.free) (h7 : a.freeClass = b.freeClass)
    (h8 : a.imp = b.imp) : a = b := by
  cases a; cases b; simp_all

theorem Flags.or_assoc (a b c : Flags) : (a.or b).or c = a.or (b.or c) := by
  apply Flags.ext' <;> simp [Flags.or, Bool.or_assoc]

@[simp] theorem Flags.or_empty (a : Flags) : a.or {} = a := by
  apply Flags.ext' <;> simp [Flags.or]

@[simp] theorem Flags.empty_or (a : Flags) : Flags.or {} a = a := by
  apply Flags.ext' <;> simp [Flags.or]

/-! ### what a table knows about a name -/

def Ste.has (st : Ste) (n : Name) : Bool := (st.syms n).isSome
def Ste.fl (st : Ste) (n : Name) : Flags := match st.syms n with | some s => s.flags | none => {}

def Ev.name : Ev → Name | .bind n | .use n | .glob n | .nonloc n => n
def Ev.flags : Ev → Flags
  | .bind _ => DefLocal | .use _ => DefUse | .glob _ => DefGlobal | .nonloc _ => DefNonlocal

/-- the def-use flags a list of events contributes to name `n` -/
def evFlags : List Ev → Name → Flags
  | [], _ => {}
  | e :: r, n => (if n = e.name then e.flags else {}).or (evFlags r n)

def evMentions (evs : List Ev) (n : Name) : Bool := evs.any (fun e => decide (n = e.name))

theorem evFlags_append (a b : List Ev) (n : Name) : evFlags (a ++ b) n = (evFlags a n).or (evFlags b n) := by
  induction a with
  | nil => simp [evFlags]
  | cons e a ih => simp [evFlags, ih, Flags.or_assoc]

theorem evMentions_append (a b : List Ev) (n : Name) : evMentions (a ++ b) n = (evMentions a n || evMentions b n) := by
  simp [evMentions]

theorem evFlags_glob (evs : List Ev) (n : Name) : (evFlags evs n).glob = evs.contains (.glob n) := by
  induction evs with
  | nil => rfl
  | cons e r ih =>
    cases e <;> simp only [evFlags, Ev.name, Ev.flags] <;> split_ifs with h <;>
      simp_all [Flags.or, DefLocal, DefUse, DefGlobal, DefNonlocal, eq_comm]

theorem evFlags_loc (evs : List Ev) (n : Name) : (evFlags evs n).loc = evs.contains (.bind n) := by
  induction evs with
  | nil => rfl
  | cons e r ih =>
    cases e <;> simp only [evFlags, Ev.name, Ev.flags] <;> split_ifs with h <;>
      simp_all [Flags.or, DefLocal, DefUse, DefGlobal, DefNonlocal, eq_comm]

theorem evFlags_use (evs : List Ev) (n : Name) : (evFlags evs n).use = evs.contains (.use n) := by
  induction evs with
  | nil => rfl
  | cons e r ih =>
    cases e <;> simp only [evFlags, Ev.name, Ev.flags] <;> split_ifs with h <;>
      simp_all [Flags.or, DefLocal, DefUse, DefGlobal, DefNonlocal, eq_comm]

theorem evFlags_nonloc (evs : List Ev) (n : Name) : (evFlags evs n).nonloc = evs.contains (.nonloc n) := by
  induction evs with
  | nil => rfl
  | cons e r ih =>
    cases e <;> simp only [evFlags, Ev.name, Ev.flags] <;> split_ifs with h <;>
      simp_all [Flags.or, DefLocal, DefUse, DefGlobal, DefNonlocal, eq_comm]

theorem evFlags_param (evs : List Ev) (n : Name) : (evFlags evs n).param = false ∧ (evFlags evs n).imp = false := by
  induction evs with
  | nil => exact ⟨rfl, rfl⟩
  | cons e r ih =>
    cases e <;> simp only [evFlags, Ev.name, Ev.flags] <;> split_ifs with h <;>
      simp_all [Flags.or, DefLocal, DefUse, DefGlobal, DefNonlocal]

theorem evMentions_eq (evs : List Ev) (n : Name) :
    evMentions evs n = (evs.contains (.bind n) || evs.contains (.use n) || evs.contains (.glob n) || evs.contains (.nonloc n)) := by
  rw [Bool.eq_iff_iff]
  simp only [evMentions, List.any_eq_true, decide_eq_true_eq, Bool.or_eq_true, List.contains_iff_mem]
  constructor
  · rintro ⟨e, he, rfl⟩
    cases e <;> simp_all [Ev.name]
  · rintro (((h | h) | h) | h) <;> exact ⟨_, h, rfl⟩

/-- `st'` is `st` after the events `evs` were entered by `AddDef` -/
structure Acc (st st' : Ste) (evs : List Ev) : Prop where
  typ : st'.typ = st.typ
  name : st'.name = st.name
  has : ∀ n, st'.has n = (st.has n || evMentions evs n)
  fl : ∀ n, st'.fl n = (st.fl n).or (evFlags evs n)

theorem Acc.refl (st : Ste) : Acc st st [] := ⟨rfl, rfl, fun n => by simp [evMentions], fun n => by simp [evFlags]⟩

theorem Acc.trans {a b c : Ste} {e1 e2 : List Ev} (h1 : Acc a b e1) (h2 : Acc b c e2) : Acc a c (e1 ++ e2) :=
  ⟨h2.typ.trans h1.typ, h2.name.trans h1.name,
   fun n => by rw [h2.has, h1.has, evMentions_append, Bool.or_assoc],
   fun n => by rw [h2.fl, h1.fl, evFlags_append, Flags.or_assoc]⟩

/-- the table `AddDef` produces when it does not fail -/
def addDefRes (st : Ste) (name : Name) (flags : Flags) : Ste :=
  { st with
    syms := st.syms.set name (some (match st.syms name with
      | some sym => { sym with flags := sym.flags.or flags }
      | none => { scope := .invalid, flags := flags })),
    varnames := if flags.param then st.varnames ++ [name] else st.varnames }

theorem addDef_eq (st : Ste) (name : Name) (flags : Flags) :
    addDef st name flags =
      if flags.param && (st.fl name).param && st.has name then .error Err.dupArg else .ok (addDefRes st name flags) := by
  unfold addDef addDefRes Ste.fl Ste.has
  cases hs : st.syms name with
  | none => simp [bind, Except.bind, pure, Except.pure]
  | some sym =>
    by_cases h : (flags.param && sym.flags.param) = true
    · simp [h, bind, Except.bind, throw, throwThe, MonadExceptOf.throw]
    · simp [h, bind, Except.bind, pure, Except.pure]

theorem addDefRes_has (st : Ste) (name : Name) (flags : Flags) (n : Name) :
    (addDefRes st name flags).has n = (st.has n || decide (n = name)) := by
  simp only [addDefRes, Ste.has, Tbl.set_get]
  by_cases h : n = name <;> simp [h]

theorem addDefRes_fl (st : Ste) (name : Name) (flags : Flags) (n : Name) :
    (addDefRes st name flags).fl n = (st.fl n).or (if n = name then flags else {}) := by
  simp only [addDefRes, Ste.fl, Tbl.set_get]
  by_cases h : n = name
  · subst h; cases hs : st.syms n <;> simp [hs]
  · simp [h]

/-- `AddDef` with a non-parameter flag never fails and enters one event -/
theorem addDef_acc (st : Ste) (e : Ev) : addDef st e.name e.flags = .ok (addDefRes st e.name e.flags) ∧
    Acc st (addDefRes st e.name e.flags) [e] := by
  have hp : e.flags.param = false := by cases e <;> rfl
  refine ⟨by rw [addDef_eq]; simp [hp], rfl, rfl, fun n => ?_, fun n => ?_⟩
  · rw [addDefRes_has]; simp [evMentions]
  · rw [addDefRes_fl]; simp [evFlags]

/-! ### use / assignment before a declaration, as pass 1 sees it -/

def seenOf (st : Ste) : NPred := fun n => (st.fl n).loc || (st.fl n).use

/-- `seen` = names already assigned or used; the error test of `Parse` on `global`/`nonlocal` -/
def evBad (seen : NPred) : List Ev → Bool
  | [] => false
  | .bind n :: r => evBad (fun m => decide (m = n) || seen m) r
  | .use n :: r => evBad (fun m => decide (m = n) || seen m) r
  | .glob n :: r => seen n || evBad seen r
  | .nonloc n :: r => seen n || evBad seen r

def seenAfter (seen : NPred) (evs : List Ev) : NPred :=
  fun m => seen m || (evFlags evs m).loc || (evFlags evs m).use

theorem seenAfter_cons_bind (seen : NPred) (n : Name) (r : List Ev) :
    seenAfter (fun m => decide (m = n) || seen m) r = seenAfter seen (.bind n :: r) := by
  funext m
  simp only [seenAfter, evFlags, Ev.name, Ev.flags]
  by_cases h : m = n <;> simp [h, Flags.or, DefLocal, Bool.or_assoc, Bool.or_comm, Bool.or_left_comm]

theorem seenAfter_cons_use (seen : NPred) (n : Name) (r : List Ev) :
    seenAfter (fun m => decide (m = n) || seen m) r = seenAfter seen (.use n :: r) := by
  funext m
  simp only [seenAfter, evFlags, Ev.name, Ev.flags]
  by_cases h : m = n <;> simp [h, Flags.or, DefUse, Bool.or_assoc, Bool.or_comm, Bool.or_left_comm]

theorem seenAfter_cons_decl (seen : NPred) (e : Ev) (r : List Ev) (he : e.flags.loc = false ∧ e.flags.use = false) :
    seenAfter seen r = seenAfter seen (e :: r) := by
  funext m
  simp only [seenAfter, evFlags]
  by_cases h : m = e.name <;> simp [h, Flags.or, he.1, he.2]

theorem evBad_append (seen : NPred) (a b : List Ev) :
    evBad seen (a ++ b) = (evBad seen a || evBad (seenAfter seen a) b) := by
  induction a generalizing seen with
  | nil =>
    have : seenAfter seen [] = seen := by funext m; simp [seenAfter, evFlags]
    simp [evBad, this]
  | cons e a ih =>
    cases e with
    | bind n => simp only [List.cons_append, evBad, ih, seenAfter_cons_bind]
    | use n => simp only [List.cons_append, evBad, ih, seenAfter_cons_use]
    | glob n =>
      simp only [List.cons_append, evBad, ih, Bool.or_assoc]
      rw [seenAfter_cons_decl seen (.glob n) a ⟨rfl, rfl⟩]
    | nonloc n =>
      simp only [List.cons_append, evBad, ih, Bool.or_assoc]
      rw [seenAfter_cons_decl seen (.nonloc n) a ⟨rfl, rfl⟩]

theorem Acc.seen {st st' : Ste} {evs : List Ev} (h : Acc st st' evs) : seenOf st' = seenAfter (seenOf st) evs := by
  funext m
  simp only [seenOf, seenAfter, h.fl, Flags.or]
  cases (st.fl m).loc <;> cases (st.fl m).use <;> simp

/-- a list of binding/use events never trips the test -/
theorem evBad_nodecl (seen : NPred) (evs : List Ev) (h : ∀ e ∈ evs, (∃ n, e = .bind n) ∨ (∃ n, e = .use n)) :
    evBad seen evs = false := by
  induction evs generalizing seen with
  | nil => rfl
  | cons e r ih =>
    rcases h e (List.mem_cons_self) with ⟨n, rfl⟩ | ⟨n, rfl⟩ <;>
      exact ih _ (fun e he => h e (List.mem_cons_of_mem _ he))


/-! ### `Parse` on one statement -/

/-- the event of a name statement (`del` is a binding occurrence) -/
def NOp.ev : NOp → Ev
  | .bind n _ => .bind n | .del n => .bind n | .use n => .use n | .glob n => .glob n | .nonloc n => .nonloc n

theorem events_op (o : NOp) (rest : Body) : events (.op o rest) = o.ev :: events rest := by cases o <;> rfl

theorem parseOp_glob (st : Ste) (n : Name) :
    parseOp st (.glob n) = if seenOf st n then
        .error (if (st.fl n).loc then Err.assignedBeforeGlobal else Err.usedBeforeGlobal)
      else .ok (addDefRes st n DefGlobal, [n]) := by
  have h := (addDef_acc st (.glob n)).1
  simp only [Ev.name, Ev.flags] at h
  simp only [parseOp, seenOf, h]
  split
  · next cur hs =>
    have : st.fl n = cur.flags := by simp [Ste.fl, hs]
    simp only [this]
    cases h1 : cur.flags.loc <;> cases h2 : cur.flags.use <;>
      simp [bind, Except.bind, pure, Except.pure, throw, throwThe, MonadExceptOf.throw]
  · next hs =>
    have : st.fl n = {} := by simp [Ste.fl, hs]
    simp only [this]
    simp [bind, Except.bind, pure, Except.pure]

theorem parseOp_nonloc (st : Ste) (n : Name) :
    parseOp st (.nonloc n) = if seenOf st n then
        .error (if (st.fl n).loc then Err.assignedBeforeNonlocal else Err.usedBeforeNonlocal)
      else .ok (addDefRes st n DefNonlocal, []) := by
  have h := (addDef_acc st (.nonloc n)).1
  simp only [Ev.name, Ev.flags] at h
  simp only [parseOp, seenOf, h]
  split
  · next cur hs =>
    have : st.fl n = cur.flags := by simp [Ste.fl, hs]
    simp only [this]
    cases h1 : cur.flags.loc <;> cases h2 : cur.flags.use <;>
      simp [bind, Except.bind, pure, Except.pure, throw, throwThe, MonadExceptOf.throw]
  · next hs =>
    have : st.fl n = {} := by simp [Ste.fl, hs]
    simp only [this]
    simp [bind, Except.bind, pure, Except.pure]

def declG : NOp → List Name | .glob n => [n] | _ => []

theorem parseOp_spec (st : Ste) (o : NOp) :
    match parseOp st o with
    | .error _ => evBad (seenOf st) [o.ev] = true
    | .ok (st', g) => evBad (seenOf st) [o.ev] = false ∧ Acc st st' [o.ev] ∧ g = declG o := by
  cases o with
  | bind n v =>
    have h := addDef_acc st (.bind n)
    simp only [Ev.name, Ev.flags] at h
    simp only [parseOp, h.1, bind, Except.bind, pure, Except.pure, NOp.ev, evBad]
    exact ⟨trivial, h.2, rfl⟩
  | del n =>
    have h := addDef_acc st (.bind n)
    simp only [Ev.name, Ev.flags] at h
    simp only [parseOp, h.1, bind, Except.bind, pure, Except.pure, NOp.ev, evBad]
    exact ⟨trivial, h.2, rfl⟩
  | use n =>
    have h := addDef_acc st (.use n)
    simp only [Ev.name, Ev.flags] at h
    simp only [parseOp, h.1, bind, Except.bind, pure, Except.pure, NOp.ev, evBad]
    exact ⟨trivial, h.2, rfl⟩
  | glob n =>
    have h := addDef_acc st (.glob n)
    simp only [Ev.name, Ev.flags] at h
    rw [parseOp_glob]
    by_cases hs : seenOf st n = true
    · simp [hs, NOp.ev, evBad]
    · simp only [hs, if_false, NOp.ev, evBad, Bool.or_false]
      exact ⟨by simpa using hs, h.2, rfl⟩
  | nonloc n =>
    have h := addDef_acc st (.nonloc n)
    simp only [Ev.name, Ev.flags] at h
    rw [parseOp_nonloc]
    by_cases hs : seenOf st n = true
    · simp [hs, NOp.ev, evBad]
    · simp only [hs, if_false, NOp.ev, evBad, Bool.or_false]
      exact ⟨by simpa using hs, h.2, rfl⟩

/-! ### defaults, parameters, the fresh table of a block -/

def dfltEvs (ps : List Param) : List Ev := ps.filterMap fun p => p.dflt.map Ev.use

theorem defaultUses_spec : ∀ (ps : List Param) (st : Ste), ∃ st', defaultUses st ps = .ok st' ∧ Acc st st' (dfltEvs ps)
  | [], st => ⟨st, rfl, Acc.refl st⟩
  | p :: ps, st => by
    cases hd : p.dflt with
    | none =>
      obtain ⟨st', h1, h2⟩ := defaultUses_spec ps st
      refine ⟨st', ?_, ?_⟩
      · simp only [defaultUses, hd, bind, Except.bind, pure, Except.pure]; exact h1
      · simpa [dfltEvs, hd] using h2
    | some y =>
      have h := addDef_acc st (.use y)
      simp only [Ev.name, Ev.flags] at h
      obtain ⟨st', h1, h2⟩ := defaultUses_spec ps (addDefRes st y DefUse)
      refine ⟨st', ?_, ?_⟩
      · simp only [defaultUses, hd, h.1, bind, Except.bind]; exact h1
      · have := h.2.trans h2
        simpa [dfltEvs, hd] using this

theorem foldLocal_spec : ∀ (l : List Param) (st : Ste),
    ∃ st', l.foldlM (fun s p => addDef s p.name DefLocal) st = .ok st' ∧ Acc st st' (l.map fun p => Ev.bind p.name)
  | [], st => ⟨st, rfl, Acc.refl st⟩
  | p :: l, st => by
    have h := addDef_acc st (.bind p.name)
    simp only [Ev.name, Ev.flags] at h
    obtain ⟨st', h1, h2⟩ := foldLocal_spec l (addDefRes st p.name DefLocal)
    refine ⟨st', ?_, ?_⟩
    · simp only [List.foldlM_cons, h.1, bind, Except.bind]; exact h1
    · simpa using h.2.trans h2

theorem hasDup_iff (l : List Name) : hasDup l = true ↔ ¬ l.Nodup := by
  induction l with
  | nil => simp [hasDup]
  | cons a l ih =>
    simp only [hasDup, Bool.or_eq_true, ih, List.nodup_cons, List.contains_iff_mem]
    by_cases h : a ∈ l <;> simp [h]

theorem hasDup_perm {l1 l2 : List Name} (h : l1.Perm l2) : hasDup l1 = hasDup l2 := by
  rw [Bool.eq_iff_iff, hasDup_iff, hasDup_iff, h.nodup_iff]

theorem count_filter_ite (q : Param → Bool) (a : Param) (l : List Param) :
    (l.filter q).count a = if q a then l.count a else 0 := by
  induction l with
  | nil => simp
  | cons x l ih =>
    by_cases hx : q x = true
    · simp only [List.filter_cons, hx, if_true, List.count_cons, ih]
      by_cases hq : q a = true
      · simp [hq]
      · have : (x == a) = false := by
          rw [beq_eq_false_iff_ne]; intro h; subst h; exact hq hx
        simp [hq, this]
    · simp only [List.filter_cons, hx, List.count_cons, ih]
      by_cases hq : q a = true
      · have : (x == a) = false := by
          rw [beq_eq_false_iff_ne]; intro h; subst h; exact hx hq
        simp [hq, this]
      · simp [hq] at ih ⊢; exact ih

theorem order_perm (ps : List Param) :
    (ps.filter (·.kind == .pos) ++ ps.filter (·.kind == .kwonly) ++ ps.filter (·.kind == .star) ++
      ps.filter (·.kind == .dstar)).Perm ps := by
  rw [List.perm_iff_count]
  intro a
  simp only [List.count_append, count_filter_ite]
  cases hk : a.kind <;> simp


/-- the loop of `addArgumentsToSymbolTable` over a table whose symbols are all parameters -/
theorem foldParams_spec : ∀ (l : List Param) (st : Ste), (∀ n, st.has n = true → (st.fl n).param = true) →
    match l.foldlM (fun st p => addDef st p.name DefParam) st with
    | .error _ => (l.any fun p => st.has p.name) = true ∨ hasDup (l.map (·.name)) = true
    | .ok st' => (l.any fun p => st.has p.name) = false ∧ hasDup (l.map (·.name)) = false ∧
        st'.typ = st.typ ∧ st'.name = st.name ∧
        (∀ n, st'.has n = (st.has n || (l.map (·.name)).contains n)) ∧
        (∀ n, st'.fl n = (st.fl n).or (if (l.map (·.name)).contains n then DefParam else {}))
  | [], st, _ => by simp [hasDup, pure, Except.pure]
  | p :: l, st, hinv => by
    have hstep := addDef_eq st p.name DefParam
    simp only [List.foldlM_cons]
    by_cases hh : st.has p.name = true
    · rw [hstep]; simp [hh, hinv _ hh, DefParam, bind, Except.bind]
    · have hh' : st.has p.name = false := by simpa using hh
      rw [hstep]
      simp only [hh', Bool.and_false, Bool.false_eq_true, if_false, bind, Except.bind]
      have hinv' : ∀ n, (addDefRes st p.name DefParam).has n = true → ((addDefRes st p.name DefParam).fl n).param = true := by
        intro n hn
        rw [addDefRes_has] at hn
        rw [addDefRes_fl]
        by_cases hnp : n = p.name
        · simp [hnp, Flags.or, DefParam]
        · simp only [hnp, decide_false, Bool.or_false] at hn
          simp [hnp, Flags.or, hinv _ hn]
      have ih := foldParams_spec l (addDefRes st p.name DefParam) hinv'
      revert ih
      cases hres : l.foldlM (fun st p => addDef st p.name DefParam) (addDefRes st p.name DefParam) with
      | error e =>
        simp only [hres]
        intro ih
        rcases ih with ih | ih
        · simp only [List.any_eq_true, addDefRes_has, Bool.or_eq_true, decide_eq_true_eq] at ih
          obtain ⟨q, hq, hq2⟩ := ih
          rcases hq2 with hq2 | hq2
          · left; simp only [List.any_cons, hh', Bool.false_or, List.any_eq_true]; exact ⟨q, hq, hq2⟩
          · right; simp only [List.map_cons, hasDup, Bool.or_eq_true, List.contains_iff_mem, List.mem_map]
            left; exact ⟨q, hq, hq2⟩
        · right; simp [hasDup, ih]
      | ok st' =>
        simp only [hres]
        rintro ⟨h1, h2, h3, h4, h5, h6⟩
        have hnot : (l.map (·.name)).contains p.name = false := by
          rw [Bool.eq_false_iff]; intro hc
          rw [List.contains_iff_mem, List.mem_map] at hc
          obtain ⟨q, hq, hq2⟩ := hc
          have := List.any_eq_false.1 h1 q hq
          rw [addDefRes_has, hq2] at this
          simp at this
        refine ⟨?_, ?_, h3, h4, fun n => ?_, fun n => ?_⟩
        · simp only [List.any_cons, hh', Bool.false_or]
          rw [List.any_eq_false] at h1 ⊢
          intro q hq
          have := h1 q hq
          rw [addDefRes_has] at this
          simp only [Bool.or_eq_true, decide_eq_true_eq, not_or] at this
          simpa using this.1
        · simp only [List.map_cons, hasDup, hnot, h2, Bool.or_self]
        · rw [h5, addDefRes_has]
          simp only [List.map_cons, List.contains_cons, Bool.or_assoc]
          by_cases hnp : n = p.name
          · simp [hnp]
          · have : (n == p.name) = false := by simpa using hnp
            simp [hnp, this]
        · rw [h6, addDefRes_fl, Flags.or_assoc]
          congr 1
          by_cases hnp : n = p.name
          · rw [hnp, hnot]; simp [List.contains_cons]
          · have : (n == p.name) = false := by simpa using hnp
            simp only [hnp, if_false, List.map_cons, List.contains_cons, this, Bool.false_or, Flags.empty_or]


/-- the names that carry `DefParam` in a fresh table -/
def paramFlagNames (k : Kind) (ps : List Param) : List Name :=
  match k with
  | .comp => [".0"]
  | .cls => []
  | _ => ps.map (·.name)

/-- the names a fresh table has already "assigned" (comprehension: `_[1]` and the targets) -/
def initSeen (k : Kind) (ps : List Param) : NPred :=
  match k with
  | .comp => fun n => decide (n = "_[1]") || (ps.map (·.name)).contains n
  | _ => fun _ => false

/-- the table of a new block before its body is parsed (the `match k with` of `parseBody`) -/
def initTable (k : Kind) (name : Name) (ps : List Param) (parent : Ste) : Except Err Ste :=
  let stNew := newSte (blockTypeOf k) (blockNameOf k name) parent
  match k with
  | .comp => do
    let s ← addDef stNew ".0" DefParam
    let s ← addDef s "_[1]" DefLocal
    ps.foldlM (fun s p => addDef s p.name DefLocal) s
  | .cls => pure stNew
  | _ => addParams stNew ps

structure InitOK (k : Kind) (name : Name) (ps : List Param) (st0 : Ste) : Prop where
  typ : st0.typ = blockTypeOf k
  name : st0.name = blockNameOf k name
  has : ∀ n, st0.has n = (paramNames k ps).contains n
  param : ∀ n, (st0.fl n).param = (paramFlagNames k ps).contains n
  loc : ∀ n, (st0.fl n).loc = initSeen k ps n
  rest : ∀ n, (st0.fl n).use = false ∧ (st0.fl n).glob = false ∧ (st0.fl n).nonloc = false ∧ (st0.fl n).imp = false

theorem newSte_has (t : BlockType) (nm : String) (parent : Ste) (n : Name) : (newSte t nm parent).has n = false := rfl
theorem newSte_fl (t : BlockType) (nm : String) (parent : Ste) (n : Name) : (newSte t nm parent).fl n = {} := rfl

theorem evFlags_binds (l : List Name) (n : Name) :
    evFlags (l.map Ev.bind) n = if l.contains n then DefLocal else {} := by
  induction l with
  | nil => rfl
  | cons a l ih =>
    simp only [List.map_cons, evFlags, Ev.name, Ev.flags, ih, List.contains_cons]
    by_cases h : n = a
    · subst h; simp only [if_true, BEq.rfl, Bool.true_or]; split_ifs <;> rfl
    · have : (n == a) = false := by simpa using h
      simp [h, this]

theorem evMentions_binds (l : List Name) (n : Name) : evMentions (l.map Ev.bind) n = l.contains n := by
  rw [evMentions_eq, Bool.eq_iff_iff]
  simp [List.contains_iff_mem]

theorem addParams_init_spec (t : BlockType) (nm : String) (parent : Ste) (ps : List Param) :
    match addParams (newSte t nm parent) ps with
    | .error _ => hasDup (ps.map (·.name)) = true
    | .ok st' => hasDup (ps.map (·.name)) = false ∧ st'.typ = t ∧ st'.name = nm ∧
        (∀ n, st'.has n = (ps.map (·.name)).contains n) ∧
        (∀ n, st'.fl n = if (ps.map (·.name)).contains n then DefParam else {}) := by
  have hperm := order_perm ps
  have h := foldParams_spec (ps.filter (·.kind == .pos) ++ ps.filter (·.kind == .kwonly) ++ ps.filter (·.kind == .star) ++
      ps.filter (·.kind == .dstar)) (newSte t nm parent) (fun n hn => by simp [newSte_has] at hn)
  have hdup := hasDup_perm (hperm.map Param.name)
  have hmem : ∀ n, ((ps.filter (·.kind == .pos) ++ ps.filter (·.kind == .kwonly) ++ ps.filter (·.kind == .star) ++
      ps.filter (·.kind == .dstar)).map (·.name)).contains n = (ps.map (·.name)).contains n := by
    intro n
    rw [Bool.eq_iff_iff, List.contains_iff_mem, List.contains_iff_mem]
    exact (hperm.map Param.name).mem_iff
  have hadd : addParams (newSte t nm parent) ps = List.foldlM (fun st (p : Param) => addDef st p.name DefParam) (newSte t nm parent)
      (ps.filter (·.kind == .pos) ++ ps.filter (·.kind == .kwonly) ++ ps.filter (·.kind == .star) ++
      ps.filter (·.kind == .dstar)) := rfl
  rw [hadd]
  revert h
  generalize List.foldlM (fun st (p : Param) => addDef st p.name DefParam) (newSte t nm parent) _ = res
  cases res with
  | error e =>
    intro h
    simp only [newSte_has, List.any_eq_true, Bool.false_eq_true, and_false, exists_false, false_or] at h
    rw [← hdup]; exact h
  | ok st' =>
    rintro ⟨_, h2, h3, h4, h5, h6⟩
    refine ⟨hdup ▸ h2, h3, h4, fun n => ?_, fun n => ?_⟩
    · rw [h5, newSte_has, hmem]; simp
    · rw [h6, newSte_fl, hmem]; simp

theorem init_spec (k : Kind) (name : Name) (ps : List Param) (parent : Ste) :
    match initTable k name ps parent with
    | .error _ => (k != .comp && hasDup (paramNames k ps)) = true
    | .ok st0 => (k != .comp && hasDup (paramNames k ps)) = false ∧ InitOK k name ps st0 := by
  cases k with
  | cls =>
    simp only [initTable, pure, Except.pure, paramNames, hasDup, Bool.and_false, true_and]
    exact ⟨rfl, rfl, fun n => rfl, fun n => rfl, fun n => rfl, fun n => ⟨rfl, rfl, rfl, rfl⟩⟩
  | func =>
    have h := addParams_init_spec (blockTypeOf .func) (blockNameOf .func name) parent ps
    simp only [initTable, paramNames]
    revert h
    cases addParams (newSte (blockTypeOf .func) (blockNameOf .func name) parent) ps with
    | error e => intro h; simpa using h
    | ok st' =>
      rintro ⟨h1, h2, h3, h4, h5⟩
      refine ⟨by simpa using h1, h2, h3, h4, fun n => ?_, fun n => ?_, fun n => ?_⟩
      · rw [h5]; simp only [paramFlagNames]; split_ifs <;> simp_all [DefParam]
      · rw [h5]; simp only [initSeen]; split_ifs <;> rfl
      · rw [h5]; split_ifs <;> exact ⟨rfl, rfl, rfl, rfl⟩
  | lam =>
    have h := addParams_init_spec (blockTypeOf .lam) (blockNameOf .lam name) parent ps
    simp only [initTable, paramNames]
    revert h
    cases addParams (newSte (blockTypeOf .lam) (blockNameOf .lam name) parent) ps with
    | error e => intro h; simpa using h
    | ok st' =>
      rintro ⟨h1, h2, h3, h4, h5⟩
      refine ⟨by simpa using h1, h2, h3, h4, fun n => ?_, fun n => ?_, fun n => ?_⟩
      · rw [h5]; simp only [paramFlagNames]; split_ifs <;> simp_all [DefParam]
      · rw [h5]; simp only [initSeen]; split_ifs <;> rfl
      · rw [h5]; split_ifs <;> exact ⟨rfl, rfl, rfl, rfl⟩
  | comp =>
    have e1 : addDef (newSte (blockTypeOf .comp) (blockNameOf .comp name) parent) ".0" DefParam
        = .ok (addDefRes (newSte (blockTypeOf .comp) (blockNameOf .comp name) parent) ".0" DefParam) := by
      rw [addDef_eq]; simp [newSte_has]
    have e2 := addDef_acc (addDefRes (newSte (blockTypeOf .comp) (blockNameOf .comp name) parent) ".0" DefParam) (.bind "_[1]")
    simp only [Ev.name, Ev.flags] at e2
    obtain ⟨st', e3, hacc⟩ := foldLocal_spec ps
      (addDefRes (addDefRes (newSte (blockTypeOf .comp) (blockNameOf .comp name) parent) ".0" DefParam) "_[1]" DefLocal)
    have hacc := e2.2.trans hacc
    have hev : [Ev.bind "_[1]"] ++ ps.map (fun p => Ev.bind p.name) = ("_[1]" :: ps.map (·.name)).map Ev.bind := by simp
    rw [hev] at hacc
    simp only [initTable, e1, e2.1, e3, bind, Except.bind, bne_self_eq_false, Bool.false_and, true_and]
    refine ⟨hacc.typ, hacc.name, fun n => ?_, fun n => ?_, fun n => ?_, fun n => ?_⟩
    · rw [hacc.has, evMentions_binds, addDefRes_has, newSte_has]
      simp only [paramNames, List.cons_append, List.nil_append, List.contains_cons, Bool.false_or]
      rw [Bool.eq_iff_iff]; simp
    · rw [hacc.fl, evFlags_binds, addDefRes_fl, newSte_fl]
      simp only [paramFlagNames, List.contains_cons, List.contains_nil, Bool.or_false, Flags.empty_or]
      by_cases h : n = ".0" <;> split_ifs <;> simp_all [Flags.or, DefParam, DefLocal]
    · rw [hacc.fl, evFlags_binds, addDefRes_fl, newSte_fl]
      simp only [initSeen, List.contains_cons, Flags.empty_or]
      by_cases h : n = ".0" <;> split_ifs <;> simp_all [Flags.or, DefParam, DefLocal]
    · rw [hacc.fl, evFlags_binds, addDefRes_fl, newSte_fl]
      simp only [Flags.empty_or]
      by_cases h : n = ".0" <;> split_ifs <;> simp [h, Flags.or, DefParam, DefLocal]


/-! ### the pass-1 forest of a body -/

/-- what pass 1 leaves in the table of a block: exactly the source facts (`events`) -/
structure SteFacts (k : Kind) (name : Name) (ps : List Param) (body : Body) (st : Ste) : Prop where
  typ : st.typ = blockTypeOf k
  name : st.name = blockNameOf k name
  has : ∀ n, st.has n = (infoOf k ps body).mentions n
  glob : ∀ n, (st.fl n).glob = (infoOf k ps body).globs n
  nonloc : ∀ n, (st.fl n).nonloc = (infoOf k ps body).nonlocs n
  bound : ∀ n, (st.fl n).bound = (infoOf k ps body).binds n
  param : ∀ n, (st.fl n).param = (paramFlagNames k ps).contains n

/-- `f` is the list of pass-1 tables of the blocks nested in `body`, each holding its source facts -/
def Parsed : Body → Forest → Prop
  | .nil, f => f = .nil
  | .op _ rest, f => Parsed rest f
  | .child k name ps body rest, f =>
    ∃ st kids sibs, f = .node st kids sibs ∧ SteFacts k name ps body st ∧ Parsed body kids ∧ Parsed rest sibs

/-- pass 1 rejects the block itself: duplicate parameters, or a declaration after a use/assignment
(a comprehension's `_[1]` and targets count as assigned) -/
def blockBad1 (k : Kind) (ps : List Param) (body : Body) : Bool :=
  (k != .comp && hasDup (paramNames k ps)) || evBad (initSeen k ps) (events body)

/-- pass 1 rejects some block nested in the body -/
def bad1 : Body → Bool
  | .nil => false
  | .op _ rest => bad1 rest
  | .child k _ ps body rest => blockBad1 k ps body || bad1 body || bad1 rest

theorem paramFlag_or_initSeen (k : Kind) (ps : List Param) (n : Name) :
    ((paramFlagNames k ps).contains n || initSeen k ps n) = (paramNames k ps).contains n := by
  cases k <;> simp [paramFlagNames, initSeen, paramNames, List.contains_cons, Bool.or_assoc]

theorem InitOK.seen {k : Kind} {name : Name} {ps : List Param} {st0 : Ste} (h : InitOK k name ps st0) :
    seenOf st0 = initSeen k ps := by
  funext n; simp [seenOf, h.loc, (h.rest n).1]

theorem SteFacts.of_init {k : Kind} {name : Name} {ps : List Param} {body : Body} {st0 st : Ste}
    (h0 : InitOK k name ps st0) (h : Acc st0 st (events body)) : SteFacts k name ps body st := by
  refine ⟨h.typ.trans h0.typ, h.name.trans h0.name, fun n => ?_, fun n => ?_, fun n => ?_, fun n => ?_, fun n => ?_⟩
  · rw [h.has, h0.has, evMentions_eq]
    simp only [SInfo.mentions, SInfo.binds, SInfo.uses, SInfo.globs, SInfo.nonlocs, infoOf, Bool.or_assoc]
  · rw [h.fl]; simp [Flags.or, (h0.rest n).2.1, evFlags_glob, SInfo.globs, infoOf]
  · rw [h.fl]; simp [Flags.or, (h0.rest n).2.2.1, evFlags_nonloc, SInfo.nonlocs, infoOf]
  · rw [h.fl]
    simp only [Flags.bound, Flags.or, (h0.rest n).2.2.2, evFlags_loc, (evFlags_param _ n).1, (evFlags_param _ n).2,
      h0.loc, h0.param, SInfo.binds, infoOf, Bool.or_false]
    rw [← paramFlag_or_initSeen]
    cases (paramFlagNames k ps).contains n <;> cases initSeen k ps n <;> simp
  · rw [h.fl]; simp [Flags.or, h0.param, (evFlags_param _ n).1]

/-- the events a nested block contributes to the enclosing block, before and after its own body -/
def preEvs (k : Kind) (name : Name) : List Ev := if k == .func || k == .cls then [Ev.bind name] else []
def postEvs (k : Kind) (name : Name) : List Ev := if k == .func then [Ev.use name] else []

theorem events_child (k : Kind) (name : Name) (ps : List Param) (body rest : Body) :
    events (.child k name ps body rest) = preEvs k name ++ dfltEvs ps ++ postEvs k name ++ events rest := by
  simp [events, preEvs, postEvs, dfltEvs]

theorem preStep (st : Ste) (k : Kind) (name : Name) :
    ∃ st', (if k == .func || k == .cls then addDef st name DefLocal else pure st) = .ok st' ∧ Acc st st' (preEvs k name) := by
  unfold preEvs
  by_cases h : (k == .func || k == .cls) = true
  · have := addDef_acc st (.bind name)
    simp only [Ev.name, Ev.flags] at this
    exact ⟨_, by simp only [h, if_true]; exact this.1, by simp only [h, if_true]; exact this.2⟩
  · exact ⟨st, by simp only [h]; rfl, by simp only [h]; exact Acc.refl st⟩

theorem postStep (st : Ste) (k : Kind) (name : Name) :
    ∃ st', (if k == .func then addDef st name DefUse else pure st) = .ok st' ∧ Acc st st' (postEvs k name) := by
  unfold postEvs
  by_cases h : (k == .func) = true
  · have := addDef_acc st (.use name)
    simp only [Ev.name, Ev.flags] at this
    exact ⟨_, by simp only [h, if_true]; exact this.1, by simp only [h, if_true]; exact this.2⟩
  · exact ⟨st, by simp only [h]; rfl, by simp only [h]; exact Acc.refl st⟩

theorem parseBody_child (st : Ste) (k : Kind) (name : Name) (ps : List Param) (body rest : Body) :
    parseBody st (.child k name ps body rest) =
      ((if k == .func || k == .cls then addDef st name DefLocal else pure st) >>= fun st =>
       defaultUses st ps >>= fun st =>
       initTable k name ps st >>= fun stNew =>
       parseBody stNew body >>= fun r =>
       (if k == .func then addDef st name DefUse else pure st) >>= fun st' =>
       parseBody st' rest >>= fun r2 =>
       pure (r2.1, .node r.1 r.2.1 r2.2.1, r.2.2 ++ r2.2.2)) := by
  rw [parseBody]
  cases k <;> rfl

def GsOK (gs : List Name) (body : Body) : Prop :=
  ∀ n, n ∈ gs ↔ ((events body).contains (.glob n) = true ∨ globalsBelow body n = true)

/-- invariant (i): what `Parse` over a block body does -/
def P1Post (st : Ste) (body : Body) : Except Err (Ste × Forest × List Name) → Prop
  | .error _ => evBad (seenOf st) (events body) = true ∨ bad1 body = true
  | .ok (st', kids, gs) => evBad (seenOf st) (events body) = false ∧ bad1 body = false ∧
      Acc st st' (events body) ∧ Parsed body kids ∧ GsOK gs body

theorem contains_glob_nodecl (evs : List Ev) (h : ∀ e ∈ evs, (∃ n, e = .bind n) ∨ (∃ n, e = .use n)) (n : Name) :
    evs.contains (.glob n) = false := by
  rw [Bool.eq_false_iff]
  intro hm
  rw [List.contains_iff_mem] at hm
  rcases h _ hm with ⟨m, hm'⟩ | ⟨m, hm'⟩ <;> cases hm'

theorem nodecl_mid (k : Kind) (name : Name) (ps : List Param) :
    ∀ e ∈ preEvs k name ++ dfltEvs ps ++ postEvs k name, (∃ n, e = .bind n) ∨ (∃ n, e = .use n) := by
  intro e he
  simp only [List.mem_append, preEvs, postEvs, dfltEvs, List.mem_filterMap] at he
  rcases he with (he | ⟨p, _, hp⟩) | he
  · split_ifs at he <;> simp_all
  · cases hd : p.dflt with
    | none => simp [hd] at hp
    | some y => simp only [hd, Option.map_some, Option.some.injEq] at hp; exact Or.inr ⟨y, hp.symm⟩
  · split_ifs at he <;> simp_all

theorem exOk_bind {ε α β : Type} (a : α) (k : α → Except ε β) : (Except.ok a >>= k) = k a := rfl
theorem exErr_bind {ε α β : Type} (e : ε) (k : α → Except ε β) : ((Except.error e : Except ε α) >>= k) = Except.error e := rfl

theorem parseBody_spec : ∀ (body : Body) (st : Ste), P1Post st body (parseBody st body)
  | .nil, st => by
    simp only [parseBody, pure, Except.pure, P1Post, events, evBad, bad1, Parsed, GsOK, true_and]
    exact ⟨Acc.refl st, fun n => by simp [globalsBelow]⟩
  | .op o rest, st => by
    rw [parseBody]
    have h1 := parseOp_spec st o
    have hev := events_op o rest
    have happ : ∀ seen, evBad seen (o.ev :: events rest) = (evBad seen [o.ev] || evBad (seenAfter seen [o.ev]) (events rest)) :=
      fun seen => evBad_append seen [o.ev] (events rest)
    revert h1
    cases hres : parseOp st o with
    | error e =>
      intro h1
      simp only [bind, Except.bind, P1Post, hev, happ]
      left; simp only [h1, Bool.true_or]
    | ok r =>
      obtain ⟨st1, g⟩ := r
      rintro ⟨h1, h2, h3⟩
      have ih := parseBody_spec rest st1
      revert ih
      simp only [bind, Except.bind]
      cases hres2 : parseBody st1 rest with
      | error e =>
        intro ih
        simp only [P1Post, hev, happ, bad1, h1, Bool.false_or] at ih ⊢
        rw [← h2.seen]; exact ih
      | ok r2 =>
        obtain ⟨st2, kids, gs⟩ := r2
        rintro ⟨i1, i2, i3, i4, i5⟩
        simp only [P1Post, pure, Except.pure, hev, happ, bad1, h1, Bool.false_or]
        refine ⟨by rw [← h2.seen]; exact i1, i2, h2.trans i3, i4, fun n => ?_⟩
        rw [hev, List.mem_append, i5 n, h3]
        cases o <;> simp [declG, NOp.ev, globalsBelow, or_assoc]
  | .child k name ps body rest, st => by
    rw [parseBody_child]
    obtain ⟨st1, e1, a1⟩ := preStep st k name
    obtain ⟨st2, e2, a2⟩ := defaultUses_spec ps st1
    obtain ⟨st3, e3, a3⟩ := postStep st2 k name
    have hinit := init_spec k name ps st2
    have a123 := (a1.trans a2).trans a3
    have hev := events_child k name ps body rest
    have hmid := nodecl_mid k name ps
    have hbad : evBad (seenOf st) (events (.child k name ps body rest)) = evBad (seenOf st3) (events rest) := by
      rw [hev, evBad_append, evBad_nodecl _ _ hmid, Bool.false_or, ← a123.seen]
    have hglob : ∀ n, (events (.child k name ps body rest)).contains (.glob n) = (events rest).contains (.glob n) := by
      intro n
      rw [hev, List.contains_append, contains_glob_nodecl _ hmid, Bool.false_or]
    simp only [e1, exOk_bind, e2]
    revert hinit
    cases hres0 : initTable k name ps st2 with
    | error e =>
      intro hinit
      simp only [exErr_bind, P1Post, bad1, blockBad1]
      simp only [] at hinit
      simp only [hinit, Bool.true_or, or_true]
    | ok st0 =>
      rintro ⟨hd, h0⟩
      have ihb := parseBody_spec body st0
      revert ihb
      simp only [exOk_bind]
      cases hres1 : parseBody st0 body with
      | error e =>
        intro ihb
        simp only [P1Post, h0.seen] at ihb
        simp only [exErr_bind, P1Post, bad1, blockBad1, Bool.or_eq_true]
        right
        rcases ihb with ihb | ihb
        · left; left; right; exact ihb
        · left; right; exact ihb
      | ok r1 =>
        obtain ⟨stB, kidsB, g1⟩ := r1
        rintro ⟨b1, b2, b3, b4, b5⟩
        rw [h0.seen] at b1
        have ihr := parseBody_spec rest st3
        revert ihr
        simp only [exOk_bind, e3]
        cases hres2 : parseBody st3 rest with
        | error e =>
          intro ihr
          simp only [exErr_bind, P1Post, hbad, bad1, Bool.or_eq_true] at ihr ⊢
          rcases ihr with ihr | ihr
          · left; exact ihr
          · right; right; exact ihr
        | ok r2 =>
          obtain ⟨st4, sibs, g2⟩ := r2
          rintro ⟨r1, r2, r3, r4, r5⟩
          simp only [exOk_bind, P1Post, pure, Except.pure, hbad, bad1, blockBad1, hd, b1, b2, r1, r2, Bool.or_self, true_and]
          refine ⟨?_, ?_, ?_⟩
          · have := a123.trans r3
            rw [hev]; exact this
          · exact ⟨stB, kidsB, sibs, rfl, SteFacts.of_init h0 b3, b4, r4⟩
          · intro n
            rw [List.mem_append, b5 n, r5 n, hglob n]
            simp only [globalsBelow, Bool.or_eq_true]
            constructor
            · rintro ((h | h) | (h | h))
              · exact Or.inr (Or.inl (Or.inl h))
              · exact Or.inr (Or.inl (Or.inr h))
              · exact Or.inl h
              · exact Or.inr (Or.inr h)
            · rintro (h | ((h | h) | h))
              · exact Or.inr (Or.inl h)
              · exact Or.inl (Or.inl h)
              · exact Or.inl (Or.inr h)
              · exact Or.inr (Or.inr h)

end GPy.C03
