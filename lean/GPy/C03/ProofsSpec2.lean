/-
C03 `analyze_spec`, continued.
Part C  pass 2 on one block, pointwise: the `AnalyzeName` loop, `AnalyzeCells`, `Symbols.Update`
Part D  the induction over the scope tree
-/
import GPy.C03.ProofsSpec
namespace GPy.C03

/-! ## Part C -/

def NAct.isErr : NAct → Bool | .err _ => true | _ => false
def NAct.scope : NAct → Scope
  | .err _ => .invalid | .ge => .globalExplicit | .free => .free | .loc => .local | .gi => .globalImplicit

/-- `AnalyzeName`'s decision does not depend on the `global` set (both branches say GlobalImplicit) -/
theorem nameAct_g (f : Flags) (bnd : Option Bool) (g : Bool) : nameAct f bnd g = nameAct f bnd false := by
  unfold nameAct; cases g <;> simp

/-- the AnalyzeName state seen at one key -/
structure ANAt where
  scope : Scope
  bound : Option Bool
  loc : Bool
  free : Bool

def AN.at (s : AN) (m : Name) : ANAt := ⟨s.scopes.get m, s.bound.map (·.get m), s.loc.get m, s.free.get m⟩

def actAt : NAct → ANAt → ANAt
  | .err _, a => a
  | .ge, a => { a with scope := .globalExplicit, bound := a.bound.map fun _ => false }
  | .free, a => { a with scope := .free, free := true }
  | .loc, a => { a with scope := .local, loc := true }
  | .gi, a => { a with scope := .globalImplicit }

theorem applyAct_at {s s' : AN} {k : Name} {A : NAct} (h : applyAct s k A = .ok s') (m : Name) :
    s'.at m = if m = k then actAt A (s.at k) else s.at m := by
  by_cases hm : m = k
  · subst hm
    cases A <;> simp only [applyAct, Except.ok.injEq, reduceCtorEq] at h <;> subst h <;>
      cases hb : s.bound <;> simp [AN.at, actAt, hb, NSet.add, NSet.discard, Tbl.set_get]
  · cases A <;> simp only [applyAct, Except.ok.injEq, reduceCtorEq] at h <;> subst h <;>
      cases hb : s.bound <;> simp [AN.at, actAt, hm, hb, NSet.add, NSet.discard, Tbl.set_get]

theorem applyAct_err {s : AN} {k : Name} {A : NAct} : (∃ e, applyAct s k A = .error e) ↔ A.isErr = true := by
  cases A <;> simp [applyAct, NAct.isErr]

/-- the `AnalyzeName` loop over a duplicate-free key list, pointwise: every key is decided by the
flags of its symbol and the ORIGINAL `bound` set at that key -/
theorem anFold_spec (syms : Tbl (Option Sym)) : ∀ (l : List Name), l.Nodup → ∀ (s : AN),
    match l.foldlM (anStep syms) s with
    | .error _ => ∃ k ∈ l, ∃ v, syms.get k = some v ∧ (nameAct v.flags (s.at k).bound false).isErr = true
    | .ok s' => (∀ k ∈ l, ∀ v, syms.get k = some v → (nameAct v.flags (s.at k).bound false).isErr = false) ∧
        ∀ m, s'.at m = if m ∈ l then
            (match syms.get m with
             | some v => actAt (nameAct v.flags (s.at m).bound false) (s.at m)
             | none => s.at m)
          else s.at m
  | [], _, s => by simp [pure, Except.pure]
  | k :: l, hnd, s => by
    have hk : k ∉ l := (List.nodup_cons.1 hnd).1
    have hl : l.Nodup := (List.nodup_cons.1 hnd).2
    simp only [List.foldlM_cons]
    cases hsk : syms.get k with
    | none =>
      have : anStep syms s k = .ok s := by simp [anStep, hsk, pure, Except.pure]
      rw [this, exOk_bind]
      have ih := anFold_spec syms l hl s
      revert ih
      cases List.foldlM (anStep syms) s l with
      | error e =>
        rintro ⟨k', hk', v, h1, h2⟩
        exact ⟨k', List.mem_cons_of_mem _ hk', v, h1, h2⟩
      | ok s' =>
        rintro ⟨h1, h2⟩
        refine ⟨fun k' hk' v hv => ?_, fun m => ?_⟩
        · rcases List.mem_cons.1 hk' with rfl | hk'
          · rw [hsk] at hv; cases hv
          · exact h1 k' hk' v hv
        · rw [h2 m]
          by_cases hm : m = k
          · subst hm; simp [hk, hsk]
          · simp [hm]
    | some v =>
      have hstep : anStep syms s k = applyAct s k (nameAct v.flags (s.at k).bound false) := by
        simp only [anStep, hsk, AnalyzeName_eq]
        rw [nameAct_g]; rfl
      rw [hstep]
      cases hA : applyAct s k (nameAct v.flags (s.at k).bound false) with
      | error e =>
        rw [exErr_bind]
        exact ⟨k, List.mem_cons_self, v, hsk, applyAct_err.1 ⟨e, hA⟩⟩
      | ok s1 =>
        rw [exOk_bind]
        have hne : (nameAct v.flags (s.at k).bound false).isErr = false := by
          rw [Bool.eq_false_iff]; intro h
          obtain ⟨e, he⟩ := applyAct_err.2 h
          rw [hA] at he; cases he
        have hat := applyAct_at hA
        have ih := anFold_spec syms l hl s1
        revert ih
        cases List.foldlM (anStep syms) s1 l with
        | error e =>
          rintro ⟨k', hk', v', h1, h2⟩
          have hne' : k' ≠ k := fun h => hk (h ▸ hk')
          rw [hat k', if_neg hne'] at h2
          exact ⟨k', List.mem_cons_of_mem _ hk', v', h1, h2⟩
        | ok s' =>
          rintro ⟨h1, h2⟩
          refine ⟨fun k' hk' v' hv' => ?_, fun m => ?_⟩
          · rcases List.mem_cons.1 hk' with rfl | hk'
            · rw [hsk] at hv'; cases hv'; exact hne
            · have hne' : k' ≠ k := fun h => hk (h ▸ hk')
              have := h1 k' hk' v' hv'
              rwa [hat k', if_neg hne'] at this
          · rw [h2 m]
            by_cases hm : m = k
            · subst hm; simp [hk, hsk, hat]
            · simp [hm, hat]

/-! ### AnalyzeCells, pointwise -/

theorem cellsStep_get (sf : Tbl Scope × NSet) (k m : Name) :
    (cellsStep sf k).1.get m = (if m = k ∧ sf.1.get k = .local ∧ sf.2.get k = true then .cell else sf.1.get m) ∧
    (cellsStep sf k).2.get m = (sf.2.get m && !(decide (m = k) && sf.1.get k == .local)) := by
  obtain ⟨sc, fr⟩ := sf
  by_cases h1 : sc.get k = .local <;> by_cases h2 : fr.get k = true <;> by_cases hm : m = k <;>
    simp_all [cellsStep, NSet.discard, Tbl.set_get]

theorem cellsFold_get : ∀ (l : List Name) (sf : Tbl Scope × NSet) (m : Name),
    (l.foldl cellsStep sf).1.get m = (if m ∈ l ∧ sf.1.get m = .local ∧ sf.2.get m = true then .cell else sf.1.get m) ∧
    (l.foldl cellsStep sf).2.get m = (sf.2.get m && !(decide (m ∈ l) && sf.1.get m == .local))
  | [], sf, m => by simp
  | k :: l, sf, m => by
    have ih := cellsFold_get l (cellsStep sf k) m
    have h1 := cellsStep_get sf k m
    simp only [List.foldl_cons]
    rw [ih.1, ih.2, h1.1, h1.2]
    by_cases hm : m = k
    · subst hm
      by_cases hl : m ∈ l <;> by_cases ha : sf.1.get m = .local <;> by_cases hb : sf.2.get m = true <;> simp_all
    · by_cases hl : m ∈ l <;> by_cases ha : sf.1.get m = .local <;> by_cases hb : sf.2.get m = true <;> simp_all

/-! ### Symbols.Update, pointwise (scope component) -/

theorem updFold1_get (scopes : Tbl Scope) : ∀ (l : List Name) (t : Tbl (Option Sym)) (m : Name),
    ((l.foldl (updStep1 scopes) t).get m).map (·.scope) =
      (if m ∈ l then (t.get m).map (fun _ => scopes.get m) else (t.get m).map (·.scope)) ∧
    ((l.foldl (updStep1 scopes) t).get m).isSome = (t.get m).isSome
  | [], t, m => by simp
  | k :: l, t, m => by
    have ih := updFold1_get scopes l (updStep1 scopes t k) m
    simp only [List.foldl_cons]
    rw [ih.1, ih.2]
    by_cases hm : m = k
    · subst hm
      cases ht : t.get m <;> by_cases hl : m ∈ l <;> simp [updStep1, ht, hl, Tbl.set_get]
    · cases ht : t.get k <;> by_cases hl : m ∈ l <;> simp [updStep1, ht, hl, hm, Tbl.set_get]

/-- `bound.Contains(name)` with Go's nil map -/
def boundHas (bound : Option NSet) (m : Name) : Bool := match bound with | some b => b.get m | none => false

theorem updStep2_eq (bound : Option NSet) (cf : Bool) (t : Tbl (Option Sym)) (k : Name) :
    updStep2 bound cf t k = (match t.get k with
      | some symbol =>
        if cf && (symbol.flags.bound || symbol.flags.glob) then
          t.set k (some { symbol with flags := symbol.flags.or { freeClass := true } })
        else t
      | none => if !boundHas bound k then t else t.set k (some { scope := .free, flags := {} })) := rfl

theorem updStep2_get (bound : Option NSet) (cf : Bool) (t : Tbl (Option Sym)) (k m : Name) :
    ((updStep2 bound cf t k).get m).map (·.scope) =
      (if m = k then (match t.get k with
          | some s => some s.scope
          | none => if boundHas bound k then some .free else none)
       else (t.get m).map (·.scope)) := by
  rw [updStep2_eq]
  by_cases hm : m = k
  · subst hm
    cases ht : t.get m with
    | none => cases hb : boundHas bound m <;> simp [Tbl.set_get, ht]
    | some s => simp only [if_true]; split_ifs <;> simp [Tbl.set_get, ht]
  · cases ht : t.get k with
    | none => cases hb : boundHas bound k <;> simp [Tbl.set_get, hm]
    | some s => simp only [hm, if_false]; split_ifs <;> simp [Tbl.set_get, hm]

theorem updFold2_get (bound : Option NSet) (cf : Bool) : ∀ (l : List Name) (t : Tbl (Option Sym)) (m : Name),
    ((l.foldl (updStep2 bound cf) t).get m).map (·.scope) =
      (match t.get m with
       | some s => some s.scope
       | none => if m ∈ l ∧ boundHas bound m = true then some .free else none)
  | [], t, m => by cases h : t.get m <;> simp [h]
  | k :: l, t, m => by
    have ih := updFold2_get bound cf l (updStep2 bound cf t k) m
    have hs := updStep2_get bound cf t k m
    simp only [List.foldl_cons]
    rw [ih]
    by_cases hm : m = k
    · subst hm
      simp only [if_true] at hs
      cases ht : t.get m with
      | none =>
        rw [ht] at hs
        cases hu : (updStep2 bound cf t m).get m with
        | none =>
          rw [hu] at hs
          by_cases hb : boundHas bound m = true
          · simp [hb] at hs
          · simp [hb]
        | some s' =>
          rw [hu] at hs
          by_cases hb : boundHas bound m = true
          · simp only [hb, if_true, Option.map_some, Option.some.injEq] at hs
            simp [hb, hs]
          · simp [hb] at hs
      | some s =>
        rw [ht] at hs
        cases hu : (updStep2 bound cf t m).get m with
        | none => rw [hu] at hs; simp at hs
        | some s' => rw [hu] at hs; simpa using hs
    · simp only [hm, if_false] at hs
      cases ht : t.get m with
      | none =>
        rw [ht] at hs
        cases hu : (updStep2 bound cf t k).get m with
        | none => simp [hm]
        | some s' => rw [hu] at hs; simp at hs
      | some s =>
        rw [ht] at hs
        cases hu : (updStep2 bound cf t k).get m with
        | none => rw [hu] at hs; simp at hs
        | some s' => rw [hu] at hs; simpa using hs

end GPy.C03
