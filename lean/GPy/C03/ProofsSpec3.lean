/-
C03 `analyze_spec`, continued: one block of pass 2 against `resolve` / `classify` / `freeVars`.
-/
import GPy.C03.ProofsSpec2
namespace GPy.C03

def Cls.toScope : Cls → Scope
  | .local => .local | .cell => .cell | .free => .free | .globalExplicit => .globalExplicit | .globalImplicit => .globalImplicit

/-! ### spec-side facts -/

theorem resolve_isSome (b : SInfo) (c : List SInfo) (n : Name) : (resolve b c n).isSome = b.mentions n := by
  unfold resolve SInfo.mentions
  cases b.globs n <;> cases b.nonlocs n <;> cases b.binds n <;> cases b.uses n <;> simp <;> split <;> simp

theorem mem_declaredNames (evs : List Ev) (m : Name) :
    m ∈ declaredNames evs ↔ (evs.contains (.glob m) = true ∨ evs.contains (.nonloc m) = true) := by
  simp only [declaredNames, List.mem_filterMap, List.contains_iff_mem]
  constructor
  · rintro ⟨e, he, h⟩
    cases e <;> simp at h <;> subst h
    · exact Or.inl he
    · exact Or.inr he
  · rintro (h | h)
    · exact ⟨_, h, rfl⟩
    · exact ⟨_, h, rfl⟩

theorem evBad_of_seen_decl : ∀ (evs : List Ev) (seen : NPred) (m : Name), seen m = true →
    (evs.contains (.glob m) = true ∨ evs.contains (.nonloc m) = true) → evBad seen evs = true
  | [], _, _, _, h => by simp at h
  | e :: r, seen, m, hs, h => by
    cases e with
    | bind n =>
      simp only [evBad]
      refine evBad_of_seen_decl r _ m (by simp [hs]) ?_
      simpa [List.contains_cons] using h
    | use n =>
      simp only [evBad]
      refine evBad_of_seen_decl r _ m (by simp [hs]) ?_
      simpa [List.contains_cons] using h
    | glob n =>
      simp only [evBad, Bool.or_eq_true]
      by_cases hmn : m = n
      · subst hmn; exact Or.inl hs
      · right; refine evBad_of_seen_decl r seen m hs ?_
        simpa [List.contains_cons, hmn] using h
    | nonloc n =>
      simp only [evBad, Bool.or_eq_true]
      by_cases hmn : m = n
      · subst hmn; exact Or.inl hs
      · right; refine evBad_of_seen_decl r seen m hs ?_
        simpa [List.contains_cons, hmn] using h

theorem evBad_of_ubd : ∀ (evs : List Ev) (seen : NPred), usedBeforeDecl evs = true → evBad seen evs = true
  | [], _, h => by simp [usedBeforeDecl] at h
  | e :: r, seen, h => by
    cases e with
    | bind n =>
      simp only [usedBeforeDecl, Bool.or_eq_true] at h
      simp only [evBad]
      rcases h with (h | h) | h
      · exact evBad_of_seen_decl r _ n (by simp) (Or.inl h)
      · exact evBad_of_seen_decl r _ n (by simp) (Or.inr h)
      · exact evBad_of_ubd r _ h
    | use n =>
      simp only [usedBeforeDecl, Bool.or_eq_true] at h
      simp only [evBad]
      rcases h with (h | h) | h
      · exact evBad_of_seen_decl r _ n (by simp) (Or.inl h)
      · exact evBad_of_seen_decl r _ n (by simp) (Or.inr h)
      · exact evBad_of_ubd r _ h
    | glob n =>
      simp only [usedBeforeDecl] at h
      simp only [evBad, Bool.or_eq_true]
      exact Or.inr (evBad_of_ubd r _ h)
    | nonloc n =>
      simp only [usedBeforeDecl] at h
      simp only [evBad, Bool.or_eq_true]
      exact Or.inr (evBad_of_ubd r _ h)

/-- with the pass-1 conditions out of the way, a block is forbidden iff one of its declared names is -/
theorem forbidden_iff (b : SInfo) (c : List SInfo) (hdup : (b.kind != some .comp && hasDup b.params) = false)
    (hubd : usedBeforeDecl b.evs = false) :
    forbidden b c = true ↔ ∃ m, nameForbidden b c m = true := by
  simp only [forbidden, hdup, hubd, Bool.false_or, List.any_eq_true, mem_declaredNames]
  constructor
  · rintro ⟨m, hm, h⟩
    refine ⟨m, ?_⟩
    simp only [nameForbidden, SInfo.globs, SInfo.nonlocs] at h ⊢
    revert h hm
    cases b.evs.contains (.glob m) <;> cases b.evs.contains (.nonloc m) <;> cases b.params.contains m <;>
      cases b.isModule <;> cases visible c m <;> simp
  · rintro ⟨m, h⟩
    refine ⟨m, ?_, ?_⟩
    · simp only [nameForbidden, SInfo.globs, SInfo.nonlocs] at h
      revert h
      cases b.evs.contains (.glob m) <;> cases b.evs.contains (.nonloc m) <;> simp
    · simp only [nameForbidden, SInfo.globs, SInfo.nonlocs] at h ⊢
      revert h
      cases b.evs.contains (.glob m) <;> cases b.evs.contains (.nonloc m) <;> cases b.params.contains m <;>
        cases b.isModule <;> cases visible c m <;> simp

/-- `AnalyzeName`'s decision as a cascade over the source facts, for a name that is not forbidden -/
theorem nameAct_ok (b : SInfo) (c : List SInfo) (n : Name) (f : Flags)
    (hg : f.glob = b.globs n) (hn : f.nonloc = b.nonlocs n)
    (hp : (b.globs n || b.nonlocs n) = true → f.param = b.params.contains n)
    (hb : f.bound = b.binds n) (hnf : nameForbidden b c n = false) (hmod : b.isModule = false) :
    nameAct f (some (visible c n)) false =
      if b.globs n then .ge else if b.nonlocs n then .free else if b.binds n then .loc
      else if visible c n then .free else .gi := by
  unfold nameAct
  unfold nameForbidden at hnf
  rw [hg, hn, hb]
  rw [hmod] at hnf
  revert hp hnf
  generalize f.param = p
  cases b.globs n <;> cases b.nonlocs n <;> cases b.params.contains n <;> cases b.binds n <;>
    cases visible c n <;> cases p <;> simp

/-- … and it is an error exactly for a forbidden name -/
theorem nameAct_err (b : SInfo) (c : List SInfo) (n : Name) (f : Flags)
    (hg : f.glob = b.globs n) (hn : f.nonloc = b.nonlocs n)
    (hp : (b.globs n || b.nonlocs n) = true → f.param = b.params.contains n)
    (hmod : b.isModule = false) :
    (nameAct f (some (visible c n)) false).isErr = nameForbidden b c n := by
  unfold nameAct nameForbidden
  rw [hg, hn, hmod]
  revert hp
  generalize f.param = p
  generalize f.bound = bd
  cases b.globs n <;> cases b.nonlocs n <;> cases b.params.contains n <;> cases bd <;>
    cases visible c n <;> cases p <;> simp [NAct.isErr]


/-! ### `AnalyzeBlock` up to the children loop -/

/-- the sets `AnalyzeBlock` hands to its children, computed from the state after the `AnalyzeName` loop -/
def mkPre (U : List Name) (σ : Order) (p : List Nat) (st : Ste) (bound : Option NSet) (glob : NSet) (an : AN) : Pre :=
  let newglobal := NSet.empty
  let newbound := NSet.empty
  let (newglobal, newbound) :=
    if st.typ == .cls then
      (setUpdate U σ p 4 newglobal glob,
       match bound with | some b => setUpdate U σ p 5 newbound b | none => newbound)
    else (newglobal, newbound)
  let (newglobal, newbound) :=
    if st.typ != .cls then
      let newbound := if st.typ == .function then setUpdate U σ p 6 newbound an.loc else newbound
      let newbound := match an.bound with | some b => setUpdate U σ p 7 newbound b | none => newbound
      (setUpdate U σ p 8 newglobal an.glob, newbound)
    else (newglobal, newbound.add "__class__")
  { an := an, newbound := newbound, newglobal := newglobal, newfree := NSet.empty }

theorem blockPre_eq (U : List Name) (σ : Order) (p : List Nat) (st : Ste) (bound : Option NSet) (free glob : NSet) :
    blockPre U σ p st bound free glob =
      ((keysOf U σ p 0 (fun n => (st.syms n).isSome)).foldlM (anStep st.syms) ({ bound := bound, free := free, glob := glob } : AN)
        >>= fun an => pure (mkPre U σ p st bound glob an)) := by
  unfold blockPre mkPre
  rfl

theorem Ste.fl_of_some {st : Ste} {m : Name} {v : Sym} (h : st.syms.get m = some v) : st.fl m = v.flags ∧ st.has m = true := by
  simp [Ste.fl, Ste.has, h]

theorem Ste.has_iff {st : Ste} {m : Name} : st.has m = true ↔ ∃ v, st.syms.get m = some v := by
  simp [Ste.has, Option.isSome_iff_exists]

theorem evBad_false_decl {evs : List Ev} {seen : NPred} (h : evBad seen evs = false) {m : Name}
    (hd : evs.contains (.glob m) = true ∨ evs.contains (.nonloc m) = true) : seen m = false := by
  rw [Bool.eq_false_iff]; intro hs
  rw [evBad_of_seen_decl evs seen m hs hd] at h; cases h

/-- for a declared name of a block that passed pass 1, `DefParam` is set iff the name is a parameter -/
theorem param_of_declared {k : Kind} {ps : List Param} {body : Body} (hbad : blockBad1 k ps body = false) {m : Name}
    (hd : ((infoOf k ps body).globs m || (infoOf k ps body).nonlocs m) = true) :
    (paramFlagNames k ps).contains m = (infoOf k ps body).params.contains m := by
  simp only [blockBad1, Bool.or_eq_false_iff] at hbad
  have hs := evBad_false_decl hbad.2 (m := m) (by simpa [SInfo.globs, SInfo.nonlocs, infoOf] using hd)
  have := paramFlag_or_initSeen k ps m
  rw [hs, Bool.or_false] at this
  simpa [infoOf] using this

/-- the initial state of the `AnalyzeName` loop, seen at one key -/
theorem init_at (bound : Option NSet) (free glob : NSet) (m : Name) :
    ({ bound := bound, free := free, glob := glob } : AN).at m = ⟨.invalid, bound.map (·.get m), false, free.get m⟩ := rfl

/-- `AnalyzeBlock` of a nested block, up to its children: errors = the name-level rules,
scopes = `resolve`, and the `bound` set handed down = `visible` of the longer chain (invariant (ii)) -/
theorem blockPre_child {σ : Order} (hσ : σ.Valid) {U : List Name} (hU : U.Nodup) (p : List Nat)
    {k : Kind} {name : Name} {ps : List Param} {body : Body} {st : Ste} (hf : SteFacts k name ps body st)
    (hbad : blockBad1 k ps body = false) (c : List SInfo) (B F0 G : NSet)
    (hUm : ∀ m, (infoOf k ps body).mentions m = true → m ∈ U) (hcls : "__class__" ∈ U)
    (hB : ∀ m, B.get m = (decide (m ∈ U) && visible c m)) (hF0 : ∀ m, F0.get m = false) :
    match blockPre U σ p st (some B) F0 G with
    | .error _ => ∃ m, nameForbidden (infoOf k ps body) c m = true
    | .ok pre => (∀ m, nameForbidden (infoOf k ps body) c m = false) ∧
        (∀ m, pre.an.scopes.get m = ((resolve (infoOf k ps body) c m).map Cls.toScope).getD .invalid) ∧
        (∀ m, boundHas pre.an.bound m = (decide (m ∈ U) && visible c m && !(infoOf k ps body).globs m)) ∧
        (∀ m, pre.an.free.get m = decide (resolve (infoOf k ps body) c m = some .free)) ∧
        (∀ m, pre.newbound.get m = (decide (m ∈ U) && visible (infoOf k ps body :: c) m)) ∧
        (∀ m, pre.newfree.get m = false) := by
  have hmod : (infoOf k ps body).isModule = false := rfl
  -- membership in the key list
  have hmem : ∀ m, m ∈ keysOf U σ p 0 (fun n => (st.syms n).isSome) ↔ st.has m = true := by
    intro m
    rw [mem_keysOf hσ]
    constructor
    · exact fun h => h.2
    · exact fun h => ⟨hUm m (by rw [← hf.has]; exact h), h⟩
  -- the per-name hypotheses of `nameAct_ok` / `nameAct_err`
  have hp : ∀ m, ((infoOf k ps body).globs m || (infoOf k ps body).nonlocs m) = true →
      (st.fl m).param = (infoOf k ps body).params.contains m := by
    intro m hd; rw [hf.param, param_of_declared hbad hd]
  have hBm : ∀ m, st.has m = true → B.get m = visible c m := by
    intro m hm
    rw [hB, decide_eq_true (hUm m (by rw [← hf.has]; exact hm)), Bool.true_and]
  have hfold := anFold_spec st.syms _ (nodup_keysOf hσ hU p 0 (fun n => (st.syms n).isSome))
    ({ bound := some B, free := F0, glob := G } : AN)
  rw [blockPre_eq]
  revert hfold
  cases hres : List.foldlM (anStep st.syms) ({ bound := some B, free := F0, glob := G } : AN)
      (keysOf U σ p 0 (fun n => (st.syms n).isSome)) with
  | error e =>
    rintro ⟨m, hm, v, hv, herr⟩
    rw [exErr_bind]
    have hfl := Ste.fl_of_some hv
    refine ⟨m, ?_⟩
    rw [init_at] at herr
    simp only [Option.map_some] at herr
    rw [hBm m hfl.2, ← hfl.1, nameAct_err _ c m _ (hf.glob m) (hf.nonloc m) (hp m) hmod] at herr
    exact herr
  | ok s' =>
    rintro ⟨hnoerr, hat⟩
    rw [exOk_bind]
    simp only [pure, Except.pure]
    -- no name is forbidden
    have hnf : ∀ m, nameForbidden (infoOf k ps body) c m = false := by
      intro m
      rw [Bool.eq_false_iff]; intro hfm
      have hment : (infoOf k ps body).mentions m = true := by
        unfold nameForbidden at hfm
        unfold SInfo.mentions
        revert hfm
        cases (infoOf k ps body).globs m <;> cases (infoOf k ps body).nonlocs m <;> simp
      have hhas : st.has m = true := by rw [hf.has]; exact hment
      obtain ⟨v, hv⟩ := Ste.has_iff.1 hhas
      have hfl := Ste.fl_of_some hv
      have := hnoerr m ((hmem m).2 hhas) v hv
      rw [init_at] at this
      simp only [Option.map_some] at this
      rw [hBm m hhas, ← hfl.1, nameAct_err _ c m _ (hf.glob m) (hf.nonloc m) (hp m) hmod, hfm] at this
      cases this
    -- the state after the loop, at every key
    have hat' : ∀ m, s'.at m = if st.has m = true then
          actAt (if (infoOf k ps body).globs m then .ge else if (infoOf k ps body).nonlocs m then .free
                 else if (infoOf k ps body).binds m then .loc else if visible c m then .free else .gi)
            ⟨.invalid, some (B.get m), false, false⟩
        else ⟨.invalid, some (B.get m), false, false⟩ := by
      intro m
      rw [hat m, init_at]
      simp only [Option.map_some, hF0]
      by_cases hhas : st.has m = true
      · obtain ⟨v, hv⟩ := Ste.has_iff.1 hhas
        have hfl := Ste.fl_of_some hv
        rw [if_pos ((hmem m).2 hhas), if_pos hhas, hv]
        simp only []
        rw [hBm m hhas, ← hfl.1, nameAct_ok _ c m _ (hf.glob m) (hf.nonloc m) (hp m) (hf.bound m) (hnf m) hmod]
      · rw [if_neg (fun h => hhas ((hmem m).1 h)), if_neg hhas]
    have hbound_some : ∃ b', s'.bound = some b' := by
      have := hat' "__class__"
      cases hb : s'.bound with
      | some b' => exact ⟨b', rfl⟩
      | none =>
        simp only [AN.at, hb, Option.map_none] at this
        split_ifs at this <;> (try split_ifs at this) <;> simp [actAt] at this
    obtain ⟨b', hb'⟩ := hbound_some
    -- components
    have hment : ∀ m, st.has m = (infoOf k ps body).mentions m := hf.has
    have hsc : ∀ m, s'.scopes.get m = ((resolve (infoOf k ps body) c m).map Cls.toScope).getD .invalid := by
      intro m
      have := congrArg ANAt.scope (hat' m)
      simp only [AN.at] at this
      rw [this, hment m]
      unfold resolve SInfo.mentions
      rw [hmod]
      cases (infoOf k ps body).globs m <;> cases (infoOf k ps body).nonlocs m <;> cases (infoOf k ps body).binds m <;>
        cases (infoOf k ps body).uses m <;> cases visible c m <;> simp [actAt, Cls.toScope]
    have hbd : ∀ m, b'.get m = (decide (m ∈ U) && visible c m && !(infoOf k ps body).globs m) := by
      intro m
      have := congrArg ANAt.bound (hat' m)
      simp only [AN.at, hb', Option.map_some] at this
      have hgm : (infoOf k ps body).globs m = true → st.has m = true := by
        intro h; rw [hment m]; simp [SInfo.mentions, h]
      revert this hgm
      rw [hB m]
      cases st.has m <;> cases (infoOf k ps body).globs m <;> cases (infoOf k ps body).nonlocs m <;>
        cases (infoOf k ps body).binds m <;> cases visible c m <;> cases decide (m ∈ U) <;> simp [actAt]
    have hloc : ∀ m, s'.loc.get m = (infoOf k ps body).isLocal m := by
      intro m
      have := congrArg ANAt.loc (hat' m)
      simp only [AN.at] at this
      rw [this, hment m]
      unfold SInfo.isLocal SInfo.mentions
      cases (infoOf k ps body).globs m <;> cases (infoOf k ps body).nonlocs m <;> cases (infoOf k ps body).binds m <;>
        cases (infoOf k ps body).uses m <;> cases visible c m <;> simp [actAt]
    have hfr : ∀ m, s'.free.get m = decide (resolve (infoOf k ps body) c m = some .free) := by
      intro m
      have := congrArg ANAt.free (hat' m)
      simp only [AN.at] at this
      rw [this, hment m]
      unfold resolve SInfo.mentions
      rw [hmod]
      cases (infoOf k ps body).globs m <;> cases (infoOf k ps body).nonlocs m <;> cases (infoOf k ps body).binds m <;>
        cases (infoOf k ps body).uses m <;> cases visible c m <;> simp [actAt]
    refine ⟨hnf, hsc, ?_, hfr, ?_, fun m => rfl⟩
    · intro m; simp only [mkPre, boundHas, hb']; exact hbd m
    · intro m
      have hlocU : ∀ m, (infoOf k ps body).isLocal m = true → m ∈ U := by
        intro m h; apply hUm
        unfold SInfo.isLocal at h; unfold SInfo.mentions
        revert h; cases (infoOf k ps body).binds m <;> simp
      have hty := hf.typ
      cases k with
      | cls =>
        have hty' : st.typ = .cls := hty
        simp only [mkPre, hty', hb', beq_self_eq_true, if_true, bne_self_eq_false, Bool.false_eq_true, if_false,
          NSet.add_get, setUpdate_get hσ, NSet.empty, hB]
        show _ = (decide (m ∈ U) && (if (infoOf Kind.cls ps body).isModule then false
          else if (infoOf Kind.cls ps body).isClass then m == "__class__" || visible c m
          else if (infoOf Kind.cls ps body).globs m then false
          else if (infoOf Kind.cls ps body).isLocal m then true else visible c m))
        have h1 : (infoOf Kind.cls ps body).isModule = false := rfl
        have h2 : (infoOf Kind.cls ps body).isClass = true := rfl
        simp only [h1, h2, Bool.false_eq_true, if_false, if_true]
        by_cases hm : m = "__class__"
        · subst hm; simp [hcls]
        · have : (m == "__class__") = false := by simpa using hm
          simp [hm, this]
      | func =>
        have hty' : st.typ = .function := hty
        simp only [mkPre, hty', hb', if_true, if_false, setUpdate_get hσ, NSet.empty, hbd, hloc,
          show (BlockType.function == BlockType.cls) = false from rfl,
          show (BlockType.function != BlockType.cls) = true from rfl, Bool.false_eq_true, beq_self_eq_true]
        show _ = (decide (m ∈ U) && (if (infoOf Kind.func ps body).isModule then false
          else if (infoOf Kind.func ps body).isClass then m == "__class__" || visible c m
          else if (infoOf Kind.func ps body).globs m then false
          else if (infoOf Kind.func ps body).isLocal m then true else visible c m))
        have h1 : (infoOf Kind.func ps body).isModule = false := rfl
        have h2 : (infoOf Kind.func ps body).isClass = false := rfl
        simp only [h1, h2, Bool.false_eq_true, if_false]
        have hl := hlocU m
        revert hl
        unfold SInfo.isLocal
        cases (infoOf Kind.func ps body).globs m <;> cases (infoOf Kind.func ps body).nonlocs m <;>
          cases (infoOf Kind.func ps body).binds m <;> cases visible c m <;> by_cases hmU : m ∈ U <;> simp [hmU]
      | lam =>
        have hty' : st.typ = .function := hty
        simp only [mkPre, hty', hb', if_true, if_false, setUpdate_get hσ, NSet.empty, hbd, hloc,
          show (BlockType.function == BlockType.cls) = false from rfl,
          show (BlockType.function != BlockType.cls) = true from rfl, Bool.false_eq_true, beq_self_eq_true]
        show _ = (decide (m ∈ U) && (if (infoOf Kind.lam ps body).isModule then false
          else if (infoOf Kind.lam ps body).isClass then m == "__class__" || visible c m
          else if (infoOf Kind.lam ps body).globs m then false
          else if (infoOf Kind.lam ps body).isLocal m then true else visible c m))
        have h1 : (infoOf Kind.lam ps body).isModule = false := rfl
        have h2 : (infoOf Kind.lam ps body).isClass = false := rfl
        simp only [h1, h2, Bool.false_eq_true, if_false]
        have hl := hlocU m
        revert hl
        unfold SInfo.isLocal
        cases (infoOf Kind.lam ps body).globs m <;> cases (infoOf Kind.lam ps body).nonlocs m <;>
          cases (infoOf Kind.lam ps body).binds m <;> cases visible c m <;> by_cases hmU : m ∈ U <;> simp [hmU]
      | comp =>
        have hty' : st.typ = .function := hty
        simp only [mkPre, hty', hb', if_true, if_false, setUpdate_get hσ, NSet.empty, hbd, hloc,
          show (BlockType.function == BlockType.cls) = false from rfl,
          show (BlockType.function != BlockType.cls) = true from rfl, Bool.false_eq_true, beq_self_eq_true]
        show _ = (decide (m ∈ U) && (if (infoOf Kind.comp ps body).isModule then false
          else if (infoOf Kind.comp ps body).isClass then m == "__class__" || visible c m
          else if (infoOf Kind.comp ps body).globs m then false
          else if (infoOf Kind.comp ps body).isLocal m then true else visible c m))
        have h1 : (infoOf Kind.comp ps body).isModule = false := rfl
        have h2 : (infoOf Kind.comp ps body).isClass = false := rfl
        simp only [h1, h2, Bool.false_eq_true, if_false]
        have hl := hlocU m
        revert hl
        unfold SInfo.isLocal
        cases (infoOf Kind.comp ps body).globs m <;> cases (infoOf Kind.comp ps body).nonlocs m <;>
          cases (infoOf Kind.comp ps body).binds m <;> cases visible c m <;> by_cases hmU : m ∈ U <;> simp [hmU]

end GPy.C03
