/-
C03 `analyze_spec`, continued: `AnalyzeBlock` after the children loop (cells, free variables,
`Symbols.Update`) against `classify` / `freeVars` (invariant (iii)).
-/
import GPy.C03.ProofsSpec3
namespace GPy.C03

theorem SymbolsUpdate_scope {σ : Order} (hσ : σ.Valid) (U : List Name) (p : List Nat) (symbols : Tbl (Option Sym))
    (scopes : Tbl Scope) (bound : Option NSet) (free : NSet) (cf : Bool) (m : Name) :
    ((SymbolsUpdate U σ p symbols scopes bound free cf).get m).map (·.scope) =
      (match symbols.get m with
       | some s => some (if m ∈ U then scopes.get m else s.scope)
       | none => if (m ∈ U ∧ free.get m = true) ∧ boundHas bound m = true then some .free else none) := by
  show ((List.foldl (updStep2 bound cf) (List.foldl (updStep1 scopes) symbols (keysOf U σ p 2 _)) (keysOf U σ p 3 _)).get m).map _ = _
  rw [updFold2_get]
  have h1 := updFold1_get scopes (keysOf U σ p 2 (fun n => (symbols n).isSome)) symbols m
  cases hs : symbols.get m with
  | none =>
    have : (List.foldl (updStep1 scopes) symbols (keysOf U σ p 2 (fun n => (symbols n).isSome))).get m = none := by
      have := h1.2; rw [hs] at this; simpa using this
    rw [this]
    simp only [mem_keysOf hσ]
  | some s =>
    have hsome := h1.2
    rw [hs] at hsome
    cases hf : (List.foldl (updStep1 scopes) symbols (keysOf U σ p 2 (fun n => (symbols n).isSome))).get m with
    | none => rw [hf] at hsome; simp at hsome
    | some s' =>
      have h11 := h1.1
      rw [hf, hs] at h11
      simp only [mem_keysOf hσ, Option.map_some] at h11
      have hsm : (symbols m).isSome = true := by show (symbols.get m).isSome = true; rw [hs]; rfl
      simp only [hsm, and_true] at h11
      simp only []
      split_ifs at h11 ⊢ <;> simpa using h11

/-- `AnalyzeCells(scopes, newfree)` of a function block -/
def cellsOut (U : List Name) (σ : Order) (p : List Nat) (pre : Pre) (allfree : NSet) : Tbl Scope × NSet :=
  (keysOf U σ p 1 (fun n => pre.an.scopes n != .invalid)).foldl cellsStep
    (pre.an.scopes, setUpdate U σ p 9 pre.newfree allfree)

theorem blockPost_function (U : List Name) (σ : Order) (p : List Nat) (st : Ste) (pre : Pre) (allfree : NSet)
    (hty : st.typ = .function) :
    blockPost U σ p st pre allfree =
      ({ st with syms := SymbolsUpdate U σ p st.syms (cellsOut U σ p pre allfree).1 pre.an.bound
                           (cellsOut U σ p pre allfree).2 (st.typ == .cls) },
       setUpdate U σ p 10 pre.an.free (cellsOut U σ p pre allfree).2) := by
  simp only [blockPost, hty, beq_self_eq_true, if_true]
  rfl

/-- function-like blocks (def, lambda, comprehension): cells and free variables -/
theorem blockPost_fun {σ : Order} (hσ : σ.Valid) {U : List Name} (p : List Nat) {st : Ste} (b : SInfo) (c : List SInfo)
    (hhas : ∀ m, st.has m = b.mentions m) (hty : st.typ = .function)
    (hfun : b.isFun = true) (hclass : b.isClass = false) (hmod : b.isModule = false)
    (pre : Pre) (allfree : NSet) (fv : NPred)
    (hUm : ∀ m, b.mentions m = true → m ∈ U)
    (hsc : ∀ m, pre.an.scopes.get m = ((resolve b c m).map Cls.toScope).getD .invalid)
    (hbd : ∀ m, boundHas pre.an.bound m = (decide (m ∈ U) && visible c m && !b.globs m))
    (hfr : ∀ m, pre.an.free.get m = decide (resolve b c m = some .free))
    (hnfree : ∀ m, pre.newfree.get m = false)
    (hAF : ∀ m, allfree.get m = (decide (m ∈ U) && fv m))
    (hFV : ∀ m, fv m = true → visible (b :: c) m = true) :
    (blockPost U σ p st pre allfree).1.typ = st.typ ∧ (blockPost U σ p st pre allfree).1.name = st.name ∧
    (∀ m, m ∈ U → ((blockPost U σ p st pre allfree).1.syms.get m).map (·.scope) = (classify b c fv m).map Cls.toScope) ∧
    (∀ m, (blockPost U σ p st pre allfree).2.get m = (decide (m ∈ U) && freeVars b c fv m)) := by
  have hkeys : ∀ m, m ∈ keysOf U σ p 1 (fun n => pre.an.scopes n != .invalid) ↔ (m ∈ U ∧ pre.an.scopes.get m ≠ .invalid) := by
    intro m; rw [mem_keysOf hσ]; simp
  have hcf : ∀ m, (cellsOut U σ p pre allfree).1.get m = _ ∧ (cellsOut U σ p pre allfree).2.get m = _ :=
    fun m => cellsFold_get (keysOf U σ p 1 (fun n => pre.an.scopes n != .invalid))
      (pre.an.scopes, setUpdate U σ p 9 pre.newfree allfree) m
  rw [blockPost_function U σ p st pre allfree hty]
  refine ⟨rfl, rfl, fun m hmU => ?_, fun m => ?_⟩
  · rw [SymbolsUpdate_scope hσ]
    have hm := hhas m
    simp only [Ste.has] at hm
    have hv := hFV m
    simp only [visible, hmod, hclass, Bool.false_eq_true, if_false] at hv
    rw [(hcf m).1, (hcf m).2]
    simp only [hkeys]
    simp only [setUpdate_get hσ, hnfree, hAF, hbd, hsc, decide_eq_true hmU, Bool.true_and, Bool.false_or, hmU, true_and, if_true]
    cases hs : st.syms.get m with
    | none =>
      rw [hs] at hm
      have hm' : b.mentions m = false := by simpa using hm.symm
      simp only []
      unfold classify resolve
      unfold SInfo.mentions at hm'
      unfold SInfo.isLocal at hv
      revert hv hm'
      simp only [hmod, hclass, hfun]
      cases b.globs m <;> cases b.nonlocs m <;> cases b.binds m <;> cases b.uses m <;> cases visible c m <;>
        cases fv m <;> simp [Cls.toScope]
    | some s =>
      rw [hs] at hm
      have hm' : b.mentions m = true := by simpa using hm.symm
      simp only []
      unfold classify resolve
      unfold SInfo.mentions at hm'
      unfold SInfo.isLocal at hv
      revert hv hm'
      simp only [hmod, hclass, hfun]
      cases b.globs m <;> cases b.nonlocs m <;> cases b.binds m <;> cases b.uses m <;> cases visible c m <;>
        cases fv m <;> simp [Cls.toScope]
  · rw [setUpdate_get hσ, (hcf m).2]
    have hmU := hUm m
    have hv := hFV m
    simp only [visible, hmod, hclass, Bool.false_eq_true, if_false] at hv
    simp only [hkeys]
    simp only [setUpdate_get hσ, hnfree, hAF, hfr, hsc, Bool.false_or]
    unfold freeVars resolve
    unfold SInfo.mentions at hmU
    unfold SInfo.isLocal at hv ⊢
    revert hv hmU
    simp only [hmod, hclass, hfun]
    by_cases hU' : m ∈ U <;>
    cases b.globs m <;> cases b.nonlocs m <;> cases b.binds m <;> cases b.uses m <;> cases visible c m <;>
      cases fv m <;> simp [Cls.toScope, hU']


theorem DropClassFree_spec (st : Ste) (free : NSet) :
    (DropClassFree st free).1.syms = st.syms ∧ (DropClassFree st free).1.typ = st.typ ∧
    (DropClassFree st free).1.name = st.name ∧
    ∀ m, (DropClassFree st free).2.get m = (free.get m && !(m == "__class__")) := by
  unfold DropClassFree
  by_cases h : free.get "__class__" = true
  · have h' : free "__class__" = true := h
    simp only [h', if_true, true_and]
    intro m
    by_cases hm : m = "__class__"
    · subst hm; simp
    · have : (m == "__class__") = false := by simpa using hm
      simp [hm, this]
  · have h' : free "__class__" = false := by simpa using h
    simp only [h', Bool.false_eq_true, if_false, true_and]
    intro m
    by_cases hm : m = "__class__"
    · subst hm; simpa using h
    · have : (m == "__class__") = false := by simpa using hm
      simp [this]

theorem blockPost_class (U : List Name) (σ : Order) (p : List Nat) (st : Ste) (pre : Pre) (allfree : NSet)
    (hty : st.typ = .cls) :
    blockPost U σ p st pre allfree =
      ({ (DropClassFree st (setUpdate U σ p 9 pre.newfree allfree)).1 with
          syms := SymbolsUpdate U σ p (DropClassFree st (setUpdate U σ p 9 pre.newfree allfree)).1.syms pre.an.scopes pre.an.bound
                    (DropClassFree st (setUpdate U σ p 9 pre.newfree allfree)).2
                    ((DropClassFree st (setUpdate U σ p 9 pre.newfree allfree)).1.typ == .cls) },
       setUpdate U σ p 10 pre.an.free (DropClassFree st (setUpdate U σ p 9 pre.newfree allfree)).2) := by
  simp only [blockPost, hty, show (BlockType.cls == BlockType.function) = false from rfl, Bool.false_eq_true, if_false,
    beq_self_eq_true, if_true]

/-- class blocks: no cells, the implicit `__class__` is dropped from the free variables -/
theorem blockPost_cls {σ : Order} (hσ : σ.Valid) {U : List Name} (p : List Nat) {st : Ste} (b : SInfo) (c : List SInfo)
    (hhas : ∀ m, st.has m = b.mentions m) (hty : st.typ = .cls)
    (hfun : b.isFun = false) (hclass : b.isClass = true) (hmod : b.isModule = false)
    (pre : Pre) (allfree : NSet) (fv : NPred)
    (hUm : ∀ m, b.mentions m = true → m ∈ U)
    (hsc : ∀ m, pre.an.scopes.get m = ((resolve b c m).map Cls.toScope).getD .invalid)
    (hbd : ∀ m, boundHas pre.an.bound m = (decide (m ∈ U) && visible c m && !b.globs m))
    (hfr : ∀ m, pre.an.free.get m = decide (resolve b c m = some .free))
    (hnfree : ∀ m, pre.newfree.get m = false)
    (hAF : ∀ m, allfree.get m = (decide (m ∈ U) && fv m))
    (hFV : ∀ m, fv m = true → visible (b :: c) m = true) :
    (blockPost U σ p st pre allfree).1.typ = st.typ ∧ (blockPost U σ p st pre allfree).1.name = st.name ∧
    (∀ m, m ∈ U → ((blockPost U σ p st pre allfree).1.syms.get m).map (·.scope) = (classify b c fv m).map Cls.toScope) ∧
    (∀ m, (blockPost U σ p st pre allfree).2.get m = (decide (m ∈ U) && freeVars b c fv m)) := by
  have hd := DropClassFree_spec st (setUpdate U σ p 9 pre.newfree allfree)
  rw [blockPost_class U σ p st pre allfree hty]
  refine ⟨hd.2.1, hd.2.2.1, fun m hmU => ?_, fun m => ?_⟩
  · simp only []
    rw [SymbolsUpdate_scope hσ, hd.1]
    have hm := hhas m
    simp only [Ste.has] at hm
    have hv := hFV m
    simp only [visible, hmod, hclass, Bool.false_eq_true, if_false, if_true] at hv
    simp only [hd.2.2.2, setUpdate_get hσ, hnfree, hAF, hbd, hsc, decide_eq_true hmU, Bool.true_and, Bool.false_or, hmU, true_and, if_true]
    cases hs : st.syms.get m with
    | none =>
      rw [hs] at hm
      have hm' : b.mentions m = false := by simpa using hm.symm
      simp only []
      unfold classify resolve
      unfold SInfo.mentions at hm'
      revert hv hm'
      simp only [hmod, hclass, hfun]
      cases b.globs m <;> cases b.nonlocs m <;> cases b.binds m <;> cases b.uses m <;> cases visible c m <;>
        cases fv m <;> cases (m == "__class__") <;> simp [Cls.toScope]
    | some s =>
      rw [hs] at hm
      have hm' : b.mentions m = true := by simpa using hm.symm
      simp only []
      unfold classify resolve
      unfold SInfo.mentions at hm'
      revert hv hm'
      simp only [hmod, hclass, hfun]
      cases b.globs m <;> cases b.nonlocs m <;> cases b.binds m <;> cases b.uses m <;> cases visible c m <;>
        cases fv m <;> cases (m == "__class__") <;> simp [Cls.toScope]
  · rw [setUpdate_get hσ]
    have hmU := hUm m
    have hv := hFV m
    simp only [visible, hmod, hclass, Bool.false_eq_true, if_false, if_true] at hv
    simp only [hd.2.2.2, setUpdate_get hσ, hnfree, hAF, hfr, hsc, Bool.false_or]
    unfold freeVars resolve
    unfold SInfo.mentions at hmU
    revert hv hmU
    simp only [hmod, hclass, hfun]
    by_cases hU' : m ∈ U <;>
    cases b.globs m <;> cases b.nonlocs m <;> cases b.binds m <;> cases b.uses m <;> cases visible c m <;>
      cases fv m <;> cases (m == "__class__") <;> simp [Cls.toScope, hU']

end GPy.C03
