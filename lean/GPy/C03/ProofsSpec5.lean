/-
C03 `analyze_spec`, Part D: the induction over the scope tree.
-/
import GPy.C03.ProofsSpec4
namespace GPy.C03

/-- agreement of the analysed tables with the specification's classification (nested blocks) -/
def Agree (U : List Name) : Forest → SForest → Prop
  | .nil, .nil => True
  | .node st kids sibs, .node kind name cls skids ssibs =>
      (st.typ = match kind with | none => BlockType.module | some k => blockTypeOf k) ∧ st.name = name ∧
      (∀ m, m ∈ U → (st.syms.get m).map (·.scope) = (cls m).map Cls.toScope) ∧
      Agree U kids skids ∧ Agree U sibs ssibs
  | _, _ => False

theorem analyzeForest_nil (U : List Name) (σ : Order) (path : List Nat) (i : Nat) (ps : Sets) (cf : NSet) :
    analyzeForest U σ .nil path i ps cf = .ok (.nil, ps, cf) := rfl

theorem analyzeForest_node (U : List Name) (σ : Order) (st : Ste) (kids sibs : Forest) (path : List Nat) (i : Nat)
    (ps : Sets) (childFree : NSet) :
    analyzeForest U σ (.node st kids sibs) path i ps childFree =
      (blockPre U σ (path ++ [i]) st (some (setCopy U σ (path ++ [i]) 11 ps.bound)) (setCopy U σ (path ++ [i]) 12 ps.free)
          (setCopy U σ (path ++ [i]) 13 ps.glob) >>= fun pre =>
       analyzeForest U σ kids (path ++ [i]) 0 ⟨pre.newbound, pre.newfree, pre.newglobal⟩ NSet.empty >>= fun r =>
       analyzeForest U σ sibs path (i + 1) ps
          (setUpdate U σ (path ++ [i]) 14 childFree
            (blockPost U σ (path ++ [i]) st { pre with newfree := r.2.1.free } r.2.2).2) >>= fun r2 =>
       pure (.node (blockPost U σ (path ++ [i]) st { pre with newfree := r.2.1.free } r.2.2).1 r.1 r2.1, r2.2.1, r2.2.2)) := by
  simp only [analyzeForest, analyzeForestG, if_true]

theorem specForest_child (c : List SInfo) (k : Kind) (name : Name) (ps : List Param) (body rest : Body) :
    specForest c (.child k name ps body rest) =
      if forbidden (infoOf k ps body) c then .error () else
        (specForest (infoOf k ps body :: c) body >>= fun r =>
         specForest c rest >>= fun r2 =>
         pure (.node (some k) (blockNameOf k name) (classify (infoOf k ps body) c r.2) r.1 r2.1,
               nunion (freeVars (infoOf k ps body) c r.2) r2.2)) := by
  rw [specForest]
  by_cases h : forbidden (infoOf k ps body) c = true
  · simp only [h, if_true]; rfl
  · simp only [h, if_false]; rfl


/-! ### every name a block mentions is in the universe -/

theorem events_names : ∀ (body : Body) (e : Ev), e ∈ events body → e.name ∈ body.names
  | .nil, e, h => by simp [events] at h
  | .op o rest, e, h => by
    rw [events_op] at h
    rcases List.mem_cons.1 h with rfl | h
    · cases o <;> simp [NOp.ev, Ev.name, Body.names, NOp.name]
    · exact List.mem_cons_of_mem _ (events_names rest e h)
  | .child k name ps body rest, e, h => by
    rw [events_child] at h
    simp only [List.mem_append, preEvs, postEvs, dfltEvs, List.mem_filterMap] at h
    simp only [Body.names, List.mem_cons, List.mem_append, List.mem_map, List.mem_filterMap]
    rcases h with ((h | ⟨p, hp, hpe⟩) | h) | h
    · split_ifs at h <;> simp_all [Ev.name]
    · cases hd : p.dflt with
      | none => simp [hd] at hpe
      | some y =>
        simp only [hd, Option.map_some, Option.some.injEq] at hpe
        subst hpe
        exact Or.inl (Or.inl (Or.inr (Or.inr ⟨p, hp, by simp [hd, Ev.name]⟩)))
    · split_ifs at h <;> simp_all [Ev.name]
    · exact Or.inr (events_names rest e h)

theorem mentions_names (k : Kind) (ps : List Param) (body : Body) (m : Name)
    (h : (infoOf k ps body).mentions m = true) :
    m = ".0" ∨ m = "_[1]" ∨ m ∈ ps.map (·.name) ∨ m ∈ body.names := by
  simp only [SInfo.mentions, SInfo.binds, SInfo.uses, SInfo.globs, SInfo.nonlocs, infoOf, Bool.or_eq_true,
    List.contains_iff_mem] at h
  rcases h with (((h | h) | h) | h) | h
  · cases k <;> simp [paramNames] at h
    · exact Or.inr (Or.inr (Or.inl (by simpa using h)))
    · exact Or.inr (Or.inr (Or.inl (by simpa using h)))
    · rcases h with h | h | h
      · exact Or.inl h
      · exact Or.inr (Or.inl h)
      · exact Or.inr (Or.inr (Or.inl (by simpa using h)))
  · exact Or.inr (Or.inr (Or.inr (events_names body _ h)))
  · exact Or.inr (Or.inr (Or.inr (events_names body _ h)))
  · exact Or.inr (Or.inr (Or.inr (events_names body _ h)))
  · exact Or.inr (Or.inr (Or.inr (events_names body _ h)))

/-- a free variable of a block is bound in an enclosing function (or is the implicit `__class__`) -/
theorem freeVars_visible (b : SInfo) (c : List SInfo) (fv : NPred) (m : Name) (hmod : b.isModule = false)
    (hk : b.isFun = !b.isClass) (hnf : nameForbidden b c m = false)
    (hFV : fv m = true → visible (b :: c) m = true) (h : freeVars b c fv m = true) : visible c m = true := by
  unfold freeVars resolve at h
  unfold nameForbidden at hnf
  simp only [visible, hmod, Bool.false_eq_true, if_false] at hFV
  unfold SInfo.isLocal at h hFV
  rw [hk] at h
  rw [hmod] at hnf h
  revert h hnf hFV
  cases b.isClass <;> cases b.globs m <;> cases b.nonlocs m <;> cases b.binds m <;> cases b.uses m <;>
    cases visible c m <;> cases fv m <;> cases (m == "__class__") <;> cases b.params.contains m <;> simp

theorem Sets.eta (ps : Sets) : ({ bound := ps.bound, free := ps.free, glob := ps.glob } : Sets) = ps := rfl


theorem names_child_sub {k : Kind} {name : Name} {ps : List Param} {body rest : Body} {U : List Name}
    (h : ∀ n ∈ (Body.child k name ps body rest).names, n ∈ U) :
    (∀ n ∈ ps.map (·.name), n ∈ U) ∧ (∀ n ∈ body.names, n ∈ U) ∧ (∀ n ∈ rest.names, n ∈ U) := by
  simp only [Body.names, List.mem_cons, List.mem_append] at h
  exact ⟨fun n hn => h n (Or.inl (Or.inl (Or.inr (Or.inl hn)))), fun n hn => h n (Or.inl (Or.inr hn)),
    fun n hn => h n (Or.inr hn)⟩

theorem info_kind_facts (k : Kind) (ps : List Param) (body : Body) :
    (infoOf k ps body).isModule = false ∧ (infoOf k ps body).isFun = !(infoOf k ps body).isClass ∧
    ((blockTypeOf k = .function ∧ (infoOf k ps body).isFun = true ∧ (infoOf k ps body).isClass = false) ∨
     (blockTypeOf k = .cls ∧ (infoOf k ps body).isFun = false ∧ (infoOf k ps body).isClass = true)) := by
  cases k <;> simp [infoOf, SInfo.isModule, SInfo.isFun, SInfo.isClass, blockTypeOf]

/-- **the induction over the scope tree** (invariants (ii) and (iii)): for the nested blocks of a
body whose pass-1 tables hold the source facts, analysed with `bound` = the names visible through
`chain`, gpython's pass 2 and the specification fail together, and otherwise the tables agree with
`classify`, the parent's three sets come back untouched, and the accumulated `child_free` is the
union of the blocks' `freeVars`. -/
theorem forest_spec {σ : Order} (hσ : σ.Valid) {U : List Name} (hU : U.Nodup)
    (h0 : ".0" ∈ U) (h1 : "_[1]" ∈ U) (hcls : "__class__" ∈ U) :
    ∀ (body : Body) (c : List SInfo) (forest : Forest) (path : List Nat) (i : Nat) (ps : Sets) (childFree : NSet),
      Parsed body forest → bad1 body = false → (∀ n ∈ body.names, n ∈ U) →
      (∀ m, ps.bound.get m = (decide (m ∈ U) && visible c m)) → (∀ m, ps.free.get m = false) →
      match analyzeForest U σ forest path i ps childFree, specForest c body with
      | .ok (f', ps', cf'), .ok (sf, fv) =>
          ps' = ps ∧ (∀ m, cf'.get m = (childFree.get m || (decide (m ∈ U) && fv m))) ∧
          Agree U f' sf ∧ (∀ m, fv m = true → visible c m = true)
      | .error _, .error _ => True
      | _, _ => False
  | .nil, c, forest, path, i, ps, childFree, hp, _, _, _, _ => by
    simp only [Parsed] at hp
    subst hp
    simp only [analyzeForest_nil, specForest, pure, Except.pure, Agree, true_and, Bool.and_false, Bool.or_false,
      implies_true, and_self, and_true]
    exact fun m h => by cases h
  | .op o rest, c, forest, path, i, ps, childFree, hp, hb, hn, hB, hF => by
    have := forest_spec hσ hU h0 h1 hcls rest c forest path i ps childFree hp hb
      (fun n hn' => hn n (by simp [Body.names, hn'])) hB hF
    simpa only [specForest] using this
  | .child k name prs body rest, c, forest, path, i, ps, childFree, hp, hb, hn, hB, hF => by
    obtain ⟨st, kids, sibs, rfl, hf, hpk, hps⟩ := hp
    simp only [bad1, Bool.or_eq_false_iff] at hb
    obtain ⟨⟨hbb, hbk⟩, hbr⟩ := hb
    obtain ⟨hnp, hnb, hnr⟩ := names_child_sub hn
    have hUm : ∀ m, (infoOf k prs body).mentions m = true → m ∈ U := by
      intro m hm
      rcases mentions_names k prs body m hm with rfl | rfl | h | h
      · exact h0
      · exact h1
      · exact hnp m h
      · exact hnb m h
    obtain ⟨hmod, hkk, hkind⟩ := info_kind_facts k prs body
    -- pass-1 conditions are out of the way
    have hdup : ((infoOf k prs body).kind != some .comp && hasDup (infoOf k prs body).params) = false := by
      simp only [blockBad1, Bool.or_eq_false_iff] at hbb
      have := hbb.1
      cases k <;> simpa [infoOf] using this
    have hubd : usedBeforeDecl (infoOf k prs body).evs = false := by
      simp only [blockBad1, Bool.or_eq_false_iff] at hbb
      rw [Bool.eq_false_iff]; intro h
      have := evBad_of_ubd _ (initSeen k prs) h
      simp only [infoOf] at this
      rw [hbb.2] at this; cases this
    have hforb := forbidden_iff (infoOf k prs body) c hdup hubd
    have hpre := blockPre_child hσ hU (path ++ [i]) hf hbb c (setCopy U σ (path ++ [i]) 11 ps.bound)
      (setCopy U σ (path ++ [i]) 12 ps.free) (setCopy U σ (path ++ [i]) 13 ps.glob) hUm hcls
      (fun m => by rw [setCopy_get hσ, hB]; cases decide (m ∈ U) <;> simp)
      (fun m => by rw [setCopy_get hσ, hF]; simp)
    rw [analyzeForest_node, specForest_child]
    revert hpre
    cases hbp : blockPre U σ (path ++ [i]) st (some (setCopy U σ (path ++ [i]) 11 ps.bound))
        (setCopy U σ (path ++ [i]) 12 ps.free) (setCopy U σ (path ++ [i]) 13 ps.glob) with
    | error e =>
      intro hpre
      simp only [] at hpre
      rw [exErr_bind, if_pos (hforb.2 hpre)]
      trivial
    | ok pre =>
      rintro ⟨hnf, hsc, hbd, hfr, hnb', hnfree⟩
      have hnotforb : ¬ forbidden (infoOf k prs body) c = true := by
        intro h; obtain ⟨m, hm⟩ := hforb.1 h; rw [hnf m] at hm; cases hm
      rw [exOk_bind, if_neg hnotforb]
      have ihk := forest_spec hσ hU h0 h1 hcls body (infoOf k prs body :: c) kids (path ++ [i]) 0
        ⟨pre.newbound, pre.newfree, pre.newglobal⟩ NSet.empty hpk hbk hnb hnb' hnfree
      revert ihk
      cases hk1 : analyzeForest U σ kids (path ++ [i]) 0 ⟨pre.newbound, pre.newfree, pre.newglobal⟩ NSet.empty with
      | error e =>
        cases hk2 : specForest (infoOf k prs body :: c) body with
        | error e2 => intro _; rw [exErr_bind, exErr_bind]; trivial
        | ok r2 => intro h; exact h.elim
      | ok r =>
        obtain ⟨kids', ns, allfree⟩ := r
        cases hk2 : specForest (infoOf k prs body :: c) body with
        | error e2 => intro h; exact h.elim
        | ok r2 =>
          obtain ⟨kidsS, fvK⟩ := r2
          rintro ⟨hns, hAF, hAgK, hFVK⟩
          subst hns
          rw [exOk_bind, exOk_bind]
          simp only []
          have hAF' : ∀ m, allfree.get m = (decide (m ∈ U) && fvK m) := by
            intro m; rw [hAF m]; simp [NSet.empty]
          -- the block itself
          have hpost : (blockPost U σ (path ++ [i]) st { pre with newfree := pre.newfree } allfree).1.typ = st.typ ∧
              (blockPost U σ (path ++ [i]) st { pre with newfree := pre.newfree } allfree).1.name = st.name ∧
              (∀ m, m ∈ U → ((blockPost U σ (path ++ [i]) st { pre with newfree := pre.newfree } allfree).1.syms.get m).map (·.scope)
                  = (classify (infoOf k prs body) c fvK m).map Cls.toScope) ∧
              (∀ m, (blockPost U σ (path ++ [i]) st { pre with newfree := pre.newfree } allfree).2.get m
                  = (decide (m ∈ U) && freeVars (infoOf k prs body) c fvK m)) := by
            rcases hkind with ⟨ht, hfun, hclass⟩ | ⟨ht, hfun, hclass⟩
            · exact blockPost_fun hσ (path ++ [i]) (infoOf k prs body) c hf.has (hf.typ.trans ht) hfun hclass hmod
                { pre with newfree := pre.newfree } allfree fvK hUm hsc hbd hfr hnfree hAF' hFVK
            · exact blockPost_cls hσ (path ++ [i]) (infoOf k prs body) c hf.has (hf.typ.trans ht) hfun hclass hmod
                { pre with newfree := pre.newfree } allfree fvK hUm hsc hbd hfr hnfree hAF' hFVK
          obtain ⟨hpt, hpn, hpsc, hpfr⟩ := hpost
          have ihr := forest_spec hσ hU h0 h1 hcls rest c sibs path (i + 1) ps
            (setUpdate U σ (path ++ [i]) 14 childFree
              (blockPost U σ (path ++ [i]) st { pre with newfree := pre.newfree } allfree).2) hps hbr hnr hB hF
          revert ihr
          cases hr1 : analyzeForest U σ sibs path (i + 1) ps
              (setUpdate U σ (path ++ [i]) 14 childFree
                (blockPost U σ (path ++ [i]) st { pre with newfree := pre.newfree } allfree).2) with
          | error e =>
            cases hr2 : specForest c rest with
            | error e2 => intro _; rw [exErr_bind, exErr_bind]; trivial
            | ok r2 => intro h; exact h.elim
          | ok r =>
            obtain ⟨sibs', ps3, cf3⟩ := r
            cases hr2 : specForest c rest with
            | error e2 => intro h; exact h.elim
            | ok r2 =>
              obtain ⟨sibsS, fvR⟩ := r2
              rintro ⟨hps3, hcf3, hAgR, hFVR⟩
              rw [exOk_bind, exOk_bind]
              simp only [pure, Except.pure]
              refine ⟨hps3, fun m => ?_, ⟨?_, ?_, hpsc, hAgK, hAgR⟩, fun m hm => ?_⟩
              · rw [hcf3 m, setUpdate_get hσ, hpfr m]
                simp only [nunion]
                cases childFree.get m <;> cases decide (m ∈ U) <;> simp
              · rw [hpt]; exact hf.typ
              · rw [hpn]; exact hf.name
              · simp only [nunion, Bool.or_eq_true] at hm
                rcases hm with hm | hm
                · exact freeVars_visible _ c fvK m hmod hkk (hnf m) (hFVK m) hm
                · exact hFVR m hm

end GPy.C03
