/-
C03 `analyze_spec`, the module block and the final assembly.
-/
import GPy.C03.ProofsSpec5
namespace GPy.C03

/-- the module block of a program, as the specification sees it -/
def modInfo (b : Body) : SInfo := { kind := none, params := [], evs := events b }

/-- top-level agreement: the module table has a symbol exactly for the names the specification
lists for the module (all of them are module globals – the observable `V` prints `G`), and the
nested blocks agree scope by scope -/
def AgreeTop (U : List Name) : Forest → SForest → Prop
  | .node st kids .nil, .node none nm cls skids .nil =>
      st.typ = .module ∧ st.name = nm ∧ (∀ m, m ∈ U → (st.syms.get m).isSome = (cls m).isSome) ∧ Agree U kids skids
  | _, _ => False

theorem globalsBelow_names : ∀ (body : Body) (m : Name), globalsBelow body m = true → m ∈ body.names
  | .nil, m, h => by simp [globalsBelow] at h
  | .op o rest, m, h => List.mem_cons_of_mem _ (globalsBelow_names rest m h)
  | .child k name ps body rest, m, h => by
    simp only [globalsBelow, Bool.or_eq_true, List.contains_iff_mem] at h
    simp only [Body.names, List.mem_cons, List.mem_append]
    rcases h with (h | h) | h
    · exact Or.inl (Or.inr (events_names body _ h))
    · exact Or.inl (Or.inr (globalsBelow_names body m h))
    · exact Or.inr (globalsBelow_names rest m h)

theorem addGlobalSym_has (g : Ste) (name n : Name) : (addGlobalSym g name).has n = (g.has n || decide (n = name)) := by
  unfold addGlobalSym
  cases hs : g.syms name <;> simp only [Ste.has, Tbl.set_get] <;> by_cases h : n = name <;> simp [h, hs]

theorem addGlobalSym_fl (g : Ste) (name n : Name) :
    ((addGlobalSym g name).fl n).nonloc = (g.fl n).nonloc ∧ ((addGlobalSym g name).fl n).param = (g.fl n).param := by
  unfold addGlobalSym
  cases hs : g.syms name <;> simp only [Ste.fl, Tbl.set_get] <;> by_cases h : n = name <;>
    simp [h, hs, Flags.or, DefGlobal]

theorem addGlobalSym_typ (g : Ste) (name : Name) : (addGlobalSym g name).typ = g.typ ∧ (addGlobalSym g name).name = g.name := by
  unfold addGlobalSym; cases g.syms name <;> exact ⟨rfl, rfl⟩

theorem foldGlobal_spec : ∀ (gs : List Name) (g : Ste),
    (gs.foldl addGlobalSym g).typ = g.typ ∧ (gs.foldl addGlobalSym g).name = g.name ∧
    ∀ n, (gs.foldl addGlobalSym g).has n = (g.has n || decide (n ∈ gs)) ∧
      ((gs.foldl addGlobalSym g).fl n).nonloc = (g.fl n).nonloc ∧ ((gs.foldl addGlobalSym g).fl n).param = (g.fl n).param
  | [], g => by simp
  | a :: gs, g => by
    obtain ⟨h1, h2, h3⟩ := foldGlobal_spec gs (addGlobalSym g a)
    simp only [List.foldl_cons]
    refine ⟨h1.trans (addGlobalSym_typ g a).1, h2.trans (addGlobalSym_typ g a).2, fun n => ?_⟩
    obtain ⟨h4, h5, h6⟩ := h3 n
    refine ⟨?_, h5.trans (addGlobalSym_fl g a n).1, h6.trans (addGlobalSym_fl g a n).2⟩
    rw [h4, addGlobalSym_has]
    by_cases h : n = a <;> simp [h, Bool.or_assoc]

theorem nameAct_none_err (f : Flags) (hp : f.param = false) : (nameAct f none false).isErr = f.nonloc := by
  unfold nameAct
  rw [hp]
  cases f.glob <;> cases f.nonloc <;> cases f.bound <;> simp [NAct.isErr]

theorem blockPost_module (U : List Name) (σ : Order) (p : List Nat) (st : Ste) (pre : Pre) (allfree : NSet)
    (hty : st.typ = .module) :
    blockPost U σ p st pre allfree =
      ({ st with syms := SymbolsUpdate U σ p st.syms pre.an.scopes pre.an.bound
                           (setUpdate U σ p 9 pre.newfree allfree) (st.typ == .cls) },
       setUpdate U σ p 10 pre.an.free (setUpdate U σ p 9 pre.newfree allfree)) := by
  simp only [blockPost, hty, show (BlockType.module == BlockType.function) = false from rfl,
    show (BlockType.module == BlockType.cls) = false from rfl, Bool.false_eq_true, if_false]


/-! ### pass 1 rejects ⇒ the specification rejects -/

theorem evBad_cases : ∀ (evs : List Ev) (seen : NPred), evBad seen evs = true →
    usedBeforeDecl evs = true ∨ ∃ m, seen m = true ∧ (evs.contains (.glob m) = true ∨ evs.contains (.nonloc m) = true)
  | [], _, h => by simp [evBad] at h
  | e :: r, seen, h => by
    cases e with
    | bind n =>
      simp only [evBad] at h
      rcases evBad_cases r _ h with h' | ⟨m, hm, hd⟩
      · left; simp [usedBeforeDecl, h']
      · by_cases hmn : m = n
        · subst hmn; left
          simp only [usedBeforeDecl, Bool.or_eq_true]
          rcases hd with hd | hd
          · exact Or.inl (Or.inl hd)
          · exact Or.inl (Or.inr hd)
        · right
          refine ⟨m, by simpa [hmn] using hm, ?_⟩
          simpa [List.contains_cons] using hd
    | use n =>
      simp only [evBad] at h
      rcases evBad_cases r _ h with h' | ⟨m, hm, hd⟩
      · left; simp [usedBeforeDecl, h']
      · by_cases hmn : m = n
        · subst hmn; left
          simp only [usedBeforeDecl, Bool.or_eq_true]
          rcases hd with hd | hd
          · exact Or.inl (Or.inl hd)
          · exact Or.inl (Or.inr hd)
        · right
          refine ⟨m, by simpa [hmn] using hm, ?_⟩
          simpa [List.contains_cons] using hd
    | glob n =>
      simp only [evBad, Bool.or_eq_true] at h
      rcases h with h | h
      · right; exact ⟨n, h, Or.inl (by simp [List.contains_cons])⟩
      · rcases evBad_cases r _ h with h' | ⟨m, hm, hd⟩
        · left; simpa [usedBeforeDecl] using h'
        · right; refine ⟨m, hm, ?_⟩
          rcases hd with hd | hd
          · left; simp [List.contains_cons, List.contains_iff_mem.1 hd]
          · right; simpa [List.contains_cons] using hd
    | nonloc n =>
      simp only [evBad, Bool.or_eq_true] at h
      rcases h with h | h
      · right; exact ⟨n, h, Or.inr (by simp [List.contains_cons])⟩
      · rcases evBad_cases r _ h with h' | ⟨m, hm, hd⟩
        · left; simpa [usedBeforeDecl] using h'
        · right; refine ⟨m, hm, ?_⟩
          rcases hd with hd | hd
          · left; simpa [List.contains_cons] using hd
          · right; simp [List.contains_cons, List.contains_iff_mem.1 hd]

theorem forbidden_of_blockBad1 (k : Kind) (ps : List Param) (body : Body) (c : List SInfo)
    (h : blockBad1 k ps body = true) : forbidden (infoOf k ps body) c = true := by
  simp only [blockBad1, Bool.or_eq_true] at h
  simp only [forbidden, Bool.or_eq_true]
  rcases h with h | h
  · left; left
    cases k <;> simpa [infoOf] using h
  · rcases evBad_cases _ _ h with h' | ⟨m, hm, hd⟩
    · left; right; exact h'
    · right
      rw [List.any_eq_true]
      refine ⟨m, (mem_declaredNames _ m).2 hd, ?_⟩
      have := paramFlag_or_initSeen k ps m
      rw [hm, Bool.or_true] at this
      simp [infoOf, List.contains_iff_mem.1 this.symm]

theorem specForest_err_of_bad1 : ∀ (body : Body) (c : List SInfo), bad1 body = true → ∃ e, specForest c body = .error e
  | .nil, _, h => by simp [bad1] at h
  | .op o rest, c, h => by
    simp only [specForest]
    exact specForest_err_of_bad1 rest c h
  | .child k name ps body rest, c, h => by
    rw [specForest_child]
    by_cases hf : forbidden (infoOf k ps body) c = true
    · exact ⟨(), by rw [if_pos hf]⟩
    · rw [if_neg hf]
      simp only [bad1, Bool.or_eq_true] at h
      rcases h with (h | h) | h
      · exact absurd (forbidden_of_blockBad1 k ps body c h) hf
      · obtain ⟨e, he⟩ := specForest_err_of_bad1 body _ h
        exact ⟨e, by rw [he, exErr_bind]⟩
      · obtain ⟨e, he⟩ := specForest_err_of_bad1 rest c h
        cases hk : specForest (infoOf k ps body :: c) body with
        | error e' => exact ⟨e', by rw [exErr_bind]⟩
        | ok r => exact ⟨e, by rw [exOk_bind, he, exErr_bind]⟩

/-! ### the module block -/

theorem nameForbidden_module (b : Body) (m : Name) : nameForbidden (modInfo b) [] m = (modInfo b).nonlocs m := by
  simp only [nameForbidden, modInfo, SInfo.isModule, List.contains_nil, Bool.false_or]
  cases (SInfo.globs _ m) <;> cases (SInfo.nonlocs _ m) <;> simp

theorem actAt_bound_none (A : NAct) (sc : Scope) (l f : Bool) : (actAt A ⟨sc, none, l, f⟩).bound = none := by
  cases A <;> rfl

theorem blockPre_module {σ : Order} (hσ : σ.Valid) {U : List Name} (hU : U.Nodup) (st : Ste) (hty : st.typ = .module)
    (nl : NPred) (hnl : ∀ m, (st.fl m).nonloc = nl m) (hpar : ∀ m, (st.fl m).param = false)
    (hUm : ∀ m, st.has m = true → m ∈ U) (hnlhas : ∀ m, nl m = true → st.has m = true) :
    match blockPre U σ [] st none NSet.empty NSet.empty with
    | .error _ => ∃ m, nl m = true
    | .ok pre => (∀ m, nl m = false) ∧ pre.an.bound = none ∧ (∀ m, pre.newbound.get m = false) ∧
        (∀ m, pre.newfree.get m = false) := by
  have hmem : ∀ m, m ∈ keysOf U σ [] 0 (fun n => (st.syms n).isSome) ↔ st.has m = true := by
    intro m
    rw [mem_keysOf hσ]
    exact ⟨fun h => h.2, fun h => ⟨hUm m h, h⟩⟩
  have hfold := anFold_spec st.syms _ (nodup_keysOf hσ hU [] 0 (fun n => (st.syms n).isSome))
    ({ bound := none, free := NSet.empty, glob := NSet.empty } : AN)
  rw [blockPre_eq]
  revert hfold
  cases hres : List.foldlM (anStep st.syms) ({ bound := none, free := NSet.empty, glob := NSet.empty } : AN)
      (keysOf U σ [] 0 (fun n => (st.syms n).isSome)) with
  | error e =>
    rintro ⟨m, hm, v, hv, herr⟩
    rw [exErr_bind]
    have hfl := Ste.fl_of_some hv
    rw [init_at] at herr
    simp only [Option.map_none] at herr
    rw [nameAct_none_err _ (by rw [← hfl.1]; exact hpar m), ← hfl.1, hnl] at herr
    exact ⟨m, herr⟩
  | ok s' =>
    rintro ⟨hnoerr, hat⟩
    rw [exOk_bind]
    simp only [pure, Except.pure]
    have hnone : s'.bound = none := by
      have := congrArg ANAt.bound (hat "__class__")
      rw [init_at] at this
      cases hb : s'.bound with
      | none => rfl
      | some b' =>
        simp only [AN.at, hb, Option.map_some, Option.map_none] at this
        split_ifs at this
        · revert this
          cases st.syms.get "__class__" with
          | none => simp
          | some v => simp [actAt_bound_none]
    refine ⟨fun m => ?_, ?_, fun m => ?_, fun m => rfl⟩
    · rw [Bool.eq_false_iff]; intro hm
      have hhas := hnlhas m hm
      obtain ⟨v, hv⟩ := Ste.has_iff.1 hhas
      have hfl := Ste.fl_of_some hv
      have := hnoerr m ((hmem m).2 hhas) v hv
      rw [init_at] at this
      simp only [Option.map_none] at this
      rw [nameAct_none_err _ (by rw [← hfl.1]; exact hpar m), ← hfl.1, hnl, hm] at this
      cases this
    · simp only [mkPre]; exact hnone
    · simp only [mkPre, hty, hnone, show (BlockType.module == BlockType.cls) = false from rfl,
        show (BlockType.module != BlockType.cls) = true from rfl,
        show (BlockType.module == BlockType.function) = false from rfl, Bool.false_eq_true, if_false, if_true, NSet.empty]


/-! ### assembly -/

def topSte : Ste := { typ := .module, name := "top", nested := false }

theorem parseModule_eq (b : Body) :
    parseModule b = (parseBody topSte b >>= fun r => pure (.node (r.2.2.foldl addGlobalSym r.1) r.2.1 .nil)) := by
  unfold parseModule topSte
  rfl

theorem analyzeTop_node (U : List Name) (σ : Order) (st : Ste) (kids sibs : Forest) :
    analyzeTop U σ (.node st kids sibs) =
      (blockPre U σ [] st none NSet.empty NSet.empty >>= fun pre =>
       analyzeForest U σ kids [] 0 ⟨pre.newbound, pre.newfree, pre.newglobal⟩ NSet.empty >>= fun r =>
       pure (.node (blockPost U σ [] st { pre with newfree := r.2.1.free } r.2.2).1 r.1 .nil)) := by
  simp only [analyzeTop, analyzeTopG, analyzeForest]

/-- the classification the specification gives the module block -/
def topCls (b : Body) : Name → Option Cls := fun n =>
  match resolve (modInfo b) [] n with
  | some c => some c
  | none => if globalsBelow b n || (events b).contains (.glob n) then some .globalExplicit else none

theorem specAnalyze_eq (b : Body) :
    specAnalyze b = if forbidden (modInfo b) [] then .error () else
      (specForest [modInfo b] b >>= fun r => pure (.node none "top" (topCls b) r.1 .nil)) := by
  unfold specAnalyze modInfo topCls
  by_cases h : forbidden { kind := none, params := [], evs := events b } [] = true
  · simp only [h, if_true]; rfl
  · simp only [h, if_false]; rfl

/-- **analyze_spec** (helper form, see Props.lean) -/
theorem newSymTable_spec {σ : Order} (hσ : σ.Valid) (b : Body) :
    match newSymTable σ b, specAnalyze b with
    | .ok t, .ok s => AgreeTop (namesOf b) t s
    | .error _, .error _ => True
    | _, _ => False := by
  have hU := namesOf_nodup b
  have hcls : "__class__" ∈ namesOf b := mem_namesOf.2 (Or.inl rfl)
  have h0 : ".0" ∈ namesOf b := mem_namesOf.2 (Or.inr (Or.inl rfl))
  have h1 : "_[1]" ∈ namesOf b := mem_namesOf.2 (Or.inr (Or.inr (Or.inl rfl)))
  have hnames : ∀ n ∈ b.names, n ∈ namesOf b := fun n hn => mem_namesOf.2 (Or.inr (Or.inr (Or.inr hn)))
  have hseen : seenOf topSte = fun _ => false := by funext m; rfl
  have hdupM : ((modInfo b).kind != some .comp && hasDup (modInfo b).params) = false := by simp [modInfo, hasDup]
  unfold newSymTable
  rw [parseModule_eq, specAnalyze_eq]
  have hp1 := parseBody_spec b topSte
  revert hp1
  cases hpb : parseBody topSte b with
  | error e =>
    intro hp1
    simp only [P1Post, hseen] at hp1
    rw [exErr_bind, exErr_bind]
    by_cases hf : forbidden (modInfo b) [] = true
    · rw [if_pos hf]; trivial
    · rw [if_neg hf]
      rcases hp1 with hp1 | hp1
      · exfalso; apply hf
        rcases evBad_cases _ _ hp1 with h | ⟨m, hm, _⟩
        · simp [forbidden, modInfo, h]
        · cases hm
      · obtain ⟨e', he'⟩ := specForest_err_of_bad1 b [modInfo b] hp1
        rw [he', exErr_bind]; trivial
  | ok r =>
    obtain ⟨st, kids, gs⟩ := r
    rintro ⟨hev, hbad, hacc, hparsed, hgs⟩
    rw [hseen] at hev
    rw [exOk_bind]
    simp only [pure, Except.pure, exOk_bind]
    obtain ⟨gty, gname, gfacts⟩ := foldGlobal_spec gs st
    -- facts about the module table
    have hty : (gs.foldl addGlobalSym st).typ = .module := gty.trans hacc.typ
    have hnm : (gs.foldl addGlobalSym st).name = "top" := gname.trans hacc.name
    have hnl : ∀ m, ((gs.foldl addGlobalSym st).fl m).nonloc = (modInfo b).nonlocs m := by
      intro m
      rw [(gfacts m).2.1, hacc.fl]
      simp [Flags.or, evFlags_nonloc, SInfo.nonlocs, modInfo, topSte, Ste.fl]
    have hpar : ∀ m, ((gs.foldl addGlobalSym st).fl m).param = false := by
      intro m
      rw [(gfacts m).2.2, hacc.fl]
      simp [Flags.or, (evFlags_param _ m).1, topSte, Ste.fl]
    have hhas : ∀ m, (gs.foldl addGlobalSym st).has m = (evMentions (events b) m || decide (m ∈ gs)) := by
      intro m
      rw [(gfacts m).1, hacc.has]
      simp [topSte, Ste.has]
    have hUm : ∀ m, (gs.foldl addGlobalSym st).has m = true → m ∈ namesOf b := by
      intro m hm
      rw [hhas, Bool.or_eq_true] at hm
      apply hnames
      rcases hm with hm | hm
      · simp only [evMentions, List.any_eq_true, decide_eq_true_eq] at hm
        obtain ⟨e, he, rfl⟩ := hm
        exact events_names b e he
      · rcases (hgs m).1 (of_decide_eq_true hm) with h | h
        · exact events_names b _ (List.contains_iff_mem.1 h)
        · exact globalsBelow_names b m h
    have hnlhas : ∀ m, (modInfo b).nonlocs m = true → (gs.foldl addGlobalSym st).has m = true := by
      intro m hm
      rw [hhas, evMentions_eq]
      simp only [SInfo.nonlocs, modInfo] at hm
      simp [List.contains_iff_mem.1 hm]
    have hubd : usedBeforeDecl (modInfo b).evs = false := by
      rw [Bool.eq_false_iff]; intro h
      have := evBad_of_ubd _ (fun _ => false) h
      simp only [modInfo] at this
      rw [hev] at this; cases this
    have hforb := forbidden_iff (modInfo b) [] hdupM hubd
    have hpre := blockPre_module hσ hU (gs.foldl addGlobalSym st) hty (modInfo b).nonlocs hnl hpar hUm hnlhas
    rw [analyzeTop_node]
    revert hpre
    cases hbp : blockPre (namesOf b) σ [] (gs.foldl addGlobalSym st) none NSet.empty NSet.empty with
    | error e =>
      rintro ⟨m, hm⟩
      rw [exErr_bind, if_pos (hforb.2 ⟨m, by rw [nameForbidden_module]; exact hm⟩)]
      trivial
    | ok pre =>
      rintro ⟨hnonl, hbnone, hnb, hnfree⟩
      have hnotforb : ¬ forbidden (modInfo b) [] = true := by
        intro h; obtain ⟨m, hm⟩ := hforb.1 h
        rw [nameForbidden_module, hnonl m] at hm; cases hm
      rw [exOk_bind, if_neg hnotforb]
      have ih := forest_spec hσ hU h0 h1 hcls b [modInfo b] kids [] 0 ⟨pre.newbound, pre.newfree, pre.newglobal⟩ NSet.empty
        hparsed hbad hnames
        (fun m => by
          rw [hnb m]
          simp [visible, modInfo, SInfo.isModule])
        hnfree
      revert ih
      cases hk1 : analyzeForest (namesOf b) σ kids [] 0 ⟨pre.newbound, pre.newfree, pre.newglobal⟩ NSet.empty with
      | error e =>
        cases hk2 : specForest [modInfo b] b with
        | error e2 => intro _; rw [exErr_bind, exErr_bind]; trivial
        | ok r2 => intro h; exact h.elim
      | ok r =>
        obtain ⟨kids', ns, allfree⟩ := r
        cases hk2 : specForest [modInfo b] b with
        | error e2 => intro h; exact h.elim
        | ok r2 =>
          obtain ⟨kidsS, fvK⟩ := r2
          rintro ⟨_, _, hAg, _⟩
          rw [exOk_bind, exOk_bind]
          simp only [pure, Except.pure]
          rw [blockPost_module _ _ _ _ _ _ hty]
          refine ⟨hty, hnm, fun m hmU => ?_, hAg⟩
          simp only []
          have hsc := SymbolsUpdate_scope hσ (namesOf b) [] (gs.foldl addGlobalSym st).syms pre.an.scopes pre.an.bound
            (setUpdate (namesOf b) σ [] 9 ns.free allfree) ((gs.foldl addGlobalSym st).typ == .cls) m
          have hiso := congrArg Option.isSome hsc
          rw [Option.isSome_map] at hiso
          rw [hiso]
          have hh := hhas m
          simp only [Ste.has] at hh
          simp only [hbnone, boundHas, Bool.false_eq_true, and_false, if_false]
          have hgm := hgs m
          have hres := resolve_isSome (modInfo b) [] m
          simp only [topCls]
          cases hs : (gs.foldl addGlobalSym st).syms.get m with
          | none =>
            rw [hs] at hh
            simp only [Option.isSome_none] at hh ⊢
            have hh' := hh.symm
            rw [Bool.or_eq_false_iff] at hh'
            have hment : (modInfo b).mentions m = false := by
              rw [← hh'.1, evMentions_eq]
              simp only [SInfo.mentions, SInfo.binds, SInfo.uses, SInfo.globs, SInfo.nonlocs, modInfo, List.contains_nil, Bool.false_or]
            rw [hment] at hres
            have hnot : ¬ ((events b).contains (.glob m) = true ∨ globalsBelow b m = true) := by
              intro h; have := (hgm.2 h); simp [this] at hh'
            cases hr : resolve (modInfo b) [] m with
            | some cl => rw [hr] at hres; cases hres
            | none =>
              simp only []
              have h1' : globalsBelow b m = false := by
                rw [Bool.eq_false_iff]; exact fun h => hnot (Or.inr h)
              have h2' : (events b).contains (.glob m) = false := by
                rw [Bool.eq_false_iff]; exact fun h => hnot (Or.inl h)
              rw [h1', h2']; rfl
          | some s =>
            rw [hs] at hh
            simp only [Option.isSome_some] at hh ⊢
            cases hr : resolve (modInfo b) [] m with
            | some cl => rfl
            | none =>
              simp only []
              rw [hr] at hres
              have hment : evMentions (events b) m = false := by
                rw [evMentions_eq]
                have := hres.symm
                simpa only [SInfo.mentions, SInfo.binds, SInfo.uses, SInfo.globs, SInfo.nonlocs, modInfo, List.contains_nil,
                  Bool.false_or, Option.isSome_none] using this
              rw [hment, Bool.false_or] at hh
              rcases (hgm.1 (of_decide_eq_true hh.symm)) with h | h
              · rw [h, Bool.or_true]; rfl
              · rw [h, Bool.true_or]; rfl

end GPy.C03
