import GPy.C03.Model
import Mathlib.Tactic.SplitIfs
namespace GPy.C03

/-! ### `FindId` -/

theorem vm_findId_get {id : Name} {names : List Name} {i : Nat} (h : findId id names = some i) :
    names[i]? = some id := by
  by_cases hlt : List.findIdx (fun x => x == id) names < names.length
  · simp only [findId, hlt, if_true, Option.some.injEq] at h
    subst h
    have := List.findIdx_getElem (w := hlt)
    simp only [beq_iff_eq] at this
    rw [List.getElem?_eq_getElem hlt, this]
  · simp [findId, hlt] at h

theorem vm_findId_lt {id : Name} {names : List Name} {i : Nat} (h : findId id names = some i) :
    i < names.length := by
  by_cases hlt : List.findIdx (fun x => x == id) names < names.length
  · simp only [findId, hlt, if_true, Option.some.injEq] at h
    subst h; exact hlt
  · simp [findId, hlt] at h

example : findId "x" ["w", "x"] = some 1 := by decide

/-! ### concrete witnesses (used by the `example`s that show the hypotheses below are satisfiable)

```
def f(w):                     # exP : Cellvars (w, x)                 frame exF, cells 1 and 2
    x = ...
    def g1(): nonlocal x      # exC1: Freevars (x,)                   frame exF1
    def g2(y):                # exC2: Cellvars (y,) Freevars (w, x)   frame exF2, fresh cell 3
        (lambda: y); w; x
```
cell 0 is somebody else's. -/

def exSym (sc : Scope) : Option Sym := some { scope := sc }
def exP : Code :=
  { typ := .function, syms := ⟨fun n => if n = "x" ∨ n = "w" then exSym .cell else none⟩,
    params := ["w"], cellvars := ["w", "x"], freevars := [] }
def exC1 : Code :=
  { typ := .function, syms := ⟨fun n => if n = "x" then exSym .free else none⟩,
    params := [], cellvars := [], freevars := ["x"] }
def exC2 : Code :=
  { typ := .function,
    syms := ⟨fun n => if n = "x" ∨ n = "w" then exSym .free else if n = "y" then exSym .cell else none⟩,
    params := ["y"], cellvars := ["y"], freevars := ["w", "x"] }
def exM0 : MState := { cells := [some (.int 7)] }
def exM1 : MState := { cells := [some (.int 7), some (.int 1), none] }
def exM2 : MState := { cells := [some (.int 7), some (.int 1), none, some (.int 5)] }
/-- `x` bound to 9 -/
def exM3 : MState := { cells := [some (.int 7), some (.int 1), some (.int 9), some (.int 5)] }
def exF : Frame := { code := exP, fast := [], locals := none, cellAndFree := [1, 2] }
def exF1 : Frame := { code := exC1, fast := [], locals := none, cellAndFree := [2] }
def exF2 : Frame := { code := exC2, fast := [], locals := none, cellAndFree := [3, 1, 2] }

/-! ### running the primitive actions -/

theorem ok_bind {ε α β : Type} (a : α) (k : α → Except ε β) : (Except.ok a >>= k) = k a := rfl

theorem error_bind {ε α β : Type} (e : ε) (k : α → Except ε β) :
    ((Except.error e : Except ε α) >>= k) = Except.error e := rfl

theorem run_pure {α : Type} (a : α) (m : MState) : (pure a : M α).run m = .ok (a, m) := rfl

theorem slotCell_some_run {f : Frame} {s c : Nat} (h : f.cellAndFree[s]? = some c) (m : MState) :
    (slotCell f (some s)).run m = .ok ((s, c), m) := by
  simp only [slotCell, h]; rfl

example : exF.cellAndFree[1]? = some 2 := rfl

theorem slotCell_run_ok {f : Frame} {slot : Option Nat} {m m' : MState} {r : Nat × Nat}
    (h : (slotCell f slot).run m = .ok (r, m')) :
    m' = m ∧ slot = some r.1 ∧ f.cellAndFree[r.1]? = some r.2 := by
  unfold slotCell at h
  cases slot with
  | none => cases h
  | some s =>
    cases hc : f.cellAndFree[s]? with
    | none => simp only [hc] at h; cases h
    | some c =>
      simp only [hc] at h
      cases h
      exact ⟨rfl, rfl, hc⟩

example : (slotCell exF (some 1)).run exM1 = .ok ((1, 2), exM1) := rfl

theorem newCell_run (v : Option Val) (m : MState) :
    (newCell v).run m = .ok (m.cells.length, { m with cells := m.cells ++ [v] }) := rfl

theorem cellGet_run (i : Nat) (m : MState) :
    (cellGet i).run m = .ok (m.cells.getD i none, m) := rfl

theorem cellSet_run (i : Nat) (v : Option Val) (m : MState) :
    (cellSet i v).run m = .ok ((), { m with cells := m.cells.set i v }) := rfl


/-! ### `makeClosure` -/

/-- one `LOAD_CLOSURE` -/
def closStep (f : Frame) (n : Name) : M Nat := do
  let (_, c) ← slotCell f (closureSlot f.code n)
  pure c

theorem makeClosure_eq (f : Frame) (child : Code) :
    makeClosure f child = child.freevars.mapM (closStep f) := rfl

theorem closStep_run_ok {f : Frame} {n : Name} {m m' : MState} {c : Nat}
    (h : (closStep f n).run m = .ok (c, m')) :
    m' = m ∧ ∃ s, closureSlot f.code n = some s ∧ f.cellAndFree[s]? = some c := by
  unfold closStep slotCell at h
  cases hs : closureSlot f.code n with
  | none => simp only [hs] at h; cases h
  | some s =>
    cases hc : f.cellAndFree[s]? with
    | none => simp only [hs, hc] at h; cases h
    | some c' =>
      simp only [hs, hc] at h
      cases h
      exact ⟨rfl, s, rfl, hc⟩

example : (closStep exF "x").run exM1 = .ok (2, exM1) := rfl

theorem closStep_run_of {f : Frame} {n : Name} {s c : Nat}
    (hs : closureSlot f.code n = some s) (hc : f.cellAndFree[s]? = some c) (m : MState) :
    (closStep f n).run m = .ok (c, m) := by
  unfold closStep slotCell
  simp only [hs, hc]; rfl

example : closureSlot exF.code "x" = some 1 ∧ exF.cellAndFree[1]? = some 2 := ⟨rfl, rfl⟩

theorem mapM_closStep_run {f : Frame} : ∀ {l : List Name} {m m' : MState} {cl : List Nat},
    (l.mapM (closStep f)).run m = .ok (cl, m') →
    m' = m ∧ cl.length = l.length ∧
      ∀ (j : Nat) (n : Name), l[j]? = some n →
        ∃ s c, closureSlot f.code n = some s ∧ f.cellAndFree[s]? = some c ∧ cl[j]? = some c
  | [], m, m', cl, h => by
    rw [List.mapM_nil] at h
    cases h
    exact ⟨rfl, rfl, fun j n hj => by simp at hj⟩
  | a :: l, m, m', cl, h => by
    rw [List.mapM_cons] at h
    simp only [StateT.run_bind] at h
    cases h1 : StateT.run (closStep f a) m with
    | error e => rw [h1] at h; cases h
    | ok p =>
      obtain ⟨c, m1⟩ := p
      rw [h1] at h
      obtain ⟨rfl, s, hs, hc⟩ := closStep_run_ok h1
      cases h2 : StateT.run (List.mapM (closStep f) l) m1 with
      | error e => simp only [bind, Except.bind, h2] at h; cases h
      | ok q =>
        obtain ⟨cl', m2⟩ := q
        simp only [bind, Except.bind, h2] at h
        cases h
        obtain ⟨rfl, hlen, hget⟩ := mapM_closStep_run h2
        refine ⟨rfl, by simp [hlen], ?_⟩
        intro j n hj
        cases j with
        | zero =>
          simp only [List.getElem?_cons_zero, Option.some.injEq] at hj
          subst hj
          exact ⟨s, c, hs, hc, rfl⟩
        | succ j =>
          simp only [List.getElem?_cons_succ] at hj ⊢
          exact hget j n hj


example : (["w", "x"].mapM (closStep exF)).run exM1 = .ok ([1, 2], exM1) := rfl

/-- `makeClosure` reads the frame only: the state is untouched, the tuple has one entry per free
variable of the child, and entry `j` is the cell the parent's frame holds in the slot
`closureSlot` computes for the child's `j`-th free variable. -/
theorem makeClosure_run {f : Frame} {child : Code} {m m' : MState} {cl : List Nat}
    (h : (makeClosure f child).run m = .ok (cl, m')) :
    m' = m ∧ cl.length = child.freevars.length ∧
      ∀ (j : Nat) (n : Name), child.freevars[j]? = some n →
        ∃ s c, closureSlot f.code n = some s ∧ f.cellAndFree[s]? = some c ∧ cl[j]? = some c :=
  mapM_closStep_run (by rw [← makeClosure_eq]; exact h)

example : (makeClosure exF exC2).run exM1 = .ok ([1, 2], exM1) := rfl

theorem makeClosure_state {f : Frame} {child : Code} {m m' : MState} {cl : List Nat}
    (h : (makeClosure f child).run m = .ok (cl, m')) : m' = m := (makeClosure_run h).1

theorem makeClosure_length {f : Frame} {child : Code} {m m' : MState} {cl : List Nat}
    (h : (makeClosure f child).run m = .ok (cl, m')) : cl.length = child.freevars.length :=
  (makeClosure_run h).2.1

theorem makeClosure_get {f : Frame} {child : Code} {m m' : MState} {cl : List Nat}
    (h : (makeClosure f child).run m = .ok (cl, m')) {j : Nat} {n : Name}
    (hj : child.freevars[j]? = some n) :
    ∃ s c, closureSlot f.code n = some s ∧ f.cellAndFree[s]? = some c ∧ cl[j]? = some c :=
  (makeClosure_run h).2.2 j n hj

example : (makeClosure exF exC2).run exM1 = .ok ([1, 2], exM1) ∧ exC2.freevars[1]? = some "x" :=
  ⟨rfl, rfl⟩
example : ∃ s c, closureSlot exF.code "x" = some s ∧ exF.cellAndFree[s]? = some c ∧
    ([1, 2] : List Nat)[1]? = some c :=
  makeClosure_get (f := exF) (child := exC2) (m := exM1) (m' := exM1) (cl := [1, 2]) rfl
    (j := 1) (n := "x") rfl

/-! ### `enterCells` / `enterFunction` -/

/-- `enterCells` never fails; it appends one cell per cell variable and returns their indices,
which are exactly the `cvs.length` indices following the old end of the cell store. -/
theorem enterCells_run (params : List Name) : ∀ (cvs : List Name) (fast : Dict) (m : MState),
    ∃ fast' ext, ext.length = cvs.length ∧
      (enterCells params cvs fast).run m =
        .ok ((fast', List.range' m.cells.length cvs.length), { m with cells := m.cells ++ ext })
  | [], fast, m => ⟨fast, [], rfl, by simp [enterCells]; rfl⟩
  | cv :: rest, fast, m => by
    unfold enterCells
    split_ifs with hp
    · obtain ⟨fast', ext, hlen, hrun⟩ := enterCells_run params rest (fast.del cv)
        { m with cells := m.cells ++ [fast.get cv] }
      refine ⟨fast', fast.get cv :: ext, by simp [hlen], ?_⟩
      dsimp only at hrun
      simp only [StateT.run_bind, newCell_run, ok_bind, hrun, run_pure, List.length_cons,
        List.range'_succ, List.append_assoc, List.singleton_append, List.length_append,
        List.length_nil, Nat.zero_add]
    · obtain ⟨fast', ext, hlen, hrun⟩ := enterCells_run params rest fast
        { m with cells := m.cells ++ [none] }
      refine ⟨fast', none :: ext, by simp [hlen], ?_⟩
      dsimp only at hrun
      simp only [StateT.run_bind, newCell_run, ok_bind, hrun, run_pure, List.length_cons,
        List.range'_succ, List.append_assoc, List.singleton_append, List.length_append,
        List.length_nil, Nat.zero_add]


/-- `enterFunction` never fails: the frame's `CellAndFreeVars` is the block of fresh cell indices
followed by the closure tuple; the cell store only grows. -/
theorem enterFunction_run (code : Code) (args : List (Name × Val)) (cl : List Nat) (m : MState) :
    ∃ fast' ext, ext.length = code.cellvars.length ∧
      (enterFunction code args cl).run m =
        .ok ({ code := code, fast := fast', locals := none,
               cellAndFree := List.range' m.cells.length code.cellvars.length ++ cl },
             { m with cells := m.cells ++ ext }) := by
  obtain ⟨fast', ext, hlen, hrun⟩ := enterCells_run code.params code.cellvars args m
  refine ⟨fast', ext, hlen, ?_⟩
  unfold enterFunction
  simp only [StateT.run_bind, hrun, ok_bind, run_pure]

/-- `EvalCode`'s frame set-up, relationally (item 2 of the brief). -/
theorem enterFunction_spec {code : Code} {args : List (Name × Val)} {cl : List Nat}
    {m m' : MState} {fr : Frame} (h : (enterFunction code args cl).run m = .ok (fr, m')) :
    fr.code = code ∧ fr.locals = none ∧
    (∃ cs : List Nat, fr.cellAndFree = cs ++ cl ∧ cs.length = code.cellvars.length ∧
        ∀ i ∈ cs, m.cells.length ≤ i ∧ i < m'.cells.length) ∧
    m'.cells.length = m.cells.length + code.cellvars.length ∧
    (∀ i, i < m.cells.length → m'.cells[i]? = m.cells[i]?) ∧
    m'.globals = m.globals ∧ m'.out = m.out := by
  obtain ⟨fast', ext, hlen, hrun⟩ := enterFunction_run code args cl m
  rw [hrun] at h
  cases h
  refine ⟨rfl, rfl, ⟨List.range' m.cells.length code.cellvars.length, rfl, by simp, ?_⟩,
    by simp [hlen], ?_, rfl, rfl⟩
  · intro i hi
    simp only [List.mem_range'_1] at hi
    simp only [List.length_append, hlen]
    exact hi
  · intro i hi
    simp only [List.getElem?_append_left hi]

example : (enterFunction exP [("w", .int 1)] []).run exM0 = .ok (exF, exM1) := rfl
example : (enterFunction exC2 [("y", .int 5)] [1, 2]).run exM1 = .ok (exF2, exM2) := rfl

/-- slot `len(Cellvars) + j` of the new frame is entry `j` of the closure tuple -/
theorem enterFunction_free_slot {code : Code} {args : List (Name × Val)} {cl : List Nat}
    {m m' : MState} {fr : Frame} (h : (enterFunction code args cl).run m = .ok (fr, m')) (j : Nat) :
    fr.cellAndFree[j + code.cellvars.length]? = cl[j]? := by
  obtain ⟨_, _, ⟨cs, hcs, hlen, _⟩, _⟩ := enterFunction_spec h
  rw [hcs, List.getElem?_append_right (by omega)]
  congr 1; omega

example : exF2.cellAndFree[1 + exC2.cellvars.length]? = ([1, 2] : List Nat)[1]? :=
  enterFunction_free_slot (code := exC2) (args := [("y", .int 5)]) (cl := [1, 2]) (m := exM1)
    (m' := exM2) (fr := exF2) rfl 1

/-! ### `closureSlot` vs `derefSlot` -/

/-- the operand `LOAD_CLOSURE` gets in `makeClosure` is the operand `LOAD_DEREF`/`STORE_DEREF` get in
`NameOp`: always for a cell variable, and for a free variable that is in `Freevars` unless it is the
`__class__` of a class block (there `getRefType` answers CELL whatever the symbol table says). -/
theorem closureSlot_eq_derefSlot {c : Code} {x : Name}
    (h : getScope c x = .cell ∨
         (getScope c x = .free ∧ findId x c.freevars ≠ none ∧ ¬ (c.typ = .cls ∧ x = "__class__"))) :
    closureSlot c x = derefSlot c x := by
  rcases h with h | ⟨h, hf, hn⟩
  · unfold closureSlot derefSlot
    simp only [h]
    split_ifs <;> simp_all
  · unfold closureSlot derefSlot
    cases hj : findId x c.freevars with
    | none => exact absurd hj hf
    | some j =>
      have : (c.typ == BlockType.cls && x == "__class__") = false := by
        cases ht : c.typ <;> simp_all
      simp [h, this, Nat.add_comm]

example : getScope exP "x" = .cell := by decide
example : getScope exC2 "x" = .free ∧ findId "x" exC2.freevars ≠ none ∧
    ¬ (exC2.typ = .cls ∧ "x" = "__class__") := by decide
/-- the `__class__` exclusion is needed: in a class block whose `__class__` is (also) free the two
operands differ -/
example : let c : Code := { typ := .cls, syms := ⟨fun n => if n = "__class__" then exSym .free else none⟩,
                            params := [], cellvars := ["__class__"], freevars := ["__class__"] }
    closureSlot c "__class__" = some 0 ∧ derefSlot c "__class__" = some 1 := by decide

/-! ### the DEREF opcodes -/

theorem loadName_deref_run {f : Frame} {n : Name} {s c : Nat} {v : Val} {m : MState}
    (hop : opFamily f.code.typ (getScope f.code n) = .deref)
    (hs : derefSlot f.code n = some s) (hc : f.cellAndFree[s]? = some c)
    (hl : f.code.typ ≠ .cls ∨ f.locals = none)
    (hv : m.cells[c]? = some (some v)) :
    (loadName f n).run m = .ok (v, m) := by
  have hg : m.cells.getD c none = some v := by
    rw [List.getD_eq_getElem?_getD, hv]; rfl
  have hcont : StateT.run (do
        let __do_lift ← cellGet c
        match __do_lift with
          | some v => pure v
          | none => unboundDeref f.code s) m = Except.ok (v, m) := by
    simp only [StateT.run_bind, cellGet_run, ok_bind, hg, run_pure]
  unfold loadName
  simp only [hop, hs]
  rw [StateT.run_bind, slotCell_some_run hc, ok_bind]
  dsimp only
  rcases hl with hl | hl
  · have : (f.code.typ == BlockType.cls) = false := by
      cases ht : f.code.typ <;> simp_all
    simp only [this, Bool.false_eq_true, if_false]
    exact hcont
  · simp only [hl, Option.bind_none]
    cases (f.code.typ == BlockType.cls) <;> exact hcont


example : opFamily exF2.code.typ (getScope exF2.code "x") = .deref ∧
    derefSlot exF2.code "x" = some 2 ∧ exF2.cellAndFree[2]? = some 2 ∧
    (exF2.code.typ ≠ .cls ∨ exF2.locals = none) ∧ exM3.cells[2]? = some (some (.int 9)) :=
  ⟨rfl, rfl, rfl, Or.inr rfl, rfl⟩
example : (loadName exF2 "x").run exM3 = .ok (.int 9, exM3) := rfl

theorem loadName_deref_unbound {f : Frame} {n : Name} {s c : Nat} {m : MState}
    (hop : opFamily f.code.typ (getScope f.code n) = .deref)
    (hs : derefSlot f.code n = some s) (hc : f.cellAndFree[s]? = some c)
    (hl : f.code.typ ≠ .cls ∨ f.locals = none)
    (hv : m.cells[c]? = some none) :
    (loadName f n).run m =
      .error (if s < f.code.cellvars.length then .unboundLocal else .nameError, m) := by
  have hg : m.cells.getD c none = none := by
    rw [List.getD_eq_getElem?_getD, hv]; rfl
  have hcont : StateT.run (do
        let __do_lift ← cellGet c
        match __do_lift with
          | some v => pure v
          | none => unboundDeref f.code s) m =
      .error (if s < f.code.cellvars.length then .unboundLocal else .nameError, m) := by
    simp only [StateT.run_bind, cellGet_run, ok_bind, hg, unboundDeref]
    split_ifs <;> rfl
  unfold loadName
  simp only [hop, hs]
  rw [StateT.run_bind, slotCell_some_run hc, ok_bind]
  dsimp only
  rcases hl with hl | hl
  · have : (f.code.typ == BlockType.cls) = false := by
      cases ht : f.code.typ <;> simp_all
    simp only [this, Bool.false_eq_true, if_false]
    exact hcont
  · simp only [hl, Option.bind_none]
    cases (f.code.typ == BlockType.cls) <;> exact hcont

example : opFamily exF.code.typ (getScope exF.code "x") = .deref ∧
    derefSlot exF.code "x" = some 1 ∧ exF.cellAndFree[1]? = some 2 ∧
    (exF.code.typ ≠ .cls ∨ exF.locals = none) ∧ exM2.cells[2]? = some none :=
  ⟨rfl, rfl, rfl, Or.inr rfl, rfl⟩
example : (loadName exF "x").run exM2 = .error (.unboundLocal, exM2) := rfl
example : (loadName exF2 "x").run exM2 = .error (.nameError, exM2) := rfl

theorem storeName_deref_run {f : Frame} {n : Name} {s c : Nat} (v : Val) (m : MState)
    (hop : opFamily f.code.typ (getScope f.code n) = .deref)
    (hs : derefSlot f.code n = some s) (hc : f.cellAndFree[s]? = some c) :
    (storeName f n v).run m = .ok (f, { m with cells := m.cells.set c (some v) }) := by
  unfold storeName
  simp only [hop, hs]
  rw [StateT.run_bind, slotCell_some_run hc, ok_bind]
  dsimp only
  rw [StateT.run_bind, cellSet_run, ok_bind, run_pure]

example : (storeName exF1 "x" (.int 9)).run exM2 = .ok (exF1, exM3) := rfl

theorem delName_deref_run {f : Frame} {n : Name} {s c : Nat} {w : Val} {m : MState}
    (hop : opFamily f.code.typ (getScope f.code n) = .deref)
    (hs : derefSlot f.code n = some s) (hc : f.cellAndFree[s]? = some c)
    (hv : m.cells[c]? = some (some w)) :
    (delName f n).run m = .ok (f, { m with cells := m.cells.set c none }) := by
  have hg : m.cells.getD c none = some w := by
    rw [List.getD_eq_getElem?_getD, hv]; rfl
  unfold delName
  simp only [hop, hs]
  rw [StateT.run_bind, slotCell_some_run hc, ok_bind]
  dsimp only
  rw [StateT.run_bind, cellGet_run, ok_bind, hg]
  dsimp only
  rw [StateT.run_bind, cellSet_run, ok_bind, run_pure]

example : (delName exF1 "x").run exM3 = .ok (exF1, exM2) := rfl

theorem opFamily_deref_of_free (typ : BlockType) : opFamily typ .free = .deref := rfl
theorem opFamily_deref_of_cell (typ : BlockType) : opFamily typ .cell = .deref := rfl


/-! ### a frame's name bound to a cell -/

/-- "in frame `fr` the name `x` is accessed with the DEREF opcodes, through slot `s` of
`CellAndFreeVars`, and that slot holds cell `c`" (and the access is not a `LOAD_CLASSDEREF` that a
class body's `Locals` could intercept) -/
structure HoldsCell (fr : Frame) (x : Name) (s c : Nat) : Prop where
  op : opFamily fr.code.typ (getScope fr.code x) = .deref
  slot : derefSlot fr.code x = some s
  cell : fr.cellAndFree[s]? = some c
  noClassLocals : fr.code.typ ≠ .cls ∨ fr.locals = none

theorem exH : HoldsCell exF "x" 1 2 := ⟨rfl, rfl, rfl, Or.inr rfl⟩
theorem exH1 : HoldsCell exF1 "x" 0 2 := ⟨rfl, rfl, rfl, Or.inr rfl⟩
theorem exH2 : HoldsCell exF2 "x" 2 2 := ⟨rfl, rfl, rfl, Or.inr rfl⟩

theorem HoldsCell.slotCell_run {fr : Frame} {x : Name} {s c : Nat} (h : HoldsCell fr x s c)
    (m : MState) : (slotCell fr (derefSlot fr.code x)).run m = .ok ((s, c), m) := by
  rw [h.slot]; exact slotCell_some_run h.cell m

theorem HoldsCell.store {fr : Frame} {x : Name} {s c : Nat} (h : HoldsCell fr x s c)
    (v : Val) (m : MState) :
    (storeName fr x v).run m = .ok (fr, { m with cells := m.cells.set c (some v) }) :=
  storeName_deref_run v m h.op h.slot h.cell

theorem HoldsCell.load {fr : Frame} {x : Name} {s c : Nat} (h : HoldsCell fr x s c)
    {v : Val} {m : MState} (hv : m.cells[c]? = some (some v)) :
    (loadName fr x).run m = .ok (v, m) :=
  loadName_deref_run h.op h.slot h.cell h.noClassLocals hv

theorem HoldsCell.load_unbound {fr : Frame} {x : Name} {s c : Nat} (h : HoldsCell fr x s c)
    {m : MState} (hv : m.cells[c]? = some none) :
    (loadName fr x).run m =
      .error (if s < fr.code.cellvars.length then .unboundLocal else .nameError, m) :=
  loadName_deref_unbound h.op h.slot h.cell h.noClassLocals hv

theorem HoldsCell.del {fr : Frame} {x : Name} {s c : Nat} (h : HoldsCell fr x s c)
    {w : Val} {m : MState} (hv : m.cells[c]? = some (some w)) :
    (delName fr x).run m = .ok (fr, { m with cells := m.cells.set c none }) :=
  delName_deref_run h.op h.slot h.cell hv

/-- two frames that hold the same cell for `x`: what one stores the other loads -/
theorem HoldsCell.store_then_load {fa fb : Frame} {x : Name} {sa sb c : Nat}
    (ha : HoldsCell fa x sa c) (hb : HoldsCell fb x sb c) (v : Val) {m : MState}
    (hc : c < m.cells.length) :
    (do let _ ← storeName fa x v; loadName fb x).run m =
      .ok (v, { m with cells := m.cells.set c (some v) }) := by
  rw [StateT.run_bind, ha.store v m, ok_bind]
  exact hb.load (by simp [hc])

example : (do let _ ← storeName exF1 "x" (.int 9); loadName exF2 "x").run exM2 = .ok (.int 9, exM3) :=
  exH1.store_then_load exH2 (.int 9) (m := exM2) (by decide)

/-- ... and what one deletes is unbound for the other -/
theorem HoldsCell.del_then_load {fa fb : Frame} {x : Name} {sa sb c : Nat}
    (ha : HoldsCell fa x sa c) (hb : HoldsCell fb x sb c) {w : Val} {m : MState}
    (hv : m.cells[c]? = some (some w)) :
    (do let _ ← delName fa x; loadName fb x).run m =
      .error (if sb < fb.code.cellvars.length then .unboundLocal else .nameError,
              { m with cells := m.cells.set c none }) := by
  have hc : c < m.cells.length := by
    rcases Nat.lt_or_ge c m.cells.length with h | h
    · exact h
    · rw [List.getElem?_eq_none h] at hv; cases hv
  rw [StateT.run_bind, ha.del hv, ok_bind]
  exact hb.load_unbound (by simp [hc])

example : (do let _ ← delName exF1 "x"; loadName exF2 "x").run exM3 = .error (.nameError, exM2) :=
  exH1.del_then_load exH2 (w := .int 9) (m := exM3) rfl

/-- the parent activation holds `c` for its cell/free variable `x` -/
theorem parent_holdsCell {f : Frame} {x : Name} {s c : Nat}
    (hty : f.code.typ ≠ .cls)
    (hsc : getScope f.code x = .cell ∨ getScope f.code x = .free)
    (hds : derefSlot f.code x = some s) (hcell : f.cellAndFree[s]? = some c) :
    HoldsCell f x s c :=
  ⟨by rcases hsc with h | h <;> rw [h] <;> rfl, hds, hcell, Or.inl hty⟩

example : HoldsCell exF "x" 1 2 :=
  parent_holdsCell (f := exF) (x := "x") (by decide) (Or.inl (by decide)) rfl rfl
/-- the free-variable case: `g2`'s frame as the parent of a further nested function using `w` -/
example : HoldsCell exF2 "w" 1 1 :=
  parent_holdsCell (f := exF2) (x := "w") (by decide) (Or.inr (by decide)) rfl rfl

/-- ... and `makeClosure` will hand out exactly that slot for `x` -/
theorem parent_closureSlot {f : Frame} {x : Name} {s : Nat}
    (hty : f.code.typ ≠ .cls)
    (hsc : getScope f.code x = .cell ∨ getScope f.code x = .free)
    (hds : derefSlot f.code x = some s) : closureSlot f.code x = some s := by
  rw [← hds]
  apply closureSlot_eq_derefSlot
  rcases hsc with h | h
  · exact Or.inl h
  · refine Or.inr ⟨h, ?_, fun hh => hty hh.1⟩
    intro hn
    simp [derefSlot, h, hn] at hds

example : closureSlot exF.code "x" = some 1 :=
  parent_closureSlot (f := exF) (x := "x") (by decide) (Or.inl (by decide)) rfl

/-- a function entered with a closure built by `makeClosure f` holds, for its free variable `x`,
the very cell the defining frame `f` has in `x`'s closure slot -/
theorem child_holdsCell {f : Frame} {x : Name} {s c : Nat} {ch : Code} {j : Nat}
    (hcs : closureSlot f.code x = some s) (hcell : f.cellAndFree[s]? = some c)
    (hsc : getScope ch x = .free) (hj : findId x ch.freevars = some j)
    {args : List (Name × Val)} {cl : List Nat} {fr : Frame} {ma ma' mb mb' : MState}
    (hm : (makeClosure f ch).run ma = .ok (cl, ma'))
    (he : (enterFunction ch args cl).run mb = .ok (fr, mb')) :
    HoldsCell fr x (j + ch.cellvars.length) c := by
  obtain ⟨hcode, hloc, _⟩ := enterFunction_spec he
  obtain ⟨s', c', hs', hc', hcl⟩ := makeClosure_get hm (vm_findId_get hj)
  rw [hcs] at hs'
  cases hs'
  rw [hcell] at hc'
  cases hc'
  refine ⟨?_, ?_, ?_, Or.inr hloc⟩
  · rw [hcode, hsc]; rfl
  · rw [hcode]; simp [derefSlot, hsc, hj]
  · rw [enterFunction_free_slot he j, hcl]


example : HoldsCell exF2 "x" (1 + exC2.cellvars.length) 2 :=
  child_holdsCell (f := exF) (x := "x") (s := 1) (c := 2) (ch := exC2) (j := 1) rfl rfl
    (by decide) (by decide) (args := [("y", .int 5)]) (cl := [1, 2]) (fr := exF2)
    (ma := exM0) (ma' := exM0) (mb := exM1) (mb' := exM2) rfl rfl

/-! ### `closure_shares_cell_aux` -/

/-- **closure_shares_cell_aux.**  Let `f` be the activation of a (non-class) block in which `x` is a
cell variable or a free variable, `s` its DEREF slot and `c` the cell in that slot.  Let `c1`, `c2` be
the code objects of two nested functions that both have `x` as a free variable (`nonlocal x` or a
plain use).  Build a closure for each with `makeClosure f` and enter each function with its closure
(`enterFunction` = `EvalCode`'s frame set-up) — in ANY four machine states (so in particular
threaded one after the other, possibly with other code running in between, and for every later call
of the same function object).  Then

* (a) the DEREF operand of `x` in each child frame resolves to the SAME cell `c` that the parent
  holds (`slotCell`, the common prefix of LOAD/STORE/DELETE_DEREF, succeeds and says so);
* (b) for every value `v` and every state `m` in which cell `c` exists: `x = v` executed by the
  parent, by child 1 or by child 2 (`nonlocal x; x = v`) leads to one and the same state `m'`,
  which differs from `m` in cell `c` only, and in `m'` the parent and both children read `v` for `x`
  without changing the state;
* (c) `del x` executed by one child in a state where `x` is bound unbinds it for everybody: the
  sibling's and the child's own `LOAD_DEREF` raise `NameError` (free variable), the parent's raises
  `UnboundLocalError` if `x` is its cell variable and `NameError` if it is its free variable.

Out of scope: a CLASS body as the parent (`f.code.typ = .cls`): its loads go through `LOAD_CLASSDEREF`,
which consults the class `Locals` first, so the parent's own reads need not see the cell; the
statements about the two children do not depend on `hty` beyond `closureSlot = derefSlot`
(see `child_holdsCell`, which only needs `closureSlot f.code x = some s`). -/
theorem closure_shares_cell_aux
    {f : Frame} {x : Name} {s c : Nat}
    (hty : f.code.typ ≠ .cls)
    (hsc : getScope f.code x = .cell ∨ getScope f.code x = .free)
    (hds : derefSlot f.code x = some s) (hcell : f.cellAndFree[s]? = some c)
    {c1 c2 : Code} {j1 j2 : Nat}
    (hs1 : getScope c1 x = .free) (hj1 : findId x c1.freevars = some j1)
    (hs2 : getScope c2 x = .free) (hj2 : findId x c2.freevars = some j2)
    {args1 args2 : List (Name × Val)} {cl1 cl2 : List Nat} {f1 f2 : Frame}
    {ma ma' mb mb' mc mc' md md' : MState}
    (hm1 : (makeClosure f c1).run ma = .ok (cl1, ma'))
    (he1 : (enterFunction c1 args1 cl1).run mb = .ok (f1, mb'))
    (hm2 : (makeClosure f c2).run mc = .ok (cl2, mc'))
    (he2 : (enterFunction c2 args2 cl2).run md = .ok (f2, md')) :
    -- (a) one cell
    (∀ m : MState,
      (slotCell f (derefSlot f.code x)).run m = .ok ((s, c), m) ∧
      (slotCell f1 (derefSlot f1.code x)).run m = .ok ((j1 + c1.cellvars.length, c), m) ∧
      (slotCell f2 (derefSlot f2.code x)).run m = .ok ((j2 + c2.cellvars.length, c), m)) ∧
    (f1.code = c1 ∧ f2.code = c2) ∧
    -- (b) a rebinding by anybody is seen by everybody
    (∀ (v : Val) (m : MState), c < m.cells.length →
      let m' : MState := { m with cells := m.cells.set c (some v) }
      ((storeName f x v).run m = .ok (f, m') ∧
       (storeName f1 x v).run m = .ok (f1, m') ∧
       (storeName f2 x v).run m = .ok (f2, m')) ∧
      ((loadName f x).run m' = .ok (v, m') ∧
       (loadName f1 x).run m' = .ok (v, m') ∧
       (loadName f2 x).run m' = .ok (v, m'))) ∧
    -- (c) an unbinding by a child is seen by everybody
    (∀ (w : Val) (m : MState), m.cells[c]? = some (some w) →
      let m' : MState := { m with cells := m.cells.set c none }
      (delName f1 x).run m = .ok (f1, m') ∧
      (loadName f2 x).run m' = .error (.nameError, m') ∧
      (loadName f1 x).run m' = .error (.nameError, m') ∧
      (loadName f x).run m' =
        .error (if s < f.code.cellvars.length then .unboundLocal else .nameError, m')) := by
  have hP : HoldsCell f x s c := parent_holdsCell hty hsc hds hcell
  have hcs := parent_closureSlot hty hsc hds
  have h1 : HoldsCell f1 x (j1 + c1.cellvars.length) c := child_holdsCell hcs hcell hs1 hj1 hm1 he1
  have h2 : HoldsCell f2 x (j2 + c2.cellvars.length) c := child_holdsCell hcs hcell hs2 hj2 hm2 he2
  have hc1 : f1.code = c1 := (enterFunction_spec he1).1
  have hc2 : f2.code = c2 := (enterFunction_spec he2).1
  refine ⟨fun m => ⟨hP.slotCell_run m, h1.slotCell_run m, h2.slotCell_run m⟩, ⟨hc1, hc2⟩, ?_, ?_⟩
  · intro v m hc
    have hv : ({ m with cells := m.cells.set c (some v) } : MState).cells[c]? = some (some v) := by
      simp [hc]
    exact ⟨⟨hP.store v m, h1.store v m, h2.store v m⟩, hP.load hv, h1.load hv, h2.load hv⟩
  · intro w m hw
    have hc : c < m.cells.length := by
      rcases Nat.lt_or_ge c m.cells.length with h | h
      · exact h
      · rw [List.getElem?_eq_none h] at hw; cases hw
    have hv : ({ m with cells := m.cells.set c none } : MState).cells[c]? = some none := by
      simp [hc]
    have e1 := h1.load_unbound hv
    have e2 := h2.load_unbound hv
    rw [hc1, if_neg (by omega)] at e1
    rw [hc2, if_neg (by omega)] at e2
    exact ⟨h1.del hw, e2, e1, hP.load_unbound hv⟩


/-- non-vacuity of `closure_shares_cell_aux`: all its hypotheses hold for the witnesses `exF` (parent,
`x` a cell variable in slot 1 = cell 2), `exC1`/`exF1` (no cells of its own, `x` is free variable 0)
and `exC2`/`exF2` (one own cell, `x` is free variable 1), the four runs being threaded
`exM1 → exM1 → exM1 → exM1 → exM2`. -/
example :=
  closure_shares_cell_aux (f := exF) (x := "x") (s := 1) (c := 2)
    (by decide) (Or.inl (by decide)) rfl rfl
    (c1 := exC1) (c2 := exC2) (j1 := 0) (j2 := 1) (by decide) (by decide) (by decide) (by decide)
    (args1 := []) (args2 := [("y", .int 5)]) (cl1 := [2]) (cl2 := [1, 2]) (f1 := exF1) (f2 := exF2)
    (ma := exM1) (ma' := exM1) (mb := exM1) (mb' := exM1) (mc := exM1) (mc' := exM1)
    (md := exM1) (md' := exM2) rfl rfl rfl rfl

/-- ... and its conclusion (b) at the witnesses, checked by evaluation as well -/
example : (storeName exF1 "x" (.int 9)).run exM2 = .ok (exF1, exM3) ∧
    (loadName exF2 "x").run exM3 = .ok (.int 9, exM3) ∧
    (loadName exF "x").run exM3 = .ok (.int 9, exM3) := ⟨rfl, rfl, rfl⟩

/-! ### the same, as one program -/

/-- `makeClosure` succeeds (in every state, with the same tuple) as soon as every free variable of
the child has a slot in the defining frame -/
theorem mapM_closStep_total {f : Frame} : ∀ (l : List Name),
    (∀ n ∈ l, ∃ s c, closureSlot f.code n = some s ∧ f.cellAndFree[s]? = some c) →
    ∃ cl : List Nat, ∀ m : MState, (l.mapM (closStep f)).run m = .ok (cl, m)
  | [], _ => ⟨[], fun m => by rw [List.mapM_nil]; rfl⟩
  | a :: l, h => by
    obtain ⟨s, c, hs, hc⟩ := h a (by simp)
    obtain ⟨cl, hcl⟩ := mapM_closStep_total l (fun n hn => h n (by simp [hn]))
    refine ⟨c :: cl, fun m => ?_⟩
    rw [List.mapM_cons, StateT.run_bind, closStep_run_of hs hc, ok_bind]
    dsimp only
    rw [StateT.run_bind, hcl, ok_bind, run_pure]

example : ∀ n ∈ exC2.freevars, ∃ s c, closureSlot exF.code n = some s ∧ exF.cellAndFree[s]? = some c := by
  intro n hn
  simp only [exC2, List.mem_cons, List.not_mem_nil, or_false] at hn
  rcases hn with rfl | rfl
  · exact ⟨0, 1, rfl, rfl⟩
  · exact ⟨1, 2, rfl, rfl⟩

theorem makeClosure_total {f : Frame} {child : Code}
    (h : ∀ n ∈ child.freevars, ∃ s c, closureSlot f.code n = some s ∧ f.cellAndFree[s]? = some c) :
    ∃ cl : List Nat, ∀ m : MState, (makeClosure f child).run m = .ok (cl, m) := by
  rw [makeClosure_eq]; exact mapM_closStep_total _ h

/-- `def g1(): nonlocal x; x = v` and `def g2(): return x` defined in one activation `f`
(hypotheses on `f`, `x`, `c1`, `c2` as in `closure_shares_cell_aux`; `hok1`/`hok2`: every free variable of
the children is available in `f`, i.e. `makeClosure` does not panic).  The program "build closure 1,
enter `g1`, build closure 2, enter `g2`, `g1` rebinds `x`, then `g2`, `f` and `g1` read `x`" succeeds, all
three reads give `v`, and the final state differs from the initial one only by cell `c` and the
fresh cells of the two calls. -/
theorem closure_shares_cell_run_aux
    {f : Frame} {x : Name} {s c : Nat}
    (hty : f.code.typ ≠ .cls)
    (hsc : getScope f.code x = .cell ∨ getScope f.code x = .free)
    (hds : derefSlot f.code x = some s) (hcell : f.cellAndFree[s]? = some c)
    {c1 c2 : Code} {j1 j2 : Nat}
    (hs1 : getScope c1 x = .free) (hj1 : findId x c1.freevars = some j1)
    (hs2 : getScope c2 x = .free) (hj2 : findId x c2.freevars = some j2)
    (hok1 : ∀ n ∈ c1.freevars, ∃ s c, closureSlot f.code n = some s ∧ f.cellAndFree[s]? = some c)
    (hok2 : ∀ n ∈ c2.freevars, ∃ s c, closureSlot f.code n = some s ∧ f.cellAndFree[s]? = some c)
    (args1 args2 : List (Name × Val)) (v : Val) {m0 : MState} (hc : c < m0.cells.length) :
    ∃ m' : MState,
      m'.cells[c]? = some (some v) ∧
      (∀ i, i < m0.cells.length → i ≠ c → m'.cells[i]? = m0.cells[i]?) ∧
      m'.cells.length = m0.cells.length + c1.cellvars.length + c2.cellvars.length ∧
      m'.globals = m0.globals ∧ m'.out = m0.out ∧
      (do let cl1 ← makeClosure f c1
          let f1 ← enterFunction c1 args1 cl1
          let cl2 ← makeClosure f c2
          let f2 ← enterFunction c2 args2 cl2
          let _ ← storeName f1 x v
          let a ← loadName f2 x
          let b ← loadName f x
          let d ← loadName f1 x
          pure (a, b, d)).run m0 = .ok ((v, v, v), m') := by
  obtain ⟨cl1, hcl1⟩ := makeClosure_total hok1
  obtain ⟨cl2, hcl2⟩ := makeClosure_total hok2
  obtain ⟨fast1, ext1, hlen1, hrun1⟩ := enterFunction_run c1 args1 cl1 m0
  obtain ⟨fast2, ext2, hlen2, hrun2⟩ := enterFunction_run c2 args2 cl2
    { m0 with cells := m0.cells ++ ext1 }
  have hP : HoldsCell f x s c := parent_holdsCell hty hsc hds hcell
  have hcs := parent_closureSlot hty hsc hds
  have h1 := child_holdsCell hcs hcell hs1 hj1 (hcl1 m0) hrun1
  have h2 := child_holdsCell hcs hcell hs2 hj2 (hcl2 m0) hrun2
  have hc' : c < (m0.cells ++ ext1 ++ ext2).length := by
    simp only [List.length_append]; omega
  have hv : ({ m0 with cells := (m0.cells ++ ext1 ++ ext2).set c (some v) } : MState).cells[c]?
      = some (some v) := by
    show ((m0.cells ++ ext1 ++ ext2).set c (some v))[c]? = _
    rw [List.getElem?_set_self hc']
  refine ⟨{ m0 with cells := (m0.cells ++ ext1 ++ ext2).set c (some v) }, hv, ?_, ?_, rfl, rfl, ?_⟩
  · intro i hi hne
    simp only [List.getElem?_set, if_neg (Ne.symm hne)]
    rw [List.getElem?_append_left (by simp; omega), List.getElem?_append_left hi]
  · simp only [List.length_set, List.length_append, hlen1, hlen2]
  · rw [StateT.run_bind, hcl1, ok_bind]
    dsimp only
    rw [StateT.run_bind, hrun1, ok_bind]
    dsimp only
    rw [StateT.run_bind, hcl2, ok_bind]
    dsimp only
    rw [StateT.run_bind, hrun2, ok_bind]
    dsimp only
    rw [StateT.run_bind, h1.store, ok_bind]
    dsimp only
    rw [StateT.run_bind, h2.load hv, ok_bind]
    dsimp only
    rw [StateT.run_bind, hP.load hv, ok_bind]
    dsimp only
    rw [StateT.run_bind, h1.load hv, ok_bind]
    rfl


theorem exOk1 : ∀ n ∈ exC1.freevars, ∃ s c, closureSlot exF.code n = some s ∧ exF.cellAndFree[s]? = some c := by
  intro n hn
  simp only [exC1, List.mem_cons, List.not_mem_nil, or_false] at hn
  subst hn
  exact ⟨1, 2, rfl, rfl⟩

theorem exOk2 : ∀ n ∈ exC2.freevars, ∃ s c, closureSlot exF.code n = some s ∧ exF.cellAndFree[s]? = some c := by
  intro n hn
  simp only [exC2, List.mem_cons, List.not_mem_nil, or_false] at hn
  rcases hn with rfl | rfl
  · exact ⟨0, 1, rfl, rfl⟩
  · exact ⟨1, 2, rfl, rfl⟩

/-- non-vacuity of `closure_shares_cell_run_aux` -/
example :=
  closure_shares_cell_run_aux (f := exF) (x := "x") (s := 1) (c := 2)
    (by decide) (Or.inl (by decide)) rfl rfl
    (c1 := exC1) (c2 := exC2) (j1 := 0) (j2 := 1) (by decide) (by decide) (by decide) (by decide)
    exOk1 exOk2 [] [("y", .int 5)] (.int 9) (m0 := exM1) (by decide)

end GPy.C03
