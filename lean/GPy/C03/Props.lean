/-
C03 property theorems.  All quantify over ALL scope trees (`Body`: any nesting, any
number of blocks, operations and parameters, any names) and ALL iteration orders
(`Order`: an arbitrary re-ordering at every `range` over a Go map, per block and per
range site; `Order.Valid` only says that a range visits each key once).

Proved here:
* `analyze_perm`            – the symbol tables do not depend on map iteration order
* `analyze_perm_scope`      – corollary for the scope of every (block, name)
* `analyze_perm_error_may_differ_witness` – which error is reported may depend on it
* `analyze_spec_name_partial` – the decision `AnalyzeName` takes for one name is `resolve`'s
                              classification / the name-level rejection rules, given the
                              pass-1 flags and the `bound` set that mirror the source
* `analyze_spec`            – WHOLE TREE: for every program and every iteration order, gpython's two-pass
                              analysis rejects exactly the programs the specification rejects, and otherwise
                              every block's table classifies every name as the specification does
* `analyze_spec_rejects_iff`, `analyze_spec_scope` – corollaries
* `pass1_spec`              – invariant (i): pass 1 = the source facts, its errors = the textual rules
* `bound_copy_needed_witness` – without `temp_bound := bound.Copy()` (seeded change C03-a) the analysis
                              contradicts the specification on a concrete program
* `closure_shares_cell`, `closure_shares_cell_run` – VM: closures of one activation share one cell per variable
* `scope_is_classify`, `resolve_at_block`, `resolve_depends_on_chain_only`, `local_shadows_outer_global` (round 3) –
                              a nested block's names are classified from its own source facts and its chain of enclosing blocks only
* `analyzeName_is_table`, `analyzeName_decision_pinned`, `childBlock_copies_pinned`, `analyzeName_extracted_eq_model` –
                              regenerated tie: the decision sequence extracted from symtable.go = the table the model equals
* `nameop_*`                – NameOp's scope → opcode-family table
* `slots_wellformed`, `slots_in_frame`, `closure_slots_wellformed_partial`,
  `closure_slot_fallback_witness` – DEREF / LOAD_CLOSURE operands address the right cell
-/
import GPy.C03.ProofsSpec6
import GPy.C03.ProofsChain
import GPy.C03.ProofsVM
import GPy.C03.ANTable
import GPy.C03.Generated.AnalyzeNameFacts
namespace GPy.C03

/-! ## order independence -/

/-- **analyze_perm.**  For every program and any two iteration orders of Go's maps, the two
runs of `NewSymTable` either both fail (SyntaxError) or both succeed with IDENTICAL symbol
tables: same blocks, same symbols, same scope and def-use flags for every symbol, same
`Varnames`, same `NeedsClassClosure`. -/
theorem analyze_perm (σ σ' : Order) (hσ : σ.Valid) (hσ' : σ'.Valid) (b : Body) :
    match newSymTable σ b, newSymTable σ' b with
    | .ok t, .ok t' => t = t'
    | .error _, .error _ => True
    | _, _ => False := by
  have h := newSymTable_perm hσ hσ' b
  cases h1 : newSymTable σ b <;> cases h2 : newSymTable σ' b <;> simp_all [ExEq]

/-- the table of the block at `path` (child indices from the module) -/
def Forest.nth : Forest → Nat → Option (Ste × Forest)
  | .nil, _ => none
  | .node d kids _, 0 => some (d, kids)
  | .node _ _ sibs, i + 1 => sibs.nth i

def steAtAux : List Nat → Ste → Forest → Option Ste
  | [], d, _ => some d
  | i :: rest, _, kids => match kids.nth i with
    | some (d, kids') => steAtAux rest d kids'
    | none => none

def Forest.steAt : Forest → List Nat → Option Ste
  | .node d kids _, path => steAtAux path d kids
  | .nil, _ => none

def scopeAt (t : Forest) (path : List Nat) (n : Name) : Option Scope :=
  match t.steAt path with
  | some st => (st.syms n).map (·.scope)
  | none => none

/-- the scope of every name in every block is the same under every iteration order -/
theorem analyze_perm_scope (σ σ' : Order) (hσ : σ.Valid) (hσ' : σ'.Valid) (b : Body) (t t' : Forest)
    (h : newSymTable σ b = .ok t) (h' : newSymTable σ' b = .ok t') (path : List Nat) (n : Name) :
    scopeAt t path n = scopeAt t' path n := by
  have := analyze_perm σ σ' hσ hσ' b
  rw [h, h'] at this
  rw [this]

/-- and one order fails iff the other does -/
theorem analyze_perm_fails_iff (σ σ' : Order) (hσ : σ.Valid) (hσ' : σ'.Valid) (b : Body) :
    (∃ e, newSymTable σ b = .error e) ↔ (∃ e, newSymTable σ' b = .error e) := by
  have := analyze_perm σ σ' hσ hσ' b
  cases h : newSymTable σ b <;> cases h' : newSymTable σ' b <;> simp_all

/-- non-vacuity: reversing every range is a valid order different from the identity -/
def Order.reverse : Order := ⟨fun _ _ l => l.reverse⟩
theorem Order.reverse_valid : Order.reverse.Valid := fun _ _ l => List.reverse_perm l
example : Order.id.Valid := Order.id_valid

def errOf : Except Err Forest → Option Err | .error e => some e | .ok _ => none

/-- `def f1(x=0): global x; nonlocal y` has two errors -/
def twoErrors : Body := .child .func "f1" [{ name := "x" }] (.op (.glob "x") <| .op (.nonloc "y") .nil) .nil

/-- which of several errors is reported does depend on the iteration order (both are SyntaxErrors) -/
theorem analyze_perm_error_may_differ_witness :
    errOf (newSymTable Order.id twoErrors) = some .paramAndGlobal ∧
    errOf (newSymTable Order.reverse twoErrors) = some .noBindingNonlocal := by
  set_option maxRecDepth 100000 in decide

/-- test (not a theorem about all inputs): a closure program is accepted and `x` is a cell of `f1` -/
def closureProg : Body :=
  .child .func "f1" [] (.op (.bind "x" 1) <| .child .func "f2" [] (.op (.use "x") .nil) .nil) .nil
example : (match newSymTable Order.reverse closureProg with
    | .ok t => scopeAt t [0] "x" == some .cell && scopeAt t [0, 0] "x" == some .free
    | .error _ => false) = true := by
  set_option maxRecDepth 100000 in decide

/-! ## the analysis against the specification (one name) -/

/-- **analyze_spec, single-name core (partial).**  Let `b` be a block of the program (static
facts `SInfo`) enclosed by `chain`.  If the pass-1 flags `f` of a name `n` mention exactly
what the source says (global / nonlocal declaration, parameter, binding occurrence), and the
`bound` set handed to `AnalyzeName` contains `n` exactly when `visible chain n` (nil for the
module), then the decision of `AnalyzeName` is: reject iff one of the language's rules about
declared names is violated (parameter declared global/nonlocal, global and nonlocal, nonlocal
at module level or without an enclosing function binding), and otherwise the scope `resolve`
assigns (before cell conversion).

MISSING for the full `analyze_spec`: the two invariants assumed here are established by the
model for every block – (i) `parseBody`'s flags equal `events`-derived facts and its
use-before-declaration / duplicate-parameter errors equal `usedBeforeDecl` / `hasDup`,
(ii) `analyzeForest` passes `bound = visible chain`, and (iii) cells/free propagation equals
`classify`/`freeVars`.  They are checked on every generated program by the correspondence run
(model dump = spec dump), not proved. -/
theorem analyze_spec_name_partial (b : SInfo) (chain : List SInfo) (n : Name) (f : Flags) (g : Bool)
    (hg : f.glob = b.globs n) (hn : f.nonloc = b.nonlocs n) (hp : f.param = b.params.contains n)
    (hb : f.bound = b.binds n) (hm : b.mentions n = true) (s : AN)
    (hbound : s.bound.map (·.get n) = if b.isModule then none else some (visible chain n))
    (hglob : s.glob.get n = g) :
    (match AnalyzeName s n f with
     | .error _ => nameForbidden b chain n = true
     | .ok s' => nameForbidden b chain n = false ∧
         (match resolve b chain n with
          | some .local => s'.scopes.get n = .local
          | some .free => s'.scopes.get n = .free
          | some .globalExplicit => s'.scopes.get n = .globalExplicit
          | some .globalImplicit => s'.scopes.get n = .globalImplicit
          | _ => False)) := by
  have hpb : b.params.contains n = true → b.binds n = true := by
    intro h; simp only [SInfo.binds, h, Bool.true_or]
  have key := nameAct_resolve b chain n f g hg hn hp hb hm hpb
  rw [AnalyzeName_eq, hbound, hglob]
  cases hact : nameAct f (if b.isModule then none else some (visible chain n)) g <;>
    rw [hact] at key <;> simp only [NAct.cls] at key <;> simp only [applyAct]
  · -- error
    by_cases hf : nameForbidden b chain n = true
    · exact hf
    · simp only [hf] at key
      have : resolve b chain n ≠ none := by
        unfold resolve SInfo.mentions at *
        revert hm
        cases b.globs n <;> cases b.nonlocs n <;> cases b.binds n <;> cases b.uses n <;> simp
        all_goals split <;> simp
      exact absurd key.symm this
  all_goals
    by_cases hf : nameForbidden b chain n = true
    · simp [hf] at key
    · simp only [hf, Bool.false_eq_true, if_false] at key
      refine ⟨by simpa using hf, ?_⟩
      rw [← key]
      simp

/-- non-vacuity of the hypotheses: `x` assigned in a function nested in a function that binds `x` -/
example : let b : SInfo := { kind := some .func, params := [], evs := [.use "x"] }
    let outer : SInfo := { kind := some .func, params := ["x"], evs := [] }
    b.mentions "x" = true ∧ resolve b [outer] "x" = some .free := by decide

/-! ## NameOp: scope → opcode family -/

theorem nameop_deref_iff (t : BlockType) (s : Scope) : opFamily t s = .deref ↔ s = .free ∨ s = .cell := by
  cases t <;> cases s <;> simp [opFamily]

theorem nameop_fast_iff (t : BlockType) (s : Scope) : opFamily t s = .fast ↔ t = .function ∧ s = .local := by
  cases t <;> cases s <;> simp [opFamily]

theorem nameop_global_iff (t : BlockType) (s : Scope) :
    opFamily t s = .global ↔ s = .globalExplicit ∨ (t = .function ∧ s = .globalImplicit) := by
  cases t <;> cases s <;> simp [opFamily]

/-- class and module blocks never use FAST slots; their local and implicit-global names go
through the NAME family (namespace dictionary, then globals, then builtins) -/
theorem nameop_name_iff (t : BlockType) (s : Scope) :
    opFamily t s = .name ↔ s = .invalid ∨ (t ≠ .function ∧ (s = .local ∨ s = .globalImplicit)) := by
  cases t <;> cases s <;> simp [opFamily]

/-! ## slots -/

/-- **slots_wellformed.**  For every code object and name: the operand `NameOp` computes for a
`*_DEREF`/`LOAD_CLASSDEREF` access (`Index` in Cellvars, or in Freevars offset by
`len(Cellvars)`) is the slot that the VM's `_var_name` attributes to that same name. -/
theorem slots_wellformed (c : Code) (n : Name) (i : Nat) (h : derefSlot c n = some i) :
    varName c i = some n := derefSlot_varName h

/-- ... and it lies inside the frame's `CellAndFreeVars` array -/
theorem slots_in_frame (c : Code) (n : Name) (i : Nat) (h : derefSlot c n = some i) :
    i < c.cellvars.length + c.freevars.length := derefSlot_lt h

/-- `makeClosure`'s `LOAD_CLOSURE` operand addresses the child's free variable, PROVIDED the
name is among this block's Freevars (or was found among its Cellvars).  Excluded: the name is
in neither list – see the witness below. -/
theorem closure_slots_wellformed_partial (c : Code) (n : Name) (i : Nat) (h : closureSlot c n = some i)
    (hin : findId n c.freevars ≠ none ∨ findId n c.cellvars = some i) : varName c i = some n :=
  closureSlot_varName h hin

/-- outside that hypothesis `makeClosure`'s guard `arg < 0` does not fire when the block has
cell variables: `len(Cellvars) + (-1)` silently addresses the last cell.  (Latent: the analysis
always lists a child's free variable in the parent – that is part of the missing `analyze_spec`.) -/
theorem closure_slot_fallback_witness :
    let c : Code := { typ := .function, syms := ⟨fun n => if n = "z" then some { scope := .local } else none⟩,
                      params := [], cellvars := ["a"], freevars := [] }
    closureSlot c "z" = some 0 ∧ varName c 0 = some "a" := by decide


/-! ## the whole analysis against the specification -/

/-- **analyze_spec.**  For EVERY program (any nesting of module / def / lambda / class / comprehension
blocks, any placement of bind / use / global / nonlocal / del, any parameters, any names) and EVERY
iteration order of Go's maps, `symtable.NewSymTable` (model: pass 1 `parseModule`, pass 2 `analyzeTop`)
and the specification `specAnalyze` (Python's scoping rules, written from the language reference)

* either BOTH reject the program – the model with one of its ten SyntaxErrors, the specification
  because some block is `forbidden` (duplicate parameters, a parameter declared global/nonlocal, a name
  both global and nonlocal, nonlocal at module level or without a binding in an enclosing function,
  use/assignment before the declaration),
* or both accept it and the tables agree (`AgreeTop`): same tree of blocks (type, name); in every nested
  block every name of the program has a symbol iff the specification classifies it there, with the
  SAME scope (Local / Cell / Free / GlobalExplicit / GlobalImplicit – cell conversion and free-variable
  propagation through intermediate blocks included); at module level the same set of names.

The three invariants the first round left open are proved on the way (Proofs*.lean):
(i) `parseBody_spec` – pass-1 flags = the `events` facts of each block, pass-1 errors = `usedBeforeDecl`/`hasDup`;
(ii) `blockPre_child`/`forest_spec` – the `bound` set handed to each block is `visible chain`, and the
     parent's set is the same for every sibling (this is where `temp_bound := bound.Copy()` is used);
(iii) `blockPost_fun`/`blockPost_cls`/`forest_spec` – cells and propagated free variables = `classify`/`freeVars`.
"Every name of the program" = `namesOf b` (all names occurring anywhere in it, plus `__class__`, `.0`, `_[1]`). -/
theorem analyze_spec (σ : Order) (hσ : σ.Valid) (b : Body) :
    match newSymTable σ b, specAnalyze b with
    | .ok t, .ok s => AgreeTop (namesOf b) t s
    | .error _, .error _ => True
    | _, _ => False := newSymTable_spec hσ b

/-- the analysis rejects exactly the programs the language forbids -/
theorem analyze_spec_rejects_iff (σ : Order) (hσ : σ.Valid) (b : Body) :
    (∃ e, newSymTable σ b = .error e) ↔ (∃ e, specAnalyze b = .error e) := by
  have := analyze_spec σ hσ b
  cases h : newSymTable σ b <;> cases h' : specAnalyze b <;> simp_all

theorem agree_at (U : List Name) : ∀ (path : List Nat) (i : Nat) (kids : Forest) (skids : SForest), Agree U kids skids →
    ∀ (n : Name), n ∈ U →
    (match kids.nth i with
     | some (d, kids') => (match skids.nth i with
        | some (cls, skids') => steAtAux path d kids' = none ∨
            (∃ d', steAtAux path d kids' = some d' ∧ (d'.syms.get n).map (·.scope) = (clsAtAux path cls skids' n).map Cls.toScope)
        | none => False)
     | none => skids.nth i = none) := by
  intro path
  induction path with
  | nil =>
    intro i kids skids hag n hn
    induction i generalizing kids skids with
    | zero =>
      cases kids <;> cases skids <;> simp only [Agree] at hag <;> simp only [Forest.nth, SForest.nth]
      exact Or.inr ⟨_, rfl, hag.2.2.1 n hn⟩
    | succ i ih =>
      cases kids <;> cases skids <;> simp only [Agree] at hag <;> simp only [Forest.nth, SForest.nth]
      exact ih _ _ hag.2.2.2.2
  | cons j rest ihp =>
    intro i kids skids hag n hn
    induction i generalizing kids skids with
    | zero =>
      cases kids with
      | nil => cases skids <;> simp only [Agree] at hag <;> simp only [Forest.nth, SForest.nth]
      | node d k s =>
        cases skids with
        | nil => simp only [Agree] at hag
        | node kind nm cls sk ss =>
          simp only [Agree] at hag
          simp only [Forest.nth, SForest.nth, steAtAux, clsAtAux]
          have := ihp j k sk hag.2.2.2.1 n hn
          revert this
          cases k.nth j with
          | none => intro h; left; rfl
          | some r =>
            obtain ⟨d2, k2⟩ := r
            cases sk.nth j with
            | none => intro h; exact h.elim
            | some r2 => obtain ⟨c2, s2⟩ := r2; exact fun h => h
    | succ i ih =>
      cases kids <;> cases skids <;> simp only [Agree] at hag <;> simp only [Forest.nth, SForest.nth]
      exact ih _ _ hag.2.2.2.2

/-- corollary: wherever the analysis has a table (a nested block at `path = i :: rest`), the scope it
records for a name of the program is the specification's classification of that name there -/
theorem analyze_spec_scope (σ : Order) (hσ : σ.Valid) (b : Body) (t : Forest) (s : SForest)
    (ht : newSymTable σ b = .ok t) (hs : specAnalyze b = .ok s) (i : Nat) (rest : List Nat) (n : Name)
    (hn : n ∈ namesOf b) (d : Ste) (hd : t.steAt (i :: rest) = some d) :
    (d.syms.get n).map (·.scope) = (clsAt s (i :: rest) n).map Cls.toScope := by
  have h := analyze_spec σ hσ b
  rw [ht, hs] at h
  cases t with
  | nil => simp [Forest.steAt] at hd
  | node st kids sibs =>
    cases s with
    | nil => simp only [AgreeTop] at h
    | node kind nm cls skids ssibs =>
      cases sibs <;> cases kind <;> cases ssibs <;> simp only [AgreeTop] at h
      have key := agree_at (namesOf b) rest i kids skids h.2.2.2 n hn
      simp only [Forest.steAt, steAtAux] at hd
      simp only [clsAt, clsAtAux]
      cases hk : kids.nth i with
      | none => rw [hk] at hd; simp at hd
      | some r =>
        obtain ⟨d2, k2⟩ := r
        rw [hk] at hd key
        simp only [] at hd key
        cases hsk : skids.nth i with
        | none => rw [hsk] at key; exact key.elim
        | some r2 =>
          obtain ⟨c2, s2⟩ := r2
          rw [hsk] at key
          simp only [] at key ⊢
          rcases key with h' | ⟨d', h1, h2⟩
          · rw [h'] at hd; cases hd
          · rw [h1] at hd; cases hd; exact h2


/-! ## resolution depends only on the chain of enclosing scopes (round 3) -/

/-- the scope the analysis records for a name in a nested block is `classify` applied to the block's own
source facts `info` and to the chain `chain` of its enclosing blocks (`blockAt`: only the blocks ON the path
from the module contribute), for SOME set `cfv` of names captured by blocks nested in it -/
theorem scope_is_classify (σ : Order) (hσ : σ.Valid) (b : Body) (t : Forest) (ht : newSymTable σ b = .ok t)
    (i : Nat) (rest : List Nat) (n : Name) (hn : n ∈ namesOf b) (d : Ste) (hd : t.steAt (i :: rest) = some d)
    (info : SInfo) (chain : List SInfo) (hb : blockAt b (i :: rest) = some (info, chain)) :
    info.isModule = false ∧ ∃ cfv, (d.syms.get n).map (·.scope) = (classify info chain cfv n).map Cls.toScope := by
  have h := analyze_spec σ hσ b
  rw [ht] at h
  cases hs : specAnalyze b with
  | error e => rw [hs] at h; exact h.elim
  | ok s =>
    have h1 := analyze_spec_scope σ hσ b t s ht hs i rest n hn d hd
    obtain ⟨hm, cfv, hc⟩ := clsAt_classify b s hs i rest n info chain hb
    exact ⟨hm, cfv, by rw [h1, hc]⟩

/-- **resolve_at_block.**  For every program gpython accepts, every iteration order and every nested block: a name
the block declares `global`/`nonlocal` or merely reads gets exactly the scope `resolve info chain` names, where
`info` = the block's own source facts and `chain` = the source facts of the blocks that ENCLOSE it (innermost
first, the module last).  `resolve`/`visible` inspect nothing else: no sibling scope, no block nested elsewhere,
no module-level symbol flag.  (A name the block binds is Local or Cell; which of the two depends on the blocks
nested IN it, `scope_is_classify`.) -/
theorem resolve_at_block (σ : Order) (hσ : σ.Valid) (b : Body) (t : Forest) (ht : newSymTable σ b = .ok t)
    (i : Nat) (rest : List Nat) (n : Name) (hn : n ∈ namesOf b) (d : Ste) (hd : t.steAt (i :: rest) = some d)
    (info : SInfo) (chain : List SInfo) (hb : blockAt b (i :: rest) = some (info, chain))
    (c : Cls) (hres : resolve info chain n = some c) (hc : c ≠ .local) :
    (d.syms.get n).map (·.scope) = some c.toScope := by
  obtain ⟨_, cfv, h⟩ := scope_is_classify σ hσ b t ht i rest n hn d hd info chain hb
  rw [h]
  simp only [classify, hres]
  cases c <;> simp_all

/-- **resolve_depends_on_chain_only.**  Two programs `b`, `b'` (analysed under any iteration orders), a nested
block in each, whose own source facts and whose chains of enclosing blocks coincide (`blockAt … = (info, chain)` in
both; the programs may differ ARBITRARILY elsewhere: sibling scopes at every level, their `global`
declarations — which set DefGlobal on the module's symbol —, blocks nested in the siblings or in the block
itself): every name that occurs in the block and that the block does not itself bind (a read, a `global` or a
`nonlocal` declaration) gets the SAME scope in both analyses.  (Excluded by the hypotheses, deliberately: a name
the block binds is Local or Cell depending on the blocks nested IN it, and a name that does not occur in the
block has a symbol there only as a pass-through free variable of a block nested in it.) -/
theorem resolve_depends_on_chain_only (σ σ' : Order) (hσ : σ.Valid) (hσ' : σ'.Valid) (b b' : Body) (t t' : Forest)
    (ht : newSymTable σ b = .ok t) (ht' : newSymTable σ' b' = .ok t')
    (i i' : Nat) (rest rest' : List Nat) (n : Name) (hn : n ∈ namesOf b) (hn' : n ∈ namesOf b')
    (d d' : Ste) (hd : t.steAt (i :: rest) = some d) (hd' : t'.steAt (i' :: rest') = some d')
    (info : SInfo) (chain : List SInfo)
    (hb : blockAt b (i :: rest) = some (info, chain)) (hb' : blockAt b' (i' :: rest') = some (info, chain))
    (hment : info.mentions n = true) (hnb : info.binds n = false) :
    (d.syms.get n).map (·.scope) = (d'.syms.get n).map (·.scope) := by
  cases hr : resolve info chain n with
  | some c =>
    have hc : c ≠ .local := by
      intro hc; subst hc
      unfold resolve at hr
      rw [hnb] at hr
      cases hg : info.globs n <;> cases hnl : info.nonlocs n <;> cases hu : info.uses n <;>
        simp [hg, hnl, hu] at hr <;> (split at hr <;> cases hr)
    rw [resolve_at_block σ hσ b t ht i rest n hn d hd info chain hb c hr hc,
        resolve_at_block σ' hσ' b' t' ht' i' rest' n hn' d' hd' info chain hb' c hr hc]
  | none =>
    have := resolve_isSome info chain n
    rw [hr, hment] at this
    cases this

/-- **local_shadows_outer_global.**  A block that merely reads `n`, nested directly in a function (def, lambda or
comprehension) `g` that binds `n` as an ordinary local (assignment, parameter, `del`, nested def/class name; no
`global n`/`nonlocal n` in `g`): the read is a FREE variable (the cell of `g`), whatever the blocks `outer` that
enclose `g` declare — `global n` in an enclosing function, or, through `AddDef`'s DefGlobal mark on the module
symbol, in any unrelated function of the module — and whatever else the program contains. -/
theorem local_shadows_outer_global (σ : Order) (hσ : σ.Valid) (b : Body) (t : Forest) (ht : newSymTable σ b = .ok t)
    (i : Nat) (rest : List Nat) (n : Name) (hn : n ∈ namesOf b) (d : Ste) (hd : t.steAt (i :: rest) = some d)
    (info g : SInfo) (outer : List SInfo) (hb : blockAt b (i :: rest) = some (info, g :: outer))
    (hg : g.isFun = true) (hloc : g.isLocal n = true)
    (huse : info.uses n = true) (hnb : info.binds n = false) (hng : info.globs n = false) (hnn : info.nonlocs n = false) :
    (d.syms.get n).map (·.scope) = some .free := by
  obtain ⟨hm, _⟩ := scope_is_classify σ hσ b t ht i rest n hn d hd info (g :: outer) hb
  have hmod : g.isModule = false := by
    unfold SInfo.isFun at hg; unfold SInfo.isModule
    cases hk : g.kind <;> simp_all
  have hcls : g.isClass = false := by
    unfold SInfo.isFun at hg; unfold SInfo.isClass
    cases hk : g.kind with
    | none => simp_all
    | some k => cases k <;> simp_all
  have hgl : g.globs n = false := by
    unfold SInfo.isLocal at hloc
    cases h : g.globs n <;> simp_all
  have hvis : visible (g :: outer) n = true := by
    simp only [visible, hmod, hcls, hgl, hloc, if_true, Bool.false_eq_true, if_false]
  have hres : resolve info (g :: outer) n = some .free := by
    simp only [resolve, hng, hnn, hnb, huse, hm, hvis, Bool.false_eq_true, if_false, if_true, Bool.not_false, Bool.and_self]
  exact resolve_at_block σ hσ b t ht i rest n hn d hd info (g :: outer) hb .free hres (by decide)


/-- **pass1_spec** (invariant (i)).  `Parse` over any block body, started from any table `st`: it fails
iff a `global`/`nonlocal` statement names something the table already has as assigned or used
(`evBad`, which for a fresh function table is `usedBeforeDecl`) or some nested block is rejected by
pass 1 (`bad1`: duplicate parameters / the same textual rule); otherwise the table gains exactly the
def-use flags of the block's `events` (`Acc`), the nested tables hold exactly their blocks' source
facts (`Parsed`) and the names handed to the module table are those declared `global` anywhere below. -/
theorem pass1_spec (body : Body) (st : Ste) :
    match parseBody st body with
    | .error _ => evBad (seenOf st) (events body) = true ∨ bad1 body = true
    | .ok (st', kids, gs) => evBad (seenOf st) (events body) = false ∧ bad1 body = false ∧
        Acc st st' (events body) ∧ Parsed body kids ∧ GsOK gs body := by
  have := parseBody_spec body st
  cases h : parseBody st body with
  | error e => rw [h] at this; exact this
  | ok r => obtain ⟨a, b, c⟩ := r; rw [h] at this; exact this

/-- non-vacuity: the closure program is accepted by both sides -/
example : (match newSymTable Order.id closureProg, specAnalyze closureProg with
    | .ok _, .ok _ => true | _, _ => false) = true := by
  set_option maxRecDepth 100000 in decide

/-! ## the copy of `bound` in `AnalyzeChildBlock` is load-bearing (seeded change C03-a) -/

/-- `def g1(x=95):` / `  class C2: global x` / `  class C3: p(x)` -/
def seedC03a : Body :=
  .child .func "g1" [{ name := "x", val := 95 }]
    (.child .cls "C2" [] (.op (.glob "x") .nil) <| .child .cls "C3" [] (.op (.use "x") .nil) .nil) .nil

/-- the same with `nonlocal x` in the later sibling -/
def seedC03a' : Body :=
  .child .func "g1" [{ name := "x", val := 95 }]
    (.child .func "f2" [] (.op (.glob "x") .nil) <| .child .func "f3" [] (.op (.nonloc "x") .nil) .nil) .nil

def okScope (r : Except Err Forest) (path : List Nat) (n : Name) : Option Scope :=
  match r with | .ok t => scopeAt t path n | .error _ => none
def okCls (r : Except Unit SForest) (path : List Nat) (n : Name) : Option Cls :=
  match r with | .ok s => clsAt s path n | .error _ => none

/-- **bound_copy_needed_witness.**  `analyze_spec` is FALSE for the analysis without the line
`temp_bound := bound.Copy()` (`newSymTableNoCopy`: the child's `bound.Discard(x)` for its `global x`
lands in the parent's set): in `seedC03a` the later sibling's `x` is Free for gpython and for the
specification but GlobalImplicit without the copy, and `seedC03a'` (`nonlocal x` in the later
sibling) is accepted by gpython and the specification but rejected (`noBindingNonlocal`) without it. -/
theorem bound_copy_needed_witness :
    okScope (newSymTable Order.id seedC03a) [0, 1] "x" = some .free ∧
    okCls (specAnalyze seedC03a) [0, 1] "x" = some .free ∧
    okScope (newSymTableNoCopy Order.id seedC03a) [0, 1] "x" = some .globalImplicit ∧
    okScope (newSymTable Order.id seedC03a') [0, 1] "x" = some .free ∧
    okCls (specAnalyze seedC03a') [0, 1] "x" = some .free ∧
    errOf (newSymTableNoCopy Order.id seedC03a') = some .noBindingNonlocal := by
  set_option maxRecDepth 100000 in decide

/-- non-vacuity of `local_shadows_outer_global` / the shape of seeded change C03-c: `x = 1` / `def f1(): global x` /
`def f2(): x = 2` + `def f3(): p(x)`: an unrelated sibling declares `global x` (the module symbol becomes DefGlobal),
`f2` binds x locally, `f3` reads it: Free (and `blockAt` yields the chain `[f2, module]`, without `f1`) -/
def seedC03c : Body :=
  .op (.bind "x" 1) <| .child .func "f1" [] (.op (.glob "x") .nil) <|
  .child .func "f2" [] (.op (.bind "x" 2) <| .child .func "f3" [] (.op (.use "x") .nil) .nil) .nil

example : okScope (newSymTable Order.id seedC03c) [1, 0] "x" = some .free ∧
    okScope (newSymTable Order.id seedC03c) [1] "x" = some .cell ∧
    ((blockAt seedC03c [1, 0]).map fun r => (r.1.uses "x", r.2.length, (r.2.headD r.1).isLocal "x")) = some (true, 2, true) := by
  set_option maxRecDepth 100000 in decide

/-! ## regenerated tie: AnalyzeName's decision sequence (extract/symfacts → Generated/AnalyzeNameFacts.lean) -/

/-- **analyzeName_is_table.**  The model's `AnalyzeName` IS the interpretation of the decision table `anTree`
(order of the tests on DefGlobal / DefNonlocal / DefBound / `bound.Contains` / `global.Contains`, and per branch the
scope assigned, the `Add`/`Discard` on bound/local/free/global and the SyntaxError raised), for every state, name,
flag word and `st.Nested`. -/
theorem analyzeName_is_table (s : AN) (name : Name) (flags : Flags) (nested : Bool) :
    AnalyzeName s name flags = anTree.run ⟨name, flags, nested⟩ s := by
  obtain ⟨scopes, bound, loc, free, glob⟩ := s
  cases hgn : glob.get name <;>
  cases hg : flags.glob <;> cases hp : flags.param <;> cases hn : flags.nonloc <;> cases hb : flags.bound <;>
    cases nested <;> (cases bound with
      | none => simp [AnalyzeName, anTree, Prog.run, Prog.exec, Cond.eval, FlagId.test, setIsNil, setHas, setAdd, setDiscard, hg, hp, hn, hb, hgn]
      | some b => cases hbn : b.get name <;>
          simp [AnalyzeName, anTree, Prog.run, Prog.exec, Cond.eval, FlagId.test, setIsNil, setHas, setAdd, setDiscard, hg, hp, hn, hb, hgn, hbn])

/-- **analyzeName_decision_pinned.**  The decision sequence `extract/symfacts` reads off
`(*SymTable).AnalyzeName` of the working tree (go/ast; regenerated on every run) is, statement for statement,
the table the model is proved equal to.  A reordering of the tests, a dropped or added `Discard`/`Add`, another
scope constant, another error, or a construct the extractor does not know (`Act.unknown`, e.g. a `switch`)
breaks THIS obligation, whether or not a generated program distinguishes the two. -/
theorem analyzeName_decision_pinned : Generated.analyzeNameFacts = anTree := by decide

/-- **childBlock_copies_pinned.**  `AnalyzeChildBlock` copies `bound`, `free` and `global` (in this order) and hands
the three copies to `AnalyzeBlock` — the steps `analyzeForest` models at sites 11–13 (`cpBound = true`). -/
theorem childBlock_copies_pinned : Generated.childBlockCopies = modelCopies := by decide

/-- the code's AnalyzeName, as extracted, computes what the model computes (corollary of the two) -/
theorem analyzeName_extracted_eq_model (s : AN) (name : Name) (flags : Flags) (nested : Bool) :
    Generated.analyzeNameFacts.run ⟨name, flags, nested⟩ s = AnalyzeName s name flags := by
  rw [analyzeName_decision_pinned, analyzeName_is_table]

/-- the two halves of seeded change C03-c at table level: with the `global` test moved before the `bound` test AND
the `Discard` on `global` dropped from the DefBound branch, a name in both sets resolves GlobalImplicit, not Free -/
example : (anTree.run ⟨"x", DefUse, true⟩ { bound := some (NSet.empty.add "x"), free := NSet.empty, glob := NSet.empty.add "x" }).toOption.map
      (·.scopes "x") = some .free := by
  set_option maxRecDepth 100000 in decide

/-! ## closures share one cell per variable (VM model) -/

/-- **closure_shares_cell.**  In the VM model (`EvalCode`'s cell/free set-up, `makeClosure`,
`LOAD/STORE/DELETE_DEREF`): let `f` be an activation of a non-class block in which `x` is a cell or
free variable held in cell `c`; let two nested functions with free variable `x` be given closures by
`makeClosure f` and be entered (`enterFunction`) – in any machine states, any number of times.  Then
(a) both child frames resolve `x` to the SAME cell `c` the parent holds; (b) a rebinding of `x` by the
parent or by either child (`nonlocal x; x = v`) is one and the same state change, and afterwards the
parent and both children read `v`; (c) `del x` by a child unbinds it for everybody
(children: NameError, parent: UnboundLocalError if `x` is its own cell).
Out of scope: a class body as the PARENT frame (its reads go through LOAD_CLASSDEREF, which consults
the class namespace first). -/
theorem closure_shares_cell
    {f : Frame} {x : Name} {s c : Nat}
    (hty : f.code.typ ≠ .cls)
    (hsc : getScope f.code x = .cell ∨ getScope f.code x = .free)
    (hds : derefSlot f.code x = some s) (hcell : f.cellAndFree[s]? = some c)
    {c1 c2 : Code} {j1 j2 : Nat}
    (hs1 : getScope c1 x = .free) (hj1 : findId x c1.freevars = some j1)
    (hs2 : getScope c2 x = .free) (hj2 : findId x c2.freevars = some j2)
    {args1 args2 : List (Name × Val)} {cl1 cl2 : List Nat} {f1 f2 : Frame}
    {ma ma' mb mb' mc mc' md md' : MState}
    (hm1 : (makeClosure f c1).run ma = .ok (cl1, ma'))
    (he1 : (enterFunction c1 args1 cl1).run mb = .ok (f1, mb'))
    (hm2 : (makeClosure f c2).run mc = .ok (cl2, mc'))
    (he2 : (enterFunction c2 args2 cl2).run md = .ok (f2, md')) :
    (∀ m : MState,
      (slotCell f (derefSlot f.code x)).run m = .ok ((s, c), m) ∧
      (slotCell f1 (derefSlot f1.code x)).run m = .ok ((j1 + c1.cellvars.length, c), m) ∧
      (slotCell f2 (derefSlot f2.code x)).run m = .ok ((j2 + c2.cellvars.length, c), m)) ∧
    (f1.code = c1 ∧ f2.code = c2) ∧
    (∀ (v : Val) (m : MState), c < m.cells.length →
      let m' : MState := { m with cells := m.cells.set c (some v) }
      ((storeName f x v).run m = .ok (f, m') ∧
       (storeName f1 x v).run m = .ok (f1, m') ∧
       (storeName f2 x v).run m = .ok (f2, m')) ∧
      ((loadName f x).run m' = .ok (v, m') ∧
       (loadName f1 x).run m' = .ok (v, m') ∧
       (loadName f2 x).run m' = .ok (v, m'))) ∧
    (∀ (w : Val) (m : MState), m.cells[c]? = some (some w) →
      let m' : MState := { m with cells := m.cells.set c none }
      (delName f1 x).run m = .ok (f1, m') ∧
      (loadName f2 x).run m' = .error (.nameError, m') ∧
      (loadName f1 x).run m' = .error (.nameError, m') ∧
      (loadName f x).run m' =
        .error (if s < f.code.cellvars.length then .unboundLocal else .nameError, m')) :=
  closure_shares_cell_aux hty hsc hds hcell hs1 hj1 hs2 hj2 hm1 he1 hm2 he2

/-- non-vacuity of `closure_shares_cell` at concrete frames (parent with cell variables `w`, `x`;
one child without and one with a cell of its own) -/
example :=
  closure_shares_cell (f := exF) (x := "x") (s := 1) (c := 2)
    (by decide) (Or.inl (by decide)) rfl rfl
    (c1 := exC1) (c2 := exC2) (j1 := 0) (j2 := 1) (by decide) (by decide) (by decide) (by decide)
    (args1 := []) (args2 := [("y", .int 5)]) (cl1 := [2]) (cl2 := [1, 2]) (f1 := exF1) (f2 := exF2)
    (ma := exM1) (ma' := exM1) (mb := exM1) (mb' := exM1) (mc := exM1) (mc' := exM1)
    (md := exM1) (md' := exM2) rfl rfl rfl rfl

/-- **closure_shares_cell_run.**  The same as one program run in one state: build closure 1, enter
`g1`, build closure 2, enter `g2`, `g1` executes `nonlocal x; x = v`, then `g2`, the parent and `g1`
read `x`: all three get `v`; only cell `c` and the fresh cells of the two calls changed.
(`hok1`/`hok2`: every free variable of the children is available in `f`, which `analyze_spec`'s
free-variable propagation provides for analysed programs.) -/
theorem closure_shares_cell_run
    {f : Frame} {x : Name} {s c : Nat}
    (hty : f.code.typ ≠ .cls)
    (hsc : getScope f.code x = .cell ∨ getScope f.code x = .free)
    (hds : derefSlot f.code x = some s) (hcell : f.cellAndFree[s]? = some c)
    {c1 c2 : Code} {j1 j2 : Nat}
    (hs1 : getScope c1 x = .free) (hj1 : findId x c1.freevars = some j1)
    (hs2 : getScope c2 x = .free) (hj2 : findId x c2.freevars = some j2)
    (hok1 : ∀ n ∈ c1.freevars, ∃ s c, closureSlot f.code n = some s ∧ f.cellAndFree[s]? = some c)
    (hok2 : ∀ n ∈ c2.freevars, ∃ s c, closureSlot f.code n = some s ∧ f.cellAndFree[s]? = some c)
    (args1 args2 : List (Name × Val)) (v : Val) {m0 : MState} (hc : c < m0.cells.length) :
    ∃ m' : MState,
      m'.cells[c]? = some (some v) ∧
      (∀ i, i < m0.cells.length → i ≠ c → m'.cells[i]? = m0.cells[i]?) ∧
      m'.cells.length = m0.cells.length + c1.cellvars.length + c2.cellvars.length ∧
      m'.globals = m0.globals ∧ m'.out = m0.out ∧
      (do let cl1 ← makeClosure f c1
          let f1 ← enterFunction c1 args1 cl1
          let cl2 ← makeClosure f c2
          let f2 ← enterFunction c2 args2 cl2
          let _ ← storeName f1 x v
          let a ← loadName f2 x
          let b ← loadName f x
          let d ← loadName f1 x
          pure (a, b, d)).run m0 = .ok ((v, v, v), m') :=
  closure_shares_cell_run_aux hty hsc hds hcell hs1 hj1 hs2 hj2 hok1 hok2 args1 args2 v hc

example :=
  closure_shares_cell_run (f := exF) (x := "x") (s := 1) (c := 2)
    (by decide) (Or.inl (by decide)) rfl rfl
    (c1 := exC1) (c2 := exC2) (j1 := 0) (j2 := 1) (by decide) (by decide) (by decide) (by decide)
    exOk1 exOk2 [] [("y", .int 5)] (.int 9) (m0 := exM1) (by decide)

end GPy.C03
