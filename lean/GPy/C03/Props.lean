/-
C03 property theorems.  All quantify over ALL scope trees (`Body`: any nesting, any
number of blocks, operations and parameters, any names) and ALL iteration orders
(`Order`: an arbitrary re-ordering at every `range` over a Go map, per block and per
range site; `Order.Valid` only says that a range visits each key once).

Proved here:
* `analyze_perm`            – the symbol tables do not depend on map iteration order
* `analyze_perm_scope`      – corollary for the scope of every (block, name)
* `analyze_perm_error_may_differ_witness` – which error is reported may depend on it
* `analyze_spec_name_partial` – the decision `AnalyzeName` takes for one name is `resolve`'s
                              classification / the name-level rejection rules, given the
                              pass-1 flags and the `bound` set that mirror the source
* `nameop_*`                – NameOp's scope → opcode-family table
* `slots_wellformed`, `slots_in_frame`, `closure_slots_wellformed_partial`,
  `closure_slot_fallback_witness` – DEREF / LOAD_CLOSURE operands address the right cell
-/
import GPy.C03.Proofs
namespace GPy.C03

/-! ## order independence -/

/-- **analyze_perm.**  For every program and any two iteration orders of Go's maps, the two
runs of `NewSymTable` either both fail (SyntaxError) or both succeed with IDENTICAL symbol
tables: same blocks, same symbols, same scope and def-use flags for every symbol, same
`Varnames`, same `NeedsClassClosure`. -/
theorem analyze_perm (σ σ' : Order) (hσ : σ.Valid) (hσ' : σ'.Valid) (b : Body) :
    match newSymTable σ b, newSymTable σ' b with
    | .ok t, .ok t' => t = t'
    | .error _, .error _ => True
    | _, _ => False := by
  have h := newSymTable_perm hσ hσ' b
  cases h1 : newSymTable σ b <;> cases h2 : newSymTable σ' b <;> simp_all [ExEq]

/-- the table of the block at `path` (child indices from the module) -/
def Forest.nth : Forest → Nat → Option (Ste × Forest)
  | .nil, _ => none
  | .node d kids _, 0 => some (d, kids)
  | .node _ _ sibs, i + 1 => sibs.nth i

def steAtAux : List Nat → Ste → Forest → Option Ste
  | [], d, _ => some d
  | i :: rest, _, kids => match kids.nth i with
    | some (d, kids') => steAtAux rest d kids'
    | none => none

def Forest.steAt : Forest → List Nat → Option Ste
  | .node d kids _, path => steAtAux path d kids
  | .nil, _ => none

def scopeAt (t : Forest) (path : List Nat) (n : Name) : Option Scope :=
  match t.steAt path with
  | some st => (st.syms n).map (·.scope)
  | none => none

/-- the scope of every name in every block is the same under every iteration order -/
theorem analyze_perm_scope (σ σ' : Order) (hσ : σ.Valid) (hσ' : σ'.Valid) (b : Body) (t t' : Forest)
    (h : newSymTable σ b = .ok t) (h' : newSymTable σ' b = .ok t') (path : List Nat) (n : Name) :
    scopeAt t path n = scopeAt t' path n := by
  have := analyze_perm σ σ' hσ hσ' b
  rw [h, h'] at this
  rw [this]

/-- and one order fails iff the other does -/
theorem analyze_perm_fails_iff (σ σ' : Order) (hσ : σ.Valid) (hσ' : σ'.Valid) (b : Body) :
    (∃ e, newSymTable σ b = .error e) ↔ (∃ e, newSymTable σ' b = .error e) := by
  have := analyze_perm σ σ' hσ hσ' b
  cases h : newSymTable σ b <;> cases h' : newSymTable σ' b <;> simp_all

/-- non-vacuity: reversing every range is a valid order different from the identity -/
def Order.reverse : Order := ⟨fun _ _ l => l.reverse⟩
theorem Order.reverse_valid : Order.reverse.Valid := fun _ _ l => List.reverse_perm l
example : Order.id.Valid := Order.id_valid

def errOf : Except Err Forest → Option Err | .error e => some e | .ok _ => none

/-- `def f1(x=0): global x; nonlocal y` has two errors -/
def twoErrors : Body := .child .func "f1" [{ name := "x" }] (.op (.glob "x") <| .op (.nonloc "y") .nil) .nil

/-- which of several errors is reported does depend on the iteration order (both are SyntaxErrors) -/
theorem analyze_perm_error_may_differ_witness :
    errOf (newSymTable Order.id twoErrors) = some .paramAndGlobal ∧
    errOf (newSymTable Order.reverse twoErrors) = some .noBindingNonlocal := by
  set_option maxRecDepth 100000 in decide

/-- test (not a theorem about all inputs): a closure program is accepted and `x` is a cell of `f1` -/
def closureProg : Body :=
  .child .func "f1" [] (.op (.bind "x" 1) <| .child .func "f2" [] (.op (.use "x") .nil) .nil) .nil
example : (match newSymTable Order.reverse closureProg with
    | .ok t => scopeAt t [0] "x" == some .cell && scopeAt t [0, 0] "x" == some .free
    | .error _ => false) = true := by
  set_option maxRecDepth 100000 in decide

/-! ## the analysis against the specification (one name) -/

/-- **analyze_spec, single-name core (partial).**  Let `b` be a block of the program (static
facts `SInfo`) enclosed by `chain`.  If the pass-1 flags `f` of a name `n` mention exactly
what the source says (global / nonlocal declaration, parameter, binding occurrence), and the
`bound` set handed to `AnalyzeName` contains `n` exactly when `visible chain n` (nil for the
module), then the decision of `AnalyzeName` is: reject iff one of the language's rules about
declared names is violated (parameter declared global/nonlocal, global and nonlocal, nonlocal
at module level or without an enclosing function binding), and otherwise the scope `resolve`
assigns (before cell conversion).

MISSING for the full `analyze_spec`: the two invariants assumed here are established by the
model for every block – (i) `parseBody`'s flags equal `events`-derived facts and its
use-before-declaration / duplicate-parameter errors equal `usedBeforeDecl` / `hasDup`,
(ii) `analyzeForest` passes `bound = visible chain`, and (iii) cells/free propagation equals
`classify`/`freeVars`.  They are checked on every generated program by the correspondence run
(model dump = spec dump), not proved. -/
theorem analyze_spec_name_partial (b : SInfo) (chain : List SInfo) (n : Name) (f : Flags) (g : Bool)
    (hg : f.glob = b.globs n) (hn : f.nonloc = b.nonlocs n) (hp : f.param = b.params.contains n)
    (hb : f.bound = b.binds n) (hm : b.mentions n = true) (s : AN)
    (hbound : s.bound.map (·.get n) = if b.isModule then none else some (visible chain n))
    (hglob : s.glob.get n = g) :
    (match AnalyzeName s n f with
     | .error _ => nameForbidden b chain n = true
     | .ok s' => nameForbidden b chain n = false ∧
         (match resolve b chain n with
          | some .local => s'.scopes.get n = .local
          | some .free => s'.scopes.get n = .free
          | some .globalExplicit => s'.scopes.get n = .globalExplicit
          | some .globalImplicit => s'.scopes.get n = .globalImplicit
          | _ => False)) := by
  have hpb : b.params.contains n = true → b.binds n = true := by
    intro h; simp only [SInfo.binds, h, Bool.true_or]
  have key := nameAct_resolve b chain n f g hg hn hp hb hm hpb
  rw [AnalyzeName_eq, hbound, hglob]
  cases hact : nameAct f (if b.isModule then none else some (visible chain n)) g <;>
    rw [hact] at key <;> simp only [NAct.cls] at key <;> simp only [applyAct]
  · -- error
    by_cases hf : nameForbidden b chain n = true
    · exact hf
    · simp only [hf] at key
      have : resolve b chain n ≠ none := by
        unfold resolve SInfo.mentions at *
        revert hm
        cases b.globs n <;> cases b.nonlocs n <;> cases b.binds n <;> cases b.uses n <;> simp
        all_goals split <;> simp
      exact absurd key.symm this
  all_goals
    by_cases hf : nameForbidden b chain n = true
    · simp [hf] at key
    · simp only [hf, Bool.false_eq_true, if_false] at key
      refine ⟨by simpa using hf, ?_⟩
      rw [← key]
      simp

/-- non-vacuity of the hypotheses: `x` assigned in a function nested in a function that binds `x` -/
example : let b : SInfo := { kind := some .func, params := [], evs := [.use "x"] }
    let outer : SInfo := { kind := some .func, params := ["x"], evs := [] }
    b.mentions "x" = true ∧ resolve b [outer] "x" = some .free := by decide

/-! ## NameOp: scope → opcode family -/

theorem nameop_deref_iff (t : BlockType) (s : Scope) : opFamily t s = .deref ↔ s = .free ∨ s = .cell := by
  cases t <;> cases s <;> simp [opFamily]

theorem nameop_fast_iff (t : BlockType) (s : Scope) : opFamily t s = .fast ↔ t = .function ∧ s = .local := by
  cases t <;> cases s <;> simp [opFamily]

theorem nameop_global_iff (t : BlockType) (s : Scope) :
    opFamily t s = .global ↔ s = .globalExplicit ∨ (t = .function ∧ s = .globalImplicit) := by
  cases t <;> cases s <;> simp [opFamily]

/-- class and module blocks never use FAST slots; their local and implicit-global names go
through the NAME family (namespace dictionary, then globals, then builtins) -/
theorem nameop_name_iff (t : BlockType) (s : Scope) :
    opFamily t s = .name ↔ s = .invalid ∨ (t ≠ .function ∧ (s = .local ∨ s = .globalImplicit)) := by
  cases t <;> cases s <;> simp [opFamily]

/-! ## slots -/

/-- **slots_wellformed.**  For every code object and name: the operand `NameOp` computes for a
`*_DEREF`/`LOAD_CLASSDEREF` access (`Index` in Cellvars, or in Freevars offset by
`len(Cellvars)`) is the slot that the VM's `_var_name` attributes to that same name. -/
theorem slots_wellformed (c : Code) (n : Name) (i : Nat) (h : derefSlot c n = some i) :
    varName c i = some n := derefSlot_varName h

/-- ... and it lies inside the frame's `CellAndFreeVars` array -/
theorem slots_in_frame (c : Code) (n : Name) (i : Nat) (h : derefSlot c n = some i) :
    i < c.cellvars.length + c.freevars.length := derefSlot_lt h

/-- `makeClosure`'s `LOAD_CLOSURE` operand addresses the child's free variable, PROVIDED the
name is among this block's Freevars (or was found among its Cellvars).  Excluded: the name is
in neither list – see the witness below. -/
theorem closure_slots_wellformed_partial (c : Code) (n : Name) (i : Nat) (h : closureSlot c n = some i)
    (hin : findId n c.freevars ≠ none ∨ findId n c.cellvars = some i) : varName c i = some n :=
  closureSlot_varName h hin

/-- outside that hypothesis `makeClosure`'s guard `arg < 0` does not fire when the block has
cell variables: `len(Cellvars) + (-1)` silently addresses the last cell.  (Latent: the analysis
always lists a child's free variable in the parent – that is part of the missing `analyze_spec`.) -/
theorem closure_slot_fallback_witness :
    let c : Code := { typ := .function, syms := ⟨fun n => if n = "z" then some { scope := .local } else none⟩,
                      params := [], cellvars := ["a"], freevars := [] }
    closureSlot c "z" = some 0 ∧ varName c 0 = some "a" := by decide

end GPy.C03
