/-
C03 specification: Python's lexical scoping, written from the language reference
(Execution model §4.1 "Naming and binding", `global`/`nonlocal` statements §7.12–7.13,
class definitions §8.7), NOT from gpython's symtable.

* `resolve`/`visible`: which binding a name occurrence in a block denotes.
* `specAnalyze`: classification of every name of every block
  (Local / Cell / Free / GlobalExplicit / GlobalImplicit) and the rejected programs.
* `specRun`: run-time meaning – one storage location per local variable per function
  activation, shared by every closure created in that activation; class bodies have a
  namespace dictionary that nested functions do not see; defaults are evaluated once,
  when the `def` executes.
Core Lean only.
-/
import GPy.C03.Model
namespace GPy.C03

/-! ## static facts of one block, read off the source -/

/-- name events of a block in textual order -/
inductive Ev | bind (n : Name) | use (n : Name) | glob (n : Name) | nonloc (n : Name)
deriving DecidableEq, Repr

/-- the events of the block whose body is `b` (nested blocks contribute the binding of their
name, the uses in their default expressions and – for a `def` – the call that follows) -/
def events : Body → List Ev
  | .nil => []
  | .op (.bind n _) rest => .bind n :: events rest
  | .op (.del n) rest => .bind n :: events rest          -- a `del` target is a binding occurrence
  | .op (.use n) rest => .use n :: events rest
  | .op (.glob n) rest => .glob n :: events rest
  | .op (.nonloc n) rest => .nonloc n :: events rest
  | .child k name ps _ rest =>
    (if k == .func || k == .cls then [Ev.bind name] else []) ++
    (ps.filterMap fun p => p.dflt.map Ev.use) ++
    (if k == .func then [Ev.use name] else []) ++ events rest

structure SInfo where
  kind : Option Kind          -- none = the module
  params : List Name
  evs : List Ev
deriving Repr

def SInfo.isFun (b : SInfo) : Bool := b.kind == some .func || b.kind == some .lam || b.kind == some .comp
def SInfo.isClass (b : SInfo) : Bool := b.kind == some .cls
def SInfo.isModule (b : SInfo) : Bool := b.kind == none

def SInfo.binds (b : SInfo) (n : Name) : Bool := b.params.contains n || b.evs.contains (.bind n)
def SInfo.uses (b : SInfo) (n : Name) : Bool := b.evs.contains (.use n)
def SInfo.globs (b : SInfo) (n : Name) : Bool := b.evs.contains (.glob n)
def SInfo.nonlocs (b : SInfo) (n : Name) : Bool := b.evs.contains (.nonloc n)
def SInfo.mentions (b : SInfo) (n : Name) : Bool := b.binds n || b.uses n || b.globs n || b.nonlocs n

/-- `n` is a local variable of block `b`: bound there and not declared otherwise -/
def SInfo.isLocal (b : SInfo) (n : Name) : Bool := b.binds n && !b.globs n && !b.nonlocs n

/-- parameters (and, for a comprehension, the implicit iterator argument `.0`, the implicit
result variable `_[1]` and the target) of a nested block -/
def paramNames (k : Kind) (ps : List Param) : List Name :=
  match k with
  | .comp => [".0", "_[1]"] ++ ps.map (·.name)
  | .cls => []
  | _ => ps.map (·.name)

def infoOf (k : Kind) (ps : List Param) (body : Body) : SInfo :=
  { kind := some k, params := paramNames k ps, evs := events body }

/-- Is there a binding of `n` in an enclosing FUNCTION scope, looking outward through the
chain of enclosing blocks (innermost first)?  Class blocks are skipped – except that a class
block provides the implicit closure variable `__class__` to the functions nested in it
(data model, "Creating the class object"); a function that
declares `n` global hides outer bindings from the blocks nested in it (CPython's reading
of the one case the reference leaves open). -/
def visible : List SInfo → Name → Bool
  | [], _ => false
  | b :: rest, n =>
    if b.isModule then false
    else if b.isClass then n == "__class__" || visible rest n
    else if b.globs n then false
    else if b.isLocal n then true
    else visible rest n

inductive Cls | local | cell | free | globalExplicit | globalImplicit
deriving DecidableEq, Repr, Inhabited

/-- the binding a name mentioned in block `b` (enclosed by `chain`) denotes; `none`: not mentioned -/
def resolve (b : SInfo) (chain : List SInfo) (n : Name) : Option Cls :=
  if b.globs n then some .globalExplicit
  else if b.nonlocs n then some .free
  else if b.binds n then some .local
  else if b.uses n then
    (if !b.isModule && visible chain n then some .free else some .globalImplicit)
  else none

/-! ## the declarations the language forbids -/

/-- a use or assignment of `n` textually precedes a `global n` / `nonlocal n` -/
def usedBeforeDecl : List Ev → Bool
  | [] => false
  | .bind n :: rest => rest.contains (.glob n) || rest.contains (.nonloc n) || usedBeforeDecl rest
  | .use n :: rest => rest.contains (.glob n) || rest.contains (.nonloc n) || usedBeforeDecl rest
  | _ :: rest => usedBeforeDecl rest

def hasDup : List Name → Bool
  | [] => false
  | a :: l => l.contains a || hasDup l

def declaredNames (evs : List Ev) : List Name :=
  evs.filterMap fun e => match e with | .glob n => some n | .nonloc n => some n | _ => none

/-- the block violates one of the rules:
duplicate parameters (a comprehension has targets, not parameters: `[0 for t, t in s]` is legal);
a parameter declared global or nonlocal; a name both global and
nonlocal; `nonlocal` at module level or without a binding in an enclosing function;
use/assignment before the declaration -/
def forbidden (b : SInfo) (chain : List SInfo) : Bool :=
  (b.kind != some .comp && hasDup b.params)
  || usedBeforeDecl b.evs
  || (declaredNames b.evs).any (fun n =>
        b.params.contains n
        || (b.globs n && b.nonlocs n)
        || (b.nonlocs n && (b.isModule || !visible chain n)))

/-! ## classification of a whole program -/

/-- result: per block (same shape as the program) the class of every name it has a symbol for -/
inductive SForest
  | nil
  | node (kind : Option Kind) (name : String) (cls : Name → Option Cls) (kids : SForest) (sibs : SForest)
deriving Inhabited

/-- union of two name sets -/
abbrev NPred := Name → Bool
def nunion (a b : NPred) : NPred := fun n => a n || b n

/-- classification of block `b` given the free variables `childFv` of its nested blocks -/
def classify (b : SInfo) (chain : List SInfo) (childFv : NPred) (n : Name) : Option Cls :=
  match resolve b chain n with
  | some .local => if b.isFun && childFv n then some .cell else some .local
  | some c => some c
  | none => if childFv n && !b.isModule && !(b.isClass && n == "__class__") then some .free else none

/-- the free variables of block `b` as a whole (its own and those passing through it) -/
def freeVars (b : SInfo) (chain : List SInfo) (childFv : NPred) : NPred := fun n =>
  resolve b chain n == some .free ||
    (childFv n && !(b.isFun && b.isLocal n) && !(b.isClass && n == "__class__"))

/-- names declared `global` in some block nested (at any depth) in this body -/
def globalsBelow : Body → NPred
  | .nil => fun _ => false
  | .op _ rest => globalsBelow rest
  | .child _ _ _ body rest => fun n =>
      (events body).contains (.glob n) || globalsBelow body n || globalsBelow rest n

/-- classify the nested blocks of a body; returns their results and the union of their free variables -/
def specForest (chain : List SInfo) : Body → Except Unit (SForest × NPred)
  | .nil => pure (.nil, fun _ => false)
  | .op _ rest => specForest chain rest
  | .child k name ps body rest => do
    let b := infoOf k ps body
    if forbidden b chain then throw ()
    let (kids, childFv) ← specForest (b :: chain) body
    let (sibs, fv) ← specForest chain rest
    pure (.node (some k) (blockNameOf k name) (classify b chain childFv) kids sibs,
          nunion (freeVars b chain childFv) fv)

def specAnalyze (prog : Body) : Except Unit SForest := do
  let b : SInfo := { kind := none, params := [], evs := events prog }
  if forbidden b [] then throw ()
  let (kids, _) ← specForest [b] prog
  let gb := globalsBelow prog
  pure (.node none "top" (fun n => match resolve b [] n with
      | some c => some c
      | none => if gb n || (events prog).contains (.glob n) then some .globalExplicit else none) kids .nil)

/-! ## run-time meaning -/

structure SState where
  heap : List (Option Val) := []      -- storage locations of function-local variables
  globals : Dict := []
  out : List String := []
deriving Inhabited

abbrev SM := StateT SState (Except (Exc × SState))

def sraise {α} (e : Exc) : SM α := fun s => .error (e, s)

/-- a block being executed -/
structure SFrame where
  kind : Option Kind
  cls : Name → Option Cls
  vars : List (Name × Nat) := []          -- this activation's local variables → locations
  dict : Dict := []                       -- class namespace
  env : List (List (Name × Nat)) := []    -- enclosing function activations, innermost first
deriving Inhabited

def envLookup : List (List (Name × Nat)) → Name → Option Nat
  | [], _ => none
  | vs :: rest, n => match vs.find? (·.1 == n) with
    | some (_, l) => some l
    | none => envLookup rest n

def sGlobalLoad (n : Name) : SM Val := do
  match (← get).globals.get n with
  | some v => pure v
  | none => if isBuiltin n then pure .builtin else sraise .nameError

inductive Place | loc (l : Nat) (own : Bool) | global | classDict | stuck

/-- where the name lives, for the block executing in `f` -/
def place (f : SFrame) (n : Name) : Place :=
  match f.kind with
  | none => .global
  | some .cls =>
    (match f.cls n with
     | some .local => .classDict
     | some .globalImplicit => .classDict
     | some .globalExplicit => .global
     | some .free => (match envLookup f.env n with | some l => .loc l false | none => .stuck)
     | _ => .stuck)
  | some _ =>
    (match f.cls n with
     | some .local | some .cell =>
       (match f.vars.find? (·.1 == n) with | some (_, l) => .loc l true | none => .stuck)
     | some .free => (match envLookup f.env n with | some l => .loc l false | none => .stuck)
     | some _ => .global
     | none => .stuck)

def sLoad (f : SFrame) (n : Name) : SM Val := do
  match place f n with
  | .global => sGlobalLoad n
  | .classDict => (match f.dict.get n with | some v => pure v | none => sGlobalLoad n)
  | .loc l own =>
    -- a class body consults its namespace first
    match (if f.kind == some .cls then f.dict.get n else none) with
    | some v => pure v
    | none =>
      match (← get).heap.getD l none with
      | some v => pure v
      | none => if own then sraise .unboundLocal else sraise .nameError
  | .stuck => sraise .panic

def sStore (f : SFrame) (n : Name) (v : Val) : SM SFrame := do
  match place f n with
  | .global => modify (fun s => { s with globals := s.globals.set n v }); pure f
  | .classDict => pure { f with dict := f.dict.set n v }
  | .loc l _ => modify (fun s => { s with heap := s.heap.set l (some v) }); pure f
  | .stuck => sraise .panic

def sDel (f : SFrame) (n : Name) : SM SFrame := do
  match place f n with
  | .global =>
    (match (← get).globals.get n with
     | some _ => do modify (fun s => { s with globals := s.globals.del n }); pure f
     | none => sraise .nameError)
  | .classDict =>
    (match f.dict.get n with
     | some _ => pure { f with dict := f.dict.del n }
     | none => sraise .nameError)
  | .loc l own =>
    (match (← get).heap.getD l none with
     | some _ => do modify (fun s => { s with heap := s.heap.set l none }); pure f
     | none => if own then sraise .unboundLocal else sraise .nameError)
  | .stuck => sraise .panic

/-- enter a function: a fresh location for every local variable; parameters are initialised -/
def sEnter (U : List Name) (k : Kind) (cls : Name → Option Cls) (args : List (Name × Val))
    (env : List (List (Name × Nat))) : SM SFrame := do
  let mut vars : List (Name × Nat) := []
  for n in U do
    if cls n == some .local || cls n == some .cell then
      let s ← get
      set { s with heap := s.heap ++ [Dict.get args n] }
      vars := (n, s.heap.length) :: vars
  pure { kind := some k, cls := cls, vars := vars, env := env }

/-- the environment nested blocks see -/
def SFrame.childEnv (f : SFrame) : List (List (Name × Nat)) :=
  match f.kind with
  | some .cls => f.vars :: f.env      -- only the implicit `__class__`
  | none => f.env
  | some _ => f.vars :: f.env

def sDefaults (f : SFrame) : List Param → SM (List (Name × Val))
  | [] => pure []
  | p :: ps => do
    let v ← match p.dflt with
      | some y => sLoad f y
      | none => pure (paramDefault p)
    let rest ← sDefaults f ps
    pure ((p.name, v) :: rest)

def sEmit (v : Val) : SM Unit := modify fun s => { s with out := s.out ++ [v.show] }

def sExecOp (f : SFrame) : NOp → SM SFrame
  | .bind n v => sStore f n (.int v)
  | .use n => do sEmit (← sLoad f n); pure f
  | .glob _ => pure f
  | .nonloc _ => pure f
  | .del n => sDel f n

/-- a function value: captured environment and default values -/
structure SFunc where
  env : List (List (Name × Nat))
  args : List (Name × Val)
deriving Inhabited

mutual
def sRunA (U : List Name) : Body → SForest → SFrame → SM (SFrame × List SFunc)
  | .nil, _, f => pure (f, [])
  | .op o rest, kids, f => do
    let f ← sExecOp f o
    sRunA U rest kids f
  | .child k _ ps body rest, .node _ _ cls kids sibs, f => do
    match k with
    | .cls => do
      -- the implicit `__class__` variable: empty until the class object exists
      let s ← get
      set { s with heap := s.heap ++ [none] }
      let cf : SFrame := { kind := some .cls, cls := cls, dict := [("__module__", .str), ("__qualname__", .str)],
                           vars := [("__class__", s.heap.length)], env := f.childEnv }
      let (cf, fos) ← sRunA U body kids cf
      let _ ← sRunB U body kids cf fos
      sRunA U rest sibs f
    | .comp => do
      let args ← sDefaults f ps        -- the iterable is evaluated in the enclosing block
      let cf ← sEnter U k cls [] f.childEnv
      let cf ← args.foldlM (fun cf (nv : Name × Val) => sStore cf nv.1 nv.2) cf
      let (cf, fos) ← sRunA U body kids cf
      let _ ← sRunB U body kids cf fos
      sRunA U rest sibs f
    | _ => do
      let args ← sDefaults f ps        -- defaults are evaluated once, now
      let fo : SFunc := { env := f.childEnv, args := args }
      let cf ← sEnter U k cls fo.args fo.env
      let (cf, fos) ← sRunA U body kids cf
      let _ ← sRunB U body kids cf fos
      let (f, fos') ← sRunA U rest sibs f
      pure (f, if k == .func then fo :: fos' else fos')
  | .child _ _ _ _ _, .nil, _ => sraise .panic

def sRunB (U : List Name) : Body → SForest → SFrame → List SFunc → SM Unit
  | .nil, _, _, _ => pure ()
  | .op _ rest, kids, f, fos => sRunB U rest kids f fos
  | .child .func _ _ body rest, .node _ _ cls kids sibs, f, fo :: fos => do
    let cf ← sEnter U .func cls fo.args fo.env
    let (cf, fos2) ← sRunA U body kids cf
    let _ ← sRunB U body kids cf fos2
    sRunB U rest sibs f fos
  | .child .func _ _ _ _, _, _, _ => sraise .panic
  | .child _ _ _ _ rest, .node _ _ _ _ sibs, f, fos => sRunB U rest sibs f fos
  | .child _ _ _ _ _, .nil, _, _ => sraise .panic
end

def specRun (U : List Name) (b : Body) : SForest → SM Unit
  | .node _ _ cls kids _ => do
    let f : SFrame := { kind := none, cls := cls }
    let (f, fos) ← sRunA U b kids f
    sRunB U b kids f fos
  | .nil => sraise .panic

def specRunResult (U : List Name) (b : Body) (t : SForest) : String :=
  match (specRun U b t).run {} with
  | .ok (_, s) => ",".intercalate s.out ++ ";ok"
  | .error (e, s) => ",".intercalate s.out ++ ";" ++ e.show

end GPy.C03
