/-
C04, Go-callable boundary: a Go callable that receives `(args, kwargs)` from `Method.Call*` and parses
them with `py.ParseTupleAndKeywords`.  The model of py/args.go is the one of C10, imported
(`GPy.C10.Model`/`Spec`/`Proofs`, NOT `GPy.C10.Props`: that file also pins C10's regenerated
assertion-site tables, which must not be able to break C04's build).
-/
import GPy.C04.Proofs2
import GPy.C10.Proofs

namespace GPy.C10

/-- C10's `format_guarantee`, re-derived here from the loop invariants of `GPy.C10.Proofs`
(same statement, same proof) so that C04 depends only on C10's model and lemmas -/
theorem format_guarantee_c04 (c : Call) :
    match parseTupleAndKeywords c with
    | .error e => e = .type ∨ e = .overflow
    | .ok rs =>
      rs.length = c.nresults ∧
      ∀ i, i < c.nresults →
        match (parseFormat c.format).ops[i]?, argFor c i with
        | some op, some a => ∃ v, rs[i]? = some (some v) ∧ Guaranteed op v ∧ v = stored op a
        | some _, none => rs[i]? = some none ∧ (parseFormat c.format).min ≤ i
        | none, _ => rs[i]? = some none := by
  unfold parseTupleAndKeywords
  split_ifs with hk hkw
  · simp
  · cases hn : checkNumberOfArgs (↑c.args.length + ↑c.kwargs.length) (↑c.nresults) (↑(parseFormat c.format).min)
        ↑(parseFormat c.format).ops.length with
    | error e => simp only [hn]; exact Or.inl (checkNumberOfArgs_err hn)
    | ok u => simp [hn]
  · cases hn : checkNumberOfArgs (↑c.args.length + ↑c.kwargs.length) (↑c.nresults) (↑(parseFormat c.format).min)
        ↑(parseFormat c.format).ops.length with
    | error e => simp only [hn]; exact Or.inl (checkNumberOfArgs_err hn)
    | ok u =>
      simp only [hn]
      have hle := (checkNumberOfArgs_ok hn).1
      have H : ∀ j, (argFor c j).isSome → j < (List.replicate c.nresults (none : Option Val)).length := by
        intro j hj; simpa using argFor_lt c hk hle j hj
      cases hp : parseOps c (parseFormat c.format).min (parseFormat c.format).kwOnly (parseFormat c.format).ops 0
          (List.replicate c.nresults none) with
      | error e => simp only; exact parseOps_err c _ _ _ _ _ e H hp
      | ok rs =>
        simp only
        obtain ⟨hlen, hout, hin⟩ := parseOps_ok c _ _ _ _ _ _ hp
        refine ⟨by simpa using hlen, ?_⟩
        intro i hi
        have hrep : (List.replicate c.nresults (none : Option Val))[i]? = some none := by
          simp [hi]
        cases hop : (parseFormat c.format).ops[i]? with
        | none =>
          simp only
          have : (parseFormat c.format).ops.length ≤ i := by
            rcases Nat.lt_or_ge i (parseFormat c.format).ops.length with h | h
            · have := List.getElem?_eq_getElem h; simp [this] at hop
            · exact h
          rw [hout i (Or.inr (by omega)), hrep]
        | some op =>
          have := hin i op (Nat.zero_le _) (by simpa using hop)
          cases hA : argFor c i with
          | none =>
            rw [hA] at this
            simp only at this ⊢
            exact ⟨by rw [this.1, hrep], Nat.le_of_not_lt this.2⟩
          | some a =>
            rw [hA] at this
            obtain ⟨v, hc, hv⟩ := this
            exact ⟨v, hv, convert_guaranteed hc, convert_stored hc⟩


end GPy.C10

namespace GPy.C04

/-- C04's opaque value tokens as C10 argument values (`py.Int`) -/
def tok (v : Val) : C10.Val := .int v

/-- the `ParseTupleAndKeywords` call a Go callable makes on what it was delivered -/
def parseCall (d : Delivered) (format : List Char) (kwlist : Option (List String)) (nresults : Nat) : C10.Call :=
  { args := d.args.map tok, kwargs := (d.kwargs.getD []).map (fun kv => (kv.1, tok kv.2)),
    format := format, kwlist := kwlist, nresults := nresults }

theorem native_parse_main (r : Route) (isInst : Val → Bool) (args : List Val) (kwargs : Option Dict)
    (format : List Char) (kwlist : Option (List String)) (nresults : Nat) :
    match goCall .argsKw r isInst args kwargs with
    | .error e => e = .type ∧ specGoCall .argsKw r isInst args (kwargs.getD []) = none
    | .ok d =>
      specGoCall .argsKw r isInst args (kwargs.getD []) = some d ∧
      match C10.parseTupleAndKeywords (parseCall d format kwlist nresults) with
      | .error e => e = .type ∨ e = .overflow
      | .ok rs =>
        rs.length = nresults ∧
        ∀ i, i < nresults →
          match (C10.parseFormat format).ops[i]?, C10.argFor (parseCall d format kwlist nresults) i with
          | some op, some a => ∃ v, rs[i]? = some (some v) ∧ C10.Guaranteed op v ∧ v = C10.stored op a
          | some _, none => rs[i]? = some none ∧ (C10.parseFormat format).min ≤ i
          | none, _ => rs[i]? = some none := by
  have hd := native_call_delivery_main .argsKw r isInst args kwargs
  cases hg : goCall .argsKw r isInst args kwargs with
  | error e =>
    rw [hg] at hd
    cases hs : specGoCall .argsKw r isInst args (kwargs.getD []) with
    | none => rw [hs] at hd; simp only [Except.error.injEq] at hd; exact ⟨hd, rfl⟩
    | some d => rw [hs] at hd; cases hd
  | ok d =>
    rw [hg] at hd
    cases hs : specGoCall .argsKw r isInst args (kwargs.getD []) with
    | none => rw [hs] at hd; cases hd
    | some d' =>
      rw [hs] at hd; simp only [Except.ok.injEq] at hd; subst hd
      exact ⟨rfl, C10.format_guarantee_c04 (parseCall d format kwlist nresults)⟩

/-- positional argument `i` of the delivered tuple is what `argFor` selects for slot `i`; a slot
beyond the tuple takes the keyword argument named `kwlist[i]` -/
theorem parseCall_argFor (d : Delivered) (format : List Char) (kwlist : Option (List String)) (n i : Nat) :
    C10.argFor (parseCall d format kwlist n) i =
      match d.args[i]? with
      | some a => some (tok a)
      | none => C10.kwArg (parseCall d format kwlist n) i := by
  unfold C10.argFor parseCall
  simp only [List.getElem?_map]
  cases d.args[i]? <;> rfl

end GPy.C04
