/-
C04 tie, round 3: the loop bounds and index expressions the MODEL of `EvalCode` uses, written next
to the model definition that realises each of them.  `Generated/EvalFacts.lean` is regenerated from
vm/eval.go (go/ast) on every run of `./check C04`; Props.lean proves the generated tables equal to
these by `decide`, so a dropped / changed bound in the Go source breaks a named obligation
(`evalcode_loop_bounds`, `evalcode_keyword_search`, `evalcode_index_exprs`, `evalcode_arg_counts`).
Core Lean only.
-/
import GPy.C04.Model
import GPy.C04.Generated.EvalFacts
namespace GPy.C04

/-- (model definition that realises the loop, (init, condition, post)) – source order -/
def modelLoops : List (String × (String × String × String)) :=
  [ ("evalCodeBind.fast0 `if i < n then args[i]?`",                      ("i := 0", "i < n", "i++")),
    ("evalCodeBind.vararg `args.drop n`",                                 ("i := n", "i < len(args)", "i++")),
    ("kwStep `(co.varnames.take total).idxOf` – ONLY the parameters",    ("", "j < total_args", "j++")),
    ("evalCodeBind `countNil f1.fast args.length m`",                     ("i := len(args)", "i < m", "i++")),
    ("fillDefaults `idx < m + defs.length`",                              ("", "i < len(defs)", "i++")),
    ("fillKwDefaults `co.argcount ≤ idx ∧ idx < total`",                  ("i := int(co.Argcount)", "i < total_args", "i++")),
    ("evalCodeEntry `(List.range fc.cellvars.length).foldlM cellStep`",   ("i := 0", "i < len(co.Cellvars)", "i++")),
    ("evalCodeEntry `(List.range fc.freevars.length).foldl`",             ("i := 0", "i < len(co.Freevars)", "i++")) ]

/-- the only `range` loop: the keyword map (`kws.foldlM (kwStep co total)`) -/
def modelRanges : List (String × String × String) := [("keyword", "value", "kws")]

/-- (base, index) of every index expression on the binder's arrays, source order -/
def modelIndex : List (String × String) :=
  [ ("fastlocals", "i"),                         -- kwdict slot: i = total_args (+1)
    ("fastlocals", "i"), ("args", "i"),          -- positional copy
    ("fastlocals", "total_args"),                -- the *args tuple: evalCodeEntry lp0
    ("u", "i - n"), ("args", "i"),
    ("co.Varnames", "j"),                        -- kwStep: j < total_args
    ("kwdict", "keyword"),
    ("fastlocals", "j"), ("fastlocals", "j"),    -- kwStep kw_found
    ("fastlocals", "i"),                         -- countNil
    ("fastlocals", "m + i"), ("fastlocals", "m + i"), ("defs", "i"),   -- fillDefaults
    ("fastlocals", "i"), ("co.Varnames", "i"), ("kwdefs", "name"), ("fastlocals", "i"),  -- fillKwDefaults
    ("co.Cell2arg", "i"), ("fastlocals", "co.Cell2arg[i]"), ("co.Cell2arg", "i"),
    ("fastlocals", "co.Cell2arg[i]"), ("co.Cell2arg", "i"),            -- cellStep
    ("fastlocals", "int(co.Nlocals) + i"),
    ("freevars", "len(co.Cellvars) + i"), ("closure", "i") ]

/-- `total_args`, `n`, `m` as the model computes them (`total`, `n`, `m` of `evalCodeBind`) -/
def modelAssigns : List (String × String) :=
  [ ("total_args", "int(co.Argcount + co.Kwonlyargcount)"),
    ("n", "len(args)"), ("n", "int(co.Argcount)"),
    ("m", "int(co.Argcount) - len(defs)") ]

end GPy.C04
