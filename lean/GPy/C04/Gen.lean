/-
C04 case generator.

`def` cases:  every signature over ≤2 positional parameters (each with/without default, defaulted
ones last), ≤2 keyword-only parameters (each with/without default), ±`*s`, ±`**d` (168 signatures)
× every call with ≤3 explicit positionals, any subset of the keyword names {parameter names, one
unknown name}, `*seq` ∈ {absent, [], [x], [x, y]}, `**map` ∈ {absent, {}, {n: v} for every name n
of the universe and a second unknown name, a two-key map}.
quick: the full product for signatures with ≤1 positional and ≤1 keyword-only parameter, a seeded
10 % of the rest;  thorough: everything.

`go` cases: the four Go callable signatures × {module function, via instance, via class with the
receiver first, via class without receiver} × calls.

Input line:  `<class> | <def source> ## <call source>`   or   `go:<sig>:<route> | <call source>`
-/
import GPy.C04.Spec
namespace GPy.C04

def Err.py : Err → String
  | .type => "E:TypeError" | .syntax => "E:SyntaxError" | .unmodelled => "E:unmodelled"

def showVal (v : Val) : String := if v == 99 then "O" else toString v
def showVals (l : List Val) : String := "(" ++ " ".intercalate (l.map showVal) ++ ")"

/-- insertion sort by key: canonical text of a dict -/
def sortDict (d : Dict) : Dict :=
  d.foldl (fun acc kv =>
    let (lo, hi) := acc.span (fun p => p.1 < kv.1)
    lo ++ [kv] ++ hi) []

def showDict (d : Dict) : String :=
  "{" ++ " ".intercalate ((sortDict d).map (fun kv => kv.1 ++ ":" ++ showVal kv.2)) ++ "}"

def showFrame (f : Frame) : String :=
  if f.fast.any (·.isNone) then "E:UnboundLocalError" else
  "(" ++ " ".intercalate (f.fast.filterMap (·.map showVal)
        ++ (match f.vararg with | some l => [showVals l] | none => [])
        ++ (match f.kwdict with | some d => [showDict d] | none => [])) ++ ")"

def showBinding (b : Binding) : String :=
  "(" ++ " ".intercalate (b.params.map showVal
        ++ (match b.star with | some l => [showVals l] | none => [])
        ++ (match b.dstar with | some d => [showDict d] | none => [])) ++ ")"

def showModel : Except Err Frame → String
  | .ok f => showFrame f
  | .error e => e.py

def showSpec : Option Binding → String
  | some b => showBinding b
  | none => "E:TypeError"

/-! source text -/

def paramSrc (p : Param) : String :=
  match p.dflt with | none => p.name | some v => s!"{p.name}={v}"

def sigSrc (s : Sig) : String :=
  let pos := s.pos.map paramSrc
  let star := match s.star with
    | some n => ["*" ++ n]
    | none => if s.kwonly.isEmpty then [] else ["*"]
  let kw := s.kwonly.map paramSrc
  let ds := match s.dstar with | some n => ["**" ++ n] | none => []
  ", ".intercalate (pos ++ star ++ kw ++ ds)

def retSrc (s : Sig) : String :=
  "(" ++ String.join ((s.names ++ s.star.toList ++ s.dstar.toList).map (· ++ ", ")) ++ ")"

def listSrc (l : List Val) : String := "[" ++ ", ".intercalate (l.map toString) ++ "]"
def dictSrc (d : Dict) : String := "{" ++ ", ".intercalate (d.map (fun kv => s!"'{kv.1}': {kv.2}")) ++ "}"

/-- the argument list of the call; `pre` are extra leading positionals given as source text -/
def callArgsSrc (pre : List String) (c : CallExpr) : String :=
  ", ".intercalate (pre ++ c.args.map toString ++ c.kws.map (fun kv => s!"{kv.1}={kv.2}")
    ++ (match c.star with | some (.seq l) => ["*" ++ listSrc l] | some .notIterable => ["*5"] | none => [])
    ++ (match c.dstar with | some (.dict d) => ["**" ++ dictSrc d] | some .notDict => ["**5"] | none => []))

/-! enumeration -/

def sublists {α} : List α → List (List α)
  | [] => [[]]
  | x :: r => let s := sublists r; s ++ s.map (x :: ·)

def posChoices : List (List Param) :=
  [ [], [⟨"a", none⟩], [⟨"a", some 50⟩],
    [⟨"a", none⟩, ⟨"b", none⟩], [⟨"a", none⟩, ⟨"b", some 51⟩], [⟨"a", some 50⟩, ⟨"b", some 51⟩] ]

def kwChoices : List (List Param) :=
  [ [], [⟨"k", none⟩], [⟨"k", some 60⟩],
    [⟨"k", none⟩, ⟨"j", none⟩], [⟨"k", none⟩, ⟨"j", some 61⟩], [⟨"k", some 60⟩, ⟨"j", none⟩], [⟨"k", some 60⟩, ⟨"j", some 61⟩] ]

def allSigs : List Sig := Id.run do
  let mut out : List Sig := []
  for pos in posChoices do
    for kw in kwChoices do
      for st in [none, some "s"] do
        for ds in [none, some "d"] do
          out := { pos := pos, star := st, kwonly := kw, dstar := ds } :: out
  return out.reverse

def starChoices : List (Option StarArg) := [none, some (.seq []), some (.seq [30]), some (.seq [30, 31])]

def callsFor (names : List Name) : List CallExpr := Id.run do
  let univ := names ++ ["z"]
  let kwsets : List Dict := (sublists univ.zipIdx).map (fun l => l.map (fun (n, i) => (n, 20 + i)))
  let dchoices : List (Option StarKw) :=
    [none, some (.dict [])] ++ (univ ++ ["y"]).zipIdx.map (fun (n, i) => some (.dict [(n, 40 + i)]))
    ++ (match names with | n :: _ => [some (.dict [(n, 47), ("y", 48)])] | [] => [some (.dict [("z", 47), ("y", 48)])])
  let mut out : List CallExpr := []
  for na in [0, 1, 2, 3] do
    for kws in kwsets do
      for st in starChoices do
        for ds in dchoices do
          out := { args := (List.range na).map (10 + ·), kws := kws, star := st, dstar := ds } :: out
  return out.reverse

def sigClass (s : Sig) : String :=
  s!"p{s.pos.length}k{s.kwonly.length}" ++ (if s.star.isSome then "*" else "") ++ (if s.dstar.isSome then "**" else "")

def callClass (c : CallExpr) : String :=
  s!"a{c.args.length}k{c.kws.length}" ++ (if c.star.isSome then "*" else "") ++ (if c.dstar.isSome then "**" else "")

def defCase (s : Sig) (c : CallExpr) : Case :=
  let m := defAndCall s c
  let sp := specCall s c
  let plain := c.kws.isEmpty && c.star.isNone && c.dstar.isNone && s.star.isNone && s.dstar.isNone
               && s.kwonly.isEmpty && c.args.length == s.pos.length
  { input := s!"{sigClass s}/{callClass c} | def f({sigSrc s}): return {retSrc s} ## f({callArgsSrc [] c})",
    modelV := showModel m, specV := showSpec sp, tags := if plain then [] else ["nt"] }

/-! Go callables -/

def GoSig.tag : GoSig → String
  | .args => "fa" | .argsKw => "fk" | .noArgs => "fn" | .oneArg => "f1"

def Route.tag : Route → String
  | .moduleFn => "mod" | .viaInstance _ => "inst" | .viaClass => "class"

def showRecv : Recv → String
  | .obj _ => "O"
  | .module => "M"

def showDelivered (d : Delivered) : String :=
  "(" ++ showRecv d.self ++ " " ++ showVals d.args ++ " "
    ++ (match d.kwargs with | some k => showDict k | none => "-") ++ ")"

/-- the harness' `o` (token 99) is the only instance of the type `T` among the values used -/
def isInstT (v : Val) : Bool := v == 99

/-- model of a call of a Go callable: the same call-site path as for a `def`, then py/method.go;
`pre` = leading positionals (`[99]` = the receiver `o` of a call through the class) -/
def goModel (g : GoSig) (r : Route) (pre : List Val) (c : CallExpr) : Except Err Delivered :=
  let stack := [Item.val 0] ++ callHelperPush (pre ++ c.args) c.kws
  if callHelperTooMany 0 (pre ++ c.args).length c.kws.length then .error .syntax else
  match vmCallSlice (callHelperArgc 0 (pre ++ c.args).length c.kws.length) stack with
  | none => .error .unmodelled
  | some sl =>
    match itemsToVals sl.args with
    | none => .error .unmodelled
    | some args =>
      match vmCallArgs args sl.kwargsTuple c.star c.dstar with
      | .error e => .error e
      | .ok (args, kwargs) => goCall g r isInstT args kwargs

def goSpec (g : GoSig) (r : Route) (pre : List Val) (c : CallExpr) : Option Delivered :=
  match specCallArgs { c with args := pre ++ c.args } with
  | none => none
  | some (args, kws) => specGoCall g r isInstT args kws

/-- `pre = [99]`: `T.m(o, …)`; `pre = []` through the class: the receiver is missing or is whatever
comes first (`T.m()`, `T.m(10)`, `T.m(*[30])`: TypeError) -/
def goCase (g : GoSig) (r : Route) (pre : List Val) (c : CallExpr) : Case :=
  let m := goModel g r pre c
  let sp := goSpec g r pre c
  let target := match r with
    | .moduleFn => s!"c04m.{g.tag}(" | .viaInstance _ => s!"o.{g.tag}(" | .viaClass => s!"T.{g.tag}("
  let preS := pre.map (fun v => if v == 99 then "o" else toString v)
  let rt := r.tag ++ (if r == .viaClass && pre.isEmpty then "0" else "")
  { input := s!"go:{g.tag}:{rt}/{callClass c} | {target}{callArgsSrc preS c})",
    modelV := (match m with | .ok d => showDelivered d | .error e => e.py),
    specV := (match sp with | some d => showDelivered d | none => "E:TypeError"),
    tags := ["nt"] }

def goCalls : List CallExpr := Id.run do
  let mut out : List CallExpr := []
  for na in [0, 1, 2, 3] do
    for kws in ([[], [("k", 20)], [("j", 21)], [("k", 20), ("j", 21)]] : List Dict) do
      for st in starChoices do
        for ds in ([none, some (.dict []), some (.dict [("k", 40)]), some (.dict [("y", 41)])] : List (Option StarKw)) do
          out := { args := (List.range na).map (10 + ·), kws := kws, star := st, dstar := ds } :: out
  return out.reverse

/-- a call/def with many arguments: the operand bytes (model and spec: ≥256 is a SyntaxError) -/
def bigCase (npos nkw : Nat) : Case :=
  let s : Sig := { pos := [], star := some "s", kwonly := [], dstar := some "d" }
  let c : CallExpr := { args := (List.range npos).map (1000 + ·), kws := (List.range nkw).map (fun i => (s!"k{i}", 2000 + i)),
                        star := none, dstar := none }
  let m := defAndCall s c
  let sp := if npos > 255 || nkw > 255 then "E:SyntaxError" else showSpec (specCall s c)
  { input := s!"big/a{npos}k{nkw} | def f({sigSrc s}): return {retSrc s} ## f({callArgsSrc [] c})",
    modelV := showModel m, specV := sp, tags := ["nt"] }

/-- a def with many defaulted parameters (MAKE_FUNCTION operand bytes) -/
def bigDefCase (npos nkw : Nat) : Case :=
  let s : Sig := { pos := (List.range npos).map (fun i => ⟨s!"p{i}", some (3000 + i)⟩), star := none,
                   kwonly := (List.range nkw).map (fun i => ⟨s!"q{i}", some (4000 + i)⟩), dstar := none }
  let c : CallExpr := { args := [], kws := [], star := none, dstar := none }
  let m := defAndCall s c
  let sp := if npos + nkw > 255 then "E:SyntaxError" else showSpec (specCall s c)
  { input := s!"big/p{npos}q{nkw} | def f({sigSrc s}): return {retSrc s} ## f({callArgsSrc [] c})",
    modelV := showModel m, specV := sp, tags := ["nt"] }

/-- source-level regression cases of the defects repaired by `fix:` commits whose mechanism lies in
the parser (not modelled): expected value written by hand from the Python 3.4 rules -/
def regressions : List Case :=
  let mk (n src v : String) : Case := { input := s!"reg/{n} | {src}", modelV := v, specV := v, tags := ["nt"] }
  [ mk "nondefault-after-default" "def f(a=50, b): return (a, b, ) ## f(10)" "E:SyntaxError",
    mk "lambda-nondefault-after-default" "f = lambda a=50, b: (a, b, ) ## f(10)" "E:SyntaxError",
    mk "positional-after-keyword" "def f(a, b=51): return (a, b, ) ## f(b=20, 10)" "E:SyntaxError",
    mk "keyword-repeated" "def f(a, b=51): return (a, b, ) ## f(a=20, a=21)" "E:SyntaxError",
    mk "positional-after-star" "def f(a, b=51): return (a, b, ) ## f(*[30], 10)" "E:SyntaxError",
    mk "duplicate-parameter" "def f(a, a): return (a, ) ## f(10, 11)" "E:SyntaxError",
    mk "decorated-defaults" "def deco(g): return g\\n@deco\\ndef f(a, b=51, *, k=60): return (a, b, k, ) ## f(10)" "(10 51 60)",
    mk "decorated-twice" "def deco(g): return g\\n@deco\\n@deco\\ndef f(a=50, *s, k=60, **d): return (a, k, s, d, ) ## f(k=20)" "(50 20 () {})",
    mk "lambda-kwonly-default" "f = lambda *, k, j=61: (k, j, ) ## f(k=20)" "(20 61)",
    mk "lambda-all" "f = lambda a, b=51, *s, k, j=61, **d: (a, b, k, j, s, d, ) ## f(10, 11, 12, k=20, z=21)" "(10 11 20 61 (12) {z:21})",
    mk "closure-defaults" "def mk(x):\\n    def f(a, b=51, *, k=60): return (a, b, k, x, )\\n    return f\\nf = mk(70) ## f(10, k=20)" "(10 51 20 70)",
    mk "annotations" "def f(a: 1, b: 2 = 51, *s: 3, k: 4 = 60, **d: 5) -> 6: return (a, b, k, s, d, ) ## f(10)" "(10 51 60 () {})",
    mk "method-self" "class C:\\n    def m(self, a, b=51, *s, k=60, **d): return (a, b, k, s, d, )\\nf = C().m ## f(10, 11, 12, z=20)" "(10 11 60 (12) {z:20})" ]


/-! ## Round 3: callees with a body – locals beyond the parameters, cells, free variables, generators

Input line:  `loc:<reach>:<shape>/<sig class>/<call class> | <def source> ## <call source>`
(`## @ <tuple source> @ <dict source or ->` for a call through `py.Call` from Go).
V = the `locals()` dictionary at entry extended by every unbound local (`name=-`), sorted by name,
prefixed `gen:` when the call returned a generator (the snapshot is then taken by the first `next`).
R = the layout of the code object (`co_varnames | co_cellvars | co_freevars | cell2arg`), for a
generator also the raw `Localsplus` of the not yet started frame. -/

def showObj : Obj → String
  | .val v => showVal v
  | .tuple l => showVals l
  | .dict d => showDict d

def sortNs {α} (d : List (Name × α)) : List (Name × α) :=
  d.foldl (fun acc kv =>
    let (lo, hi) := acc.span (fun p => p.1 < kv.1)
    lo ++ [kv] ++ hi) []

def showNamespace (gen : Bool) (ns : List (Name × Option Obj)) : String :=
  (if gen then "gen:" else "") ++ "{" ++ " ".intercalate ((sortNs ns).map (fun kv =>
    kv.1 ++ "=" ++ (match kv.2 with | some o => showObj o | none => "-"))) ++ "}"

def dedupNames (l : List Name) : List Name := l.foldl (fun acc n => if acc.contains n then acc else acc ++ [n]) []

/-- model V: `FastToLocals` of the ready frame, shown over all names of the code object -/
def showEntry (fc : FullCode) : Except Err Entry → String
  | .error e => e.py
  | .ok en =>
    match fastToLocals fc en.localsplus with
    | .error e => e.py
    | .ok d =>
      let names := dedupNames (fc.co.varnames ++ fc.cellvars ++ fc.freevars)
      showNamespace en.generator (names.map (fun n => (n, d.lookup n)))

def showSlot : Slot → String
  | .local none => "-"
  | .local (some o) => showObj o
  | .cell none => "c[-]"
  | .cell (some o) => "c[" ++ showObj o ++ "]"

def showLayout (fc : FullCode) (en : Except Err Entry) : String :=
  "vn=" ++ ",".intercalate fc.co.varnames ++ "|cv=" ++ ",".intercalate fc.cellvars ++ "|fv=" ++ ",".intercalate fc.freevars
  ++ "|c2a=" ++ (match fc.cell2arg with | none => "nil" | some m => ",".intercalate (m.map toString))
  ++ (match en with
      | .ok e => if e.generator then "|lp=" ++ " ".intercalate (e.localsplus.map showSlot) else ""
      | .error _ => "")

def showSpecNs (gen : Bool) : Option Namespace → String
  | none => "E:TypeError"
  | some ns => showNamespace gen ns

/-- a body shape: source statements (after the snapshot line) and the descriptor they compile to -/
structure Shape where
  tag : String
  stmts : List String
  fastUses : List Name
  cells : List Name
  others : List Name        -- the local variables of the body that are not parameters
  free : Bool := false      -- nested in `mk(x)`, mentions `x`
  gen : Bool := false

/-- first parameter in declaration order, if any -/
def firstParam (s : Sig) : Option Name := s.paramVarnames.head?

def shapesFor (s : Sig) : List Shape :=
  let capAll := "(lambda: (" ++ String.join (s.paramVarnames.map (· ++ ", ")) ++ "))"
  [ { tag := "none", stmts := [], fastUses := [], cells := [], others := [] },
    { tag := "t", stmts := ["t = 1"], fastUses := ["t"], cells := [], others := ["t"] },
    { tag := "ct", stmts := ["if g: t = 1"], fastUses := ["t"], cells := [], others := ["t"] },
    { tag := "tu", stmts := ["t = 1", "if g: u = t"], fastUses := ["t", "t", "u"], cells := [], others := ["t", "u"] },
    { tag := "ut", stmts := ["if g: t = u", "u = 2"], fastUses := ["u", "t", "u"], cells := [], others := ["t", "u"] },
    { tag := "cellt", stmts := ["t = 1", "(lambda: t)"], fastUses := [], cells := ["t"], others := ["t"] },
    { tag := "gent", stmts := ["t = 1"], fastUses := ["t"], cells := [], others := ["t"], gen := true },
    { tag := "freet", stmts := ["x", "t = 1"], fastUses := ["t"], cells := [], others := ["t"], free := true } ]
  ++ (match firstParam s with
      | none => []
      | some p =>
        [ { tag := "cap1", stmts := [s!"(lambda: {p})"], fastUses := [], cells := [p], others := [] },
          { tag := "capall", stmts := [capAll, "if g: u = 1"], fastUses := ["u"], cells := s.paramVarnames, others := ["u"] },
          { tag := "capmix", stmts := ["u = 1", s!"(lambda: ({p}, t))", "if g: t = 2"], fastUses := ["u"], cells := [p, "t"], others := ["u", "t"] },
          { tag := "gencap", stmts := [s!"(lambda: {p})", "if g: u = 1"], fastUses := ["u"], cells := [p], others := ["u"], gen := true },
          { tag := "freecap", stmts := [s!"(lambda: ({p}, x))", "t = 1"], fastUses := ["t"], cells := [p], others := ["t"], free := true } ])

def Shape.body (sh : Shape) : Body :=
  { fastUses := sh.fastUses, cells := sh.cells, frees := if sh.free then ["x"] else [], generator := sh.gen }

inductive Form | func | lam | meth
  deriving DecidableEq

/-- source of the definition; the callable ends up in the global `f` -/
def shapeSrc (form : Form) (s : Sig) (sh : Shape) : String :=
  match form with
  | .lam =>
    -- a lambda has no statements: only the capturing shapes make sense (`stmts.head` is the capture)
    let body := match sh.stmts.head? with
      | some cap => s!"({cap}, locals())[1]"
      | none => "locals()"
    s!"f = lambda {sigSrc s}: {body}"
  | .func =>
    let ind := if sh.free then "        " else "    "
    let lines := ["global R", "R = locals()"] ++ sh.stmts ++ [if sh.gen then "yield R" else "return R"]
    let d := (if sh.free then "    " else "") ++ s!"def f({sigSrc s}):\\n" ++ "\\n".intercalate (lines.map (ind ++ ·))
    if sh.free then "def mk(x):\\n" ++ d ++ "\\n    return f\\nf = mk(70)" else d
  | .meth =>
    let lines := ["global R", "R = locals()"] ++ sh.stmts ++ [if sh.gen then "yield R" else "return R"]
    s!"class C:\\n    def m({sigSrc s}):\\n" ++ "\\n".intercalate (lines.map ("        " ++ ·)) ++ "\\nf = C().m"

def tupleSrc (l : List Val) : String := "(" ++ String.join (l.map (fun v => toString v ++ ", ")) ++ ")"

def locCase (form : Form) (r : Reach) (s : Sig) (sh : Shape) (c : CallExpr) : Case :=
  -- a method's signature as compiled includes `self`
  let s' : Sig := if form == .meth then { s with pos := ⟨"self", none⟩ :: s.pos } else s
  let b := sh.body
  let closure : List (Option Obj) := if sh.free then [some (.val 70)] else []
  let fc := s'.fullCode b
  let m := defAndEnter s' b closure r c
  let callee : Callee := { sig := s', others := sh.others, free := if sh.free then [("x", some (.val 70))] else [],
                           generator := sh.gen }
  let sp := specEnter callee r c
  let reach := match form, r with
    | .lam, _ => "lam" | .meth, _ => "meth" | _, .pyCall => "py" | _, _ => "fn"
  let callSrc := match r with
    | .pyCall => s!"@ {tupleSrc c.args} @ " ++ (if c.kws.isEmpty then "-" else dictSrc c.kws)
    | _ => s!"f({callArgsSrc [] c})"
  { input := s!"loc:{reach}:{sh.tag}/{sigClass s}/{callClass c} | {shapeSrc form s' sh} ## {callSrc}",
    modelV := showEntry fc m, modelR := showLayout fc m, specV := showSpecNs sh.gen sp, tags := ["nt"] }

def locPos : List (List Param) := [ [], [⟨"a", none⟩], [⟨"a", none⟩, ⟨"b", some 51⟩] ]
def locKw : List (List Param) := [ [], [⟨"k", none⟩], [⟨"k", some 60⟩] ]

def locSigs : List Sig := Id.run do
  let mut out : List Sig := []
  for pos in locPos do
    for kw in locKw do
      for st in [none, some "s"] do
        for ds in [none, some "d"] do
          out := { pos := pos, star := st, kwonly := kw, dstar := ds } :: out
  return out.reverse

/-- keyword configurations: `(explicit keywords, **mapping)`; `single` = one keyword name from the
universe (every parameter, the `*`/`**` names, the extra locals `t` `u`, the global `g`, the free
variable `x`, the fresh `z`) passed explicitly or through the mapping; `pair` = a non-parameter name
together with a second name, in the four explicit/mapping combinations -/
def locKwConfigs (s : Sig) : List (Dict × Option StarKw) × List (Dict × Option StarKw) :=
  let nonpar : List Name := s.star.toList ++ s.dstar.toList ++ ["t", "u", "g", "x", "z"]
  let univ := s.names ++ nonpar
  let singles : List (Dict × Option StarKw) :=
    [([], none)] ++ univ.flatMap (fun n => [([(n, 20)], none), ([], some (.dict [(n, 40)]))])
  let pairs : List (Dict × Option StarKw) :=
    nonpar.flatMap fun n =>
      (s.names ++ [if n == "z" then "t" else "z"]).flatMap fun q =>
        [ ([(n, 20), (q, 21)], none), ([(n, 20)], some (.dict [(q, 41)])),
          ([(q, 21)], some (.dict [(n, 40)])), ([], some (.dict [(n, 40), (q, 41)])) ]
  (singles, pairs)

def emit (c : Case) : IO Unit := IO.println c.line

def genMain (tier : String) (seed : Nat) : IO Unit := do
  let thorough := tier == "thorough"
  let mut rng : Rng := ⟨UInt64.ofNat (seed * 7919 + 4)⟩
  for s in allSigs do
    let calls := callsFor s.names
    let small := s.pos.length ≤ 1 && s.kwonly.length ≤ 1
    for c in calls do
      if thorough || small then emit (defCase s c)
      else
        let (r, x) := rng.nat 10
        rng := r
        if x == 0 then emit (defCase s c)
    -- operands that are not iterable / not a mapping
    for c in [({ args := [10], kws := [], star := some .notIterable, dstar := none } : CallExpr),
              { args := [10], kws := [], star := none, dstar := some .notDict },
              { args := [], kws := [("z", 20)], star := some (.seq [30]), dstar := some .notDict }] do
      emit (defCase s c)
  -- round 3: callees with a body
  for s in locSigs do
    let (singles, pairs) := locKwConfigs s
    for sh in shapesFor s do
      for na in [0, 1, 2] do
        let args := (List.range na).map (10 + ·)
        for (kws, ds) in singles do
          emit (locCase .func .direct s sh { args := args, kws := kws, star := none, dstar := ds })
        for (kws, ds) in pairs do
          let (r, x) := rng.nat 8
          rng := r
          if thorough || x == 0 then
            emit (locCase .func .direct s sh { args := args, kws := kws, star := none, dstar := ds })
        -- other ways to reach the function: lambda, bound method, py.Call from Go
        for (kws, ds) in singles ++ pairs do
          let (r, x) := rng.nat 16
          rng := r
          let pick := thorough || x < 4 || (kws.length + (match ds with | some (.dict d) => d.length | _ => 0) ≤ 1 && x < 8)
          if pick then
            let c : CallExpr := { args := args, kws := kws, star := none, dstar := ds }
            if sh.tag == "none" || sh.tag == "cap1" then emit (locCase .lam .direct s sh c)
            if ["none", "tu", "cap1", "capmix", "gent"].contains sh.tag then emit (locCase .meth (.bound 99) s sh c)
            if ["t", "ut", "capall", "gencap", "freet"].contains sh.tag && (ds == none) then emit (locCase .func .pyCall s sh c)
      -- `*seq` together with a non-parameter keyword
      for n in ["t", "z"] ++ s.star.toList do
        emit (locCase .func .direct s sh { args := [10], kws := [(n, 20)], star := some (.seq [30, 31]), dstar := none })
  for (a, k) in [(254, 0), (255, 0), (256, 0), (257, 0), (0, 255), (0, 256), (255, 255), (256, 256), (3, 300), (512, 0)] do
    emit (bigCase a k)
  for (a, k) in [(255, 0), (256, 0), (0, 255), (0, 256), (128, 127), (128, 128), (200, 200)] do
    emit (bigDefCase a k)
  for c in regressions do emit c
  for g in [GoSig.args, .argsKw, .noArgs, .oneArg] do
    for (r, pre) in [(Route.moduleFn, []), (.viaInstance 99, []), (.viaClass, [99]), (.viaClass, [])] do
      for c in goCalls do
        emit (goCase g r pre c)

end GPy.C04
