/-
C04 model: executable transliteration of gpython's argument binding.

* `evalCodeBind`     – vm/eval.go `EvalCode` (argument parsing into fast locals,
                       `tooManyPositional`, `missingArguments`, defaults / kw-only defaults)
* `vmCall`           – vm/eval.go `Vm.Call` (operand decoding, stack slicing, duplicate keyword,
                       `**` merge, `*` extension)
* `callHelper`       – compile/compile.go `callHelper` (what is pushed, operand packing)
* `compileFunc` / `makeFunction` – compile/compile.go `compileFunc`, vm/eval.go `_make_function`
* `methodCall`, `methodCallWithKeywords`, `methodMCall`, `boundMethodCall`, `methodGet`
                     – py/method.go, py/boundmethod.go (Go callables)

Values are opaque tokens (`Val = Nat`): the binder never inspects a value, it only moves it.
A Go `nil` fast local is `none`.  A Go map (`py.StringDict`) is an association list in insertion
order; *iterating* a Go map visits it in an arbitrary order, so every function that ranges over a
map takes the list in the order the iteration happens to produce (theorem `bind_perm` shows the
result does not depend on it).

Core Lean only (linked into `gpymodel`).
-/
import GPy.Common.Basic
namespace GPy.C04

abbrev Name := String
abbrev Val := Nat
/-- `py.StringDict` as an association list (keys distinct when built by `dictSet`) -/
abbrev Dict := List (Name × Val)

inductive Err
  | type        -- TypeError
  | syntax      -- SyntaxError raised by the compiler
  | unmodelled  -- a state the compiler never produces (Go would panic / read out of range)
  deriving DecidableEq, Repr, Inhabited

instance {ε α} [DecidableEq ε] [DecidableEq α] : DecidableEq (Except ε α)
  | .ok a, .ok b => if h : a = b then isTrue (by rw [h]) else isFalse (fun e => h (Except.ok.inj e))
  | .error a, .error b => if h : a = b then isTrue (by rw [h]) else isFalse (fun e => h (Except.error.inj e))
  | .ok _, .error _ => isFalse (fun e => by cases e)
  | .error _, .ok _ => isFalse (fun e => by cases e)

def dictHas (d : Dict) (k : Name) : Bool := d.any (fun p => p.1 == k)

/-- Go `d[k] = v` -/
def dictSet (d : Dict) (k : Name) (v : Val) : Dict :=
  if dictHas d k then d.map (fun p => if p.1 == k then (k, v) else p) else d ++ [(k, v)]

/-! ## EvalCode -/

/-- the fields of `py.Code` the binder reads -/
structure Code where
  argcount : Nat
  kwonlyargcount : Nat
  varargs : Bool        -- co.Flags & CO_VARARGS
  varkeywords : Bool    -- co.Flags & CO_VARKEYWORDS
  varnames : List Name
  deriving Repr

/-- the part of the frame the binder writes: `fastlocals[0 .. total_args)`, the `*args` tuple
stored at `fastlocals[total_args]` and the `**kwargs` dict stored behind it (the Go code keeps the
dict in the local variable `kwdict` *and* in the fast-local slot: one object, modelled once) -/
structure Frame where
  fast : List (Option Val)
  vararg : Option (List Val)
  kwdict : Option Dict
  deriving Repr, DecidableEq

/-- one iteration of `for keyword, value := range kws` -/
def kwStep (co : Code) (total : Nat) (f : Frame) (kv : Name × Val) : Except Err Frame :=
  -- for j = 0; j < total_args; j++ { if co.Varnames[j] == keyword { goto kw_found } }
  let j := (co.varnames.take total).idxOf kv.1
  if j < total then
    -- kw_found:
    match f.fast[j]? with
    | some none => .ok { f with fast := f.fast.set j (some kv.2) }
    | some (some _) => .error .type            -- got multiple values for argument
    | none => .error .unmodelled               -- index out of range (never: len(fast) = total)
  else
    match f.kwdict with
    | none => .error .type                     -- got an unexpected keyword argument
    | some d => .ok { f with kwdict := some (dictSet d kv.1 kv.2) }

/-- number of `nil` fast locals in `[lo, hi)` -/
def countNil (fast : List (Option Val)) (lo hi : Nat) : Nat :=
  ((List.range hi).filter (fun i => lo ≤ i && fast[i]? == some none)).length

/-- `for ; i < len(defs); i++ { if fastlocals[m+i] == nil { fastlocals[m+i] = defs[i] } }` started
at `i0`: each iteration touches its own slot, so the loop is a pointwise update -/
def fillDefaults (fast : List (Option Val)) (m i0 : Nat) (defs : List Val) : List (Option Val) :=
  fast.mapIdx fun idx o =>
    if m + i0 ≤ idx ∧ idx < m + defs.length ∧ o = none then defs[idx - m]? else o

/-- the keyword-only loop: `if fastlocals[i] != nil {continue}; if def, ok := kwdefs[name]; ok {fastlocals[i] = def}` -/
def fillKwDefaults (co : Code) (total : Nat) (fast : List (Option Val)) (kwdefs : Option Dict) : List (Option Val) :=
  fast.mapIdx fun idx o =>
    if co.argcount ≤ idx ∧ idx < total ∧ o = none then
      match kwdefs with
      | none => none
      | some d => d.lookup (co.varnames.getD idx "")
    else o

/-- `EvalCode` up to (not including) the cell-variable set-up and `RunFrame` -/
def evalCodeBind (co : Code) (args : List Val) (kws : Dict) (defs : List Val) (kwdefs : Option Dict) :
    Except Err Frame :=
  let total := co.argcount + co.kwonlyargcount
  if defs.length > co.argcount ∨ co.varnames.length < total then .error .unmodelled else
  let kwdict : Option Dict := if co.varkeywords then some [] else none
  let n := if args.length > co.argcount then co.argcount else args.length
  let fast0 : List (Option Val) := (List.range total).map fun i => if i < n then args[i]? else none
  let vararg : Option (List Val) := if co.varargs then some (args.drop n) else none
  match kws.foldlM (kwStep co total) { fast := fast0, vararg := vararg, kwdict := kwdict } with
  | .error e => .error e
  | .ok f1 =>
    if args.length > co.argcount ∧ co.varargs = false then .error .type   -- tooManyPositional
    else
      let m := co.argcount - defs.length
      -- if len(args) < co.Argcount { ... }
      if args.length < co.argcount ∧ countNil f1.fast args.length m ≠ 0 then .error .type  -- missingArguments
      else
        let i0 := if n > m then n - m else 0
        let fast2 := if args.length < co.argcount then fillDefaults f1.fast m i0 defs else f1.fast
        -- if co.Kwonlyargcount > 0 { ... }
        let fast3 := if co.kwonlyargcount > 0 then fillKwDefaults co total fast2 kwdefs else fast2
        if co.kwonlyargcount > 0 ∧ countNil fast3 co.argcount total ≠ 0 then .error .type  -- missingArguments
        else .ok { f1 with fast := fast3 }

/-! ## Call site: `callHelper` (compiler) and `Vm.Call` (interpreter) -/

/-- what lies on the value stack -/
inductive Item
  | val (v : Val)
  | str (s : Name)                 -- a `py.String` constant (keyword name)
  | names (l : List Name)          -- the tuple of annotated names
  | code | qualname | closure
  deriving DecidableEq, Repr, Inhabited

/-- the value of a `*expr` operand -/
inductive StarArg
  | seq (l : List Val)     -- an iterable yielding these items (py.Iterate itself belongs to C05)
  | notIterable
  deriving Repr, DecidableEq

/-- the value of a `**expr` operand -/
inductive StarKw
  | dict (d : Dict)        -- a py.StringDict; the list is the order `range` visits it in
  | notDict
  deriving Repr, DecidableEq

inductive CallOp | call | callVar | callKw | callVarKw
  deriving Repr, DecidableEq

/-- `callHelper`: the items pushed above the callee and the operand
`uint32(args + kwargs<<8)`.  (`n` extra positionals already on the stack are the caller's business.) -/
def callHelperPush (args : List Val) (kws : Dict) : List Item :=
  args.map Item.val ++ kws.flatMap (fun kv => [Item.str kv.1, Item.val kv.2])

def callHelperArgc (n nargs nkws : Nat) : Nat := ((n + nargs) + nkws <<< 8) % 2 ^ 32

/-- `if args > 255 || kwargs > 255 { SyntaxError "more than 255 arguments" }` -/
def callHelperTooMany (n nargs nkws : Nat) : Bool := n + nargs > 255 || nkws > 255

def callHelperOp (star dstar : Bool) : CallOp :=
  if star then (if dstar then .callVarKw else .callVar) else if dstar then .callKw else .call

/-- Result of the stack slicing at the top of `Vm.Call` -/
structure Sliced where
  rest : List Item
  fn : Item
  args : List Item
  kwargsTuple : List Item
  deriving Repr, DecidableEq

/-- `nargs := argc & 0xFF; nkwargs := (argc >> 8) & 0xFF` and the three slicings; `none` = Go panics
(slice bounds out of range) -/
def vmCallSlice (argc : Nat) (stack : List Item) : Option Sliced :=
  let nargs := argc &&& 0xFF
  let nkwargs := (argc >>> 8) &&& 0xFF
  if stack.length < 2 * nkwargs + nargs + 1 then none else
  let p := stack.length - 2 * nkwargs
  let kwargsTuple := stack.drop p
  let p2 := p - nargs
  let args := (stack.take p).drop p2
  let p3 := p2 - 1
  some { rest := stack.take p3, fn := stack.getD p3 .code, args := args, kwargsTuple := kwargsTuple }

/-- `for i := 0; i < len(kwargsTuple); i += 2` -/
def kwTupleToDict : List Item → Dict → Except Err Dict
  | Item.str k :: Item.val v :: rest, d =>
      if dictHas d k then .error .type           -- got multiple values for keyword argument
      else kwTupleToDict rest (d ++ [(k, v)])
  | [], d => .ok d
  | Item.str _ :: _, _ => .error .unmodelled      -- odd length / non-value: never compiled
  | _ :: _, _ => .error .type                     -- keywords must be strings

/-- `for k, v := range starKwargsDict` -/
def mergeStarKw (kwargs : Dict) : Dict → Except Err Dict
  | [] => .ok kwargs
  | (k, v) :: rest => if dictHas kwargs k then .error .type else mergeStarKw (kwargs ++ [(k, v)]) rest

def itemsToVals : List Item → Option (List Val)
  | [] => some []
  | Item.val v :: r => (itemsToVals r).map (v :: ·)
  | _ :: _ => none

/-- `Vm.Call` from the decoded operands to the `(args, kwargs)` handed to `callInternal`;
`kwargs = none` is the Go `nil` map -/
def vmCallArgs (args : List Val) (kwargsTuple : List Item) (star : Option StarArg) (dstar : Option StarKw) :
    Except Err (List Val × Option Dict) :=
  match (if kwargsTuple.length > 0 then (kwTupleToDict kwargsTuple []).map some else .ok none) with
  | .error e => .error e
  | .ok kwargs =>
    match (match dstar with
           | none => (Except.ok kwargs : Except Err (Option Dict))
           | some .notDict => Except.error Err.type     -- argument after ** must be a mapping
           | some (.dict d) => (mergeStarKw (kwargs.getD []) d).map some) with
    | .error e => .error e
    | .ok kwargs =>
      match star with
      | none => .ok (args, kwargs)
      | some .notIterable => .error .type
      | some (.seq l) => .ok (args ++ l, kwargs)

/-! ## Function definition: `compileFunc` pushes, `_make_function` pops -/

structure Param where
  name : Name
  dflt : Option Val
  deriving Repr, DecidableEq

/-- ast.Arguments of a `def` (annotations: only their number and names matter here) -/
structure Sig where
  pos : List Param
  star : Option Name
  kwonly : List Param
  dstar : Option Name
  deriving Repr, DecidableEq

/-- Args.Defaults: the defaults of the positional parameters, in order -/
def Sig.defaults (s : Sig) : List Val := s.pos.filterMap (·.dflt)

/-- the `(name, default)` pairs `compileFunc` pushes for Args.KwDefaults (nil entries skipped) -/
def Sig.kwDefaultPairs (s : Sig) : Dict := s.kwonly.filterMap (fun p => p.dflt.map (fun v => (p.name, v)))

/-- items `compileFunc` + `makeClosure` leave on the stack for MAKE_FUNCTION / MAKE_CLOSURE -/
def compileFuncPush (s : Sig) (anns : List (Name × Val)) (closure : Bool) : List Item :=
  s.defaults.map Item.val
  ++ s.kwDefaultPairs.flatMap (fun kv => [Item.str kv.1, Item.val kv.2])
  ++ (if anns.isEmpty then [] else anns.map (fun a => Item.val a.2) ++ [Item.names (anns.map (·.1))])
  ++ (if closure then [Item.closure] else []) ++ [Item.code, Item.qualname]

/-- `uint32(posdefaults + (kwdefaults << 8) + (num_annotations << 16))` -/
def compileFuncArgc (s : Sig) (anns : List (Name × Val)) : Nat :=
  (s.defaults.length + (s.kwDefaultPairs.length <<< 8)
    + ((if anns.isEmpty then 0 else anns.length + 1) <<< 16)) % 2 ^ 32

/-- `if len(Args.Args)+len(Args.Kwonlyargs) > 255 { SyntaxError "more than 255 arguments" }` -/
def compileFuncTooMany (s : Sig) : Bool := s.pos.length + s.kwonly.length > 255

/-- the code object `compileFunc` + symtable produce (parameters first in Varnames: positional,
keyword-only, then `*` and `**` names) -/
def Sig.code (s : Sig) : Code :=
  { argcount := s.pos.length, kwonlyargcount := s.kwonly.length,
    varargs := s.star.isSome, varkeywords := s.dstar.isSome,
    varnames := s.pos.map (·.name) ++ s.kwonly.map (·.name) ++ s.star.toList ++ s.dstar.toList }

/-- the fields of `py.Function` `_make_function` fills -/
structure Func where
  defaults : List Val           -- Go nil tuple = []
  kwdefaults : Option Dict      -- Go nil map = none
  annotations : Option Dict
  closure : Bool
  deriving Repr, DecidableEq

/-- pop `n` `(key, value)` pairs from the top, `defs[key] = v` each (top pair first) -/
def popKwDefaults : Nat → List Item → Dict → Option (Dict × List Item)
  | 0, st, d => some (d, st)
  | n + 1, st, d =>
    match st.reverse with
    | Item.val v :: Item.str k :: r => popKwDefaults n r.reverse (dictSet d k v)
    | _ => none

/-- pop the annotation values, top of stack = value of the last name -/
def popAnnotations : List Name → List Item → Dict → Option (Dict × List Item)
  | [], st, d => some (d, st)
  | nm :: names, st, d =>
    match st.reverse with
    | Item.val v :: r => popAnnotations names r.reverse (dictSet d nm v)
    | _ => none

/-- `_make_function`; `none` = Go panics (type assertion / stack underflow / "num_annotations wrong") -/
def makeFunction (argc : Nat) (isClosure : Bool) (stack : List Item) : Option (Func × List Item) :=
  let posdefaults := argc &&& 0xff
  let kwdefaults := (argc >>> 8) &&& 0xff
  let num_annotations := (argc >>> 16) &&& 0x7fff
  match stack.reverse with
  | Item.qualname :: Item.code :: r =>
    let st := r.reverse
    let clo : Option (List Item) :=
      if isClosure then (match st.reverse with | Item.closure :: r' => some r'.reverse | _ => none) else some st
    match clo with
    | none => none
    | some st =>
      let ann : Option (Option Dict × List Item) :=
        if num_annotations > 0 then
          match st.reverse with
          | Item.names nms :: r' =>
            if num_annotations ≠ nms.length + 1 then none
            else (popAnnotations nms.reverse r'.reverse []).map (fun (d, s) => (some d, s))
          | _ => none
        else some (none, st)
      match ann with
      | none => none
      | some (anns, st) =>
        let kw : Option (Option Dict × List Item) :=
          if kwdefaults > 0 then (popKwDefaults kwdefaults st []).map (fun (d, s) => (some d, s)) else some (none, st)
        match kw with
        | none => none
        | some (kwd, st) =>
          if st.length < posdefaults then none else
          match itemsToVals (st.drop (st.length - posdefaults)) with
          | none => none
          | some defs =>
            some ({ defaults := defs, kwdefaults := kwd, annotations := anns, closure := isClosure },
                  st.take (st.length - posdefaults))
  | _ => none

/-! ## End to end: a call expression on a `def` -/

/-- a call expression `f(a…, k=v…, *star, **dstar)` with evaluated operands -/
structure CallExpr where
  args : List Val
  kws : Dict                  -- explicit keywords in source order (the compiler rejects repeats)
  star : Option StarArg
  dstar : Option StarKw
  deriving Repr, DecidableEq

/-- `Function.M__call__`: `VmEvalCode(…, args, kwargs, f.Defaults, f.KwDefaults, …)`; a nil `kws` map
ranges over nothing -/
def functionCall (co : Code) (fn : Func) (args : List Val) (kwargs : Option Dict) : Except Err Frame :=
  evalCodeBind co args (kwargs.getD []) fn.defaults fn.kwdefaults

/-- define `def f(sig)` then evaluate the call expression: compile pushes → MAKE_FUNCTION →
callHelper pushes → Vm.Call → Function.M__call__ → EvalCode -/
def defAndCall (s : Sig) (c : CallExpr) : Except Err Frame :=
  if compileFuncTooMany s || callHelperTooMany 0 c.args.length c.kws.length then .error .syntax else
  match makeFunction (compileFuncArgc s []) false (compileFuncPush s [] false) with
  | none => .error .unmodelled
  | some (fn, _) =>
    let stack := [Item.val 0] ++ callHelperPush c.args c.kws
    match vmCallSlice (callHelperArgc 0 c.args.length c.kws.length) stack with
    | none => .error .unmodelled
    | some sl =>
      match itemsToVals sl.args with
      | none => .error .unmodelled
      | some args =>
        match vmCallArgs args sl.kwargsTuple c.star c.dstar with
        | .error e => .error e
        | .ok (args, kwargs) => functionCall s.code fn args kwargs


/-! ## Round 3: the whole frame – `co.Varnames` as the compiler lays it out, cells, generator flag -/

/-- The body of the callee as far as frame layout is concerned (symtable's scope analysis is NOT
modelled: the descriptor says which scope each name got; the generator emits source that matches). -/
structure Body where
  /-- names `NameOp` compiles with `OP_FAST` (scope local of a function block), in compile order,
  repeats and parameters included -/
  fastUses : List Name
  /-- symbols of scope cell (parameters captured by an inner function included), any order -/
  cells : List Name
  /-- symbols of scope free, any order -/
  frees : List Name
  /-- `yield` occurs: `CO_GENERATOR` -/
  generator : Bool
  deriving Repr, DecidableEq

/-- `c.Index(name, &names)`: the name keeps its position, a new one is appended -/
def indexAppend (l : List Name) (n : Name) : List Name := if l.contains n then l else l ++ [n]

/-- `symtable.addArgumentsToSymbolTable`: `st.Varnames` = positional, keyword-only, `*name`, `**name` -/
def Sig.paramVarnames (s : Sig) : List Name :=
  s.pos.map (·.name) ++ s.kwonly.map (·.name) ++ s.star.toList ++ s.dstar.toList

/-- `code.Varnames = SymTable.Varnames…` then every `OP_FAST` name through `c.Index` in compile order -/
def layoutVarnames (s : Sig) (b : Body) : List Name := b.fastUses.foldl indexAppend s.paramVarnames

/-- `sort.Strings` of the symbol-map keys (a map: no repeats) -/
def sortNames (l : List Name) : List Name :=
  l.foldl (fun acc n => if acc.contains n then acc else
    let (lo, hi) := acc.span (fun p => p < n); lo ++ [n] ++ hi) []

/-- `py.CO_CELL_NOT_AN_ARG` -/
def cellNotAnArg : Nat := 255

/-- `Code.InitCell2arg`: for every cell variable the index of the ARGUMENT of the same name
(`for j := 0; j < total_args(+1)(+1); j++ { if cell == co.Varnames[j] … byte(j)`), `nil` when no cell is
an argument -/
def initCell2arg (co : Code) (cellvars : List Name) : Option (List Nat) :=
  if cellvars.length = 0 then none else
  let nargs := co.argcount + co.kwonlyargcount + (if co.varargs then 1 else 0) + (if co.varkeywords then 1 else 0)
  let m := cellvars.map fun c =>
    let j := (co.varnames.take nargs).idxOf c
    if j < nargs ∧ j < co.varnames.length then j % 256 else cellNotAnArg
  if m.all (· == cellNotAnArg) then none else some m

/-- the fields of `py.Code` `NewFrame` + `EvalCode` + `FastToLocals` read -/
structure FullCode where
  co : Code
  nlocals : Nat
  cellvars : List Name
  freevars : List Name
  cell2arg : Option (List Nat)
  generator : Bool
  deriving Repr

/-- the code object the compiler builds for `def f(s): body` -/
def Sig.fullCode (s : Sig) (b : Body) : FullCode :=
  let co : Code := { argcount := s.pos.length, kwonlyargcount := s.kwonly.length,
                     varargs := s.star.isSome, varkeywords := s.dstar.isSome,
                     varnames := layoutVarnames s b }
  let cv := sortNames b.cells
  { co := co, nlocals := co.varnames.length, cellvars := cv, freevars := sortNames b.frees,
    cell2arg := initCell2arg co cv, generator := b.generator }

/-- a Python object as far as the frame is concerned -/
inductive Obj
  | val (v : Val)
  | tuple (l : List Val)
  | dict (d : Dict)
  deriving Repr, DecidableEq

/-- one element of `f.Localsplus`: a plain slot (Go `nil` = `local none`) or a `*py.Cell` -/
inductive Slot
  | local (o : Option Obj)
  | cell (o : Option Obj)
  deriving Repr, DecidableEq

/-- what `EvalCode` hands to `RunFrame` / `NewGenerator` -/
structure Entry where
  localsplus : List Slot
  generator : Bool
  deriving Repr, DecidableEq

/-- one iteration of `for i := 0; i < len(co.Cellvars); i++`: a cell that is an argument takes the
argument's value and the local copy is cleared -/
def cellStep (fc : FullCode) (lp : List Slot) (i : Nat) : Except Err (List Slot) :=
  let a := match fc.cell2arg with | some m => m.getD i cellNotAnArg | none => cellNotAnArg
  if fc.cell2arg.isSome ∧ a ≠ cellNotAnArg then
    match lp[a]? with
    | some (.local o) =>
      if fc.nlocals + i < lp.length then .ok ((lp.set a (.local none)).set (fc.nlocals + i) (.cell o))
      else .error .unmodelled
    | _ => .error .unmodelled           -- index out of range: never compiled
  else if fc.nlocals + i < lp.length then .ok (lp.set (fc.nlocals + i) (.cell none))
  else .error .unmodelled

/-- `EvalCode` from `NewFrame` to the point where the frame is run (or wrapped in a generator):
argument parsing (`evalCodeBind`), the slots of `*args`/`**kwargs`, every other local `nil`, the cell
loop, the free variables copied from the closure (`closure[i]` = content of the i-th closure cell) -/
def evalCodeEntry (fc : FullCode) (args : List Val) (kws : Dict) (defs : List Val) (kwdefs : Option Dict)
    (closure : List (Option Obj)) : Except Err Entry :=
  let total := fc.co.argcount + fc.co.kwonlyargcount
  let nflag := (if fc.co.varargs then 1 else 0) + (if fc.co.varkeywords then 1 else 0)
  if fc.nlocals < total + nflag ∨ closure.length < fc.freevars.length then .error .unmodelled else
  match evalCodeBind fc.co args kws defs kwdefs with
  | .error e => .error e
  | .ok f =>
    let lp0 : List Slot :=
      f.fast.map (fun o => Slot.local (o.map Obj.val))
      ++ (match f.vararg with | some l => [Slot.local (some (.tuple l))] | none => [])
      ++ (match f.kwdict with | some d => [Slot.local (some (.dict d))] | none => [])
      ++ List.replicate (fc.nlocals - total - nflag) (Slot.local none)
      ++ List.replicate (fc.cellvars.length + fc.freevars.length) (Slot.local none)
    match (List.range fc.cellvars.length).foldlM (cellStep fc) lp0 with
    | .error e => .error e
    | .ok lp1 =>
      let lp2 := (List.range fc.freevars.length).foldl
        (fun lp i => lp.set (fc.nlocals + fc.cellvars.length + i) (.cell ((closure.getD i none)))) lp1
      .ok { localsplus := lp2, generator := fc.generator }

/-- the `locals()` dictionary: name ↦ object -/
abbrev LDict := List (Name × Obj)

def ldictSet (d : LDict) (k : Name) (v : Obj) : LDict :=
  if d.any (fun p => p.1 == k) then d.map (fun p => if p.1 == k then (k, v) else p) else d ++ [(k, v)]

def ldictDel (d : LDict) (k : Name) : LDict := d.filter (fun p => p.1 != k)

/-- `map_to_dict(mapping, nmap, dict, values, deref)`: `for j := nmap - 1; j >= 0; j--` -/
def mapToDict (mapping : List Name) (nmap : Nat) (d : LDict) (values : List Slot) (deref : Bool) : Except Err LDict :=
  (List.range nmap).reverse.foldlM (fun d j =>
    match mapping[j]?, values[j]? with
    | some key, some sl =>
      let value : Except Err (Option Obj) :=
        match sl, deref with
        | .local o, false => .ok o
        | .cell o, true => .ok o
        | .local none, true => .ok none
        | .local (some _), true => .error .unmodelled   -- panic "map_to_dict: expecting Cell"
        | .cell _, false => .error .unmodelled          -- a cell object would be shown as a local: never laid out
      match value with
      | .error e => .error e
      | .ok none => .ok (ldictDel d key)
      | .ok (some v) => .ok (ldictSet d key v)
    | _, _ => .error .unmodelled) d

/-- `Frame.FastToLocals` into the fresh dict `Function.M__call__` passes (function code is `CO_OPTIMIZED`) -/
def fastToLocals (fc : FullCode) (lp : List Slot) : Except Err LDict :=
  let j := if fc.co.varnames.length > fc.nlocals then fc.nlocals else fc.co.varnames.length
  match (if fc.nlocals ≠ 0 then mapToDict fc.co.varnames j [] lp false else .ok []) with
  | .error e => .error e
  | .ok d1 =>
    if fc.cellvars.length ≠ 0 ∨ fc.freevars.length ≠ 0 then
      match mapToDict fc.cellvars fc.cellvars.length d1 (lp.drop fc.nlocals) true with
      | .error e => .error e
      | .ok d2 => mapToDict fc.freevars fc.freevars.length d2 (lp.drop (fc.nlocals + fc.cellvars.length)) true
    else .ok d1

/-- `Function.M__call__` on the whole code object -/
def functionEntry (fc : FullCode) (fn : Func) (closure : List (Option Obj)) (args : List Val) (kwargs : Option Dict) :
    Except Err Entry :=
  evalCodeEntry fc args (kwargs.getD []) fn.defaults fn.kwdefaults closure

/-- `BoundMethod.M__call__` on a Python function: `newArgs = (self,) + args; Call(bm.Method, newArgs, kwargs)` -/
def boundFunctionEntry (fc : FullCode) (fn : Func) (closure : List (Option Obj)) (self : Val) (args : List Val)
    (kwargs : Option Dict) : Except Err Entry :=
  functionEntry fc fn closure (self :: args) kwargs

/-- how the Python function is reached -/
inductive Reach
  | direct               -- `f(…)`: Vm.Call → Function.M__call__
  | bound (self : Val)   -- `o.m(…)`: Vm.Call → BoundMethod.M__call__ → Function.M__call__
  | pyCall               -- `py.Call(f, args, kwargs)` from Go: no call site, no Vm.Call
  deriving Repr, DecidableEq

/-- end to end for a callee with a body: def → MAKE_FUNCTION/MAKE_CLOSURE → call site → Vm.Call →
(BoundMethod.M__call__ →) Function.M__call__ → EvalCode up to the ready frame.  `s` is the signature as
written (for a method it includes `self`). -/
def defAndEnter (s : Sig) (b : Body) (closure : List (Option Obj)) (r : Reach) (c : CallExpr) : Except Err Entry :=
  if compileFuncTooMany s || callHelperTooMany 0 c.args.length c.kws.length then .error .syntax else
  let clo := !b.frees.isEmpty
  match makeFunction (compileFuncArgc s []) clo (compileFuncPush s [] clo) with
  | none => .error .unmodelled
  | some (fn, _) =>
    let fc := s.fullCode b
    match r with
    | .pyCall =>
      -- the harness builds the tuple and the dict itself: star/dstar are not used on this route
      functionEntry fc fn closure c.args (if c.kws.isEmpty then none else some c.kws)
    | _ =>
      let stack := [Item.val 0] ++ callHelperPush c.args c.kws
      match vmCallSlice (callHelperArgc 0 c.args.length c.kws.length) stack with
      | none => .error .unmodelled
      | some sl =>
        match itemsToVals sl.args with
        | none => .error .unmodelled
        | some args =>
          match vmCallArgs args sl.kwargsTuple c.star c.dstar with
          | .error e => .error e
          | .ok (args, kwargs) =>
            match r with
            | .bound self => boundFunctionEntry fc fn closure self args kwargs
            | _ => functionEntry fc fn closure args kwargs

/-! ## Go callables (py/method.go, py/boundmethod.go) -/

/-- the four Go function types `NewMethod` accepts -/
inductive GoSig
  | args       -- func(self Object, args Tuple) (Object, error)
  | argsKw     -- func(self Object, args Tuple, kwargs StringDict) (Object, error)
  | noArgs     -- func(Object) (Object, error)
  | oneArg     -- func(Object, Object) (Object, error)
  deriving Repr, DecidableEq

/-- what `self` the Go function sees -/
inductive Recv
  | module          -- `Object(m.Module)` (the module of a module function)
  | obj (v : Val)   -- an instance
  deriving Repr, DecidableEq

/-- what the Go function was called with -/
structure Delivered where
  self : Recv
  args : List Val
  kwargs : Option Dict    -- none: the signature has no kwargs parameter
  deriving Repr, DecidableEq

/-- `Method.Call` -/
def methodCall (g : GoSig) (self : Recv) (args : List Val) : Except Err Delivered :=
  match g with
  | .args => .ok { self := self, args := args, kwargs := none }
  | .argsKw => .ok { self := self, args := args, kwargs := some [] }
  | .noArgs => if args.length ≠ 0 then .error .type else .ok { self := self, args := [], kwargs := none }
  | .oneArg => if args.length ≠ 1 then .error .type else .ok { self := self, args := args, kwargs := none }

/-- `Method.CallWithKeywords` -/
def methodCallWithKeywords (g : GoSig) (self : Recv) (args : List Val) (kwargs : Dict) : Except Err Delivered :=
  if kwargs.length = 0 then methodCall g self args else
  match g with
  | .argsKw => .ok { self := self, args := args, kwargs := some kwargs }
  | _ => .error .type     -- takes no keyword arguments

/-- `Method.M__call__`.  `objclass = none`: `m.objclass == nil`, `self := Object(m.Module)`.
`objclass = some isInst` (the unbound method `Method.M__get__(None, cls)` makes, fix 6784585):
the first argument is the receiver – `len(args) == 0` is a TypeError, so is
`!args[0].Type().IsSubtype(m.objclass)` (`isInst`), else `self, args = args[0], args[1:]` -/
def methodMCall (g : GoSig) (objclass : Option (Val → Bool)) (args : List Val) (kwargs : Option Dict) :
    Except Err Delivered :=
  match (match objclass with
         | none => (Except.ok (Recv.module, args) : Except Err (Recv × List Val))
         | some isInst =>
           match args with
           | [] => .error .type                  -- descriptor needs an argument
           | o :: rest => if isInst o then .ok (.obj o, rest) else .error .type) with
  | .error e => .error e
  | .ok (self, args) =>
    match kwargs with
    | some kw => methodCallWithKeywords g self args kw
    | none => methodCall g self args

/-- `BoundMethod.M__call__` on a `*Method` -/
def boundMethodCall (g : GoSig) (self : Val) (args : List Val) (kwargs : Option Dict) : Except Err Delivered :=
  match kwargs with
  | some kw => methodCallWithKeywords g (.obj self) args kw
  | none => methodCall g (.obj self) args

/-- how the callable is reached -/
inductive Route
  | moduleFn            -- `mod.fn(args)`: the module's copy of the method (`Module != nil`)
  | viaInstance (o : Val)   -- `o.m(args)`: `Method.M__get__(o, T)` = BoundMethod(o, m)
  | viaClass            -- `T.m(o, args)`: `Method.M__get__(None, T)` = a copy of m with `objclass = T`
  deriving Repr, DecidableEq

/-- attribute lookup (`Method.M__get__`) + call of a Go callable with the `(args, kwargs)` `Vm.Call`
hands over; `isInst v` = "the type of `v` is a subtype of the type that defines the method" -/
def goCall (g : GoSig) (r : Route) (isInst : Val → Bool) (args : List Val) (kwargs : Option Dict) :
    Except Err Delivered :=
  match r with
  | .moduleFn => methodMCall g none args kwargs
  | .viaInstance o => boundMethodCall g o args kwargs
  | .viaClass => methodMCall g (some isInst) args kwargs

end GPy.C04
