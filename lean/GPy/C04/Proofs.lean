/-
C04 helper lemmas.  Property theorems live in Props.lean.
-/
import GPy.C04.Spec
import Mathlib.Tactic.SplitIfs
namespace GPy.C04

def kwIdx (co : Code) (total : Nat) (k : Name) : Nat := (co.varnames.take total).idxOf k

def kwOk (co : Code) (total : Nat) (f : Frame) (kv : Name × Val) : Bool :=
  if kwIdx co total kv.1 < total then f.fast[kwIdx co total kv.1]? == some none else f.kwdict.isSome

def kwFast (co : Code) (total : Nat) (fast : List (Option Val)) (ks : Dict) : List (Option Val) :=
  fast.mapIdx fun i o =>
    match o with
    | some v => some v
    | none => (ks.find? (fun kv => kwIdx co total kv.1 == i)).map (·.2)

def kwExtra (co : Code) (total : Nat) (ks : Dict) : Dict :=
  ks.filter (fun kv => !decide (kwIdx co total kv.1 < total))

theorem kwIdx_inj {co : Code} {total : Nat} {k k' : Name} (hlen : total ≤ co.varnames.length)
    (h : kwIdx co total k < total) (e : kwIdx co total k = kwIdx co total k') : k = k' := by
  unfold kwIdx at *
  have hl : (co.varnames.take total).length = total := by simp; omega
  have h1 : List.idxOf k (co.varnames.take total) < (co.varnames.take total).length := by omega
  have h2 : List.idxOf k' (co.varnames.take total) < (co.varnames.take total).length := by omega
  have a := List.getElem_idxOf h1
  have b := List.getElem_idxOf h2
  have : (co.varnames.take total)[List.idxOf k (co.varnames.take total)] = (co.varnames.take total)[List.idxOf k' (co.varnames.take total)] := by
    congr 1
  rw [a, b] at this
  exact this

theorem kwFast_nil (co : Code) (total : Nat) (fast : List (Option Val)) : kwFast co total fast [] = fast := by
  apply List.ext_getElem?; intro i
  simp only [kwFast, List.getElem?_mapIdx]
  cases h : fast[i]? with
  | none => rfl
  | some o => cases o <;> simp

theorem kwFast_cons_found (co : Code) (total : Nat) (fast : List (Option Val)) (kv : Name × Val) (rest : Dict)
    (h : fast[kwIdx co total kv.1]? = some none) :
    kwFast co total (fast.set (kwIdx co total kv.1) (some kv.2)) rest = kwFast co total fast (kv :: rest) := by
  apply List.ext_getElem?; intro i
  simp only [kwFast, List.getElem?_mapIdx, List.getElem?_set, List.find?_cons]
  by_cases e : kwIdx co total kv.1 = i
  · subst e
    have hl : kwIdx co total kv.1 < fast.length := (List.getElem?_eq_some_iff.mp h).1
    obtain ⟨_, hg⟩ := List.getElem?_eq_some_iff.mp h
    simp [hl, hg]
  · have e' : (kwIdx co total kv.1 == i) = false := by simp [e]
    simp [e, e']

theorem kwFast_cons_extra (co : Code) (total : Nat) (fast : List (Option Val)) (kv : Name × Val) (rest : Dict)
    (hl : fast.length = total) (h : ¬ kwIdx co total kv.1 < total) :
    kwFast co total fast (kv :: rest) = kwFast co total fast rest := by
  apply List.ext_getElem?; intro i
  simp only [kwFast, List.getElem?_mapIdx, List.find?_cons]
  by_cases hi : i < fast.length
  · have e : (kwIdx co total kv.1 == i) = false := by
      simp; omega
    simp [e]
  · simp [List.getElem?_eq_none (l := fast) (i := i) (by omega)]


theorem all_congr_mem {α} {l : List α} {p q : α → Bool} (h : ∀ x ∈ l, p x = q x) : l.all p = l.all q := by
  induction l with
  | nil => rfl
  | cons a r ih =>
    simp only [List.all_cons, h a List.mem_cons_self, ih (fun x hx => h x (List.mem_cons_of_mem _ hx))]

theorem dictHas_append (d : Dict) (k : Name) (v : Val) (k' : Name) :
    dictHas (d ++ [(k, v)]) k' = (dictHas d k' || k == k') := by
  simp [dictHas]

theorem dictSet_of_not_has {d : Dict} {k : Name} (v : Val) (h : dictHas d k = false) :
    dictSet d k v = d ++ [(k, v)] := by
  simp [dictSet, h]

theorem kwFold_closed (co : Code) (total : Nat) (hlen : total ≤ co.varnames.length) :
    ∀ (ks : Dict) (f : Frame), f.fast.length = total → (ks.map (·.1)).Nodup →
      (∀ d, f.kwdict = some d → ∀ kv ∈ ks, dictHas d kv.1 = false) →
      ks.foldlM (kwStep co total) f =
        if ks.all (kwOk co total f) then
          .ok { fast := kwFast co total f.fast ks, vararg := f.vararg,
                kwdict := f.kwdict.map (· ++ kwExtra co total ks) }
        else .error .type := by
  intro ks
  induction ks with
  | nil =>
    intro f _ _ _
    cases f with
    | mk fast va kd => cases kd <;> simp [kwFast_nil, kwExtra, pure, Except.pure]
  | cons kv rest ih =>
    intro f hfl hnd hdict
    rw [List.foldlM_cons]
    rw [List.map_cons, List.nodup_cons] at hnd
    obtain ⟨hnin, hnd'⟩ := hnd
    have hne : ∀ kv' ∈ rest, kv'.1 ≠ kv.1 := by
      intro kv' hm e
      exact hnin (by rw [← e]; exact List.mem_map_of_mem hm)
    have hdict' : ∀ d, f.kwdict = some d → ∀ kv' ∈ rest, dictHas d kv'.1 = false :=
      fun d hd kv' hm => hdict d hd kv' (List.mem_cons_of_mem _ hm)
    by_cases hj : kwIdx co total kv.1 < total
    · -- kw_found
      have hjl : kwIdx co total kv.1 < f.fast.length := by omega
      cases hv : f.fast[kwIdx co total kv.1] with
      | some v =>
        have hget : f.fast[kwIdx co total kv.1]? = some (some v) := by
          rw [List.getElem?_eq_getElem hjl, hv]
        have hko : kwOk co total f kv = false := by simp [kwOk, hj, hget]
        have hstep : kwStep co total f kv = .error .type := by
          unfold kwIdx at hget hj; simp [kwStep, hj, hget]
        simp [hstep, hko, bind, Except.bind]
      | none =>
        have hget : f.fast[kwIdx co total kv.1]? = some none := by
          rw [List.getElem?_eq_getElem hjl, hv]
        have hko : kwOk co total f kv = true := by simp [kwOk, hj, hget]
        have hstep : kwStep co total f kv = .ok { f with fast := f.fast.set (kwIdx co total kv.1) (some kv.2) } := by
          unfold kwIdx at hget hj ⊢; simp [kwStep, hj, hget]
        rw [hstep]
        simp only [bind, Except.bind]
        rw [ih { fast := f.fast.set (kwIdx co total kv.1) (some kv.2), vararg := f.vararg, kwdict := f.kwdict }
          (by simp [hfl]) hnd' hdict']
        have hall : rest.all (kwOk co total { f with fast := f.fast.set (kwIdx co total kv.1) (some kv.2) })
                  = rest.all (kwOk co total f) := by
          apply all_congr_mem
          intro kv' hm
          have hd : kwIdx co total kv.1 ≠ kwIdx co total kv'.1 := fun e => hne kv' hm (kwIdx_inj hlen hj e).symm
          simp [kwOk, hd]
        have hex : kwExtra co total (kv :: rest) = kwExtra co total rest := by
          simp [kwExtra, hj]
        simp only [hall, List.all_cons, hko, Bool.true_and, kwFast_cons_found co total f.fast kv rest hget, hex]
    · -- not a parameter name
      cases hkd : f.kwdict with
      | none =>
        have hko : kwOk co total f kv = false := by simp [kwOk, hj, hkd]
        have hstep : kwStep co total f kv = .error .type := by
          unfold kwIdx at hj; simp [kwStep, hj, hkd]
        simp [hstep, hko, bind, Except.bind]
      | some d =>
        have hko : kwOk co total f kv = true := by simp [kwOk, hj, hkd]
        have hnh : dictHas d kv.1 = false := hdict d hkd kv List.mem_cons_self
        have hstep : kwStep co total f kv = .ok { f with kwdict := some (d ++ [(kv.1, kv.2)]) } := by
          unfold kwIdx at hj; simp [kwStep, hj, hkd, dictSet_of_not_has _ hnh]
        rw [hstep]
        simp only [bind, Except.bind]
        rw [ih _ (by simpa using hfl) hnd' (by
          intro d' hd' kv' hm
          simp only [Option.some.injEq] at hd'
          subst hd'
          rw [dictHas_append, hdict' d hkd kv' hm]
          have := hne kv' hm
          simp [Ne.symm this])]
        have hall : rest.all (kwOk co total { f with kwdict := some (d ++ [(kv.1, kv.2)]) })
                  = rest.all (kwOk co total f) := by
          apply all_congr_mem
          intro kv' _
          simp [kwOk, hkd]
        have hex : kwExtra co total (kv :: rest) = kv :: kwExtra co total rest := by
          simp [kwExtra, hj]
        simp only [hall, List.all_cons, hko, Bool.true_and, kwFast_cons_extra co total f.fast kv rest hfl hj, hex]
        simp


theorem names_length (s : Sig) : s.names.length = s.pos.length + s.kwonly.length := by
  simp [Sig.names, Sig.params]

theorem code_take (s : Sig) : s.code.varnames.take (s.pos.length + s.kwonly.length) = s.names := by
  have : s.code.varnames = s.names ++ (s.star.toList ++ s.dstar.toList) := by
    simp [Sig.code, Sig.names, Sig.params]
  rw [this, ← names_length, List.take_left']
  rfl

theorem kwIdx_code (s : Sig) (k : Name) :
    kwIdx s.code (s.pos.length + s.kwonly.length) k = s.names.idxOf k := by
  unfold kwIdx; rw [code_take]

theorem mapIdx_range_map {β γ} (t : Nat) (g : Nat → β) (h : Nat → β → γ) :
    ((List.range t).map g).mapIdx h = (List.range t).map (fun i => h i (g i)) := by
  apply List.ext_getElem?; intro i
  simp only [List.getElem?_mapIdx, List.getElem?_map]
  by_cases hi : i < t
  · simp [List.getElem?_range hi]
  · simp [List.getElem?_eq_none (l := List.range t) (i := i) (by simp; omega)]

theorem mapIdx_eq_range_map {α β} (l : List α) (d : α) (f : Nat → α → β) :
    l.mapIdx f = (List.range l.length).map (fun i => f i (l.getD i d)) := by
  apply List.ext_getElem?; intro i
  simp only [List.getElem?_mapIdx, List.getElem?_map]
  by_cases hi : i < l.length
  · simp [List.getElem?_range hi, List.getElem?_eq_getElem hi, List.getD_eq_getElem?_getD]
  · simp [List.getElem?_eq_none (l := List.range l.length) (i := i) (by simp; omega),
          List.getElem?_eq_none (l := l) (i := i) (by omega)]

theorem countNil_range_map (t : Nat) (g : Nat → Option Val) (lo hi : Nat) (hh : hi ≤ t) :
    countNil ((List.range t).map g) lo hi = 0 ↔ ∀ i, lo ≤ i → i < hi → g i ≠ none := by
  unfold countNil
  rw [List.length_eq_zero_iff, List.filter_eq_nil_iff]
  constructor
  · intro h i h1 h2 e
    have := h i (List.mem_range.mpr h2)
    apply this
    simp [h1, List.getElem?_range (show i < t by omega), e]
  · intro h i hm
    have h2 := List.mem_range.mp hm
    simp [List.getElem?_range (show i < t by omega)]
    intro h1
    exact h i h1 h2

theorem find_lookup (names : List Name) (hn : names.Nodup) (i : Nat) (hi : i < names.length) (ks : Dict) :
    (ks.find? (fun kv => names.idxOf kv.1 == i)).map (·.2) = ks.lookup names[i] := by
  induction ks with
  | nil => rfl
  | cons kv r ih =>
    obtain ⟨k, v⟩ := kv
    rw [List.find?_cons, List.lookup_cons]
    by_cases e : names[i] = k
    · have : names.idxOf k = i := by rw [← e]; exact hn.idxOf_getElem i hi
      simp [e, this]
    · have : names.idxOf k ≠ i := by
        intro h
        apply e
        have hl : names.idxOf k < names.length := by omega
        have := List.getElem_idxOf hl
        simp only [h] at this
        exact this
      have e1 : (names.idxOf k == i) = false := by simp [this]
      have e2 : (names[i] == k) = false := by simp [e]
      rw [e1, e2]; exact ih

theorem lookup_isSome_iff (ks : Dict) (nm : Name) : (ks.lookup nm).isSome = true ↔ ∃ kv ∈ ks, kv.1 = nm := by
  induction ks with
  | nil => simp
  | cons kv r ih =>
    obtain ⟨k, v⟩ := kv
    rw [List.lookup_cons]
    by_cases e : nm = k
    · simp [e]
    · have : (nm == k) = false := by simp [e]
      simp [this, ih]
      intro h; exact absurd h.symm e


theorem allSome_defaults (r : List Param) (h : r.all (·.dflt.isSome) = true) :
    (r.filterMap (·.dflt)).length = r.length ∧
    ∀ i (hi : i < r.length), r[i].dflt = (r.filterMap (·.dflt))[i]? := by
  induction r with
  | nil => simp
  | cons p r ih =>
    simp only [List.all_cons, Bool.and_eq_true] at h
    obtain ⟨hp, hr⟩ := h
    obtain ⟨v, hv⟩ := Option.isSome_iff_exists.mp hp
    obtain ⟨ih1, ih2⟩ := ih hr
    have hfm : (p :: r).filterMap (·.dflt) = v :: r.filterMap (·.dflt) := by
      simp [hv]
    rw [hfm]
    refine ⟨by simp [ih1], ?_⟩
    intro i hi
    cases i with
    | zero => simp [hv]
    | succ j => simpa using ih2 j (by simpa using hi)

theorem defaults_suffix (pos : List Param) (h : defaultsSuffix pos = true) (i : Nat) (hi : i < pos.length) :
    pos[i].dflt =
      if i < pos.length - (pos.filterMap (·.dflt)).length then none
      else (pos.filterMap (·.dflt))[i - (pos.length - (pos.filterMap (·.dflt)).length)]? := by
  induction pos generalizing i with
  | nil => simp at hi
  | cons p r ih =>
    simp only [defaultsSuffix, Bool.and_eq_true, Bool.or_eq_true] at h
    obtain ⟨hp, hr⟩ := h
    have hle := List.length_filterMap_le (fun p : Param => p.dflt) r
    cases hd : p.dflt with
    | none =>
      have hfm : (p :: r).filterMap (·.dflt) = r.filterMap (·.dflt) := by
        simp [hd]
      rw [hfm]
      cases i with
      | zero =>
        have : 0 < (p :: r).length - (r.filterMap (·.dflt)).length := by simp only [List.length_cons]; omega
        rw [if_pos this]; simpa using hd
      | succ j =>
        have hj : j < r.length := by simpa using hi
        have := ih hr j hj
        simp only [List.getElem_cons_succ, List.length_cons]
        rw [this]
        have e1 : (j + 1 < r.length + 1 - (r.filterMap (·.dflt)).length) ↔ (j < r.length - (r.filterMap (·.dflt)).length) := by omega
        have e2 : j + 1 - (r.length + 1 - (r.filterMap (·.dflt)).length) = j - (r.length - (r.filterMap (·.dflt)).length) := by omega
        simp only [e1, e2]
    | some v =>
      have hall : r.all (·.dflt.isSome) = true := by
        rcases hp with hp | hp
        · simp [hd] at hp
        · exact hp
      obtain ⟨a1, a2⟩ := allSome_defaults r hall
      have hfm : (p :: r).filterMap (·.dflt) = v :: r.filterMap (·.dflt) := by
        simp [hd]
      rw [hfm]
      simp only [List.length_cons, a1, Nat.sub_self, Nat.not_lt_zero, if_false, Nat.sub_zero]
      cases i with
      | zero => simp [hd]
      | succ j => simpa using a2 j (by simpa using hi)



/-- `kwdefs[name]` as `EvalCode` reads it -/
def kwdLookup (kwdefs : Option Dict) (nm : Name) : Option Val :=
  match kwdefs with | none => none | some d => d.lookup nm

/-- the function's `__kwdefaults__` agrees with the signature -/
def KwDefsOK (s : Sig) (kwdefs : Option Dict) : Prop := ∀ p ∈ s.kwonly, kwdLookup kwdefs p.name = p.dflt

def G1 (s : Sig) (args : List Val) (kws : Dict) (i : Nat) : Option Val :=
  if i < (if args.length > s.pos.length then s.pos.length else args.length) then args[i]? else kws.lookup (s.names.getD i "")

theorem fast1_eq (s : Sig) (hn : s.names.Nodup) (args : List Val) (kws : Dict) :
    kwFast s.code (s.pos.length + s.kwonly.length)
      ((List.range (s.pos.length + s.kwonly.length)).map fun i =>
        if i < (if args.length > s.pos.length then s.pos.length else args.length) then args[i]? else none) kws
    = (List.range (s.pos.length + s.kwonly.length)).map (G1 s args kws) := by
  unfold kwFast
  rw [mapIdx_range_map]
  apply List.map_congr_left
  intro i hi
  have hi := List.mem_range.mp hi
  have hil : i < s.names.length := by rw [names_length]; exact hi
  unfold G1
  by_cases h : i < (if args.length > s.pos.length then s.pos.length else args.length)
  · have hN : i < args.length := by split_ifs at h <;> omega
    simp [h, List.getElem?_eq_getElem hN]
  · simp only [h, if_false]
    have := find_lookup s.names hn i hil kws
    simp only [kwIdx_code]
    rw [this]
    simp [List.getD_eq_getElem?_getD, List.getElem?_eq_getElem hil]


def G2 (s : Sig) (args : List Val) (kws : Dict) (i : Nat) : Option Val :=
  let m := s.pos.length - s.defaults.length
  let n := if args.length > s.pos.length then s.pos.length else args.length
  if args.length < s.pos.length then
    (if m + (if n > m then n - m else 0) ≤ i ∧ i < m + s.defaults.length ∧ G1 s args kws i = none
      then s.defaults[i - m]? else G1 s args kws i)
  else G1 s args kws i

def G3 (s : Sig) (args : List Val) (kws : Dict) (kwdefs : Option Dict) (i : Nat) : Option Val :=
  if s.kwonly.length > 0 then
    (if s.pos.length ≤ i ∧ i < s.pos.length + s.kwonly.length ∧ G2 s args kws i = none
      then kwdLookup kwdefs (s.code.varnames.getD i "") else G2 s args kws i)
  else G2 s args kws i

def SV (s : Sig) (args : List Val) (kws : Dict) (i : Nat) : Option Val :=
  specSlot s.pos.length args kws i (s.params.getD i ⟨"", none⟩)

theorem params_getD_pos (s : Sig) (i : Nat) (hi : i < s.pos.length) (d : Param) : s.params.getD i d = s.pos[i] := by
  simp [Sig.params, List.getD_eq_getElem?_getD, List.getElem?_append, hi]

theorem params_getD_kw (s : Sig) (i : Nat) (h1 : s.pos.length ≤ i) (h2 : i < s.pos.length + s.kwonly.length) (d : Param) :
    s.params.getD i d = s.kwonly[i - s.pos.length]'(by omega) := by
  have : i - s.pos.length < s.kwonly.length := by omega
  simp [Sig.params, List.getD_eq_getElem?_getD, List.getElem?_append, Nat.not_lt.mpr h1, this]

theorem names_getD (s : Sig) (i : Nat) (hi : i < s.pos.length + s.kwonly.length) (d : Param) :
    s.names.getD i "" = (s.params.getD i d).name := by
  have hl : i < s.params.length := by simp [Sig.params]; exact hi
  simp [Sig.names, List.getD_eq_getElem?_getD, List.getElem?_eq_getElem hl]

theorem varnames_getD (s : Sig) (i : Nat) (hi : i < s.pos.length + s.kwonly.length) :
    s.code.varnames.getD i "" = s.names.getD i "" := by
  have hl : i < s.names.length := by rw [names_length]; exact hi
  have : s.code.varnames = s.names ++ (s.star.toList ++ s.dstar.toList) := by
    simp [Sig.code, Sig.names, Sig.params]
  simp [this, List.getD_eq_getElem?_getD, List.getElem?_append, hl]

theorem G3_eq_SV (s : Sig) (hs : s.WF) (args : List Val) (kws : Dict) (kwdefs : Option Dict)
    (hkd : KwDefsOK s kwdefs) (i : Nat) (hi : i < s.pos.length + s.kwonly.length) :
    G3 s args kws kwdefs i = SV s args kws i := by
  have hD : s.defaults.length ≤ s.pos.length := List.length_filterMap_le _ _
  by_cases hP : i < s.pos.length
  · -- a positional parameter
    have hg3 : G3 s args kws kwdefs i = G2 s args kws i := by
      unfold G3; split_ifs <;> first | rfl | omega
    rw [hg3]
    have hnm := names_getD s i hi ⟨"", none⟩
    rw [params_getD_pos s i hP] at hnm
    unfold SV specSlot
    rw [params_getD_pos s i hP]
    by_cases hN : i < args.length
    · have hg1 : G1 s args kws i = args[i]? := by
        unfold G1; split_ifs <;> first | rfl | omega
      have hne : args[i]? ≠ none := by simp [List.getElem?_eq_getElem hN]
      unfold G2
      simp only [hg1, hne, and_false, if_false]
      split_ifs <;> first | rfl | omega
    · have hNP : args.length < s.pos.length := by omega
      have hg1 : G1 s args kws i = kws.lookup s.pos[i].name := by
        unfold G1; rw [hnm]; split_ifs <;> first | rfl | omega
      have hdf := defaults_suffix s.pos hs.2 i hP
      unfold G2
      simp only [hg1, hNP, if_true]
      have hcond : ¬ (i < s.pos.length ∧ i < args.length) := by omega
      simp only [hcond, if_false]
      cases hl : kws.lookup s.pos[i].name with
      | some v => simp
      | none =>
        simp only [and_true]
        rw [hdf]
        unfold Sig.defaults
        split_ifs <;> first | rfl | omega
  · -- a keyword-only parameter
    have hP' : s.pos.length ≤ i := by omega
    have hK : s.kwonly.length > 0 := by omega
    have hnm := names_getD s i hi ⟨"", none⟩
    have hmem : s.params.getD i ⟨"", none⟩ ∈ s.kwonly := by
      rw [params_getD_kw s i hP' hi]; exact List.getElem_mem _
    have hg1 : G1 s args kws i = kws.lookup (s.params.getD i ⟨"", none⟩).name := by
      unfold G1; rw [hnm]; split_ifs <;> first | rfl | omega
    have hg2 : G2 s args kws i = G1 s args kws i := by
      have : ¬ (i < s.pos.length - s.defaults.length + s.defaults.length) := by omega
      unfold G2; simp only [this, false_and, and_false, if_false, ite_self]
    unfold G3 SV specSlot
    rw [varnames_getD s i hi, hnm, hkd _ hmem, hg2, hg1]
    have hcond : ¬ (i < s.pos.length ∧ i < args.length) := by omega
    simp only [hcond, if_false, hK, if_true, hP', hi, true_and]
    cases hl : kws.lookup (s.params.getD i ⟨"", none⟩).name <;> simp



/-- the frame before the keyword loop -/
def F0 (s : Sig) (args : List Val) : Frame :=
  { fast := (List.range (s.pos.length + s.kwonly.length)).map fun i =>
      if i < (if args.length > s.pos.length then s.pos.length else args.length) then args[i]? else none,
    vararg := if s.star.isSome then some (args.drop (if args.length > s.pos.length then s.pos.length else args.length)) else none,
    kwdict := if s.dstar.isSome then some [] else none }

theorem kwOk_F0 (s : Sig) (args : List Val) (kv : Name × Val) :
    kwOk s.code (s.pos.length + s.kwonly.length) (F0 s args) kv = true ↔
      (kv.1 ∈ s.names → (if args.length > s.pos.length then s.pos.length else args.length) ≤ s.names.idxOf kv.1)
      ∧ (kv.1 ∉ s.names → s.dstar.isSome = true) := by
  have hmem : s.names.idxOf kv.1 < s.pos.length + s.kwonly.length ↔ kv.1 ∈ s.names := by
    rw [← names_length]; exact List.idxOf_lt_length_iff
  unfold kwOk
  rw [kwIdx_code]
  by_cases h : s.names.idxOf kv.1 < s.pos.length + s.kwonly.length
  · have hm := hmem.mp h
    simp only [h, if_true, hm, not_true_eq_false, false_implies, and_true, true_implies]
    simp only [F0, List.getElem?_map, List.getElem?_range h, Option.map_some]
    by_cases h2 : s.names.idxOf kv.1 < (if args.length > s.pos.length then s.pos.length else args.length)
    · have hN : s.names.idxOf kv.1 < args.length := by split_ifs at h2 <;> omega
      simp [h2, List.getElem?_eq_getElem hN]
    · simp only [h2, if_false]
      constructor
      · intro _; omega
      · intro _; rfl
  · have hm : kv.1 ∉ s.names := fun x => h (hmem.mpr x)
    simp only [h, if_false, hm, false_implies, true_and, not_false_eq_true, true_implies]
    simp only [F0]
    cases s.dstar <;> simp

theorem names_getElem_pos (s : Sig) (j : Nat) (hj : j < s.pos.length) (hjn : j < s.names.length) :
    s.names[j] = s.pos[j].name := by
  simp [Sig.names, Sig.params, hj]

theorem E4_iff (s : Sig) (hn : s.names.Nodup) (args : List Val) (kws : Dict) :
    (s.pos.take args.length).any (fun p => (kws.lookup p.name).isSome) = true ↔
      ∃ kv ∈ kws, kv.1 ∈ s.names ∧
        s.names.idxOf kv.1 < (if args.length > s.pos.length then s.pos.length else args.length) := by
  rw [List.any_eq_true]
  constructor
  · rintro ⟨p, hp, hl⟩
    obtain ⟨kv, hkv, e⟩ := (lookup_isSome_iff kws p.name).mp hl
    obtain ⟨j, hj, hpj⟩ := List.mem_take_iff_getElem.mp hp
    have hjP : j < s.pos.length := by omega
    have hjn : j < s.names.length := by rw [names_length]; omega
    have hnm : s.names[j] = p.name := by
      rw [names_getElem_pos s j hjP hjn, hpj]
    have hidx : s.names.idxOf kv.1 = j := by
      rw [e, ← hnm]; exact hn.idxOf_getElem j hjn
    refine ⟨kv, hkv, ?_, ?_⟩
    · rw [e, ← hnm]; exact List.getElem_mem _
    · rw [hidx]; split_ifs <;> omega
  · rintro ⟨kv, hkv, hm, hlt⟩
    have hjP : s.names.idxOf kv.1 < s.pos.length := by split_ifs at hlt <;> omega
    have hjN : s.names.idxOf kv.1 < args.length := by split_ifs at hlt <;> omega
    have hjn : s.names.idxOf kv.1 < s.names.length := List.idxOf_lt_length_iff.mpr hm
    have hnm : s.names[s.names.idxOf kv.1] = kv.1 := List.getElem_idxOf hjn
    have hnm2 : s.names[s.names.idxOf kv.1] = s.pos[s.names.idxOf kv.1].name :=
      names_getElem_pos s _ hjP hjn
    refine ⟨s.pos[s.names.idxOf kv.1], ?_, ?_⟩
    · exact List.mem_take_iff_getElem.mpr ⟨_, by omega, rfl⟩
    · rw [lookup_isSome_iff]; exact ⟨kv, hkv, by rw [← hnm2, hnm]⟩

theorem E3_iff (s : Sig) (kws : Dict) :
    kws.any (fun kv => !s.names.contains kv.1) = true ↔ ∃ kv ∈ kws, kv.1 ∉ s.names := by
  rw [List.any_eq_true]
  constructor
  · rintro ⟨kv, h1, h2⟩; exact ⟨kv, h1, by simpa using h2⟩
  · rintro ⟨kv, h1, h2⟩; exact ⟨kv, h1, by simpa using h2⟩

/-- the keyword loop succeeds iff the spec sees no unexpected keyword and no double assignment -/
theorem allOk_iff (s : Sig) (hn : s.names.Nodup) (args : List Val) (kws : Dict) :
    kws.all (kwOk s.code (s.pos.length + s.kwonly.length) (F0 s args)) = true ↔
      ¬ (kws.any (fun kv => !s.names.contains kv.1) = true ∧ s.dstar.isNone = true) ∧
      ¬ ((s.pos.take args.length).any (fun p => (kws.lookup p.name).isSome) = true) := by
  rw [List.all_eq_true, E3_iff, E4_iff s hn]
  constructor
  · intro h
    constructor
    · rintro ⟨⟨kv, h1, h2⟩, h3⟩
      have := ((kwOk_F0 s args kv).mp (h kv h1)).2 h2
      cases hd : s.dstar <;> simp [hd] at this h3
    · rintro ⟨kv, h1, h2, h3⟩
      have := ((kwOk_F0 s args kv).mp (h kv h1)).1 h2
      omega
  · rintro ⟨h3, h4⟩ kv hkv
    rw [kwOk_F0]
    constructor
    · intro hm
      apply Nat.le_of_not_lt
      intro hlt
      exact h4 ⟨kv, hkv, hm, hlt⟩
    · intro hm
      cases hd : s.dstar with
      | some _ => rfl
      | none => exact absurd ⟨⟨kv, hkv, hm⟩, by simp [hd]⟩ h3



theorem countNil_ne_zero (t : Nat) (g : Nat → Option Val) (lo hi : Nat) (hh : hi ≤ t) :
    countNil ((List.range t).map g) lo hi ≠ 0 ↔ ∃ i, lo ≤ i ∧ i < hi ∧ g i = none := by
  unfold countNil
  rw [← Nat.pos_iff_ne_zero, List.length_pos_iff_exists_mem]
  constructor
  · rintro ⟨i, hm⟩
    obtain ⟨h1, h2⟩ := List.mem_filter.mp hm
    have h1 := List.mem_range.mp h1
    simp [List.getElem?_range (show i < t by omega)] at h2
    exact ⟨i, h2.1, h1, h2.2⟩
  · rintro ⟨i, h1, h2, h3⟩
    refine ⟨i, List.mem_filter.mpr ⟨List.mem_range.mpr h2, ?_⟩⟩
    simp [List.getElem?_range (show i < t by omega), h1, h3]

theorem params_length (s : Sig) : s.params.length = s.pos.length + s.kwonly.length := by
  simp [Sig.params]

theorem vals_eq (s : Sig) (args : List Val) (kws : Dict) :
    s.params.mapIdx (fun i p => specSlot s.pos.length args kws i p)
      = (List.range (s.pos.length + s.kwonly.length)).map (SV s args kws) := by
  rw [mapIdx_eq_range_map s.params ⟨"", none⟩, params_length]; rfl

theorem G3_pos_none (s : Sig) (args : List Val) (kws : Dict) (kwdefs : Option Dict) (i : Nat)
    (h1 : args.length ≤ i) (h2 : i < s.pos.length - s.defaults.length) (h3 : G1 s args kws i = none) :
    G3 s args kws kwdefs i = none := by
  have hc : ¬ (s.pos.length ≤ i) := by omega
  have hc2 : ∀ x, ¬ (s.pos.length - s.defaults.length + x ≤ i) := by intro x; omega
  unfold G3 G2
  simp only [hc, hc2, false_and, if_false, ite_self, h3]

theorem G3_pos_inv (s : Sig) (args : List Val) (kws : Dict) (kwdefs : Option Dict) (i : Nat)
    (hP : i < s.pos.length) (h : G3 s args kws kwdefs i = none) :
    args.length ≤ i ∧ i < s.pos.length - s.defaults.length ∧ G1 s args kws i = none := by
  have hD : s.defaults.length ≤ s.pos.length := List.length_filterMap_le _ _
  have hc : ¬ (s.pos.length ≤ i) := by omega
  have hg3 : G3 s args kws kwdefs i = G2 s args kws i := by
    unfold G3; simp only [hc, false_and, if_false, ite_self]
  rw [hg3] at h
  have hg1 : G1 s args kws i = none := by
    cases hx : G1 s args kws i with
    | none => rfl
    | some v =>
      unfold G2 at h
      simp only [hx] at h
      simp at h
  have hN : args.length ≤ i := by
    apply Nat.le_of_not_lt
    intro hlt
    unfold G1 at hg1
    have : i < (if args.length > s.pos.length then s.pos.length else args.length) := by split_ifs <;> omega
    simp [this, List.getElem?_eq_getElem hlt] at hg1
  refine ⟨hN, ?_, hg1⟩
  apply Nat.lt_of_not_le
  intro hm
  unfold G2 at h
  have hNP : args.length < s.pos.length := by omega
  have hlt : i - (s.pos.length - s.defaults.length) < s.defaults.length := by omega
  have hcond : (s.pos.length - s.defaults.length +
      (if (if args.length > s.pos.length then s.pos.length else args.length) > s.pos.length - s.defaults.length
        then (if args.length > s.pos.length then s.pos.length else args.length) - (s.pos.length - s.defaults.length) else 0) ≤ i
      ∧ i < s.pos.length - s.defaults.length + s.defaults.length ∧ G1 s args kws i = none) := by
    refine ⟨?_, by omega, hg1⟩
    split_ifs <;> omega
  simp only [hNP, if_true, hcond, and_self] at h
  simp [List.getElem?_eq_getElem hlt] at h

theorem missing_iff (s : Sig) (hs : s.WF) (args : List Val) (kws : Dict) (kwdefs : Option Dict)
    (hkd : KwDefsOK s kwdefs) :
    ((args.length < s.pos.length ∧
        countNil ((List.range (s.pos.length + s.kwonly.length)).map (G1 s args kws)) args.length
          (s.pos.length - s.defaults.length) ≠ 0)
      ∨ (s.kwonly.length > 0 ∧
        countNil ((List.range (s.pos.length + s.kwonly.length)).map (G3 s args kws kwdefs)) s.pos.length
          (s.pos.length + s.kwonly.length) ≠ 0))
    ↔ (s.params.mapIdx (fun i p => specSlot s.pos.length args kws i p)).any (·.isNone) = true := by
  rw [vals_eq, countNil_ne_zero _ _ _ _ (by omega), countNil_ne_zero _ _ _ _ (Nat.le_refl _), List.any_eq_true]
  constructor
  · rintro (⟨_, i, h1, h2, h3⟩ | ⟨_, i, h1, h2, h3⟩)
    · have hi : i < s.pos.length + s.kwonly.length := by omega
      refine ⟨SV s args kws i, List.mem_map.mpr ⟨i, List.mem_range.mpr hi, rfl⟩, ?_⟩
      rw [← G3_eq_SV s hs args kws kwdefs hkd i hi, G3_pos_none s args kws kwdefs i h1 h2 h3]; rfl
    · refine ⟨SV s args kws i, List.mem_map.mpr ⟨i, List.mem_range.mpr h2, rfl⟩, ?_⟩
      rw [← G3_eq_SV s hs args kws kwdefs hkd i h2, h3]; rfl
  · rintro ⟨o, hm, ho⟩
    obtain ⟨i, hi, rfl⟩ := List.mem_map.mp hm
    have hi := List.mem_range.mp hi
    have hnone : G3 s args kws kwdefs i = none := by
      rw [G3_eq_SV s hs args kws kwdefs hkd i hi]
      cases hx : SV s args kws i with
      | none => rfl
      | some v => simp [hx] at ho
    by_cases hP : i < s.pos.length
    · obtain ⟨a, b, c⟩ := G3_pos_inv s args kws kwdefs i hP hnone
      exact Or.inl ⟨by omega, i, a, b, c⟩
    · exact Or.inr ⟨by omega, i, by omega, hi, hnone⟩



theorem ite_range_map {β} (c : Prop) [Decidable c] (t : Nat) (a b : Nat → β) :
    (if c then (List.range t).map a else (List.range t).map b) = (List.range t).map (fun i => if c then a i else b i) := by
  by_cases h : c <;> simp [h]

theorem evalCodeBind_nf (s : Sig) (hn : s.names.Nodup) (args : List Val) (kws : Dict)
    (hk : (kws.map (·.1)).Nodup) (kwdefs : Option Dict) :
    evalCodeBind s.code args kws s.defaults kwdefs =
      if kws.all (kwOk s.code (s.pos.length + s.kwonly.length) (F0 s args)) = true then
        if args.length > s.pos.length ∧ s.star.isSome = false then .error .type
        else if args.length < s.pos.length ∧
            countNil ((List.range (s.pos.length + s.kwonly.length)).map (G1 s args kws)) args.length
              (s.pos.length - s.defaults.length) ≠ 0 then .error .type
        else if s.kwonly.length > 0 ∧
            countNil ((List.range (s.pos.length + s.kwonly.length)).map (G3 s args kws kwdefs)) s.pos.length
              (s.pos.length + s.kwonly.length) ≠ 0 then .error .type
        else .ok { fast := (List.range (s.pos.length + s.kwonly.length)).map (G3 s args kws kwdefs),
                   vararg := (F0 s args).vararg,
                   kwdict := (F0 s args).kwdict.map (· ++ kwExtra s.code (s.pos.length + s.kwonly.length) kws) }
      else .error .type := by
  have hD : s.defaults.length ≤ s.pos.length := List.length_filterMap_le _ _
  have hvl : s.pos.length + s.kwonly.length ≤ s.code.varnames.length := by
    simp [Sig.code]
  unfold evalCodeBind
  have hguard : ¬ (s.defaults.length > s.code.argcount ∨ s.code.varnames.length < s.code.argcount + s.code.kwonlyargcount) := by
    simp only [Sig.code] at hvl ⊢; omega
  simp only [hguard, if_false]
  have hfold := kwFold_closed s.code (s.pos.length + s.kwonly.length) hvl kws (F0 s args) (by simp [F0]) hk
    (by
      intro d hd kv _
      simp only [F0] at hd
      cases hds : s.dstar <;> simp [hds] at hd
      subst hd; rfl)
  have hco1 : s.code.argcount = s.pos.length := rfl
  have hco2 : s.code.kwonlyargcount = s.kwonly.length := rfl
  have hco3 : s.code.varargs = s.star.isSome := rfl
  have hco4 : s.code.varkeywords = s.dstar.isSome := rfl
  simp only [hco1, hco2, hco3, hco4]
  have hF0 : ({ fast := (List.range (s.pos.length + s.kwonly.length)).map fun i =>
                  if i < (if args.length > s.pos.length then s.pos.length else args.length) then args[i]? else none,
                vararg := if s.star.isSome = true then some (args.drop (if args.length > s.pos.length then s.pos.length else args.length)) else none,
                kwdict := if s.dstar.isSome = true then some [] else none } : Frame) = F0 s args := rfl
  rw [hF0, hfold]
  by_cases hall : kws.all (kwOk s.code (s.pos.length + s.kwonly.length) (F0 s args)) = true
  · simp only [hall, if_true]
    have hf1 : kwFast s.code (s.pos.length + s.kwonly.length) (F0 s args).fast kws
        = (List.range (s.pos.length + s.kwonly.length)).map (G1 s args kws) := fast1_eq s hn args kws
    simp only [hf1]
    have hf2 : (if args.length < s.pos.length then
          fillDefaults ((List.range (s.pos.length + s.kwonly.length)).map (G1 s args kws))
            (s.pos.length - s.defaults.length)
            (if (if args.length > s.pos.length then s.pos.length else args.length) > s.pos.length - s.defaults.length
              then (if args.length > s.pos.length then s.pos.length else args.length) - (s.pos.length - s.defaults.length) else 0)
            s.defaults
        else (List.range (s.pos.length + s.kwonly.length)).map (G1 s args kws))
        = (List.range (s.pos.length + s.kwonly.length)).map (G2 s args kws) := by
      unfold fillDefaults
      rw [mapIdx_range_map, ite_range_map]
      rfl
    simp only [hf2]
    have hf3 : (if s.kwonly.length > 0 then
          fillKwDefaults s.code (s.pos.length + s.kwonly.length)
            ((List.range (s.pos.length + s.kwonly.length)).map (G2 s args kws)) kwdefs
        else (List.range (s.pos.length + s.kwonly.length)).map (G2 s args kws))
        = (List.range (s.pos.length + s.kwonly.length)).map (G3 s args kws kwdefs) := by
      unfold fillKwDefaults
      rw [mapIdx_range_map, ite_range_map]
      rfl
    simp only [hf3]
  · simp only [hall]
    rfl


theorem filterMap_id_map_some (l : List (Option Val)) (h : l.any (·.isNone) = false) :
    (l.filterMap id).map some = l := by
  induction l with
  | nil => rfl
  | cons o r ih =>
    simp only [List.any_cons, Bool.or_eq_false_iff] at h
    cases o with
    | none => simp at h
    | some v => simp [ih h.2]

theorem bind_main (s : Sig) (hs : s.WF) (args : List Val) (kws : Dict) (hk : (kws.map (·.1)).Nodup)
    (kwdefs : Option Dict) (hkd : KwDefsOK s kwdefs) :
    evalCodeBind s.code args kws s.defaults kwdefs =
      match specBind s args kws with
      | none => .error .type
      | some b => .ok { fast := b.params.map some, vararg := b.star, kwdict := b.dstar } := by
  rw [evalCodeBind_nf s hs.1 args kws hk kwdefs]
  have hok := allOk_iff s hs.1 args kws
  have hmiss := missing_iff s hs args kws kwdefs hkd
  unfold specBind
  by_cases hall : kws.all (kwOk s.code (s.pos.length + s.kwonly.length) (F0 s args)) = true
  · obtain ⟨h3, h4⟩ := hok.mp hall
    simp only [hall, if_true]
    by_cases h2 : args.length > s.pos.length ∧ s.star.isSome = false
    · have h2' : args.length > s.pos.length ∧ s.star.isNone = true := by
        refine ⟨h2.1, ?_⟩; cases hst : s.star <;> simp [hst] at h2 ⊢
      simp only [h2, h2', and_self, if_true]
    · have h2' : ¬ (args.length > s.pos.length ∧ s.star.isNone = true) := by
        intro ⟨a, b⟩; apply h2; refine ⟨a, ?_⟩; cases hst : s.star <;> simp [hst] at b ⊢
      rw [if_neg h2, if_neg h2', if_neg h3, if_neg h4]
      by_cases hm : (s.params.mapIdx (fun i p => specSlot s.pos.length args kws i p)).any (·.isNone) = true
      · rw [if_pos hm]
        show _ = Except.error Err.type
        rcases hmiss.mpr hm with h | h
        · rw [if_pos h]
        · by_cases h1 : args.length < s.pos.length ∧
              countNil ((List.range (s.pos.length + s.kwonly.length)).map (G1 s args kws)) args.length
                (s.pos.length - s.defaults.length) ≠ 0
          · rw [if_pos h1]
          · rw [if_neg h1, if_pos h]
      · have hm1 := fun h => hm (hmiss.mp (Or.inl h))
        have hm2 := fun h => hm (hmiss.mp (Or.inr h))
        rw [if_neg hm1, if_neg hm2, if_neg hm]
        have hvals : (List.range (s.pos.length + s.kwonly.length)).map (G3 s args kws kwdefs)
            = s.params.mapIdx (fun i p => specSlot s.pos.length args kws i p) := by
          rw [vals_eq]
          apply List.map_congr_left
          intro i hi
          exact G3_eq_SV s hs args kws kwdefs hkd i (List.mem_range.mp hi)
        show Except.ok _ = Except.ok _
        rw [hvals]
        have hm' : (s.params.mapIdx (fun i p => specSlot s.pos.length args kws i p)).any (·.isNone) = false := by
          cases hx : (s.params.mapIdx (fun i p => specSlot s.pos.length args kws i p)).any (·.isNone) with
          | false => rfl
          | true => exact absurd hx hm
        rw [filterMap_id_map_some _ hm']
        congr 2
        · -- *args
          simp only [F0]
          cases hst : s.star with
          | none => simp
          | some _ =>
            simp only [Option.isSome_some, if_true]
            congr 1
            by_cases hN : args.length > s.pos.length
            · simp [hN]
            · simp only [hN, if_false]
              rw [List.drop_eq_nil_of_le (Nat.le_refl _), List.drop_eq_nil_of_le (by omega)]
        · -- **kwargs
          simp only [F0]
          cases hds : s.dstar with
          | none => simp
          | some _ =>
            simp only [Option.isSome_some, if_true, Option.map_some, List.nil_append]
            congr 1
            unfold kwExtra
            apply List.filter_congr
            intro kv _
            rw [kwIdx_code, ← names_length]
            by_cases hmem : kv.1 ∈ s.names
            · simp [hmem, List.idxOf_lt_length_iff.mpr hmem]
            · have : ¬ (s.names.idxOf kv.1 < s.names.length) := fun h => hmem (List.idxOf_lt_length_iff.mp h)
              simp [hmem, this]
  · simp only [hall]
    have : ¬ (¬ (kws.any (fun kv => !s.names.contains kv.1) = true ∧ s.dstar.isNone = true) ∧
      ¬ ((s.pos.take args.length).any (fun p => (kws.lookup p.name).isSome) = true)) := fun h => hall (hok.mpr h)
    by_cases h2' : args.length > s.pos.length ∧ s.star.isNone = true
    · simp only [h2', and_self, if_true]; rfl
    · simp only [h2', if_false]
      by_cases h3 : kws.any (fun kv => !s.names.contains kv.1) = true ∧ s.dstar.isNone = true
      · simp only [h3, and_self, if_true]; rfl
      · simp only [h3, if_false]
        by_cases h4 : (s.pos.take args.length).any (fun p => (kws.lookup p.name).isSome) = true
        · simp only [h4, if_true]; rfl
        · exact absurd ⟨h3, h4⟩ this



theorem lookup_eq_some_iff (l : Dict) (hn : (l.map (·.1)).Nodup) (k : Name) (v : Val) :
    l.lookup k = some v ↔ (k, v) ∈ l := by
  induction l with
  | nil => simp
  | cons kv r ih =>
    obtain ⟨k', v'⟩ := kv
    rw [List.map_cons, List.nodup_cons] at hn
    rw [List.lookup_cons]
    by_cases e : k = k'
    · subst e
      simp only [beq_self_eq_true, Option.some.injEq, List.mem_cons, Prod.mk.injEq, true_and]
      constructor
      · intro h; exact Or.inl h.symm
      · rintro (h | h)
        · exact h.symm
        · exact absurd (List.mem_map_of_mem (f := (·.1)) h) hn.1
    · have : (k == k') = false := by simp [e]
      simp only [this, List.mem_cons, Prod.mk.injEq, e, false_and, false_or]
      exact ih hn.2

theorem lookup_perm {l1 l2 : Dict} (hp : l1.Perm l2) (hn : (l1.map (·.1)).Nodup) (k : Name) :
    l1.lookup k = l2.lookup k := by
  have hn2 : (l2.map (·.1)).Nodup := (hp.map _).nodup_iff.mp hn
  cases h1 : l1.lookup k with
  | some v =>
    have := (lookup_eq_some_iff l1 hn k v).mp h1
    exact ((lookup_eq_some_iff l2 hn2 k v).mpr (hp.mem_iff.mp this)).symm
  | none =>
    cases h2 : l2.lookup k with
    | none => rfl
    | some v =>
      have := (lookup_eq_some_iff l2 hn2 k v).mp h2
      have := (lookup_eq_some_iff l1 hn k v).mpr (hp.mem_iff.mpr this)
      rw [h1] at this; cases this

/-- two bindings that differ at most in the order the `**` dict lists its items -/
def Binding.Equiv (b1 b2 : Binding) : Prop :=
  b1.params = b2.params ∧ b1.star = b2.star ∧
    match b1.dstar, b2.dstar with
    | some d1, some d2 => d1.Perm d2
    | none, none => True
    | _, _ => False

theorem specBind_perm (s : Sig) (args : List Val) {kws1 kws2 : Dict} (hp : kws1.Perm kws2)
    (hn : (kws1.map (·.1)).Nodup) :
    match specBind s args kws1, specBind s args kws2 with
    | some b1, some b2 => b1.Equiv b2
    | none, none => True
    | _, _ => False := by
  have hl : ∀ k, kws1.lookup k = kws2.lookup k := lookup_perm hp hn
  have h3 : kws1.any (fun kv => !s.names.contains kv.1) = kws2.any (fun kv => !s.names.contains kv.1) := hp.any_eq
  have hv : s.params.mapIdx (fun i p => specSlot s.pos.length args kws1 i p)
          = s.params.mapIdx (fun i p => specSlot s.pos.length args kws2 i p) := by
    simp only [specSlot, hl]
  unfold specBind
  simp only [hl, h3, hv]
  split_ifs
  all_goals first
    | trivial
    | exact ⟨rfl, rfl, hp.filter _⟩



theorem argc_decode (a k : Nat) (ha : a < 256) (hk : k < 256) :
    (callHelperArgc 0 a k) &&& 0xFF = a ∧ ((callHelperArgc 0 a k) >>> 8) &&& 0xFF = k := by
  unfold callHelperArgc
  have e1 : ∀ x : Nat, x &&& 0xFF = x % 256 := fun x => Nat.and_two_pow_sub_one_eq_mod x 8
  rw [e1, e1, Nat.shiftRight_eq_div_pow, Nat.shiftLeft_eq]
  omega

theorem mf_decode (d k n : Nat) (hd : d < 256) (hk : k < 256) (hn : n < 32768) :
    let argc := (d + (k <<< 8) + (n <<< 16)) % 2 ^ 32
    argc &&& 0xff = d ∧ (argc >>> 8) &&& 0xff = k ∧ (argc >>> 16) &&& 0x7fff = n := by
  intro argc
  have e1 : ∀ x : Nat, x &&& 0xff = x % 256 := fun x => Nat.and_two_pow_sub_one_eq_mod x 8
  have e2 : ∀ x : Nat, x &&& 0x7fff = x % 32768 := fun x => Nat.and_two_pow_sub_one_eq_mod x 15
  simp only [argc]
  rw [e1, e1, e2, Nat.shiftRight_eq_div_pow, Nat.shiftRight_eq_div_pow, Nat.shiftLeft_eq, Nat.shiftLeft_eq]
  omega

theorem itemsToVals_map (l : List Val) : itemsToVals (l.map Item.val) = some l := by
  induction l with
  | nil => rfl
  | cons v r ih => simp [itemsToVals, ih]

theorem flat_length (kws : Dict) : (kws.flatMap (fun kv => [Item.str kv.1, Item.val kv.2])).length = 2 * kws.length := by
  induction kws with
  | nil => rfl
  | cons kv r ih => simp [List.flatMap_cons, ih]; omega

theorem slice_roundtrip (rest : List Item) (fn : Item) (args : List Val) (kws : Dict)
    (ha : args.length < 256) (hk : kws.length < 256) :
    vmCallSlice (callHelperArgc 0 args.length kws.length) (rest ++ [fn] ++ callHelperPush args kws)
      = some { rest := rest, fn := fn, args := args.map Item.val,
               kwargsTuple := kws.flatMap (fun kv => [Item.str kv.1, Item.val kv.2]) } := by
  obtain ⟨d1, d2⟩ := argc_decode args.length kws.length ha hk
  have hsplit : rest ++ [fn] ++ callHelperPush args kws
      = (rest ++ ([fn] ++ args.map Item.val)) ++ kws.flatMap (fun kv => [Item.str kv.1, Item.val kv.2]) := by
    simp only [callHelperPush, List.append_assoc]
  have hl1 : (rest ++ ([fn] ++ args.map Item.val)).length = rest.length + 1 + args.length := by
    simp only [List.length_append, List.length_map, List.length_cons, List.length_nil]; omega
  have hlen : (rest ++ [fn] ++ callHelperPush args kws).length = rest.length + 1 + args.length + 2 * kws.length := by
    rw [hsplit, List.length_append, hl1, flat_length]
  have hnot : ¬ ((rest ++ [fn] ++ callHelperPush args kws).length < 2 * kws.length + args.length + 1) := by omega
  unfold vmCallSlice
  simp only [d1, d2]
  rw [if_neg hnot]
  simp only [hlen]
  have e1 : rest.length + 1 + args.length + 2 * kws.length - 2 * kws.length = rest.length + 1 + args.length := by omega
  have e2 : rest.length + 1 + args.length - args.length = rest.length + 1 := by omega
  have e3 : rest.length + 1 - 1 = rest.length := by omega
  simp only [e1, e2, e3]
  have t1 : (rest ++ [fn] ++ callHelperPush args kws).take (rest.length + 1 + args.length)
      = rest ++ ([fn] ++ args.map Item.val) := by
    rw [hsplit, ← hl1, List.take_left']; rfl
  have t2 : (rest ++ [fn] ++ callHelperPush args kws).drop (rest.length + 1 + args.length)
      = kws.flatMap (fun kv => [Item.str kv.1, Item.val kv.2]) := by
    rw [hsplit, ← hl1, List.drop_left']; rfl
  have t3 : (rest ++ [fn] ++ callHelperPush args kws).take rest.length = rest := by
    rw [List.append_assoc, List.take_left']; rfl
  have t4 : (rest ++ [fn] ++ callHelperPush args kws).getD rest.length Item.code = fn := by
    rw [List.append_assoc, List.getD_eq_getElem?_getD, List.getElem?_append_right (Nat.le_refl _)]
    simp
  have t5 : (rest ++ ([fn] ++ args.map Item.val)).drop (rest.length + 1) = args.map Item.val := by
    rw [← List.append_assoc]
    have : (rest ++ [fn]).length = rest.length + 1 := by simp
    rw [← this, List.drop_left']; rfl
  rw [t1, t2, t3, t4, t5]

theorem kwTuple_roundtrip (kws : Dict) : ∀ d : Dict,
    kwTupleToDict (kws.flatMap (fun kv => [Item.str kv.1, Item.val kv.2])) d =
      if (∀ kv ∈ kws, dictHas d kv.1 = false) ∧ (kws.map (·.1)).Nodup then .ok (d ++ kws) else .error .type := by
  induction kws with
  | nil => intro d; simp [kwTupleToDict]
  | cons kv r ih =>
    intro d
    simp only [List.flatMap_cons, List.cons_append, List.nil_append, kwTupleToDict]
    by_cases h : dictHas d kv.1 = true
    · have : ¬ ((∀ kv' ∈ kv :: r, dictHas d kv'.1 = false) ∧ ((kv :: r).map (·.1)).Nodup) := by
        intro ⟨a, _⟩; have := a kv List.mem_cons_self; rw [h] at this; cases this
      simp only [h, if_true, this, if_false]
    · have h' : dictHas d kv.1 = false := by cases hx : dictHas d kv.1 <;> simp_all
      simp only [h', Bool.false_eq_true, if_false]
      rw [ih]
      have hiff : ((∀ kv' ∈ r, dictHas (d ++ [(kv.1, kv.2)]) kv'.1 = false) ∧ (r.map (·.1)).Nodup) ↔
          ((∀ kv' ∈ kv :: r, dictHas d kv'.1 = false) ∧ ((kv :: r).map (·.1)).Nodup) := by
        rw [List.map_cons, List.nodup_cons]
        constructor
        · rintro ⟨a, b⟩
          refine ⟨?_, ?_, b⟩
          · intro kv' hm
            rcases List.mem_cons.mp hm with e | e
            · rw [e]; exact h'
            · have := a kv' e; rw [dictHas_append] at this; simp at this; exact this.1
          · intro hm
            obtain ⟨kv', hm', e⟩ := List.mem_map.mp hm
            have := a kv' hm'; rw [dictHas_append] at this; simp at this
            exact this.2 e.symm
        · rintro ⟨a, b, c⟩
          refine ⟨?_, c⟩
          intro kv' hm
          rw [dictHas_append, a kv' (List.mem_cons_of_mem _ hm)]
          have : kv.1 ≠ kv'.1 := fun e => b (by rw [e]; exact List.mem_map_of_mem hm)
          simp [this]
      by_cases hc : (∀ kv' ∈ kv :: r, dictHas d kv'.1 = false) ∧ ((kv :: r).map (·.1)).Nodup
      · rw [if_pos (hiff.mpr hc), if_pos hc]; simp
      · rw [if_neg (fun x => hc (hiff.mp x)), if_neg hc]



theorem mergeStarKw_closed (d : Dict) : ∀ kwargs : Dict,
    mergeStarKw kwargs d =
      if (∀ kv ∈ d, dictHas kwargs kv.1 = false) ∧ (d.map (·.1)).Nodup then .ok (kwargs ++ d) else .error .type := by
  induction d with
  | nil => intro kwargs; simp [mergeStarKw]
  | cons kv r ih =>
    intro kwargs
    obtain ⟨k, v⟩ := kv
    simp only [mergeStarKw]
    by_cases h : dictHas kwargs k = true
    · have : ¬ ((∀ kv' ∈ (k, v) :: r, dictHas kwargs kv'.1 = false) ∧ (((k, v) :: r).map (·.1)).Nodup) := by
        intro ⟨a, _⟩; have := a (k, v) List.mem_cons_self; simp only [h] at this; cases this
      simp only [h, if_true, this, if_false]
    · have h' : dictHas kwargs k = false := by cases hx : dictHas kwargs k <;> simp_all
      simp only [h', Bool.false_eq_true, if_false]
      rw [ih]
      have hiff : ((∀ kv' ∈ r, dictHas (kwargs ++ [(k, v)]) kv'.1 = false) ∧ (r.map (·.1)).Nodup) ↔
          ((∀ kv' ∈ (k, v) :: r, dictHas kwargs kv'.1 = false) ∧ (((k, v) :: r).map (·.1)).Nodup) := by
        rw [List.map_cons, List.nodup_cons]
        constructor
        · rintro ⟨a, b⟩
          refine ⟨?_, ?_, b⟩
          · intro kv' hm
            rcases List.mem_cons.mp hm with e | e
            · rw [e]; exact h'
            · have := a kv' e; rw [dictHas_append] at this; simp at this; exact this.1
          · intro hm
            obtain ⟨kv', hm', e⟩ := List.mem_map.mp hm
            have := a kv' hm'; rw [dictHas_append] at this; simp at this
            exact this.2 e.symm
        · rintro ⟨a, b, c⟩
          refine ⟨?_, c⟩
          intro kv' hm
          rw [dictHas_append, a kv' (List.mem_cons_of_mem _ hm)]
          have : k ≠ kv'.1 := fun e => b (List.mem_map.mpr ⟨kv', hm, e.symm⟩)
          simp [this]
      by_cases hc : (∀ kv' ∈ (k, v) :: r, dictHas kwargs kv'.1 = false) ∧ (((k, v) :: r).map (·.1)).Nodup
      · rw [if_pos (hiff.mpr hc), if_pos hc]; simp
      · rw [if_neg (fun x => hc (hiff.mp x)), if_neg hc]

theorem dictHas_false_iff (d : Dict) (k : Name) : dictHas d k = false ↔ k ∉ d.map (·.1) := by
  simp [dictHas]
  constructor
  · intro h x hx; exact h k x hx rfl
  · intro h a b hm e; subst e; exact h b hm

theorem nodup_append_keys (a b : Dict) :
    ((a ++ b).map (·.1)).Nodup ↔
      (a.map (·.1)).Nodup ∧ (∀ kv ∈ b, dictHas a kv.1 = false) ∧ (b.map (·.1)).Nodup := by
  rw [List.map_append, List.nodup_append]
  constructor
  · rintro ⟨h1, h2, h3⟩
    refine ⟨h1, ?_, h2⟩
    intro kv hm
    rw [dictHas_false_iff]
    intro hk
    exact h3 _ hk _ (List.mem_map_of_mem hm) rfl
  · rintro ⟨h1, h2, h3⟩
    refine ⟨h1, h3, ?_⟩
    intro x hx y hy e
    obtain ⟨kv, hm, rfl⟩ := List.mem_map.mp hy
    have := (dictHas_false_iff a kv.1).mp (h2 kv hm)
    exact this (e ▸ hx)


end GPy.C04
