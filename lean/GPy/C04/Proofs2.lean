/-
C04 proofs, second round: stack-level MAKE_FUNCTION round trip (discharges `KwDefsOK`), assembly of
`Vm.Call`'s `*`/`**` merge, end-to-end composition `defAndCall ⊑ specCall`, the multiset equation.
-/
import GPy.C04.Proofs
namespace GPy.C04

/-- `(key, value)` pairs as the compiler pushes them -/
def flatPairs (d : Dict) : List Item := d.flatMap (fun kv => [Item.str kv.1, Item.val kv.2])

/-- the dict `_make_function` builds by popping pairs/values that were pushed in the order `pairs`
(the pair on top of the stack – the LAST one pushed – is stored first) -/
def dictFromTop (pairs : Dict) (d : Dict) : Dict :=
  pairs.reverse.foldl (fun acc kv => dictSet acc kv.1 kv.2) d

theorem flatPairs_append (a b : Dict) : flatPairs (a ++ b) = flatPairs a ++ flatPairs b := by
  simp [flatPairs]

theorem popKw_rev (rp : Dict) : ∀ (st : List Item) (d : Dict),
    popKwDefaults rp.length (st ++ flatPairs rp.reverse) d
      = some (rp.foldl (fun acc kv => dictSet acc kv.1 kv.2) d, st) := by
  induction rp with
  | nil => intro st d; simp [popKwDefaults, flatPairs]
  | cons kv r ih =>
    intro st d
    have e : (st ++ flatPairs (kv :: r).reverse).reverse
        = Item.val kv.2 :: Item.str kv.1 :: (st ++ flatPairs r.reverse).reverse := by
      simp [flatPairs, List.reverse_append]
    simp only [List.length_cons, popKwDefaults, e, List.reverse_reverse]
    rw [ih]
    simp

theorem popKw_roundtrip (pairs : Dict) (st : List Item) (d : Dict) :
    popKwDefaults pairs.length (st ++ flatPairs pairs) d = some (dictFromTop pairs d, st) := by
  have := popKw_rev pairs.reverse st d
  simpa [dictFromTop] using this

theorem popAnn_rev (ra : Dict) : ∀ (st : List Item) (d : Dict),
    popAnnotations (ra.map (·.1)) (st ++ ra.reverse.map (fun a => Item.val a.2)) d
      = some (ra.foldl (fun acc kv => dictSet acc kv.1 kv.2) d, st) := by
  induction ra with
  | nil => intro st d; simp [popAnnotations]
  | cons kv r ih =>
    intro st d
    have e : (st ++ (kv :: r).reverse.map (fun a => Item.val a.2)).reverse
        = Item.val kv.2 :: (st ++ r.reverse.map (fun a => Item.val a.2)).reverse := by
      simp [List.reverse_append]
    simp only [List.map_cons, popAnnotations, e, List.reverse_reverse]
    rw [ih]
    simp

theorem popAnn_roundtrip (anns : Dict) (st : List Item) (d : Dict) :
    popAnnotations (anns.map (·.1)).reverse (st ++ anns.map (fun a => Item.val a.2)) d
      = some (dictFromTop anns d, st) := by
  have := popAnn_rev anns.reverse st d
  simpa [dictFromTop, List.map_reverse] using this


/-- the annotation part of the stack -/
def annItems (anns : List (Name × Val)) : List Item :=
  if anns.isEmpty then [] else anns.map (fun a => Item.val a.2) ++ [Item.names (anns.map (·.1))]

theorem compileFuncPush_eq (s : Sig) (anns : List (Name × Val)) (clo : Bool) :
    compileFuncPush s anns clo
      = s.defaults.map Item.val ++ flatPairs s.kwDefaultPairs ++ annItems anns
        ++ (if clo then [Item.closure] else []) ++ [Item.code, Item.qualname] := rfl

/-- the function object `compileFunc`'s pushes describe -/
def Sig.func (s : Sig) (anns : List (Name × Val)) (clo : Bool) : Func :=
  { defaults := s.defaults,
    kwdefaults := if s.kwDefaultPairs.length > 0 then some (dictFromTop s.kwDefaultPairs []) else none,
    annotations := if anns.isEmpty then none else some (dictFromTop anns []),
    closure := clo }

theorem makeFunction_roundtrip (s : Sig) (anns : List (Name × Val)) (clo : Bool) (rest : List Item)
    (h1 : compileFuncTooMany s = false) (h2 : anns.length < 32767) :
    makeFunction (compileFuncArgc s anns) clo (rest ++ compileFuncPush s anns clo)
      = some (s.func anns clo, rest) := by
  have hd : s.defaults.length < 256 := by
    have : s.defaults.length ≤ s.pos.length := by
      unfold Sig.defaults; exact List.length_filterMap_le _ _
    simp [compileFuncTooMany] at h1; omega
  have hk : s.kwDefaultPairs.length < 256 := by
    have : s.kwDefaultPairs.length ≤ s.kwonly.length := by
      unfold Sig.kwDefaultPairs; exact List.length_filterMap_le _ _
    simp [compileFuncTooMany] at h1; omega
  have hn : (if anns.isEmpty then 0 else anns.length + 1) < 32768 := by split_ifs <;> omega
  obtain ⟨e1, e2, e3⟩ := mf_decode _ _ _ hd hk hn
  have hargc : compileFuncArgc s anns = (s.defaults.length + (s.kwDefaultPairs.length <<< 8)
      + ((if anns.isEmpty then 0 else anns.length + 1) <<< 16)) % 2 ^ 32 := rfl
  rw [← hargc] at e1 e2 e3
  -- the stack, grouped
  have hst : rest ++ compileFuncPush s anns clo
      = (rest ++ s.defaults.map Item.val ++ flatPairs s.kwDefaultPairs ++ annItems anns
          ++ (if clo then [Item.closure] else [])) ++ [Item.code, Item.qualname] := by
    rw [compileFuncPush_eq]; simp only [List.append_assoc]
  have hlen : (rest ++ List.map Item.val s.defaults).length - s.defaults.length = rest.length := by simp
  have hnot : ¬ ((rest ++ List.map Item.val s.defaults).length < s.defaults.length) := by simp
  have hfin : List.drop rest.length (rest ++ List.map Item.val s.defaults) = List.map Item.val s.defaults :=
    List.drop_left' rfl
  have hfin2 : List.take rest.length (rest ++ List.map Item.val s.defaults) = rest := List.take_left' rfl
  have hpk := popKw_roundtrip s.kwDefaultPairs (rest ++ List.map Item.val s.defaults) []
  have hpa := popAnn_roundtrip anns (rest ++ List.map Item.val s.defaults ++ flatPairs s.kwDefaultPairs) []
  simp only [List.append_assoc] at hpk hpa
  have hnil : ¬ (s.kwDefaultPairs.length > 0) → flatPairs s.kwDefaultPairs = [] := by
    intro h
    have : s.kwDefaultPairs = [] := List.eq_nil_of_length_eq_zero (by omega)
    rw [this]; rfl
  unfold makeFunction
  simp only [e1, e2, e3]
  rw [hst]
  cases clo <;> by_cases he : anns.isEmpty = true <;> by_cases hz : s.kwDefaultPairs.length > 0
  all_goals
    simp only [List.reverse_append, List.reverse_cons, List.reverse_nil, List.nil_append, List.cons_append,
      List.reverse_reverse, he, hz, annItems, Sig.func, Bool.false_eq_true, if_false, if_true, List.append_nil,
      gt_iff_lt, Nat.zero_lt_succ, Nat.lt_irrefl, List.length_map, ne_eq, not_true_eq_false, List.append_assoc,
      hpa, hpk, Option.map_some]
  all_goals (try rw [hnil hz])
  all_goals simp only [List.append_nil, hnot, if_false, hlen, hfin, hfin2, itemsToVals_map]

/-! ### `KwDefsOK` discharged -/

theorem foldl_dictSet_fresh (rp : Dict) : ∀ d : Dict, (rp.map (·.1)).Nodup →
    (∀ kv ∈ rp, dictHas d kv.1 = false) →
    rp.foldl (fun acc kv => dictSet acc kv.1 kv.2) d = d ++ rp := by
  induction rp with
  | nil => intro d _ _; simp
  | cons kv r ih =>
    intro d hn hf
    rw [List.map_cons, List.nodup_cons] at hn
    simp only [List.foldl_cons]
    rw [dictSet_of_not_has kv.2 (hf kv List.mem_cons_self), ih _ hn.2]
    · simp
    · intro kv' hm
      rw [dictHas_append, hf kv' (List.mem_cons_of_mem _ hm)]
      have : kv.1 ≠ kv'.1 := fun e => hn.1 (by rw [e]; exact List.mem_map_of_mem hm)
      simp [this]

theorem dictFromTop_nodup (pairs : Dict) (hn : (pairs.map (·.1)).Nodup) : dictFromTop pairs [] = pairs.reverse := by
  unfold dictFromTop
  rw [foldl_dictSet_fresh pairs.reverse [] (by rw [List.map_reverse]; exact (List.reverse_perm _).nodup_iff.mpr hn) (by intro kv _; rfl)]
  simp

theorem kwPairs_sublist (l : List Param) :
    ((l.filterMap (fun p => p.dflt.map (fun v => (p.name, v)))).map (·.1)).Sublist (l.map (·.name)) := by
  induction l with
  | nil => simp
  | cons p r ih =>
    cases hd : p.dflt with
    | none => simp only [List.filterMap_cons, hd, Option.map_none, List.map_cons]; exact ih.cons _
    | some v => simp only [List.filterMap_cons, hd, Option.map_some, List.map_cons]; exact ih.cons_cons _

theorem mem_kwPairs (s : Sig) (k : Name) (v : Val) :
    (k, v) ∈ s.kwDefaultPairs ↔ ∃ p ∈ s.kwonly, p.name = k ∧ p.dflt = some v := by
  unfold Sig.kwDefaultPairs
  simp only [List.mem_filterMap]
  constructor
  · rintro ⟨p, hp, h⟩
    cases hd : p.dflt with
    | none => simp [hd] at h
    | some w => simp [hd] at h; exact ⟨p, hp, h.1, by rw [← h.2]; exact hd⟩
  · rintro ⟨p, hp, rfl, hd⟩
    exact ⟨p, hp, by simp [hd]⟩

theorem name_inj_of_nodup (l : List Param) (hn : (l.map (·.name)).Nodup) (p q : Param) (hp : p ∈ l) (hq : q ∈ l)
    (e : p.name = q.name) : p = q := by
  induction l with
  | nil => cases hp
  | cons x r ih =>
    rw [List.map_cons, List.nodup_cons] at hn
    rcases List.mem_cons.mp hp with rfl | hp' <;> rcases List.mem_cons.mp hq with rfl | hq'
    · rfl
    · exact absurd (e ▸ List.mem_map_of_mem hq') hn.1
    · exact absurd (e ▸ List.mem_map_of_mem hp') hn.1
    · exact ih hn.2 hp' hq'

/-- **the hypothesis `KwDefsOK` of the bind theorems holds for the function object MAKE_FUNCTION
builds**: `__kwdefaults__[name]` is the default of the keyword-only parameter `name`, and is absent
when that parameter has none -/
theorem kwDefsOK_func (s : Sig) (hn : (s.kwonly.map (·.name)).Nodup) (anns : List (Name × Val)) (clo : Bool) :
    KwDefsOK s (s.func anns clo).kwdefaults := by
  have hpn : (s.kwDefaultPairs.map (·.1)).Nodup := (kwPairs_sublist s.kwonly).nodup hn
  have hrn : (s.kwDefaultPairs.reverse.map (·.1)).Nodup := by rw [List.map_reverse]; exact (List.reverse_perm _).nodup_iff.mpr hpn
  intro p hp
  unfold Sig.func
  simp only
  by_cases hz : s.kwDefaultPairs.length > 0
  · simp only [hz, if_true, kwdLookup, dictFromTop_nodup _ hpn]
    cases hd : p.dflt with
    | some v =>
      exact (lookup_eq_some_iff _ hrn p.name v).mpr (List.mem_reverse.mpr ((mem_kwPairs s p.name v).mpr ⟨p, hp, rfl, hd⟩))
    | none =>
      cases hl : List.lookup p.name s.kwDefaultPairs.reverse with
      | none => rfl
      | some v =>
        have hm := List.mem_reverse.mp ((lookup_eq_some_iff _ hrn p.name v).mp hl)
        obtain ⟨q, hq, hqn, hqd⟩ := (mem_kwPairs s p.name v).mp hm
        have := name_inj_of_nodup s.kwonly hn q p hq hp hqn
        rw [this, hd] at hqd; cases hqd
  · have hnil : s.kwDefaultPairs = [] := List.eq_nil_of_length_eq_zero (by omega)
    simp only [hz, if_false, kwdLookup]
    cases hd : p.dflt with
    | none => rfl
    | some v =>
      have := (mem_kwPairs s p.name v).mpr ⟨p, hp, rfl, hd⟩
      rw [hnil] at this; cases this


/-! ### `Vm.Call`: explicit keywords, `**mapping`, `*iterable` in one theorem -/

/-- the `kwargs` `Vm.Call` hands to `callInternal` is a nil map exactly when the call has neither an
explicit keyword nor a `**` operand -/
def kwargsOpt (c : CallExpr) (k : Dict) : Option Dict := if c.kws = [] ∧ c.dstar = none then none else some k

theorem kwStage (kws : Dict) :
    (if (flatPairs kws).length > 0 then (kwTupleToDict (flatPairs kws) []).map some else .ok none)
      = if (kws.map (·.1)).Nodup then (Except.ok (if kws = [] then none else some kws) : Except Err (Option Dict))
        else .error .type := by
  unfold flatPairs
  rw [flat_length, kwTuple_roundtrip kws []]
  cases kws with
  | nil => simp
  | cons kv r =>
    have : 2 * (kv :: r).length > 0 := by simp
    simp only [this, if_true]
    have hA : ∀ kv' ∈ kv :: r, dictHas [] kv'.1 = false := by intro _ _; rfl
    by_cases hn : ((kv :: r).map (·.1)).Nodup
    · rw [if_pos ⟨hA, hn⟩, if_pos hn]; simp [Except.map]
    · rw [if_neg (fun h => hn h.2), if_neg hn]; simp [Except.map]

theorem vmCallArgs_spec (c : CallExpr) :
    vmCallArgs c.args (flatPairs c.kws) c.star c.dstar =
      match specCallArgs c with
      | none => .error .type
      | some (a, k) => .ok (a, kwargsOpt c k) := by
  unfold vmCallArgs
  rw [kwStage]
  by_cases hn : (c.kws.map (·.1)).Nodup
  · simp only [hn, if_true]
    cases hds : c.dstar with
    | none =>
      cases hst : c.star with
      | none => simp [specCallArgs, hds, hst, hn, kwargsOpt]
      | some st => cases st <;> simp [specCallArgs, hds, hst, hn, kwargsOpt]
    | some ds =>
      cases ds with
      | notDict => cases hst : c.star with
        | none => simp [specCallArgs, hds, hst]
        | some st => cases st <;> simp [specCallArgs, hds, hst]
      | dict d =>
        have hget : (if c.kws = [] then (none : Option Dict) else some c.kws).getD [] = c.kws := by
          by_cases h : c.kws = [] <;> simp [h]
        simp only [hget, mergeStarKw_closed]
        have hiff := nodup_append_keys c.kws d
        by_cases hm : (∀ kv ∈ d, dictHas c.kws kv.1 = false) ∧ (d.map (·.1)).Nodup
        · have hall : ((c.kws ++ d).map (·.1)).Nodup := hiff.mpr ⟨hn, hm.1, hm.2⟩
          rw [if_pos hm]
          rw [List.map_append] at hall
          simp only [Except.map]
          cases hst : c.star with
          | none => simp [specCallArgs, hds, hst, hall, kwargsOpt]
          | some st => cases st <;> simp [specCallArgs, hds, hst, hall, kwargsOpt]
        · have hall : ¬ ((c.kws ++ d).map (·.1)).Nodup := fun h => hm ⟨(hiff.mp h).2.1, (hiff.mp h).2.2⟩
          rw [if_neg hm]
          rw [List.map_append] at hall
          simp only [Except.map]
          cases hst : c.star with
          | none => simp [specCallArgs, hds, hst, hall]
          | some st => cases st <;> simp [specCallArgs, hds, hst, hall]
  · simp only [hn, if_false]
    have hall : ∀ d : Dict, ¬ ((c.kws ++ d).map (·.1)).Nodup := fun d h => hn ((nodup_append_keys c.kws d).mp h).1
    cases hds : c.dstar with
    | none =>
      have := hall []
      cases hst : c.star with
      | none => simp_all [specCallArgs]
      | some st => cases st <;> simp_all [specCallArgs]
    | some ds =>
      cases ds with
      | notDict => cases hst : c.star with
        | none => simp [specCallArgs, hds, hst]
        | some st => cases st <;> simp [specCallArgs, hds, hst]
      | dict d =>
        have := hall d
        cases hst : c.star with
        | none => simp_all [specCallArgs]
        | some st => cases st <;> simp_all [specCallArgs]


/-! ### end to end -/

theorem kwonly_nodup (s : Sig) (hs : s.WF) : (s.kwonly.map (·.name)).Nodup := by
  have := hs.1
  unfold Sig.names Sig.params at this
  rw [List.map_append] at this
  exact (List.nodup_append.mp this).2.1

theorem specCallArgs_nodup (c : CallExpr) (a : List Val) (k : Dict) (h : specCallArgs c = some (a, k)) :
    (k.map (·.1)).Nodup := by
  unfold specCallArgs at h
  split at h
  · cases h
  · cases h
  · simp only at h
    split_ifs at h with hn
    simp only [Option.some.injEq, Prod.mk.injEq] at h
    rw [← h.2]; exact hn

theorem kwargsOpt_getD (c : CallExpr) (a : List Val) (k : Dict) (h : specCallArgs c = some (a, k)) :
    (kwargsOpt c k).getD [] = k := by
  unfold kwargsOpt
  split_ifs with hc
  · unfold specCallArgs at h
    rw [hc.1, hc.2] at h
    cases hst : c.star with
    | none => simp [hst] at h; simp [← h.2]
    | some st => cases st <;> simp [hst] at h; simp [← h.2]
  · rfl

theorem defAndCall_main (s : Sig) (hs : s.WF) (c : CallExpr) :
    defAndCall s c =
      if compileFuncTooMany s || callHelperTooMany 0 c.args.length c.kws.length then .error .syntax else
      match specCall s c with
      | none => .error .type
      | some b => .ok { fast := b.params.map some, vararg := b.star, kwdict := b.dstar } := by
  unfold defAndCall
  by_cases hg : (compileFuncTooMany s || callHelperTooMany 0 c.args.length c.kws.length) = true
  · simp only [hg, if_true]
  · simp only [hg, Bool.false_eq_true, if_false]
    have hg1 : compileFuncTooMany s = false := by
      cases h : compileFuncTooMany s <;> simp [h] at hg ⊢
    have hg2 : callHelperTooMany 0 c.args.length c.kws.length = false := by
      cases h : callHelperTooMany 0 c.args.length c.kws.length <;> simp [h] at hg ⊢
    have ha : c.args.length < 256 := by simp [callHelperTooMany] at hg2; omega
    have hk : c.kws.length < 256 := by simp [callHelperTooMany] at hg2; omega
    have hmf := makeFunction_roundtrip s [] false [] hg1 (by simp)
    simp only [List.nil_append] at hmf
    rw [hmf]
    have hsl := slice_roundtrip [] (Item.val 0) c.args c.kws ha hk
    simp only [List.nil_append] at hsl
    simp only [hsl, itemsToVals_map]
    have hv := vmCallArgs_spec c
    unfold flatPairs at hv
    rw [hv]
    unfold specCall
    cases hsp : specCallArgs c with
    | none => simp
    | some ak =>
      obtain ⟨a, k⟩ := ak
      simp only [functionCall, kwargsOpt_getD c a k hsp]
      have := bind_main s hs a k (specCallArgs_nodup c a k hsp) (s.func [] false).kwdefaults
        (kwDefsOK_func s (kwonly_nodup s hs) [] false)
      exact this


/-! ### the multiset equation -/

/-- what a parameter that got no positional argument receives -/
def slotKw (kws : Dict) (p : Param) : Option Val :=
  match kws.lookup p.name with
  | some v => some v
  | none => p.dflt

theorem vals_split (s : Sig) (args : List Val) (kws : Dict) :
    s.params.mapIdx (fun i p => specSlot s.pos.length args kws i p)
      = (args.take (min s.pos.length args.length)).map some
        ++ (s.params.drop (min s.pos.length args.length)).map (slotKw kws) := by
  apply List.ext_getElem?
  intro i
  have hpl : s.params.length = s.pos.length + s.kwonly.length := params_length s
  have htl : ((args.take (min s.pos.length args.length)).map some).length = min s.pos.length args.length := by
    simp only [List.length_map, List.length_take]; omega
  rw [List.getElem?_mapIdx]
  by_cases hi : i < min s.pos.length args.length
  · have h1 : i < s.pos.length := by omega
    have h2 : i < args.length := by omega
    have h3 : i < s.params.length := by omega
    rw [List.getElem?_append_left (by rw [htl]; exact hi)]
    simp only [List.getElem?_eq_getElem h3, Option.map_some, specSlot, h1, h2, and_self, if_true,
      List.getElem?_map, List.getElem?_take, hi, List.getElem?_eq_getElem h2]
  · rw [List.getElem?_append_right (by rw [htl]; omega), htl]
    simp only [List.getElem?_map, List.getElem?_drop]
    have : min s.pos.length args.length + (i - min s.pos.length args.length) = i := by omega
    rw [this]
    have hc : ¬ (i < s.pos.length ∧ i < args.length) := by omega
    cases s.params[i]? with
    | none => rfl
    | some p => cases hl : List.lookup p.name kws <;> simp [specSlot, hc, slotKw, hl]

theorem count_filterMap_slot (x : Val) (kws : Dict) (l : List Param) :
    (l.filterMap (slotKw kws)).count x
      = (l.filterMap (fun p => kws.lookup p.name)).count x
        + ((l.filter (fun p => (kws.lookup p.name).isNone)).filterMap (·.dflt)).count x := by
  induction l with
  | nil => simp
  | cons p r ih =>
    cases hl : kws.lookup p.name with
    | some v =>
      simp only [List.filterMap_cons, slotKw, hl, List.filter_cons, Option.isNone_some, Bool.false_eq_true, if_false,
        List.count_cons]
      omega
    | none =>
      cases hd : p.dflt with
      | none =>
        simp only [List.filterMap_cons, slotKw, hl, hd, List.filter_cons, Option.isNone_none, if_true]
        omega
      | some v =>
        simp only [List.filterMap_cons, slotKw, hl, hd, List.filter_cons, Option.isNone_none, if_true, List.count_cons]
        omega

theorem lookup_filter_ne (kws : Dict) (n m : Name) (h : m ≠ n) :
    (kws.filter (fun kv => kv.1 != n)).lookup m = kws.lookup m := by
  induction kws with
  | nil => rfl
  | cons kv r ih =>
    obtain ⟨k', v'⟩ := kv
    by_cases e : k' = n
    · subst e
      have : (m == k') = false := by simp [h]
      simp [List.filter_cons, List.lookup_cons, this, ih]
    · have e' : (k' != n) = true := by simp [e]
      simp only [List.filter_cons, e', if_true, List.lookup_cons, ih]

theorem count_extract (x : Val) (kws : Dict) (hk : (kws.map (·.1)).Nodup) (n : Name) (v : Val)
    (h : kws.lookup n = some v) :
    (kws.map (·.2)).count x = (if v = x then 1 else 0) + ((kws.filter (fun kv => kv.1 != n)).map (·.2)).count x := by
  induction kws with
  | nil => simp at h
  | cons kv r ih =>
    obtain ⟨k', v'⟩ := kv
    rw [List.map_cons, List.nodup_cons] at hk
    by_cases e : n = k'
    · subst e
      simp only [List.lookup_cons, beq_self_eq_true, Option.some.injEq] at h
      subst h
      have hr : r.filter (fun kv => kv.1 != n) = r := by
        apply List.filter_eq_self.mpr
        intro kv hm
        have : kv.1 ≠ n := fun e => hk.1 (e ▸ List.mem_map_of_mem (f := (·.1)) hm)
        simp [this]
      simp only [List.map_cons, List.count_cons, List.filter_cons, bne_self_eq_false, Bool.false_eq_true, if_false, hr,
        beq_iff_eq]
      omega
    · have e1 : (n == k') = false := by simp [e]
      have e2 : (k' != n) = true := by simp [Ne.symm e]
      simp only [List.lookup_cons, e1] at h
      have := ih hk.2 h
      simp only [List.map_cons, List.count_cons, List.filter_cons, e2, if_true]
      omega

theorem filterMap_congr_mem {α β} {f g : α → Option β} : ∀ {l : List α}, (∀ x ∈ l, f x = g x) →
    l.filterMap f = l.filterMap g
  | [], _ => rfl
  | a :: r, h => by
    simp only [List.filterMap_cons, h a List.mem_cons_self,
      filterMap_congr_mem (l := r) (fun x hx => h x (List.mem_cons_of_mem _ hx))]

/-- Lemma A: the keyword values split into those that go to the parameters `ns` and the others -/
theorem count_kw_split (x : Val) (ns : List Name) : ∀ (kws : Dict), ns.Nodup → (kws.map (·.1)).Nodup →
    (ns.filterMap (fun n => kws.lookup n)).count x
      + ((kws.filter (fun kv => !ns.contains kv.1)).map (·.2)).count x = (kws.map (·.2)).count x := by
  induction ns with
  | nil =>
    intro kws _ _
    have : kws.filter (fun kv => !([] : List Name).contains kv.1) = kws :=
      List.filter_eq_self.mpr (by intro kv _; rfl)
    rw [this]; simp
  | cons n r ih =>
    intro kws hn hk
    rw [List.nodup_cons] at hn
    have hfilt : kws.filter (fun kv => !(n :: r).contains kv.1)
        = (kws.filter (fun kv => kv.1 != n)).filter (fun kv => !r.contains kv.1) := by
      rw [List.filter_filter]
      apply List.filter_congr
      intro kv _
      simp only [List.contains_cons, Bool.not_or, bne, Bool.and_comm]
    have hk' : ((kws.filter (fun kv => kv.1 != n)).map (·.1)).Nodup :=
      (List.Sublist.map _ List.filter_sublist).nodup hk
    have hlook : r.filterMap (fun m => kws.lookup m) = r.filterMap (fun m => (kws.filter (fun kv => kv.1 != n)).lookup m) := by
      apply filterMap_congr_mem
      intro m hm
      rw [lookup_filter_ne]
      intro e; exact hn.1 (e ▸ hm)
    have := ih (kws.filter (fun kv => kv.1 != n)) hn.2 hk'
    rw [hfilt, List.filterMap_cons]
    cases hl : kws.lookup n with
    | none =>
      have hself : kws.filter (fun kv => kv.1 != n) = kws := by
        apply List.filter_eq_self.mpr
        intro kv hm
        have : kv.1 ≠ n := by
          intro e
          have := (lookup_isSome_iff kws n).mpr ⟨kv, hm, e⟩
          rw [hl] at this; cases this
        simp [this]
      simp only
      rw [hself] at this ⊢
      exact this
    | some v =>
      simp only [List.count_cons, beq_iff_eq]
      rw [hlook, count_extract x kws hk n v hl]
      omega


theorem multiset_main (s : Sig) (hs : s.WF) (args : List Val) (kws : Dict) (hk : (kws.map (·.1)).Nodup)
    (b : Binding) (hb : specBind s args kws = some b) :
    (b.params ++ b.star.getD [] ++ (b.dstar.getD []).map (·.2)).Perm
      (args ++ kws.map (·.2) ++ specUsedDefaults s args kws) := by
  unfold specBind at hb
  simp only at hb
  by_cases c1 : args.length > s.pos.length ∧ s.star.isNone = true
  · rw [if_pos c1] at hb; cases hb
  rw [if_neg c1] at hb
  by_cases c2 : (kws.any fun kv => !s.names.contains kv.1) = true ∧ s.dstar.isNone = true
  · rw [if_pos c2] at hb; cases hb
  rw [if_neg c2] at hb
  by_cases c3 : ((s.pos.take args.length).any fun p => (kws.lookup p.name).isSome) = true
  · rw [if_pos c3] at hb; cases hb
  rw [if_neg c3] at hb
  by_cases c4 : ((s.params.mapIdx fun i p => specSlot s.pos.length args kws i p).any fun x => x.isNone) = true
  · rw [if_pos c4] at hb; cases hb
  rw [if_neg c4] at hb
  simp only [Option.some.injEq] at hb
  rw [← hb]
  simp only
  rw [List.perm_iff_count]
  intro x
  -- abbreviations
  have ht : min s.pos.length args.length ≤ args.length := Nat.min_le_right _ _
  -- (a) the parameter slots
  have ha : (List.filterMap id (s.params.mapIdx (fun i p => specSlot s.pos.length args kws i p))).count x
      = (args.take (min s.pos.length args.length)).count x
        + ((s.params.drop (min s.pos.length args.length)).filterMap (slotKw kws)).count x := by
    rw [vals_split, List.filterMap_append, List.count_append, List.filterMap_map, List.filterMap_map]
    congr 2
    · exact List.filterMap_some
  -- (b) keyword or default
  have hbb := count_filterMap_slot x kws (s.params.drop (min s.pos.length args.length))
  -- (c) the keywords of the remaining parameters
  have hnd : ((s.params.drop (min s.pos.length args.length)).map (·.name)).Nodup := by
    have : ((s.params.drop (min s.pos.length args.length)).map (·.name)).Sublist s.names :=
      List.Sublist.map _ (List.drop_sublist _ _)
    exact this.nodup hs.1
  have hc := count_kw_split x _ kws hnd hk
  rw [List.filterMap_map] at hc
  simp only [Function.comp_def] at hc
  -- (d) no keyword names one of the positionally filled parameters
  have hd : kws.filter (fun kv => !s.names.contains kv.1)
      = kws.filter (fun kv => !((s.params.drop (min s.pos.length args.length)).map (·.name)).contains kv.1) := by
    apply List.filter_congr
    intro kv hm
    congr 1
    have hsplit : s.names = (s.params.take (min s.pos.length args.length)).map (·.name)
        ++ (s.params.drop (min s.pos.length args.length)).map (·.name) := by
      unfold Sig.names; rw [← List.map_append, List.take_append_drop]
    have hnot : kv.1 ∉ (s.params.take (min s.pos.length args.length)).map (·.name) := by
      intro hmem
      obtain ⟨p, hp, hpn⟩ := List.mem_map.mp hmem
      have hp' : p ∈ s.pos.take args.length := by
        have e : s.params.take (min s.pos.length args.length) = s.pos.take args.length := by
          unfold Sig.params
          rw [List.take_append_of_le_length (Nat.min_le_left _ _)]
          by_cases hl : args.length ≤ s.pos.length
          · rw [Nat.min_eq_right hl]
          · rw [Nat.min_eq_left (by omega), List.take_of_length_le (Nat.le_refl _), List.take_of_length_le (by omega)]
        rw [e] at hp; exact hp
      apply c3
      rw [List.any_eq_true]
      exact ⟨p, hp', (lookup_isSome_iff kws p.name).mpr ⟨kv, hm, hpn.symm⟩⟩
    rw [hsplit]
    simp only [List.contains_eq_mem, List.mem_append, hnot, false_or]
  -- (e) the `*` tuple
  have he : ((if s.star.isSome = true then some (args.drop s.pos.length) else none).getD []).count x
      = (args.drop s.pos.length).count x := by
    by_cases hst : s.star.isSome = true
    · simp [hst]
    · have : ¬ (args.length > s.pos.length) := fun h => c1 ⟨h, by simpa using hst⟩
      simp [hst, List.drop_eq_nil_of_le (Nat.le_of_not_gt this)]
  -- (f) the `**` dict
  have hf : (((if s.dstar.isSome = true then some (kws.filter (fun kv => !s.names.contains kv.1)) else none).getD []).map (·.2)).count x
      = ((kws.filter (fun kv => !s.names.contains kv.1)).map (·.2)).count x := by
    by_cases hds : s.dstar.isSome = true
    · simp [hds]
    · have hany : kws.any (fun kv => !s.names.contains kv.1) = false := by
        cases h : kws.any (fun kv => !s.names.contains kv.1) with
        | false => rfl
        | true => exact absurd ⟨h, by simpa using hds⟩ c2
      have : kws.filter (fun kv => !s.names.contains kv.1) = [] := by
        rw [List.filter_eq_nil_iff]
        intro kv hm
        have := (List.any_eq_false.mp hany) kv hm
        simpa using this
      rw [if_neg hds, this]; rfl
  -- (g) the positionals
  have hg : (args.take (min s.pos.length args.length)).count x + (args.drop s.pos.length).count x = args.count x := by
    by_cases hl : args.length ≤ s.pos.length
    · rw [Nat.min_eq_right hl, List.take_of_length_le (Nat.le_refl _), List.drop_eq_nil_of_le hl]; simp
    · rw [Nat.min_eq_left (by omega), ← List.count_append, List.take_append_drop]
  simp only [List.count_append, he, hf, ha, specUsedDefaults]
  rw [hd]
  omega


/-! ### Go callables -/

theorem native_call_delivery_main (g : GoSig) (r : Route) (isInst : Val → Bool) (args : List Val) (kwargs : Option Dict) :
    goCall g r isInst args kwargs =
      match specGoCall g r isInst args (kwargs.getD []) with
      | none => .error .type
      | some d => .ok d := by
  cases r with
  | viaClass =>
    cases args with
    | nil => cases g <;> cases kwargs <;> simp [goCall, methodMCall, specGoCall]
    | cons o rest =>
      by_cases hi : isInst o = true
      · cases g <;> cases kwargs with
        | none => simp [goCall, methodMCall, methodCall, specGoCall, hi] <;> (try split_ifs) <;> simp_all
        | some kw =>
          cases kw <;> simp [goCall, methodMCall, methodCallWithKeywords, methodCall, specGoCall, hi] <;> (try split_ifs) <;> simp_all
      · cases g <;> cases kwargs <;> simp [goCall, methodMCall, specGoCall, hi]
  | moduleFn =>
    cases g <;> cases kwargs with
    | none => simp [goCall, methodMCall, methodCall, specGoCall] <;> (try split_ifs) <;> simp_all
    | some kw =>
      cases kw <;> simp [goCall, methodMCall, methodCallWithKeywords, methodCall, specGoCall] <;> (try split_ifs) <;> simp_all
  | viaInstance o =>
    cases g <;> cases kwargs with
    | none => simp [goCall, boundMethodCall, methodCall, specGoCall] <;> (try split_ifs) <;> simp_all
    | some kw =>
      cases kw <;> simp [goCall, boundMethodCall, methodCallWithKeywords, methodCall, specGoCall] <;> (try split_ifs) <;> simp_all


end GPy.C04
