/-
C04 proofs, third round: the binder consults PARAMETERS only – `co.Varnames` beyond the first
`argcount + kwonlyargcount` entries (the `*`/`**` names and every other local) never influences
`EvalCode`'s argument parsing; the frame at entry.
-/
import GPy.C04.Proofs2
namespace GPy.C04

/-! ### the keyword loop and the keyword-only defaults read only `co.Varnames[:total_args]` -/

/-- a keyword that is none of the first `total` names – whatever else it is – takes the
"not found" exit of the search loop: TypeError without `**kwargs`, else stored in the dict -/
theorem kwStep_nonparam (co : Code) (total : Nat) (f : Frame) (kv : Name × Val)
    (hl : total ≤ co.varnames.length) (h : kv.1 ∉ co.varnames.take total) :
    kwStep co total f kv =
      match f.kwdict with
      | none => .error .type
      | some d => .ok { f with kwdict := some (dictSet d kv.1 kv.2) } := by
  have hj : ¬ ((co.varnames.take total).idxOf kv.1 < total) := by
    have h1 : (co.varnames.take total).idxOf kv.1 = (co.varnames.take total).length :=
      List.idxOf_eq_length h
    have h2 : (co.varnames.take total).length = total := by
      rw [List.length_take]; omega
    rw [h1]; omega
  simp only [kwStep, hj, if_false]
  cases f.kwdict <;> rfl

theorem kwStep_congr (co : Code) (v : List Name) (total : Nat)
    (hv : v.take total = co.varnames.take total) :
    kwStep { co with varnames := v } total = kwStep co total := by
  funext f kv
  simp only [kwStep, hv]

theorem getD_of_take_eq {v w : List Name} {total : Nat} (hv : v.take total = w.take total) (i : Nat) (hi : i < total) :
    v.getD i "" = w.getD i "" := by
  have h1 : (v.take total)[i]? = v[i]? := List.getElem?_take_of_lt hi
  have h2 : (w.take total)[i]? = w[i]? := List.getElem?_take_of_lt hi
  rw [List.getD_eq_getElem?_getD, List.getD_eq_getElem?_getD, ← h1, ← h2, hv]

theorem fillKwDefaults_congr (co : Code) (v : List Name) (total : Nat)
    (hv : v.take total = co.varnames.take total) (fast : List (Option Val)) (kwdefs : Option Dict) :
    fillKwDefaults { co with varnames := v } total fast kwdefs = fillKwDefaults co total fast kwdefs := by
  unfold fillKwDefaults
  apply List.ext_getElem?
  intro i
  simp only [List.getElem?_mapIdx]
  cases fast[i]? with
  | none => rfl
  | some o =>
    simp only [Option.map_some]
    by_cases hc : co.argcount ≤ i ∧ i < total ∧ o = none
    · simp only [hc, and_self, if_true]
      rw [getD_of_take_eq hv i hc.2.1]
    · simp only [hc, if_false]

/-- **bind_ignores_locals (code level).**  Two code objects that differ only in `co_varnames` and
agree on its first `argcount + kwonlyargcount` entries (both at least that long) bind every call
identically – same slots, same `*` tuple, same `**` dict, same error. -/
theorem evalCodeBind_varnames_congr (co : Code) (v : List Name)
    (hv : v.take (co.argcount + co.kwonlyargcount) = co.varnames.take (co.argcount + co.kwonlyargcount))
    (hl : co.argcount + co.kwonlyargcount ≤ co.varnames.length) (hl' : co.argcount + co.kwonlyargcount ≤ v.length)
    (args : List Val) (kws : Dict) (defs : List Val) (kwdefs : Option Dict) :
    evalCodeBind { co with varnames := v } args kws defs kwdefs = evalCodeBind co args kws defs kwdefs := by
  unfold evalCodeBind
  simp only [kwStep_congr co v _ hv, fillKwDefaults_congr co v _ hv]
  have e1 : ¬ (co.varnames.length < co.argcount + co.kwonlyargcount) := by omega
  have e2 : ¬ (v.length < co.argcount + co.kwonlyargcount) := by omega
  simp only [e1, e2, or_false]

/-- `s.code` with an arbitrary tail of further local-variable names behind the parameters and the
`*`/`**` names -/
def Sig.codeWith (s : Sig) (tail : List Name) : Code := { s.code with varnames := s.code.varnames ++ tail }

theorem code_varnames_length (s : Sig) : s.pos.length + s.kwonly.length ≤ s.code.varnames.length := by
  simp [Sig.code]

theorem bind_codeWith (s : Sig) (tail : List Name) (args : List Val) (kws : Dict) (defs : List Val) (kwdefs : Option Dict) :
    evalCodeBind (s.codeWith tail) args kws defs kwdefs = evalCodeBind s.code args kws defs kwdefs := by
  have hl := code_varnames_length s
  apply evalCodeBind_varnames_congr s.code (s.code.varnames ++ tail)
  · show (s.code.varnames ++ tail).take (s.pos.length + s.kwonly.length) = s.code.varnames.take (s.pos.length + s.kwonly.length)
    rw [List.take_append_of_le_length hl]
  · exact hl
  · show s.pos.length + s.kwonly.length ≤ (s.code.varnames ++ tail).length
    rw [List.length_append]; omega

/-! ### the compiler's layout of `co.Varnames` keeps the parameters in front -/

theorem foldl_indexAppend_prefix (uses : List Name) : ∀ base : List Name,
    ∃ tail, uses.foldl indexAppend base = base ++ tail := by
  induction uses with
  | nil => intro base; exact ⟨[], by simp⟩
  | cons u r ih =>
    intro base
    simp only [List.foldl_cons]
    by_cases hc : base.contains u = true
    · have : indexAppend base u = base := by simp only [indexAppend, hc, if_true]
      rw [this]; exact ih base
    · have : indexAppend base u = base ++ [u] := by simp only [indexAppend, hc]; rfl
      rw [this]
      obtain ⟨t, ht⟩ := ih (base ++ [u])
      exact ⟨[u] ++ t, by rw [ht]; simp⟩

theorem paramVarnames_eq (s : Sig) : s.paramVarnames = s.code.varnames := by
  simp [Sig.paramVarnames, Sig.code]

/-- the code object compiled for ANY body is `s.code` with some tail of further locals -/
theorem fullCode_co (s : Sig) (b : Body) : ∃ tail, (s.fullCode b).co = s.codeWith tail := by
  obtain ⟨t, ht⟩ := foldl_indexAppend_prefix b.fastUses s.paramVarnames
  refine ⟨t, ?_⟩
  simp only [Sig.fullCode, Sig.codeWith, layoutVarnames, ht]
  rw [paramVarnames_eq]
  rfl

end GPy.C04
