/-
C04 property theorems: call arguments bind to parameters exactly as Python's algorithm says.

All theorems quantify over ALL signatures (any number of parameters, any names, any defaults),
ALL effective argument lists and keyword maps (any length), and – where a Go map is iterated –
ALL iteration orders.  `Sig.WF` = the signature is one Python accepts (distinct parameter names,
defaulted positional parameters last); `KwDefsOK` = the function object's `__kwdefaults__` dict is
the one its `def` describes – a hypothesis of the `bind_*` theorems that `kwdefaults_by_name` proves
for the function object MAKE_FUNCTION builds (so `bind_refines_spec_made` and the end-to-end theorem
`def_and_call_refines_spec` carry no such hypothesis).

Model functions: `evalCodeBind` (vm/eval.go EvalCode), `vmCallSlice`/`kwTupleToDict`/`vmCallArgs`
(Vm.Call), `callHelperArgc`/`callHelperPush` (compile.go callHelper), `compileFuncArgc`
(compileFunc), `goCall` (py/method.go, py/boundmethod.go).
-/
import GPy.C04.Boundary
import GPy.C04.Proofs3
import GPy.C04.Facts
namespace GPy.C04

/-! ### EvalCode's binder refines the binding relation of the language reference -/

/-- **bind_refines_spec.**  For every well-formed signature, every positional argument list and
every keyword map (distinct keys, visited in any order `kws`): if the reference defines a binding,
`EvalCode` succeeds and every parameter slot, the `*` tuple and the `**` dict hold exactly what the
reference assigns; if the reference defines none, `EvalCode` raises TypeError. -/
theorem bind_refines_spec (s : Sig) (hs : s.WF) (args : List Val) (kws : Dict)
    (hk : (kws.map (·.1)).Nodup) (kwdefs : Option Dict) (hkd : KwDefsOK s kwdefs) :
    evalCodeBind s.code args kws s.defaults kwdefs =
      match specBind s args kws with
      | none => .error .type
      | some b => .ok { fast := b.params.map some, vararg := b.star, kwdict := b.dstar } :=
  bind_main s hs args kws hk kwdefs hkd

/-- success ⇒ each parameter gets exactly the spec's argument -/
theorem bind_success (s : Sig) (hs : s.WF) (args : List Val) (kws : Dict)
    (hk : (kws.map (·.1)).Nodup) (kwdefs : Option Dict) (hkd : KwDefsOK s kwdefs) (f : Frame)
    (h : evalCodeBind s.code args kws s.defaults kwdefs = .ok f) :
    ∃ b, specBind s args kws = some b ∧ f.fast = b.params.map some ∧ f.vararg = b.star ∧ f.kwdict = b.dstar := by
  rw [bind_refines_spec s hs args kws hk kwdefs hkd] at h
  cases hb : specBind s args kws with
  | none => simp [hb] at h
  | some b =>
    simp only [hb, Except.ok.injEq] at h
    exact ⟨b, rfl, by rw [← h], by rw [← h], by rw [← h]⟩

/-- TypeError ⇔ the spec has no binding (and no other error is possible) -/
theorem bind_typeerror_iff (s : Sig) (hs : s.WF) (args : List Val) (kws : Dict)
    (hk : (kws.map (·.1)).Nodup) (kwdefs : Option Dict) (hkd : KwDefsOK s kwdefs) :
    (∃ e, evalCodeBind s.code args kws s.defaults kwdefs = .error e) ↔ specBind s args kws = none := by
  rw [bind_refines_spec s hs args kws hk kwdefs hkd]
  cases specBind s args kws <;> simp

theorem bind_error_is_typeerror (s : Sig) (hs : s.WF) (args : List Val) (kws : Dict)
    (hk : (kws.map (·.1)).Nodup) (kwdefs : Option Dict) (hkd : KwDefsOK s kwdefs) (e : Err)
    (h : evalCodeBind s.code args kws s.defaults kwdefs = .error e) : e = .type := by
  rw [bind_refines_spec s hs args kws hk kwdefs hkd] at h
  cases hb : specBind s args kws <;> simp [hb] at h
  exact h.symm

/-- no parameter is left unbound on success (the callee never sees an UnboundLocalError) -/
theorem bind_total (s : Sig) (hs : s.WF) (args : List Val) (kws : Dict)
    (hk : (kws.map (·.1)).Nodup) (kwdefs : Option Dict) (hkd : KwDefsOK s kwdefs) (f : Frame)
    (h : evalCodeBind s.code args kws s.defaults kwdefs = .ok f) :
    f.fast.length = s.pos.length + s.kwonly.length ∧ ∀ o ∈ f.fast, o ≠ none := by
  rw [evalCodeBind_nf s hs.1 args kws hk kwdefs] at h
  obtain ⟨b, _, hf, _, _⟩ := bind_success s hs args kws hk kwdefs hkd f
    (by rw [evalCodeBind_nf s hs.1 args kws hk kwdefs]; exact h)
  constructor
  · split_ifs at h
    simp only [Except.ok.injEq] at h
    rw [← h]; simp
  · intro o ho; rw [hf] at ho
    obtain ⟨v, _, rfl⟩ := List.mem_map.mp ho
    simp

-- the hypotheses are satisfiable at a non-trivial point: `def f(a, b=51, *s, k, j=61, **d)`
-- called as `f(10, 11, 12, k=20, z=21)`
def exSig : Sig := { pos := [⟨"a", none⟩, ⟨"b", some 51⟩], star := some "s",
                     kwonly := [⟨"k", none⟩, ⟨"j", some 61⟩], dstar := some "d" }
example :
    exSig.WF ∧ KwDefsOK exSig (some [("j", 61)]) ∧
    evalCodeBind exSig.code [10, 11, 12] [("k", 20), ("z", 21)] exSig.defaults (some [("j", 61)])
      = .ok { fast := [some 10, some 11, some 20, some 61], vararg := some [12], kwdict := some [("z", 21)] }
    ∧ specBind exSig [10, 11, 12] [("k", 20), ("z", 21)]
      = some { params := [10, 11, 20, 61], star := some [12], dstar := some [("z", 21)] } := by
  refine ⟨by decide, ?_, by decide, by decide⟩
  intro p hp
  simp [exSig] at hp
  rcases hp with rfl | rfl <;> decide

/-! ### independence of the Go map iteration order -/

/-- **bind_perm.**  `EvalCode` ranges over the Go map `kws` in an arbitrary order; for any two orders
`kws1 ~ kws2` of the same map the outcome is the same: both raise TypeError, or both succeed with
identical parameter slots and `*` tuple and the same `**` dict (as a set of items). -/
theorem bind_perm (s : Sig) (hs : s.WF) (args : List Val) (kws1 kws2 : Dict) (hp : kws1.Perm kws2)
    (hk : (kws1.map (·.1)).Nodup) (kwdefs : Option Dict) (hkd : KwDefsOK s kwdefs) :
    match evalCodeBind s.code args kws1 s.defaults kwdefs, evalCodeBind s.code args kws2 s.defaults kwdefs with
    | .ok f1, .ok f2 => f1.fast = f2.fast ∧ f1.vararg = f2.vararg ∧
        (match f1.kwdict, f2.kwdict with
         | some d1, some d2 => d1.Perm d2 | none, none => True | _, _ => False)
    | .error e1, .error e2 => e1 = .type ∧ e2 = .type
    | _, _ => False := by
  have hk2 : (kws2.map (·.1)).Nodup := (hp.map _).nodup_iff.mp hk
  rw [bind_refines_spec s hs args kws1 hk kwdefs hkd, bind_refines_spec s hs args kws2 hk2 kwdefs hkd]
  have := specBind_perm s args hp hk
  cases h1 : specBind s args kws1 <;> cases h2 : specBind s args kws2 <;> simp only [h1, h2] at this ⊢
  · exact ⟨trivial, trivial⟩
  · obtain ⟨a, b, c⟩ := this
    exact ⟨by rw [a], b, c⟩

example : ([("k", 1), ("z", 2)] : Dict).Perm [("z", 2), ("k", 1)] := by decide

/-! ### no argument is lost or delivered twice -/

/-- **args_delivered_in_place** (first round: `no_arg_lost_or_duplicated_partial`; the multiset
equation it lacked is `no_arg_lost_or_duplicated` below).  On success: positional argument `i` is in
parameter `i` when there is such a parameter, otherwise at index `i - #positional parameters` of the
`*` tuple, which has no other elements; every keyword argument whose name is a parameter is in that
parameter, every other keyword argument is an item of the `**` dict, which has no other items. -/
theorem args_delivered_in_place (s : Sig) (hs : s.WF) (args : List Val) (kws : Dict)
    (hk : (kws.map (·.1)).Nodup) (kwdefs : Option Dict) (hkd : KwDefsOK s kwdefs) (f : Frame)
    (h : evalCodeBind s.code args kws s.defaults kwdefs = .ok f) :
    (∀ i (hi : i < args.length), i < s.pos.length → f.fast[i]? = some (some args[i])) ∧
    (args.length > s.pos.length → f.vararg = some (args.drop s.pos.length)) ∧
    (∀ l, f.vararg = some l → l = args.drop s.pos.length) ∧
    (∀ kv ∈ kws, kv.1 ∈ s.names → f.fast[s.names.idxOf kv.1]? = some (some kv.2)) ∧
    (∀ kv ∈ kws, kv.1 ∉ s.names → ∃ d, f.kwdict = some d ∧ kv ∈ d) ∧
    (∀ d, f.kwdict = some d → d = kws.filter (fun kv => !s.names.contains kv.1)) := by
  have hnf := evalCodeBind_nf s hs.1 args kws hk kwdefs
  rw [hnf] at h
  have hok := allOk_iff s hs.1 args kws
  split_ifs at h with hall h2 hm1 hm2
  simp only [Except.ok.injEq] at h
  obtain ⟨h3, h4⟩ := hok.mp hall
  have hfast : ∀ i, i < s.pos.length + s.kwonly.length → f.fast[i]? = some (SV s args kws i) := by
    intro i hi
    rw [← h]
    simp only [List.getElem?_map, List.getElem?_range hi, Option.map_some]
    rw [G3_eq_SV s hs args kws kwdefs hkd i hi]
  have hvar : f.vararg = if s.star.isSome then some (args.drop s.pos.length) else none := by
    rw [← h]; simp only [F0]
    by_cases hN : args.length > s.pos.length
    · simp [hN]
    · simp only [hN, if_false]
      rw [List.drop_eq_nil_of_le (Nat.le_refl _), List.drop_eq_nil_of_le (by omega)]
  have hdict : f.kwdict = if s.dstar.isSome then some (kws.filter (fun kv => !s.names.contains kv.1)) else none := by
    rw [← h]; simp only [F0]
    cases hds : s.dstar with
    | none => simp
    | some _ =>
      simp only [Option.isSome_some, if_true, Option.map_some, List.nil_append]
      congr 1
      unfold kwExtra
      apply List.filter_congr
      intro kv _
      rw [kwIdx_code, ← names_length]
      by_cases hmem : kv.1 ∈ s.names
      · simp [hmem, List.idxOf_lt_length_iff.mpr hmem]
      · have : ¬ (s.names.idxOf kv.1 < s.names.length) := fun h => hmem (List.idxOf_lt_length_iff.mp h)
        simp [hmem, this]
  refine ⟨?_, ?_, ?_, ?_, ?_, ?_⟩
  · intro i hi hP
    rw [hfast i (by omega)]
    simp [SV, specSlot, hP, hi]
  · intro hN
    have : s.star.isSome = true := by
      cases hst : s.star with
      | some _ => rfl
      | none => exact absurd ⟨hN, by simp [hst]⟩ h2
    rw [hvar, if_pos this]
  · intro l hl
    rw [hvar] at hl
    split_ifs at hl
    simp only [Option.some.injEq] at hl; exact hl.symm
  · intro kv hkv hmem
    have hlt : s.names.idxOf kv.1 < s.names.length := List.idxOf_lt_length_iff.mpr hmem
    have hT : s.names.idxOf kv.1 < s.pos.length + s.kwonly.length := by rw [← names_length]; exact hlt
    rw [hfast _ hT]
    have hge := ((kwOk_F0 s args kv).mp (List.all_eq_true.mp hall kv hkv)).1 hmem
    have hnm : (s.params.getD (s.names.idxOf kv.1) ⟨"", none⟩).name = kv.1 := by
      rw [← names_getD s _ hT, List.getD_eq_getElem?_getD, List.getElem?_eq_getElem hlt]
      simp [List.getElem_idxOf hlt]
    have hcond : ¬ (s.names.idxOf kv.1 < s.pos.length ∧ s.names.idxOf kv.1 < args.length) := by
      split_ifs at hge <;> omega
    have hlk : kws.lookup kv.1 = some kv.2 := (lookup_eq_some_iff kws hk kv.1 kv.2).mpr hkv
    simp only [SV, specSlot, hcond, if_false, hnm, hlk]
  · intro kv hkv hmem
    have hds : s.dstar.isSome = true := by
      cases hd : s.dstar with
      | some _ => rfl
      | none =>
        exact absurd ⟨(E3_iff s kws).mpr ⟨kv, hkv, hmem⟩, by simp [hd]⟩ h3
    refine ⟨_, by rw [hdict, if_pos hds], ?_⟩
    exact List.mem_filter.mpr ⟨hkv, by simpa using hmem⟩
  · intro d hd
    rw [hdict] at hd
    split_ifs at hd
    simp only [Option.some.injEq] at hd; exact hd.symm

/-- **no_arg_lost_or_duplicated.**  On success, ONE multiset equation: the values delivered (all
parameter slots, the items of the `*` tuple, the values of the `**` dict) are, counted with
multiplicity, exactly the values passed (positional arguments, keyword argument values) plus the
defaults of the parameters that received no argument.  No argument is dropped, none is delivered
twice, and nothing else appears. -/
theorem no_arg_lost_or_duplicated (s : Sig) (hs : s.WF) (args : List Val) (kws : Dict)
    (hk : (kws.map (·.1)).Nodup) (kwdefs : Option Dict) (hkd : KwDefsOK s kwdefs) (f : Frame)
    (h : evalCodeBind s.code args kws s.defaults kwdefs = .ok f) :
    (f.fast.filterMap id ++ f.vararg.getD [] ++ (f.kwdict.getD []).map (·.2)).Perm
      (args ++ kws.map (·.2) ++ specUsedDefaults s args kws) := by
  obtain ⟨b, hb, h1, h2, h3⟩ := bind_success s hs args kws hk kwdefs hkd f h
  have := multiset_main s hs args kws hk b hb
  rw [h1, h2, h3]
  have e : (b.params.map some).filterMap id = b.params := by
    rw [List.filterMap_map]; exact List.filterMap_some
  rw [e]; exact this

-- `f(10, 11, 12, k=20, z=21)` on `def f(a, b=51, *s, k, j=61, **d)`: delivered {10,11,20,61,12,21}
-- = passed {10,11,12} + {20,21} + the one default used {61}
example : specUsedDefaults exSig [10, 11, 12] [("k", 20), ("z", 21)] = [61] := by decide

/-! ### call-site protocol: what `callHelper` packs is what `Vm.Call` unpacks -/

/-- **call_protocol_roundtrip (operand).**  For all counts below 256 the operand
`args + kwargs<<8` decodes (`argc & 0xFF`, `(argc >> 8) & 0xFF`) to the counts. -/
theorem call_operand_roundtrip (a k : Nat) (ha : a < 256) (hk : k < 256) :
    (callHelperArgc 0 a k) &&& 0xFF = a ∧ ((callHelperArgc 0 a k) >>> 8) &&& 0xFF = k :=
  argc_decode a k ha hk

/-- **call_protocol_roundtrip (stack).**  For every stack `rest`, callee `fn`, positional values and
keyword pairs (fewer than 256 each): slicing the stack `callHelper` built with the operand it
emitted yields exactly the callee, the positional values and the keyword pairs, and leaves `rest`. -/
theorem call_protocol_roundtrip (rest : List Item) (fn : Item) (args : List Val) (kws : Dict)
    (ha : args.length < 256) (hk : kws.length < 256) :
    vmCallSlice (callHelperArgc 0 args.length kws.length) (rest ++ [fn] ++ callHelperPush args kws)
      = some { rest := rest, fn := fn, args := args.map Item.val,
               kwargsTuple := kws.flatMap (fun kv => [Item.str kv.1, Item.val kv.2]) }
    ∧ itemsToVals (args.map Item.val) = some args
    ∧ kwTupleToDict (kws.flatMap (fun kv => [Item.str kv.1, Item.val kv.2])) []
        = if (kws.map (·.1)).Nodup then .ok kws else .error .type := by
  refine ⟨slice_roundtrip rest fn args kws ha hk, itemsToVals_map args, ?_⟩
  rw [kwTuple_roundtrip kws []]
  simp [dictHas]

/-- the guard `callHelper` now has is necessary: without it 256 positionals and no keyword encode
to the same operand as no positional and one keyword (this was the defect fixed by 91feeff) -/
theorem call_operand_256_witness : callHelperArgc 0 256 0 = callHelperArgc 0 0 1 := by decide

example : callHelperTooMany 0 256 0 = true ∧ callHelperTooMany 0 255 255 = false := by decide

/-- **make_function_roundtrip (operand).**  `posdefaults + kwdefaults<<8 + num_annotations<<16`
decodes to the three counts (`& 0xff`, `>>8 & 0xff`, `>>16 & 0x7fff`) for all counts in range. -/
theorem make_function_operand_roundtrip (d k n : Nat) (hd : d < 256) (hk : k < 256) (hn : n < 32768) :
    let argc := (d + (k <<< 8) + (n <<< 16)) % 2 ^ 32
    argc &&& 0xff = d ∧ (argc >>> 8) &&& 0xff = k ∧ (argc >>> 16) &&& 0x7fff = n :=
  mf_decode d k n hd hk hn

/-- **make_function_roundtrip (stack).**  For EVERY signature the compiler accepts (≤ 255
parameters), every list of annotations, with or without closure, and every stack below: what
`compileFunc` + `makeClosure` push – the positional defaults, the keyword-only defaults as
`(name, value)` pairs, the annotation values and the tuple of their names, the closure, code and
qualified name – is exactly what `_make_function` pops with the operand the compiler emitted: the
function object gets the positional defaults in order, `__kwdefaults__` built from the pairs BY NAME,
the annotations dict, the closure flag, and the stack below is left untouched. -/
theorem make_function_roundtrip (s : Sig) (anns : List (Name × Val)) (clo : Bool) (rest : List Item)
    (h1 : compileFuncTooMany s = false) (h2 : anns.length < 32767) :
    makeFunction (compileFuncArgc s anns) clo (rest ++ compileFuncPush s anns clo)
      = some ({ defaults := s.defaults,
                kwdefaults := if s.kwDefaultPairs.length > 0 then some (dictFromTop s.kwDefaultPairs []) else none,
                annotations := if anns.isEmpty then none else some (dictFromTop anns []),
                closure := clo }, rest) :=
  makeFunction_roundtrip s anns clo rest h1 h2

/-- **kwdefaults_by_name** – discharges the hypothesis `KwDefsOK` of the bind theorems: in the
function object MAKE_FUNCTION builds, `__kwdefaults__[k]` is the default of the keyword-only
parameter named `k` and is absent when that parameter has none (for every signature with distinct
keyword-only names).  With distinct names the dict is the pushed pairs, top of stack first. -/
theorem kwdefaults_by_name (s : Sig) (hn : (s.kwonly.map (·.name)).Nodup) (anns : List (Name × Val)) (clo : Bool) :
    KwDefsOK s (s.func anns clo).kwdefaults ∧
    dictFromTop s.kwDefaultPairs [] = s.kwDefaultPairs.reverse :=
  ⟨kwDefsOK_func s hn anns clo, dictFromTop_nodup _ ((kwPairs_sublist s.kwonly).nodup hn)⟩

/-- `bind_refines_spec` without the `KwDefsOK` hypothesis: the binder applied to the function object
MAKE_FUNCTION really builds from the `def` -/
theorem bind_refines_spec_made (s : Sig) (hs : s.WF) (anns : List (Name × Val)) (clo : Bool) (args : List Val)
    (kws : Dict) (hk : (kws.map (·.1)).Nodup) :
    functionCall s.code (s.func anns clo) args (some kws) =
      match specBind s args kws with
      | none => .error .type
      | some b => .ok { fast := b.params.map some, vararg := b.star, kwdict := b.dstar } :=
  bind_main s hs args kws hk _ (kwDefsOK_func s (kwonly_nodup s hs) anns clo)

/-- test: the stack `compileFunc` builds for
`def f(a, b=51, *s, k, j=61, **d)` is unpacked by `_make_function` into the right function object -/
example :
    makeFunction (compileFuncArgc exSig []) false ([Item.val 7] ++ compileFuncPush exSig [] false)
      = some ({ defaults := [51], kwdefaults := some [("j", 61)], annotations := none, closure := false }, [Item.val 7]) := by
  decide

-- hypotheses satisfiable, with annotations and a closure
example : compileFuncTooMany exSig = false ∧
    makeFunction (compileFuncArgc exSig [("a", 1), ("return", 6)]) true
        ([Item.val 7] ++ compileFuncPush exSig [("a", 1), ("return", 6)] true)
      = some ({ defaults := [51], kwdefaults := some [("j", 61)],
                annotations := some [("return", 6), ("a", 1)], closure := true }, [Item.val 7]) := by
  decide

/-! ### `Vm.Call`'s merge of explicit keywords and `**mapping` -/

/-- the explicit keyword pairs are turned into a dict iff no name repeats (else TypeError) – for
every list of pairs -/
theorem call_keywords_dict (kws : Dict) :
    kwTupleToDict (kws.flatMap (fun kv => [Item.str kv.1, Item.val kv.2])) []
      = if (kws.map (·.1)).Nodup then .ok kws else .error .type := by
  rw [kwTuple_roundtrip kws []]; simp [dictHas]

/-- **call_starkw_merge.**  Merging a `**mapping` (visited in any order `d`) into the explicit keywords
succeeds iff no key of the mapping is already present (its own keys are distinct, being a map) and
then yields exactly the union; otherwise TypeError – for all dicts of any size. -/
theorem call_starkw_merge (kwargs d : Dict) :
    mergeStarKw kwargs d =
      if (∀ kv ∈ d, dictHas kwargs kv.1 = false) ∧ (d.map (·.1)).Nodup then .ok (kwargs ++ d) else .error .type :=
  mergeStarKw_closed d kwargs

/-- the keys of explicit keywords followed by a `**mapping` are distinct iff both parts are and no key
of the mapping occurs among the explicit ones: the reference's "a keyword may occur only once" is what
`kwTupleToDict` + `mergeStarKw` test -/
theorem call_keys_distinct_iff (kws d : Dict) :
    ((kws ++ d).map (·.1)).Nodup ↔
      (kws.map (·.1)).Nodup ∧ (∀ kv ∈ d, dictHas kws kv.1 = false) ∧ (d.map (·.1)).Nodup :=
  nodup_append_keys kws d

/-- **call_args_refine_spec** – `Vm.Call`'s whole argument assembly in one theorem.  For every
call expression (any explicit positionals and keywords, `*operand` absent / iterable / not iterable,
`**operand` absent / dict visited in any order / not a mapping): the `(args, kwargs)` handed to the
callee are the effective arguments of the language reference – explicit positionals followed by the
items of `*`, explicit keywords united with the items of `**` – and TypeError is raised exactly when
the reference defines none (repeated keyword, non-iterable `*`, non-mapping `**`).  `kwargs` is the
nil map iff the call has neither keywords nor `**`. -/
theorem call_args_refine_spec (c : CallExpr) :
    vmCallArgs c.args (c.kws.flatMap (fun kv => [Item.str kv.1, Item.val kv.2])) c.star c.dstar =
      match specCallArgs c with
      | none => .error .type
      | some (a, k) => .ok (a, if c.kws = [] ∧ c.dstar = none then none else some k) :=
  vmCallArgs_spec c

example : specCallArgs { args := [10], kws := [("k", 20)], star := some (.seq [30]), dstar := some (.dict [("z", 40)]) }
    = some ([10, 30], [("k", 20), ("z", 40)]) := by decide

/-! ### end to end: a `def` and a call expression -/

/-- **def_and_call_refines_spec.**  For every well-formed signature `s` and every call expression
`c`: compiling `def f(s)` (pushes + MAKE_FUNCTION operand), building the function object
(`_make_function`), compiling the call (`callHelper` pushes + operand), `Vm.Call` (stack slicing,
keyword dict, `**` merge, `*` extension), `Function.M__call__` and `EvalCode`'s binder together
yield SyntaxError exactly when a compiler limit (255) is exceeded, otherwise exactly the binding the
language reference defines for the call – every parameter slot, the `*` tuple, the `**` dict – or
TypeError exactly when it defines none.  No hypothesis about the function object or the stack is
left: `KwDefsOK`, the operand round trips and the merge are discharged inside. -/
theorem def_and_call_refines_spec (s : Sig) (hs : s.WF) (c : CallExpr) :
    defAndCall s c =
      if compileFuncTooMany s || callHelperTooMany 0 c.args.length c.kws.length then .error .syntax else
      match specCall s c with
      | none => .error .type
      | some b => .ok { fast := b.params.map some, vararg := b.star, kwdict := b.dstar } :=
  defAndCall_main s hs c

/-- the end-to-end result does not depend on the order in which Go visits the merged keyword map
(`defAndCall` fixes one order; the interpreter uses a random one): for every order `k'` of the
effective keywords the binder gives the spec's slots and `*` tuple and the spec's `**` dict as a set,
or TypeError when the spec has no binding -/
theorem def_and_call_order_independent (s : Sig) (hs : s.WF) (c : CallExpr) (a : List Val) (k k' : Dict)
    (hc : specCallArgs c = some (a, k)) (hp : k.Perm k') :
    match functionCall s.code (s.func [] false) a (some k'), specCall s c with
    | .ok f, some b => f.fast = b.params.map some ∧ f.vararg = b.star ∧
        (match f.kwdict, b.dstar with
         | some d1, some d2 => d2.Perm d1 | none, none => True | _, _ => False)
    | .error e, none => e = .type
    | _, _ => False := by
  have hk := specCallArgs_nodup c a k hc
  have hk' : (k'.map (·.1)).Nodup := (hp.map _).nodup_iff.mp hk
  rw [bind_refines_spec_made s hs [] false a k' hk']
  have hsp : specCall s c = specBind s a k := by simp [specCall, hc]
  rw [hsp]
  have := specBind_perm s a hp hk
  cases h1 : specBind s a k <;> cases h2 : specBind s a k' <;> simp only [h1, h2] at this ⊢
  obtain ⟨x, y, z⟩ := this
  refine ⟨by rw [x], y.symm, ?_⟩
  rename_i b1 b2
  cases hd1 : b1.dstar <;> cases hd2 : b2.dstar <;> simp only [hd1, hd2] at z ⊢
  exact z

-- non-vacuity: `def f(a, b=51, *s, k, j=61, **d)` called as `f(10, *[30, 31], k=20, **{'z': 40})`
example : exSig.WF ∧
    defAndCall exSig { args := [10], kws := [("k", 20)], star := some (.seq [30, 31]), dstar := some (.dict [("z", 40)]) }
      = .ok { fast := [some 10, some 30, some 20, some 61], vararg := some [31], kwdict := some [("z", 40)] } :=
  ⟨by decide, by decide⟩


/-! ### binding consults PARAMETERS only (round 3)

`co.Varnames` = positional parameters, keyword-only parameters, the `*args` name, the `**kwargs` name,
then every other local variable.  Only the first `argcount + kwonlyargcount` entries are legal
keyword targets. -/

/-- **bind_ignores_locals.**  For EVERY code object and every replacement `v` of its `co_varnames`
that agrees with it on the first `argcount + kwonlyargcount` entries (the parameters) – any `*`/`**`
names, any number of further locals, in any order, even names that collide with keywords of the call –
`EvalCode`'s argument parsing gives the identical outcome for every call: same slots, same `*` tuple,
same `**` dict, same error.  The locals tail of `co_varnames` is never consulted. -/
theorem bind_ignores_locals (co : Code) (v : List Name)
    (hv : v.take (co.argcount + co.kwonlyargcount) = co.varnames.take (co.argcount + co.kwonlyargcount))
    (hl : co.argcount + co.kwonlyargcount ≤ co.varnames.length) (hl' : co.argcount + co.kwonlyargcount ≤ v.length)
    (args : List Val) (kws : Dict) (defs : List Val) (kwdefs : Option Dict) :
    evalCodeBind { co with varnames := v } args kws defs kwdefs = evalCodeBind co args kws defs kwdefs :=
  evalCodeBind_varnames_congr co v hv hl hl' args kws defs kwdefs

/-- the same for the code object the compiler lays out for ANY body (`layoutVarnames`: parameters,
`*`/`**` names, then the body's locals in compile order): binding is that of the bare signature -/
theorem bind_ignores_body (s : Sig) (b : Body) (args : List Val) (kws : Dict) (defs : List Val) (kwdefs : Option Dict) :
    evalCodeBind (s.fullCode b).co args kws defs kwdefs = evalCodeBind s.code args kws defs kwdefs := by
  obtain ⟨t, ht⟩ := fullCode_co s b
  rw [ht]; exact bind_codeWith s t args kws defs kwdefs

/-- one iteration of the keyword loop, for every code object, frame and keyword: a keyword that is
none of the first `total_args` names of `co_varnames` – be it the `*args` name, the `**kwargs` name,
another local, a global, or a name that occurs nowhere – takes the "not found" exit: TypeError
(unexpected keyword argument) without `**kwargs`, otherwise it is stored in the `**kwargs` dict.  The
outcome does not depend on WHICH non-parameter name it is, except as the key stored. -/
theorem kw_step_nonparam (co : Code) (total : Nat) (f : Frame) (kv : Name × Val)
    (hl : total ≤ co.varnames.length) (h : kv.1 ∉ co.varnames.take total) :
    kwStep co total f kv =
      match f.kwdict with
      | none => .error .type
      | some d => .ok { f with kwdict := some (dictSet d kv.1 kv.2) } :=
  kwStep_nonparam co total f kv hl h

/-- **kw_matches_params_only.**  For every well-formed signature, EVERY tail of further names in
`co_varnames` (the `*`/`**` names are already part of `s.code.varnames`; `tail` = the other locals,
arbitrary), every call: the outcome is the one the reference defines from the PARAMETER names alone
(`specBind` never sees `tail`), and a keyword `n` that is not a parameter – even when it is spelled
like the `*args`/`**kwargs` name or like a local in `tail` – is handled exactly like a fresh name:
without `**kwargs` the call is a TypeError, with `**kwargs` success puts `(n, v)` into the dict, and
the dict is exactly the non-parameter keywords. -/
theorem kw_matches_params_only (s : Sig) (hs : s.WF) (tail : List Name) (args : List Val) (kws : Dict)
    (hk : (kws.map (·.1)).Nodup) (kwdefs : Option Dict) (hkd : KwDefsOK s kwdefs) :
    evalCodeBind (s.codeWith tail) args kws s.defaults kwdefs =
      (match specBind s args kws with
       | none => .error .type
       | some b => .ok { fast := b.params.map some, vararg := b.star, kwdict := b.dstar })
    ∧ ∀ n v, (n, v) ∈ kws → n ∉ s.names →
        (s.dstar = none → evalCodeBind (s.codeWith tail) args kws s.defaults kwdefs = .error .type) ∧
        (∀ f, evalCodeBind (s.codeWith tail) args kws s.defaults kwdefs = .ok f →
          ∃ d, f.kwdict = some d ∧ (n, v) ∈ d ∧ d = kws.filter (fun kv => !s.names.contains kv.1)) := by
  rw [bind_codeWith]
  refine ⟨bind_refines_spec s hs args kws hk kwdefs hkd, ?_⟩
  intro n v hmem hn
  constructor
  · intro hds
    rw [bind_refines_spec s hs args kws hk kwdefs hkd]
    have : specBind s args kws = none := by
      unfold specBind
      have hany : (kws.any (fun kv => !s.names.contains kv.1)) = true :=
        List.any_eq_true.mpr ⟨(n, v), hmem, by simpa using hn⟩
      simp only [hds, hany, Option.isNone_none, and_self, if_true]
      split_ifs <;> rfl
    rw [this]
  · intro f hf
    obtain ⟨_, _, _, _, h5, h6⟩ := args_delivered_in_place s hs args kws hk kwdefs hkd f hf
    obtain ⟨d, hd, hin⟩ := h5 (n, v) hmem hn
    exact ⟨d, hd, hin, h6 d hd⟩

-- non-vacuity: `def f(a, b=51, *s, k, j=61, **d)` whose body has the locals `t`, `u`, called with the
-- keywords `s` (the `*args` name), `d` (the `**kwargs` name), `t` (a local): all three go to `**d`
example :
    evalCodeBind (exSig.codeWith ["t", "u"]) [10] [("k", 20), ("s", 21), ("d", 22), ("t", 23)] exSig.defaults (some [("j", 61)])
      = .ok { fast := [some 10, some 51, some 20, some 61], vararg := some [],
              kwdict := some [("s", 21), ("d", 22), ("t", 23)] } := by decide

-- and without `**kwargs` the keyword `t` is a TypeError although `t` is in `co_varnames`
example :
    evalCodeBind ({ exSig with dstar := none }.codeWith ["t", "u"]) [10] [("k", 20), ("t", 23)] exSig.defaults (some [("j", 61)])
      = .error .type := by decide

-- the layout the compiler produces for `def f(a, *s, **d): u = 1; t = u` is parameters, `s`, `d`, `u`, `t`
example : layoutVarnames { pos := [⟨"a", none⟩], star := some "s", kwonly := [], dstar := some "d" }
    { fastUses := ["u", "u", "t", "a"], cells := [], frees := [], generator := false } = ["a", "s", "d", "u", "t"] := by decide


/-! ### the tie, strengthened: loop bounds and index expressions of the Go source (regenerated)

`Generated.evalCode*` are rewritten from vm/eval.go by `extract/evalfacts` (go/ast) before every
build; the right-hand sides are the bounds the model uses (`Facts.lean`, each next to the model
definition realising it).  These are syntactic pins (tests by `decide` on the regenerated tables),
not semantic theorems: they make "the Go loop still has the bound the model assumes" a named
obligation of every run. -/

/-- every three-clause loop of `EvalCode` has exactly the bounds of the model -/
theorem evalcode_loop_bounds : Generated.evalCodeLoops = modelLoops.map (·.2) := by decide

/-- the keyword search is `for ; j < total_args; j++` over `co.Varnames[j]` – it never walks past the
parameters (what `kw_matches_params_only` / `bind_ignores_locals` rest on) – and `co.Varnames` is
indexed nowhere else in `EvalCode` than there and in the keyword-only default loop (`i < total_args`);
no `range` over `co.Varnames`, the only `range` is the keyword map; no slice expression at all -/
theorem evalcode_keyword_search :
    Generated.evalCodeLoops[2]? = some ("", "j < total_args", "j++") ∧
    Generated.evalCodeIndex.filter (·.1 == "co.Varnames") = [("co.Varnames", "j"), ("co.Varnames", "i")] ∧
    Generated.evalCodeRanges = modelRanges ∧
    Generated.evalCodeSlices = [] := by decide

/-- every index expression on the binder's arrays is the one the model mirrors -/
theorem evalcode_index_exprs : Generated.evalCodeIndex = modelIndex := by decide

/-- `total_args`, `n` and `m` are computed as in the model -/
theorem evalcode_arg_counts : Generated.evalCodeAssigns = modelAssigns := by decide

/-! ### Go callables -/

/-- **native_call_delivery.**  For each of the four Go signatures, reached as a module function,
through an instance or through the class (`T.m(o, …)`), for every instance predicate of the class
and every `(args, kwargs)` handed over by `Vm.Call` (`kwargs = none` is the nil map): the Go function
receives exactly the receiver, positional and keyword arguments Python defines, and arity or keyword
misuse – including a missing or wrongly typed receiver of a call through the class – is a TypeError.
(Full theorem since fix 6784585; before, the route through the class was known finding C04-K01.) -/
theorem native_call_delivery (g : GoSig) (r : Route) (isInst : Val → Bool) (args : List Val) (kwargs : Option Dict) :
    goCall g r isInst args kwargs =
      match specGoCall g r isInst args (kwargs.getD []) with
      | none => .error .type
      | some d => .ok d :=
  native_call_delivery_main g r isInst args kwargs

example :
    goCall .argsKw (.viaInstance 99) (· == 99) [10, 11] (some [("k", 20)])
      = .ok { self := .obj 99, args := [10, 11], kwargs := some [("k", 20)] } := by decide

/-- through the class the first argument becomes the receiver: `T.fa(o, 10)` delivers `self = o`,
`args = (10,)`; `T.fa()` and `T.fa(10)` are TypeErrors (was C04-K01: `self = (*Module)(nil)`,
`args = (o, 10)`, and `list.append(l, 5)` panicked) -/
theorem go_viaClass_receiver :
    goCall .args .viaClass (· == 99) [99, 10] none = .ok { self := .obj 99, args := [10], kwargs := none } ∧
    goCall .args .viaClass (· == 99) [] none = .error .type ∧
    goCall .args .viaClass (· == 99) [10] none = .error .type ∧
    goCall .oneArg .viaClass (· == 99) [99, 10] none = .ok { self := .obj 99, args := [10], kwargs := none } ∧
    goCall .noArgs .viaClass (· == 99) [99] none = .ok { self := .obj 99, args := [], kwargs := none } :=
  ⟨by decide, by decide, by decide, by decide, by decide⟩

/-! ### the Go-callable boundary down to `ParseTupleAndKeywords` (model of py/args.go imported from C10) -/

/-- **native_parse_delivery.**  A Go callable of the keyword-taking signature, reached by any route,
which parses what it receives with `py.ParseTupleAndKeywords(args, kwargs, format, kwlist, results…)`
(model `GPy.C10.parseTupleAndKeywords`): for every Python-level `(args, kwargs)`, format, keyword list
and number of result variables – the dispatch either raises TypeError exactly when the Python call is
ill-formed for the route (missing / wrongly typed receiver), or the Go function receives exactly the
spec's receiver, arguments and keywords, and then the parse fails with TypeError/OverflowError (never
a panic) or every result variable `i` holds positional argument `i` of the call, else the keyword
argument named `kwlist[i]` (`argFor`), converted by its format unit and of the Go type the unit
guarantees; variables with no argument keep their default and are optional. -/
theorem native_parse_delivery (r : Route) (isInst : Val → Bool) (args : List Val) (kwargs : Option Dict)
    (format : List Char) (kwlist : Option (List String)) (nresults : Nat) :
    match goCall .argsKw r isInst args kwargs with
    | .error e => e = .type ∧ specGoCall .argsKw r isInst args (kwargs.getD []) = none
    | .ok d =>
      specGoCall .argsKw r isInst args (kwargs.getD []) = some d ∧
      match C10.parseTupleAndKeywords (parseCall d format kwlist nresults) with
      | .error e => e = .type ∨ e = .overflow
      | .ok rs =>
        rs.length = nresults ∧
        ∀ i, i < nresults →
          match (C10.parseFormat format).ops[i]?, C10.argFor (parseCall d format kwlist nresults) i with
          | some op, some a => ∃ v, rs[i]? = some (some v) ∧ C10.Guaranteed op v ∧ v = C10.stored op a
          | some _, none => rs[i]? = some none ∧ (C10.parseFormat format).min ≤ i
          | none, _ => rs[i]? = some none :=
  native_parse_main r isInst args kwargs format kwlist nresults

/-- which argument `argFor` is: positional `i` of the delivered tuple, else the keyword `kwlist[i]` -/
theorem native_parse_slot (d : Delivered) (format : List Char) (kwlist : Option (List String)) (n i : Nat) :
    C10.argFor (parseCall d format kwlist n) i =
      match d.args[i]? with
      | some a => some (tok a)
      | none => C10.kwArg (parseCall d format kwlist n) i :=
  parseCall_argFor d format kwlist n i

-- `T.m(o, 10, c=12)` with `ParseTupleAndKeywords(args, kwargs, "O|OO", ["a","b","c"], &a, &b, &c)`:
-- a = 10, b keeps its default, c = 12
example :
    goCall .argsKw .viaClass (· == 99) [99, 10] (some [("c", 12)])
      = .ok { self := .obj 99, args := [10], kwargs := some [("c", 12)] } ∧
    C10.parseTupleAndKeywords (parseCall { self := .obj 99, args := [10], kwargs := some [("c", 12)] }
        ['O', '|', 'O', 'O'] (some ["a", "b", "c"]) 3)
      = .ok [some (.int 10), none, some (.int 12)] := ⟨by decide, by decide⟩

end GPy.C04
