/-
C04 property theorems: call arguments bind to parameters exactly as Python's algorithm says.

All theorems quantify over ALL signatures (any number of parameters, any names, any defaults),
ALL effective argument lists and keyword maps (any length), and – where a Go map is iterated –
ALL iteration orders.  `Sig.WF` = the signature is one Python accepts (distinct parameter names,
defaulted positional parameters last); `KwDefsOK` = the function object's `__kwdefaults__` dict is
the one its `def` describes.

Model functions: `evalCodeBind` (vm/eval.go EvalCode), `vmCallSlice`/`kwTupleToDict`/`vmCallArgs`
(Vm.Call), `callHelperArgc`/`callHelperPush` (compile.go callHelper), `compileFuncArgc`
(compileFunc), `goCall` (py/method.go, py/boundmethod.go).
-/
import GPy.C04.Proofs
namespace GPy.C04

/-! ### EvalCode's binder refines the binding relation of the language reference -/

/-- **bind_refines_spec.**  For every well-formed signature, every positional argument list and
every keyword map (distinct keys, visited in any order `kws`): if the reference defines a binding,
`EvalCode` succeeds and every parameter slot, the `*` tuple and the `**` dict hold exactly what the
reference assigns; if the reference defines none, `EvalCode` raises TypeError. -/
theorem bind_refines_spec (s : Sig) (hs : s.WF) (args : List Val) (kws : Dict)
    (hk : (kws.map (·.1)).Nodup) (kwdefs : Option Dict) (hkd : KwDefsOK s kwdefs) :
    evalCodeBind s.code args kws s.defaults kwdefs =
      match specBind s args kws with
      | none => .error .type
      | some b => .ok { fast := b.params.map some, vararg := b.star, kwdict := b.dstar } :=
  bind_main s hs args kws hk kwdefs hkd

/-- success ⇒ each parameter gets exactly the spec's argument -/
theorem bind_success (s : Sig) (hs : s.WF) (args : List Val) (kws : Dict)
    (hk : (kws.map (·.1)).Nodup) (kwdefs : Option Dict) (hkd : KwDefsOK s kwdefs) (f : Frame)
    (h : evalCodeBind s.code args kws s.defaults kwdefs = .ok f) :
    ∃ b, specBind s args kws = some b ∧ f.fast = b.params.map some ∧ f.vararg = b.star ∧ f.kwdict = b.dstar := by
  rw [bind_refines_spec s hs args kws hk kwdefs hkd] at h
  cases hb : specBind s args kws with
  | none => simp [hb] at h
  | some b =>
    simp only [hb, Except.ok.injEq] at h
    exact ⟨b, rfl, by rw [← h], by rw [← h], by rw [← h]⟩

/-- TypeError ⇔ the spec has no binding (and no other error is possible) -/
theorem bind_typeerror_iff (s : Sig) (hs : s.WF) (args : List Val) (kws : Dict)
    (hk : (kws.map (·.1)).Nodup) (kwdefs : Option Dict) (hkd : KwDefsOK s kwdefs) :
    (∃ e, evalCodeBind s.code args kws s.defaults kwdefs = .error e) ↔ specBind s args kws = none := by
  rw [bind_refines_spec s hs args kws hk kwdefs hkd]
  cases specBind s args kws <;> simp

theorem bind_error_is_typeerror (s : Sig) (hs : s.WF) (args : List Val) (kws : Dict)
    (hk : (kws.map (·.1)).Nodup) (kwdefs : Option Dict) (hkd : KwDefsOK s kwdefs) (e : Err)
    (h : evalCodeBind s.code args kws s.defaults kwdefs = .error e) : e = .type := by
  rw [bind_refines_spec s hs args kws hk kwdefs hkd] at h
  cases hb : specBind s args kws <;> simp [hb] at h
  exact h.symm

/-- no parameter is left unbound on success (the callee never sees an UnboundLocalError) -/
theorem bind_total (s : Sig) (hs : s.WF) (args : List Val) (kws : Dict)
    (hk : (kws.map (·.1)).Nodup) (kwdefs : Option Dict) (hkd : KwDefsOK s kwdefs) (f : Frame)
    (h : evalCodeBind s.code args kws s.defaults kwdefs = .ok f) :
    f.fast.length = s.pos.length + s.kwonly.length ∧ ∀ o ∈ f.fast, o ≠ none := by
  rw [evalCodeBind_nf s hs.1 args kws hk kwdefs] at h
  obtain ⟨b, _, hf, _, _⟩ := bind_success s hs args kws hk kwdefs hkd f
    (by rw [evalCodeBind_nf s hs.1 args kws hk kwdefs]; exact h)
  constructor
  · split_ifs at h
    simp only [Except.ok.injEq] at h
    rw [← h]; simp
  · intro o ho; rw [hf] at ho
    obtain ⟨v, _, rfl⟩ := List.mem_map.mp ho
    simp

-- the hypotheses are satisfiable at a non-trivial point: `def f(a, b=51, *s, k, j=61, **d)`
-- called as `f(10, 11, 12, k=20, z=21)`
def exSig : Sig := { pos := [⟨"a", none⟩, ⟨"b", some 51⟩], star := some "s",
                     kwonly := [⟨"k", none⟩, ⟨"j", some 61⟩], dstar := some "d" }
example :
    exSig.WF ∧ KwDefsOK exSig (some [("j", 61)]) ∧
    evalCodeBind exSig.code [10, 11, 12] [("k", 20), ("z", 21)] exSig.defaults (some [("j", 61)])
      = .ok { fast := [some 10, some 11, some 20, some 61], vararg := some [12], kwdict := some [("z", 21)] }
    ∧ specBind exSig [10, 11, 12] [("k", 20), ("z", 21)]
      = some { params := [10, 11, 20, 61], star := some [12], dstar := some [("z", 21)] } := by
  refine ⟨by decide, ?_, by decide, by decide⟩
  intro p hp
  simp [exSig] at hp
  rcases hp with rfl | rfl <;> decide

/-! ### independence of the Go map iteration order -/

/-- **bind_perm.**  `EvalCode` ranges over the Go map `kws` in an arbitrary order; for any two orders
`kws1 ~ kws2` of the same map the outcome is the same: both raise TypeError, or both succeed with
identical parameter slots and `*` tuple and the same `**` dict (as a set of items). -/
theorem bind_perm (s : Sig) (hs : s.WF) (args : List Val) (kws1 kws2 : Dict) (hp : kws1.Perm kws2)
    (hk : (kws1.map (·.1)).Nodup) (kwdefs : Option Dict) (hkd : KwDefsOK s kwdefs) :
    match evalCodeBind s.code args kws1 s.defaults kwdefs, evalCodeBind s.code args kws2 s.defaults kwdefs with
    | .ok f1, .ok f2 => f1.fast = f2.fast ∧ f1.vararg = f2.vararg ∧
        (match f1.kwdict, f2.kwdict with
         | some d1, some d2 => d1.Perm d2 | none, none => True | _, _ => False)
    | .error e1, .error e2 => e1 = .type ∧ e2 = .type
    | _, _ => False := by
  have hk2 : (kws2.map (·.1)).Nodup := (hp.map _).nodup_iff.mp hk
  rw [bind_refines_spec s hs args kws1 hk kwdefs hkd, bind_refines_spec s hs args kws2 hk2 kwdefs hkd]
  have := specBind_perm s args hp hk
  cases h1 : specBind s args kws1 <;> cases h2 : specBind s args kws2 <;> simp only [h1, h2] at this ⊢
  · exact ⟨trivial, trivial⟩
  · obtain ⟨a, b, c⟩ := this
    exact ⟨by rw [a], b, c⟩

example : ([("k", 1), ("z", 2)] : Dict).Perm [("z", 2), ("k", 1)] := by decide

/-! ### no argument is lost or delivered twice -/

/-- **no_arg_lost_or_duplicated_partial.**  On success: positional argument `i` is in parameter `i`
when there is such a parameter, otherwise at index `i - #positional parameters` of the `*` tuple,
which has no other elements; every keyword argument whose name is a parameter is in that parameter,
every other keyword argument is an item of the `**` dict, which has no other items.
(Missing for the full multiset equation of DESIGN.md: the count of the *defaults* delivered –
here only shown implicitly through `bind_refines_spec`: an unfilled slot holds its own default.) -/
theorem no_arg_lost_or_duplicated_partial (s : Sig) (hs : s.WF) (args : List Val) (kws : Dict)
    (hk : (kws.map (·.1)).Nodup) (kwdefs : Option Dict) (hkd : KwDefsOK s kwdefs) (f : Frame)
    (h : evalCodeBind s.code args kws s.defaults kwdefs = .ok f) :
    (∀ i (hi : i < args.length), i < s.pos.length → f.fast[i]? = some (some args[i])) ∧
    (args.length > s.pos.length → f.vararg = some (args.drop s.pos.length)) ∧
    (∀ l, f.vararg = some l → l = args.drop s.pos.length) ∧
    (∀ kv ∈ kws, kv.1 ∈ s.names → f.fast[s.names.idxOf kv.1]? = some (some kv.2)) ∧
    (∀ kv ∈ kws, kv.1 ∉ s.names → ∃ d, f.kwdict = some d ∧ kv ∈ d) ∧
    (∀ d, f.kwdict = some d → d = kws.filter (fun kv => !s.names.contains kv.1)) := by
  have hnf := evalCodeBind_nf s hs.1 args kws hk kwdefs
  rw [hnf] at h
  have hok := allOk_iff s hs.1 args kws
  split_ifs at h with hall h2 hm1 hm2
  simp only [Except.ok.injEq] at h
  obtain ⟨h3, h4⟩ := hok.mp hall
  have hfast : ∀ i, i < s.pos.length + s.kwonly.length → f.fast[i]? = some (SV s args kws i) := by
    intro i hi
    rw [← h]
    simp only [List.getElem?_map, List.getElem?_range hi, Option.map_some]
    rw [G3_eq_SV s hs args kws kwdefs hkd i hi]
  have hvar : f.vararg = if s.star.isSome then some (args.drop s.pos.length) else none := by
    rw [← h]; simp only [F0]
    by_cases hN : args.length > s.pos.length
    · simp [hN]
    · simp only [hN, if_false]
      rw [List.drop_eq_nil_of_le (Nat.le_refl _), List.drop_eq_nil_of_le (by omega)]
  have hdict : f.kwdict = if s.dstar.isSome then some (kws.filter (fun kv => !s.names.contains kv.1)) else none := by
    rw [← h]; simp only [F0]
    cases hds : s.dstar with
    | none => simp
    | some _ =>
      simp only [Option.isSome_some, if_true, Option.map_some, List.nil_append]
      congr 1
      unfold kwExtra
      apply List.filter_congr
      intro kv _
      rw [kwIdx_code, ← names_length]
      by_cases hmem : kv.1 ∈ s.names
      · simp [hmem, List.idxOf_lt_length_iff.mpr hmem]
      · have : ¬ (s.names.idxOf kv.1 < s.names.length) := fun h => hmem (List.idxOf_lt_length_iff.mp h)
        simp [hmem, this]
  refine ⟨?_, ?_, ?_, ?_, ?_, ?_⟩
  · intro i hi hP
    rw [hfast i (by omega)]
    simp [SV, specSlot, hP, hi]
  · intro hN
    have : s.star.isSome = true := by
      cases hst : s.star with
      | some _ => rfl
      | none => exact absurd ⟨hN, by simp [hst]⟩ h2
    rw [hvar, if_pos this]
  · intro l hl
    rw [hvar] at hl
    split_ifs at hl
    simp only [Option.some.injEq] at hl; exact hl.symm
  · intro kv hkv hmem
    have hlt : s.names.idxOf kv.1 < s.names.length := List.idxOf_lt_length_iff.mpr hmem
    have hT : s.names.idxOf kv.1 < s.pos.length + s.kwonly.length := by rw [← names_length]; exact hlt
    rw [hfast _ hT]
    have hge := ((kwOk_F0 s args kv).mp (List.all_eq_true.mp hall kv hkv)).1 hmem
    have hnm : (s.params.getD (s.names.idxOf kv.1) ⟨"", none⟩).name = kv.1 := by
      rw [← names_getD s _ hT, List.getD_eq_getElem?_getD, List.getElem?_eq_getElem hlt]
      simp [List.getElem_idxOf hlt]
    have hcond : ¬ (s.names.idxOf kv.1 < s.pos.length ∧ s.names.idxOf kv.1 < args.length) := by
      split_ifs at hge <;> omega
    have hlk : kws.lookup kv.1 = some kv.2 := (lookup_eq_some_iff kws hk kv.1 kv.2).mpr hkv
    simp only [SV, specSlot, hcond, if_false, hnm, hlk]
  · intro kv hkv hmem
    have hds : s.dstar.isSome = true := by
      cases hd : s.dstar with
      | some _ => rfl
      | none =>
        exact absurd ⟨(E3_iff s kws).mpr ⟨kv, hkv, hmem⟩, by simp [hd]⟩ h3
    refine ⟨_, by rw [hdict, if_pos hds], ?_⟩
    exact List.mem_filter.mpr ⟨hkv, by simpa using hmem⟩
  · intro d hd
    rw [hdict] at hd
    split_ifs at hd
    simp only [Option.some.injEq] at hd; exact hd.symm

/-! ### call-site protocol: what `callHelper` packs is what `Vm.Call` unpacks -/

/-- **call_protocol_roundtrip (operand).**  For all counts below 256 the operand
`args + kwargs<<8` decodes (`argc & 0xFF`, `(argc >> 8) & 0xFF`) to the counts. -/
theorem call_operand_roundtrip (a k : Nat) (ha : a < 256) (hk : k < 256) :
    (callHelperArgc 0 a k) &&& 0xFF = a ∧ ((callHelperArgc 0 a k) >>> 8) &&& 0xFF = k :=
  argc_decode a k ha hk

/-- **call_protocol_roundtrip (stack).**  For every stack `rest`, callee `fn`, positional values and
keyword pairs (fewer than 256 each): slicing the stack `callHelper` built with the operand it
emitted yields exactly the callee, the positional values and the keyword pairs, and leaves `rest`. -/
theorem call_protocol_roundtrip (rest : List Item) (fn : Item) (args : List Val) (kws : Dict)
    (ha : args.length < 256) (hk : kws.length < 256) :
    vmCallSlice (callHelperArgc 0 args.length kws.length) (rest ++ [fn] ++ callHelperPush args kws)
      = some { rest := rest, fn := fn, args := args.map Item.val,
               kwargsTuple := kws.flatMap (fun kv => [Item.str kv.1, Item.val kv.2]) }
    ∧ itemsToVals (args.map Item.val) = some args
    ∧ kwTupleToDict (kws.flatMap (fun kv => [Item.str kv.1, Item.val kv.2])) []
        = if (kws.map (·.1)).Nodup then .ok kws else .error .type := by
  refine ⟨slice_roundtrip rest fn args kws ha hk, itemsToVals_map args, ?_⟩
  rw [kwTuple_roundtrip kws []]
  simp [dictHas]

/-- the guard `callHelper` now has is necessary: without it 256 positionals and no keyword encode
to the same operand as no positional and one keyword (this was the defect fixed by 91feeff) -/
theorem call_operand_256_witness : callHelperArgc 0 256 0 = callHelperArgc 0 0 1 := by decide

example : callHelperTooMany 0 256 0 = true ∧ callHelperTooMany 0 255 255 = false := by decide

/-- **make_function_roundtrip (operand).**  `posdefaults + kwdefaults<<8 + num_annotations<<16`
decodes to the three counts (`& 0xff`, `>>8 & 0xff`, `>>16 & 0x7fff`) for all counts in range. -/
theorem make_function_operand_roundtrip (d k n : Nat) (hd : d < 256) (hk : k < 256) (hn : n < 32768) :
    let argc := (d + (k <<< 8) + (n <<< 16)) % 2 ^ 32
    argc &&& 0xff = d ∧ (argc >>> 8) &&& 0xff = k ∧ (argc >>> 16) &&& 0x7fff = n :=
  mf_decode d k n hd hk hn

/-- test (not a theorem about all inputs): the stack `compileFunc` builds for
`def f(a, b=51, *s, k, j=61, **d)` is unpacked by `_make_function` into the right function object -/
example :
    makeFunction (compileFuncArgc exSig []) false ([Item.val 7] ++ compileFuncPush exSig [] false)
      = some ({ defaults := [51], kwdefaults := some [("j", 61)], annotations := none, closure := false }, [Item.val 7]) := by
  decide

/-! ### `Vm.Call`'s merge of explicit keywords and `**mapping` -/

/-- the explicit keyword pairs are turned into a dict iff no name repeats (else TypeError) – for
every list of pairs -/
theorem call_keywords_dict (kws : Dict) :
    kwTupleToDict (kws.flatMap (fun kv => [Item.str kv.1, Item.val kv.2])) []
      = if (kws.map (·.1)).Nodup then .ok kws else .error .type := by
  rw [kwTuple_roundtrip kws []]; simp [dictHas]

/-- **call_starkw_merge.**  Merging a `**mapping` (visited in any order `d`) into the explicit keywords
succeeds iff no key of the mapping is already present (its own keys are distinct, being a map) and
then yields exactly the union; otherwise TypeError – for all dicts of any size. -/
theorem call_starkw_merge (kwargs d : Dict) :
    mergeStarKw kwargs d =
      if (∀ kv ∈ d, dictHas kwargs kv.1 = false) ∧ (d.map (·.1)).Nodup then .ok (kwargs ++ d) else .error .type :=
  mergeStarKw_closed d kwargs

/-- the keys of explicit keywords followed by a `**mapping` are distinct iff both parts are and no key
of the mapping occurs among the explicit ones: the reference's "a keyword may occur only once" is what
`kwTupleToDict` + `mergeStarKw` test -/
theorem call_keys_distinct_iff (kws d : Dict) :
    ((kws ++ d).map (·.1)).Nodup ↔
      (kws.map (·.1)).Nodup ∧ (∀ kv ∈ d, dictHas kws kv.1 = false) ∧ (d.map (·.1)).Nodup :=
  nodup_append_keys kws d

/-! ### Go callables -/

/-- **native_call_delivery_partial.**  For each of the four Go signatures, reached as a module
function or through an instance, and every `(args, kwargs)` handed over by `Vm.Call` (`kwargs = none`
is the nil map): the Go function receives exactly the receiver, positional and keyword arguments
Python defines, and arity or keyword misuse is a TypeError.  Excluded: a method reached through its
class (`kfViaClass`, known finding C04-K01). -/
theorem native_call_delivery_partial (g : GoSig) (r : Route) (args : List Val) (kwargs : Option Dict)
    (hk : kfViaClass r = false) :
    goCall g r args kwargs =
      match specGoCall g r args (kwargs.getD []) with
      | none => .error .type
      | some d => .ok d := by
  cases r with
  | viaClass => simp [kfViaClass] at hk
  | moduleFn =>
    cases g <;> cases kwargs with
    | none => simp [goCall, methodMCall, methodCall, specGoCall] <;> (try split_ifs) <;> simp_all
    | some kw =>
      cases kw <;> simp [goCall, methodMCall, methodCallWithKeywords, methodCall, specGoCall] <;> (try split_ifs) <;> simp_all
  | viaInstance o =>
    cases g <;> cases kwargs with
    | none => simp [goCall, boundMethodCall, methodCall, specGoCall] <;> (try split_ifs) <;> simp_all
    | some kw =>
      cases kw <;> simp [goCall, boundMethodCall, methodCallWithKeywords, methodCall, specGoCall] <;> (try split_ifs) <;> simp_all

example : kfViaClass (.viaInstance 99) = false ∧
    goCall .argsKw (.viaInstance 99) [10, 11] (some [("k", 20)])
      = .ok { self := .obj 99, args := [10, 11], kwargs := some [("k", 20)] } := ⟨by decide, by decide⟩

/-- C04-K01: reached through the class, the Go function does not get the first argument as receiver:
`T.fa(o)` delivers `self = (*Module)(nil)`, `args = (o,)` where Python defines `self = o`, `args = ()` -/
theorem go_viaClass_witness :
    goCall .args .viaClass [99] none = .ok { self := .module, args := [99], kwargs := none } ∧
    specGoCall .args .viaClass [99] [] = some { self := .obj 99, args := [], kwargs := none } :=
  ⟨by decide, by decide⟩

end GPy.C04
