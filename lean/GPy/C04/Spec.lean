/-
C04 specification: Python's argument binding (Language Reference, 6.3.4 "Calls"), written
declaratively – which conditions forbid a binding, and which argument every parameter receives –
not as the slot-filling loop of the implementation.

  * effective positional arguments = explicit positionals followed by the items of `*expr`;
    effective keyword arguments = explicit keywords plus the items of `**expr`;
    `*expr` must be iterable, `**expr` a mapping, a keyword may occur only once        (`specCallArgs`)
  * no binding when: more positionals than positional parameters and no `*name`; a keyword that
    names no parameter and no `**name`; a parameter given both positionally and by keyword;
    a parameter left without argument and without default                              (`specBind`)
  * otherwise positional parameter i gets positional argument i if there is one, else the keyword
    argument with its name, else its default; a keyword-only parameter gets the keyword argument
    with its name, else its default; `*name` gets the surplus positionals, `**name` the surplus
    keywords.

Core Lean only.
-/
import GPy.C04.Model
namespace GPy.C04

/-- what the callee's parameters hold after a successful binding -/
structure Binding where
  params : List Val           -- positional parameters then keyword-only parameters, in order
  star : Option (List Val)    -- `*name`, if declared
  dstar : Option Dict         -- `**name`, if declared (a mapping: order is immaterial)
  deriving Repr, DecidableEq

def Sig.params (s : Sig) : List Param := s.pos ++ s.kwonly
def Sig.names (s : Sig) : List Name := s.params.map (·.name)

/-- defaulted positional parameters form a suffix ("non-default argument follows default argument"
is a SyntaxError) -/
def defaultsSuffix : List Param → Bool
  | [] => true
  | p :: r => (p.dflt.isNone || r.all (·.dflt.isSome)) && defaultsSuffix r

/-- a signature Python accepts: distinct parameter names, defaulted positionals last -/
def Sig.WF (s : Sig) : Prop := s.names.Nodup ∧ defaultsSuffix s.pos = true

instance (s : Sig) : Decidable s.WF := by unfold Sig.WF; exact inferInstance

/-- the argument parameter number `i` (named `p`) receives, if any -/
def specSlot (npos : Nat) (args : List Val) (kws : Dict) (i : Nat) (p : Param) : Option Val :=
  if i < npos ∧ i < args.length then args[i]?
  else match kws.lookup p.name with
    | some v => some v
    | none => p.dflt

/-- Python's binding of effective positional arguments `args` and effective keyword arguments `kws`
(distinct keys) to the parameters of `s`; `none` = TypeError -/
def specBind (s : Sig) (args : List Val) (kws : Dict) : Option Binding :=
  let npos := s.pos.length
  -- surplus positional arguments
  if args.length > npos ∧ s.star.isNone then none
  -- unexpected keyword argument
  else if kws.any (fun kv => !s.names.contains kv.1) ∧ s.dstar.isNone then none
  -- multiple values for a parameter
  else if (s.pos.take args.length).any (fun p => (kws.lookup p.name).isSome) then none
  else
    let vals := s.params.mapIdx (fun i p => specSlot npos args kws i p)
    -- missing argument
    if vals.any (·.isNone) then none
    else some { params := vals.filterMap id,
                star := if s.star.isSome then some (args.drop npos) else none,
                dstar := if s.dstar.isSome then some (kws.filter (fun kv => !s.names.contains kv.1)) else none }

/-- the defaults a successful binding delivers: those of the parameters that receive neither a
positional nor a keyword argument -/
def specUsedDefaults (s : Sig) (args : List Val) (kws : Dict) : List Val :=
  ((s.params.drop (min s.pos.length args.length)).filter (fun p => (kws.lookup p.name).isNone)).filterMap (·.dflt)

/-- effective arguments of a call expression; `none` = TypeError -/
def specCallArgs (c : CallExpr) : Option (List Val × Dict) :=
  match c.star, c.dstar with
  | some .notIterable, _ => none
  | _, some .notDict => none
  | st, ds =>
    let l := match st with | some (.seq l) => l | _ => []
    let d := match ds with | some (.dict d) => d | _ => []
    let kws := c.kws ++ d
    if (kws.map (·.1)).Nodup then some (c.args ++ l, kws) else none

/-- the whole call -/
def specCall (s : Sig) (c : CallExpr) : Option Binding :=
  match specCallArgs c with
  | none => none
  | some (args, kws) => specBind s args kws


/-! ## Round 3: the local namespace of the callee at entry

What Python defines for `locals()` on entry of the callee, written without any reference to
`co_varnames`, slots or cells: every parameter is bound to the argument the binding rules assign,
`*name` / `**name` to the surplus, every free variable to what the enclosing scope holds, and EVERY
OTHER local variable of the function is unbound – whatever the call's keywords are called.  A
keyword can only ever name a parameter (`s.names`); a keyword spelled like any other local variable,
like `*name`/`**name`, like a global or a free variable is an ordinary surplus keyword. -/

/-- the function as Python sees it: signature, the other local variables of its body (cell or not),
its free variables with the content of the enclosing scope's cells, generator or not -/
structure Callee where
  sig : Sig
  others : List Name
  free : List (Name × Option Obj)
  generator : Bool
  deriving Repr

/-- name ↦ bound object / unbound, for every local and free variable -/
abbrev Namespace := List (Name × Option Obj)

def specEntry (c : Callee) (args : List Val) (kws : Dict) : Option Namespace :=
  match specBind c.sig args kws with
  | none => none
  | some b =>
    some ((c.sig.names.zip b.params).map (fun (n, v) => (n, some (Obj.val v)))
      ++ (match c.sig.star, b.star with | some n, some l => [(n, some (Obj.tuple l))] | _, _ => [])
      ++ (match c.sig.dstar, b.dstar with | some n, some d => [(n, some (Obj.dict d))] | _, _ => [])
      ++ c.others.map (fun n => (n, none))
      ++ c.free)

/-- the whole call: a bound method passes its receiver as first positional argument; a call from Go
(`py.Call`) has the effective arguments already -/
def specEnter (c : Callee) (r : Reach) (e : CallExpr) : Option Namespace :=
  match r with
  | .pyCall => specEntry c e.args e.kws
  | .direct => match specCallArgs e with
    | none => none
    | some (a, k) => specEntry c a k
  | .bound self => match specCallArgs e with
    | none => none
    | some (a, k) => specEntry c (self :: a) k

/-! ## Go callables -/

/-- What a Go callable of signature `g`, reached by route `r`, must receive for the Python call with
effective `(args, kws)`; `none` = TypeError.  Reached through the class, the first positional
argument is the receiver and must be an instance of the class (CPython's method descriptors:
"descriptor 'append' of 'list' object needs an argument" / "requires a 'list' object but received a
'int'"). -/
def specGoCall (g : GoSig) (r : Route) (isInst : Val → Bool) (args : List Val) (kws : Dict) : Option Delivered :=
  let recv : Option (Recv × List Val) :=
    match r with
    | .moduleFn => some (.module, args)
    | .viaInstance o => some (.obj o, args)
    | .viaClass => match args with
      | [] => none
      | o :: rest => if isInst o then some (.obj o, rest) else none
  match recv with
  | none => none
  | some (self, args) =>
    match g with
    | .args => if kws = [] then some { self, args, kwargs := none } else none
    | .argsKw => some { self, args, kwargs := some kws }
    | .noArgs => if kws = [] ∧ args = [] then some { self, args := [], kwargs := none } else none
    | .oneArg => if kws = [] ∧ args.length = 1 then some { self, args, kwargs := none } else none

end GPy.C04
