/-
C05, generator bodies (core Lean only).

A small statement language for generator bodies – yields inside loops, try/finally and
try/except, with break / continue / return / raise crossing them – together with its
REFERENCE semantics as a coroutine in continuation-passing style, written from Python's
definition of the statements (no program counter, no block stack: what is "preserved across a
suspension" is simply the continuation).  `Frame.lean` is the other side: the same bodies compiled
to bytecode and run on a transliteration of `vm.RunFrame` with its value stack and block stack.
-/
import GPy.C05.Spec
namespace GPy.C05

/-- generator bodies.  `LOG(v)` appends to a list the test observes. -/
inductive S
  | log (k : Nat)                          -- LOG(k)
  | yld (k : Nat)                          -- x = yield k ; LOG(x)        (the sent value is observed)
  | seq (a b : S)
  | loop (n : Nat) (body : S)              -- for i in range(n): body
  | tryFin (body fin : S)                  -- try: body finally: fin
  | tryExc (body : S) (e : Exc) (h : S)    -- try: body except E: h
  | brk | cont
  | ret (k : Nat)                          -- return k
  | raise (e : Exc)                        -- raise E
deriving DecidableEq, Repr, Inhabited

/-- how a statement ends -/
inductive Sig | normal | brk | cont | ret (v : Val) | raise (e : NextErr)
deriving DecidableEq, Repr, Inhabited

/-- a suspended computation: what the body does until it next yields or ends -/
inductive Co
  | done (s : Sig)
  | log (v : Val) (k : Co)
  | yield (v : Val) (k : Entry → Co)

/-- `except E` matches the class itself and its subclasses (KeyError, IndexError ⊂ LookupError) -/
def Exc.sub (a b : Exc) : Bool := a == b || (b == .lookup && (a == .key || a == .index))

def NextErr.caughtBy : NextErr → Exc → Bool
  | .other a, b => a.sub b
  | _, _ => false

mutual
/-- meaning of a statement, given what happens after it (`κ`) -/
def den : S → (Sig → Co) → Co
  | .log k, κ => .log (.int k) (κ .normal)
  | .yld k, κ => .yield (.int k) (fun ent =>
      match ent with
      | .throw e => κ (.raise e)                 -- generator.throw: the yield expression raises
      | ent => .log ent.sent (κ .normal))        -- the yield expression evaluates to the sent value (None for next)
  | .seq a b, κ => den a (fun s => match s with | .normal => den b κ | s => κ s)
  | .loop n body, κ => denLoop n body κ
  | .tryFin body fin, κ =>
      -- the finally clause runs however the body ends; its own way of ending wins unless it ends normally
      den body (fun s => den fin (fun s' => match s' with | .normal => κ s | s' => κ s'))
  | .tryExc body e h, κ =>
      den body (fun s => match s with
        | .raise x => if x.caughtBy e then den h κ else κ s
        | s => κ s)
  | .brk, κ => κ .brk
  | .cont, κ => κ .cont
  | .ret k, κ => κ (.ret (.int k))
  | .raise e, κ => κ (.raise (.other e))
/-- `for i in range(n): body` -/
def denLoop : Nat → S → (Sig → Co) → Co
  | 0, _, κ => κ .normal
  | n + 1, body, κ => den body (fun s => match s with
      | .normal => denLoop n body κ
      | .cont => denLoop n body κ
      | .brk => κ .normal
      | s => κ s)
end

/-- state of the coroutine of a body: the continuation it is suspended in (`none` once it has ended)
and the log so far -/
structure CoSt where
  k : Option (Entry → Co)
  log : List Val

/-- run until the next yield or the end -/
def runCo : Co → List Val → RunOut × CoSt
  | .done .normal, lg => (.ret .none, ⟨none, lg⟩)
  | .done (.ret v), lg => (.ret v, ⟨none, lg⟩)
  | .done (.raise e), lg => (.raise e, ⟨none, lg⟩)
  | .done _, lg => (.raise (.other .runtime), ⟨none, lg⟩)    -- break/continue outside a loop: not a valid body
  | .log v k, lg => runCo k (lg ++ [v])
  | .yield v k, lg => (.yield v, ⟨some k, lg⟩)

/-- the coroutine a body denotes, in the form the reference semantics of the generator object takes -/
def coRun (ent : Entry) (st : CoSt) : RunOut × CoSt :=
  match st.k with
  | none => (.ret .none, st)
  | some k => runCo (k ent) st.log

def coInit (body : S) : CoSt := ⟨some (fun _ => den body .done), []⟩

/-! ### validity (what the Python compiler accepts) and rendering -/

/-- `inLoop`: a loop encloses the statement; `contOk`: no `finally` clause between the statement and that loop
("'continue' not supported inside 'finally' clause") -/
def S.valid : S → (inLoop contOk : Bool) → Bool
  | .log _, _, _ => true
  | .yld _, _, _ => true
  | .seq a b, l, c => a.valid l c && b.valid l c
  | .loop _ b, _, _ => b.valid true true
  | .tryFin b f, l, c => b.valid l c && f.valid l false
  | .tryExc b _ h, l, c => b.valid l c && h.valid l c
  | .brk, l, _ => l
  | .cont, l, c => l && c
  | .ret _, _, _ => true
  | .raise _, _, _ => true

def S.size : S → Nat
  | .seq a b => a.size + b.size
  | .loop _ b => 1 + b.size
  | .tryFin b f => 1 + b.size + f.size
  | .tryExc b _ h => 1 + b.size + h.size
  | _ => 1

def S.hasYield : S → Bool
  | .yld _ => true
  | .seq a b => a.hasYield || b.hasYield
  | .loop _ b => b.hasYield
  | .tryFin b f => b.hasYield || f.hasYield
  | .tryExc b _ h => b.hasYield || h.hasYield
  | _ => false

def excPy : Exc → String
  | .value => "ValueError" | .key => "KeyError" | .type => "TypeError" | .zeroDiv => "ZeroDivisionError"
  | .index => "IndexError" | .runtime => "RuntimeError" | .attr => "AttributeError" | .lookup => "LookupError"
  | .genExit => "GeneratorExit"

/-- Python source lines of a statement at indentation `ind`; `d` numbers the loop variables -/
def S.render : S → (ind : String) → (d : Nat) → List String
  | .log k, ind, _ => [s!"{ind}LG.append({k})"]
  | .yld k, ind, _ => [s!"{ind}x = yield {k}", s!"{ind}LG.append(x)"]
  | .seq a b, ind, d => a.render ind d ++ b.render ind d
  | .loop n b, ind, d => s!"{ind}for i{d} in range({n}):" :: b.render (ind ++ " ") (d + 1)
  | .tryFin b f, ind, d => (s!"{ind}try:" :: b.render (ind ++ " ") d) ++ (s!"{ind}finally:" :: f.render (ind ++ " ") d)
  | .tryExc b e h, ind, d => (s!"{ind}try:" :: b.render (ind ++ " ") d) ++ (s!"{ind}except {excPy e}:" :: h.render (ind ++ " ") d)
  | .brk, ind, _ => [s!"{ind}break"]
  | .cont, ind, _ => [s!"{ind}continue"]
  | .ret k, ind, _ => [s!"{ind}return {k}"]
  | .raise e, ind, _ => [s!"{ind}raise {excPy e}"]

/-- `def B(LG): <body>` with `\n` written as the two characters backslash-n (one input line).
A body without a yield gets an unreachable one so that `B` is a generator function. -/
def S.source (b : S) : String :=
  let tail := if b.hasYield then [] else [" if 0:", "  yield 0"]
  "\\n".intercalate ("def B(LG):" :: (b.render " " 0 ++ tail))

end GPy.C05
